# Registry of the property checks. One entry per property served by ./check.
#   module    Lean module holding the property theorems (one file per property)
#   slices    [(differential slice name, ops in quick tier, ops in thorough tier)]
#   monitor   (n quick, n thorough) for the Go monitor of the same id, or None
#   level     evidence level
PROPS = {
    "C24": {
        "module": "PsVerif.Props.C24",
        "slices": [("route", 4000, 200000)],
        "monitor": (3000, 150000),
        "technique": "Lean 4 theorems over a hand-written model of both route builders; differential correspondence against the real builders; Go monitor",
        "text": "For every invoice, channel id and limit: a CLN route is exactly one hop to the payee over the x-spelled channel for the invoice amount; an LND request is refused unless the destination is the channel peer and otherwise pays that payment request with one part over that channel. Proved for the model; the model is compared with the real builders on boundary-biased random inputs each run.",
        "note": "Trusted: Lean kernel; the hand-written model of buildDirectClaimRoute/buildDirectClaimPaymentRequest is tied to the code only by differential testing; the RPC calls that carry the built route (SendPay/SendPaymentV2) and the back-ends' honouring of it are not modelled.",
        "design_ref": "DESIGN.md §4 C24",
    },
}

# reasons for properties not (yet) claimed; anything absent gets a generic "not built yet"
NOT_CLAIMED = {}
