# Registry of the property checks. One entry per property served by ./check.
#   module    Lean module holding the property theorems (one file per property)
#   slices    [(differential slice name, ops in quick tier, ops in thorough tier)]
#   monitor   (n quick, n thorough) for the Go monitor of the same id, or None
#   level     evidence level
PROPS = {
    "C04": {
        "module": "PsVerif.Props.C04",
        "slices": [("timelock", 3000, 200000), ("route", 2000, 100000), ("paygate", 500, 20000), ("payloop", 200, 6000)],
        "monitor": (400, 12000),
        "technique": "Lean 4 theorems over the generated timelock policy table and hand-written models of the window/invoice/route guards (uint32/uint64 arithmetic explicit); differential correspondence on the real functions and on the real taker machines driven to the pay decision; Go monitor",
        "text": "Proved for all uint32 anchors/tips, all int64 CLTVs: a pay-loop iteration calls the payment only with a stored anchor and anchor <= tip < anchor+60; an accepted invoice has 0 <= final CLTV <= 29 and the exact amount; with limit 32 the CLN hop delay is final+1 <= 32 and the LND request needs final+3 <= 32 and carries CltvLimit 33, MaxParts 1; (conf+10080)-tip > 10021 for conf > anchor, so the HTLC resolves before the refund under the stated block-rate assumptions; the legacy policy never allows a new payment. Constants are regenerated from the running code (every chain x every uint8 version).",
        "note": "Trusted: Lean kernel; models of checkPaymentWindow/validateClaimInvoice/route builders tied by differential testing; the placement of the guards inside the actions is tied by the paygate slice (real machines) rather than proved; TOCTOU between reading the tip and the back-end adding the HTLC is outside the model; block-rate assumptions as stated in the property.",
        "design_ref": "DESIGN.md §4 C04",
    },
    "C05": {
        "module": "PsVerif.Props.C05",
        "slices": [("paygate", 500, 20000), ("payloop", 200, 6000)],
        "monitor": (400, 12000),
        "technique": "Lean 4 theorems over models of the Bitcoin pay guards with uint32 wrap; counter-example theorems for the full statement; differential paygate slice on the real taker machine; Go monitor replaying the boundary witnesses",
        "text": "PARTIAL: proved what the two guards give (final CLTV <= 504, exact amount, start != 0, pay height <= start+504 when start+504 does not wrap) and the property under the extra hypothesis start+504+final+pad < conf+1008. The full statement is false on this tree: three boundary findings (CLN with final 504; LND padding even for the honest final 503), each proved as a Lean counter-example and replayed on the real machine; recorded as known findings because the constants are protocol parameters.",
        "note": "Trusted: Lean kernel; model of the guards tied by the paygate slice; back-end deltas final+1 (CLN, from buildDirectClaimRoute) and final+BlockPadding (LND) as modelled in C04/C24; the confirmation height is taken as the earliest the chain allows.",
        "design_ref": "DESIGN.md §4 C05",
    },
    "C06": {
        "module": "PsVerif.Props.C06",
        "slices": [("absC06", 300, 6000)],
        "monitor": (400, 8000),
        "technique": "Lean 4: kernel-certified inductive reachable set (decide +kernel on a closedness certificate) of an abstract engine interpreting the GENERATED state tables, lifted to all histories by induction; trace-inclusion correspondence against the real state machines under crash/fault scenarios; Go monitor on the payment table",
        "text": "PARTIAL proof: for both taker roles and every history (any events in any order, crashes at persisted points, restarts, pending HTLCs resolving) in which every pay error is definitive and no crash falls between the start of a payment and the next persist, the key is never revealed while the claim payment succeeded or is outstanding, and once paid the swap only tries to claim. The full statement is false on this tree (two design-level known findings, each with a Lean witness history and a replay on the real code); two further violations were repaired by fix: commits. The tables are regenerated from the running code each run, so a table edit re-runs the kernel check.",
        "note": "Trusted: Lean kernel (decide +kernel, axioms propext only); hand-written action summaries (Model/AbsC06.lean) tied by trace inclusion on generated scenarios only; ValidateTx deterministic; simulated Lightning back-end (union of LND-like refusal and CLN-like idempotent repay); bbolt atomic.",
        "design_ref": "DESIGN.md §4 C06",
    },
    "C11": {
        "module": "PsVerif.Props.C11",
        "slices": [("admit", 800, 40000)],
        "monitor": (600, 30000),
        "technique": "Lean 4 theorems over an ordered refusal-list model of the whole admission path (service pre-checks, message validation incl. the scid/hex/network formats, lockSwap, CheckRequestWrapperAction, balance check), uint64 wrap explicit; differential correspondence against the real SwapService with the real premium.Setting; Go monitor on unwrapped amounts",
        "text": "Proved: an agreement is produced only if swaps are enabled, the request is well-formed, the chain is enabled and asset/network match, version = 7 (generated), amount*1000 >= minimum and fits the channel (spendable+probe for swap-in, receivable for swap-out), the peer is allowlisted or all are accepted, not suspicious, the channel is free, the premium is the node's own rate and <= the limit, and (swap-out) balance >= amount+fee; otherwise exactly the first failing check's cancel. The amount conditions are modulo 2^64 as in the code; equal to the real amount below 2^64/1000 (proved); two latent wrap findings outside.",
        "note": "Trusted: Lean kernel; the order and content of the checks are tied by the admit slice (valid base case with up to three perturbed dimensions); cancel reasons are compared by class; 'peer not allowed' and 'peer suspicious' send the same text and are one class.",
        "design_ref": "DESIGN.md §4 C11",
    },
    "C21": {
        "module": "PsVerif.Props.C21",
        "slices": [("wire", 3000, 200000)],
        "monitor": (3000, 100000),
        "technique": "Lean 4 theorems (decide over the generated type table; strconv hex model; guard order of OnMessageReceived); differential correspondence on type strings, hex printing and the real handler's guard outcomes; Go monitor for JSON round-trip of all seven message structs and junk handling",
        "text": "Proved: the nine generated numbers are 42069+2k, odd, distinct; every swap message struct's MessageType() is its protocol number; its hex string parses back to it (FormatInt/ParseInt model) and only strings denoting one of the nine are classified as peerswap; payloads over 102400 bytes, unparsable or foreign type strings and the two poll types never reach decoding. The JSON content round-trip and 'junk changes no swap / no panic' are checked by the monitor on the real code, not proved (the generic codec theorem is planned with C14).",
        "note": "Trusted: Lean kernel; model of strconv.ParseInt/FormatInt base 16 tied by the wire slice; encoding/json itself; 'malformed' is judged as: payload not a JSON object of the message's schema or carrying an undecodable swap id.",
        "design_ref": "DESIGN.md §4 C21",
    },
    "C24": {
        "module": "PsVerif.Props.C24",
        "slices": [("route", 4000, 200000)],
        "monitor": (3000, 150000),
        "technique": "Lean 4 theorems over a hand-written model of both route builders; differential correspondence against the real builders; Go monitor",
        "text": "For every invoice, channel id and limit: a CLN route is exactly one hop to the payee over the x-spelled channel for the invoice amount; an LND request is refused unless the destination is the channel peer and otherwise pays that payment request with one part over that channel. Proved for the model; the model is compared with the real builders on boundary-biased random inputs each run.",
        "note": "Trusted: Lean kernel; the hand-written model of buildDirectClaimRoute/buildDirectClaimPaymentRequest is tied to the code only by differential testing; the RPC calls that carry the built route (SendPay/SendPaymentV2) and the back-ends' honouring of it are not modelled.",
        "design_ref": "DESIGN.md §4 C24",
    },
    "C27": {
        "module": "PsVerif.Props.C27",
        "slices": [("premium", 4000, 300000), ("premiumstore", 3000, 100000)],
        "monitor": (2500, 100000),
        "technique": "Lean 4 theorems (int64 wrap arithmetic, map refinement by induction, key injectivity) over a model tied by differential operation sequences to the real premium.Setting on bbolt and to the rates the real peersync sends",
        "text": "Proved for all amounts/rates: inside the no-overflow range (in particular amount <= 2^43 sat, |rate| <= 10^6) the premium is amount*rate/10^6 truncated toward zero; rate selection is peer, else stored default, else built-in; set/get/delete refine a finite map (all op sequences by induction over the bucket) and keys of distinct (peer, asset, op) never collide. The advertised-equals-charged clause is part of the model (both read getRate) and is tied by the differential slice that captures the real poll payload.",
        "note": "Trusted: Lean kernel; hand-written model of premium.go/store.go tied by differential testing incl. reopen of the bbolt file; bbolt atomicity; outside the no-overflow range the product wraps (shown by the model, reported under C12).",
        "design_ref": "DESIGN.md §4 C27",
    },
    "C29": {
        "module": "PsVerif.Props.C29",
        "slices": [("upgrade", 300, 6000)],
        "monitor": (300, 6000),
        "technique": "Lean 4 theorems over a model of SafeUpgrade and the GENERATED IsFinished/state tables (terminal iff no outgoing edge, by decide); differential correspondence against the real VersionService + bbolt swap store; Go monitor",
        "text": "Proved for all stored versions and all lists of swap states: same version -> unchanged; otherwise the current version is stored iff every persisted swap is terminal, else an error and no new version; IsFinished (evaluated in the running code for every state) coincides with 'no outgoing edge' in all four generated tables. The slice runs every single-swap state of every role exhaustively plus random multi-swap stores and compares result, stored version and the swaps bucket bytes.",
        "note": "Trusted: Lean kernel; model of SafeUpgrade tied by differential testing; bbolt transactions; ListAll decoding every record (a record that fails to decode makes HasActiveSwaps fail: not modelled).",
        "design_ref": "DESIGN.md §4 C29",
    },
    "C30": {
        "module": "PsVerif.Props.C30",
        "slices": [("fee", 3000, 200000), ("version", 4000, 300000)],
        "monitor": (3000, 200000),
        "technique": "Lean 4 theorems over models of GetFee's rate selection, DetermineFeeFloor and CompareVersionStrings; differential correspondence; Go monitor (incl. order axioms on random triples)",
        "text": "Proved: the rate used is >= floor for every estimator answer; error/zero estimates use max(fallback, floor); the floor is 25 iff the parsed (major, minor) >= (29, 2) else 253 (constants regenerated from the code); version comparison is reflexive and total on the numeric component lists and transitive on equal-length lists. PARTIAL: transitivity across strings with different numbers of components is not proved (only monitored on random triples).",
        "note": "Trusted: Lean kernel; model of regexp digit-run extraction and strconv.Atoi overflow; float64 fee arithmetic is not modelled (the rate is recovered from the fee for a 250000-vbyte size, exact below 2^51).",
        "design_ref": "DESIGN.md §4 C30",
    },
}

# reasons for properties not (yet) claimed; anything absent gets a generic "not built yet"
NOT_CLAIMED = {}
