#!/usr/bin/env python3
"""Regenerate MANIFEST.json from props.py (the registry ./check uses)."""
import json, os, subprocess
from props import PROPS, NOT_CLAIMED

ROOT = os.path.dirname(os.path.abspath(__file__))
ids = [json.loads(l)["id"] for l in open(os.path.join(ROOT, "properties.jsonl"))]
hook_commits = subprocess.run(["git", "-C", "/repo", "log", "--format=%H %s", "--grep", "^verif hooks"],
                              stdout=subprocess.PIPE).stdout.decode().strip().split("\n")
checks = []
for pid in ids:
    if pid not in PROPS:
        continue
    s = PROPS[pid]
    checks.append({
        "property_id": pid,
        "quick_cmd": "./check %s --tier quick" % pid,
        "thorough_cmd": "./check %s --tier thorough" % pid,
        "evidence_file": "/verif/evidence/%s.json" % pid,
        "replay_cmd_template": "./check %s --replay {path}" % pid,
        "engine": "psverif",
        "level_claimed": {"category": s.get("level", "proof"), "text": s["text"], "design_ref": s.get("design_ref", "DESIGN.md §4")},
        "level_note": s["note"],
        "technique": s["technique"],
    })
na = [{"property_id": pid, "reason": NOT_CLAIMED.get(pid, "no check built yet; see DESIGN.md §4 for the planned model and theorems")}
      for pid in ids if pid not in PROPS]
m = {
    "version": 1,
    "setup_cmd": "./setup.sh",
    "hooks": {
        "guard": "verif",
        "enable": "go build -tags verif (the harness module in /verif/go/harness replaces github.com/elementsproject/peerswap => /repo)",
        "baseline_off_cmd": "cd /repo && go build ./... && go test -vet=off -count=1 -timeout 25m ./...",
        "source_commits": [c.split(" ")[0] for c in hook_commits if c],
        "add_only": True,
    },
    "engines": [{"name": "psverif", "path": "/verif/check", "serves_properties": [c["property_id"] for c in checks],
                 "kind_free_text": "Lean 4 theorems over a model regenerated (Gen/*.lean) and differentially tied (psharness vs psdriver) to /repo on every run; Go monitors search for concrete failing inputs"}],
    "checks": checks,
    "not_applicable": na,
    "notes": "Technique: machine-checked proof in Lean 4.33 (core only). See DESIGN.md. known_findings.json lists genuine defects that are recorded, not repaired.",
}
json.dump(m, open(os.path.join(ROOT, "MANIFEST.json"), "w"), indent=1)
print("MANIFEST.json: %d checks, %d not claimed" % (len(checks), len(na)))
