#!/bin/sh
# Build the framework from files on disk only (offline).
set -e
cd "$(dirname "$0")"
export GOFLAGS=-mod=mod GOPROXY=off GOSUMDB=off GOTOOLCHAIN=local
mkdir -p .build evidence replays
python3 - <<'PY'
import sys; sys.path.insert(0, '.')
import importlib.machinery, importlib.util
loader = importlib.machinery.SourceFileLoader('check', './check')
spec = importlib.util.spec_from_loader('check', loader)
m = importlib.util.module_from_spec(spec); loader.exec_module(m)
ok, log = m.sync()
print("sync:", "ok" if ok else log)
sys.exit(0 if ok else 1)
PY
(cd lean && lake build PsVerif psdriver)
echo setup done
