import PsVerif.Model.PolicyFile
/- string-level lemmas for the policy-file model: trimming, the lines the operations write, and
   `sameOption` agreeing with the reader's `classify` -/
namespace PsVerif.Proofs.PolicyLemmas
open PsVerif.Model.PolicyFile


theorem dropWhile_snoc (p : Char → Bool) (xs : List Char) (c : Char) (h : p c = false) :
    (xs ++ [c]).dropWhile p = xs.dropWhile p ++ [c] := by
  induction xs with
  | nil => simp [List.dropWhile, h]
  | cons x xs ih =>
    simp only [List.cons_append, List.dropWhile_cons]
    split
    · exact ih
    · rfl

theorem trimR_cons (c : Char) (cs : Str) (h : isSpace c = false) : ∃ t, trimR (c :: cs) = c :: t := by
  unfold trimR
  rw [List.reverse_cons, dropWhile_snoc _ _ _ h, List.reverse_append]
  exact ⟨_, rfl⟩

theorem trimL_cons (c : Char) (cs : Str) (h : isSpace c = false) : trimL (c :: cs) = c :: cs := by
  simp [trimL, h]

theorem trim_cons (c : Char) (cs : Str) (h : isSpace c = false) : ∃ t, trim (c :: cs) = c :: t := by
  obtain ⟨t, ht⟩ := trimR_cons c cs h
  exact ⟨t, by rw [trim, ht, trimL_cons _ _ h]⟩

theorem trimR_snoc_space (l : Str) (c : Char) (h : isSpace c = true) : trimR (l ++ [c]) = trimR l := by
  unfold trimR
  rw [List.reverse_append]
  simp [h]

theorem trimR_self (l : Str) (h : ∀ c, l.getLast? = some c → isSpace c = false) : trimR l = l := by
  unfold trimR
  cases hr : l.reverse with
  | nil => simp at hr; simp [hr]
  | cons x xs =>
    have : l.getLast? = some x := by
      rw [List.getLast?_eq_head?_reverse, hr]; rfl
    have hx := h x this
    simp only [List.dropWhile_cons, hx]
    have : l = (x :: xs).reverse := by rw [← hr, List.reverse_reverse]
    simp [this]

theorem trim_head_nonspace (l : Str) (c : Char) (cs : Str) (h : trim l = c :: cs) : isSpace c = false := by
  unfold trim trimL at h
  have := List.head?_dropWhile_not isSpace (trimR l)
  rw [h] at this
  simpa using this

/-- a string without white space at either end is its own trim -/
theorem trim_self (c : Char) (cs : Str) (hc : isSpace c = false)
    (hl : ∀ d, (c :: cs).getLast? = some d → isSpace d = false) : trim (c :: cs) = c :: cs := by
  rw [trim, trimR_self _ hl, trimL_cons _ _ hc]

theorem hex_not_space (c : Char) (h : isHexLower c = true) : isSpace c = false ∧ c ≠ '"' ∧ c ≠ '=' := by
  unfold isHexLower at h
  simp only [Bool.or_eq_true, decide_eq_true_eq] at h
  have : 48 ≤ c.toNat := by
    rcases h with h | h
    · have := h.1; exact this
    · have : ('a' : Char).toNat ≤ c.toNat := h.1; have : ('a':Char).toNat = 97 := rfl; omega
  refine ⟨?_, ?_, ?_⟩
  · unfold isSpace
    have e : ∀ d : Char, d.toNat < 48 → c ≠ d := by intro d hd hcd; subst hcd; omega
    simp [e ' ' (by decide), e '\t' (by decide), e '\r' (by decide), e '\n' (by decide)]
    omega
  · intro hcd; subst hcd; exact absurd this (by decide)
  · intro hcd; subst hcd
    rcases h with h | h
    · exact absurd h.2 (by decide)
    · exact absurd h.1 (by decide)

/-- values the operations write: no white space at the ends, not starting with a quote -/
def Clean (v : Str) : Prop :=
  ∃ c cs, v = c :: cs ∧ isSpace c = false ∧ c ≠ '"' ∧ (∀ d, v.getLast? = some d → isSpace d = false)

theorem clean_trim (v : Str) (h : Clean v) : trim v = v := by
  obtain ⟨c, cs, rfl, h1, _, h3⟩ := h
  exact trim_self c cs h1 h3

theorem clean_unquote (v : Str) (h : Clean v) : unquote v = some v := by
  obtain ⟨c, cs, rfl, _, h2, _⟩ := h
  unfold unquote
  split
  · rename_i heq; injection heq with h _; exact absurd h h2
  · rfl

theorem clean_of_valid (pk : Str) (h : validPubkey pk = true) : Clean pk := by
  unfold validPubkey at h
  simp only [Bool.and_eq_true, decide_eq_true_eq, List.all_eq_true] at h
  obtain ⟨hl, hall⟩ := h
  cases pk with
  | nil => simp at hl
  | cons c cs =>
    refine ⟨c, cs, rfl, (hex_not_space c (hall c (by simp))).1, (hex_not_space c (hall c (by simp))).2.1, ?_⟩
    intro d hd
    exact (hex_not_space d (hall d (List.mem_of_getLast? hd))).1

theorem clean_bool (b : Bool) : Clean (boolStr b) := by
  cases b
  · exact ⟨'f', ['a','l','s','e'], rfl, by decide, by decide, by intro d hd; simp [boolStr, vFalse] at hd; subst hd; decide⟩
  · exact ⟨'t', ['r','u','e'], rfl, by decide, by decide, by intro d hd; simp [boolStr, vTrue] at hd; subst hd; decide⟩

/-- the three keys the operations write -/
def OpKey (k : Str) : Prop := k = kAllow ∨ k = kSusp ∨ k = kNew

theorem splitEq_opkey (k v : Str) (hk : OpKey k) : splitEq (k ++ '=' :: v) = some (k, v) := by
  rcases hk with rfl | rfl | rfl <;> simp [kAllow, kSusp, kNew, splitEq]

theorem opkey_facts (k : Str) (hk : OpKey k) :
    trim k = k ∧ ∃ c cs, k = c :: cs ∧ isSpace c = false ∧ c ≠ ';' ∧ c ≠ '#' ∧ c ≠ '[' ∧ c ≠ '=' := by
  rcases hk with rfl | rfl | rfl
  · exact ⟨by decide, 'a', _, rfl, by decide, by decide, by decide, by decide, by decide⟩
  · exact ⟨by decide, 's', _, rfl, by decide, by decide, by decide, by decide, by decide⟩
  · exact ⟨by decide, 'a', _, rfl, by decide, by decide, by decide, by decide, by decide⟩

theorem getLast?_append_cons (a : Str) (c : Char) (b : Str) : (a ++ c :: b).getLast? = (c :: b).getLast? := by
  rw [List.getLast?_append]
  cases h : (c :: b).getLast? with
  | none => simp at h
  | some x => rfl

/-- the line an operation writes is read back as exactly that option -/
theorem classify_canon (k v : Str) (hk : OpKey k) (hv : Clean v) :
    classify (k ++ '=' :: v) = some (.kv k v) := by
  obtain ⟨hkt, c, cs, hkc, hsp, h1, h2, h3, _⟩ := opkey_facts k hk
  have hline : trim (k ++ '=' :: v) = k ++ '=' :: v := by
    rw [hkc, List.cons_append]
    apply trim_self _ _ hsp
    intro d hd
    rw [← List.cons_append, getLast?_append_cons] at hd
    obtain ⟨c', cs', rfl, _, _, h4⟩ := hv
    apply h4
    simpa using hd
  unfold classify
  rw [hline]
  rw [hkc, List.cons_append]
  unfold classifyT
  simp only [h1, h2, or_self, if_false, h3]
  rw [← List.cons_append, ← hkc]
  unfold classifyKV
  rw [splitEq_opkey k v hk]
  simp [clean_trim v hv, clean_unquote v hv, hkt]

theorem splitEq_cons_some (c : Char) (cs k v : Str) (h : splitEq (c :: cs) = some (k, v)) :
    (c = '=' ∧ k = []) ∨ (c ≠ '=' ∧ ∃ k', k = c :: k') := by
  unfold splitEq at h
  split at h
  · rename_i hc; left; simp at h; exact ⟨hc, h.1⟩
  · rename_i hc; right
    cases hs : splitEq cs with
    | none => simp [hs] at h
    | some kv => simp [hs] at h; exact ⟨hc, kv.1, h.1.symm⟩

theorem classifyT_cons (c : Char) (cs : Str) : classifyT (c :: cs) =
    if c = ';' ∨ c = '#' then some .skip
    else if c = '[' then
      if (c :: cs).getLast? ≠ some ']' then none
      else if (trim cs.dropLast).isEmpty then none
      else some .header
    else classifyKV (c :: cs) := rfl

theorem classifyT_kv (c : Char) (cs k v : Str) : classifyT (c :: cs) = some (.kv k v) ↔
    (c ≠ ';' ∧ c ≠ '#' ∧ c ≠ '[' ∧ classifyKV (c :: cs) = some (.kv k v)) := by
  rw [classifyT_cons]
  by_cases h1 : c = ';' ∨ c = '#'
  · simp only [h1, if_true]
    constructor
    · intro h; cases h
    · intro h; rcases h1 with h1 | h1
      · exact absurd h1 h.1
      · exact absurd h1 h.2.1
  · simp only [h1, if_false]
    have h1' : c ≠ ';' ∧ c ≠ '#' := by
      constructor <;> (intro h; apply h1; simp [h])
    by_cases h2 : c = '['
    · simp only [h2, if_true]
      constructor
      · intro h
        split at h
        · cases h
        · split at h <;> cases h
      · intro h; exact absurd rfl h.2.2.1
    · simp only [h2, if_false]
      constructor
      · intro h; exact ⟨h1'.1, h1'.2, h2, h⟩
      · intro h; exact h.2.2.2

theorem classifyKV_kv (t k v : Str) : classifyKV t = some (.kv k v) ↔
    match splitEq t with
    | none => False
    | some (k', v') => trim k' = k ∧ unquote (trim v') = some v := by
  unfold classifyKV
  cases hs : splitEq t with
  | none => simp
  | some kv =>
    obtain ⟨k', v'⟩ := kv
    cases hu : unquote (trim v') with
    | none => simp [hu]
    | some val => simp [hu, and_comm]

theorem sameOption_classify (l k v : Str) (a : Act) (hk : OpKey k) (hv : Clean v)
    (hc : classify l = some a) : sameOption l k v = true ↔ a = .kv k v := by
  by_cases hlit : l = k ++ '=' :: v
  · subst hlit
    rw [classify_canon k v hk hv] at hc
    injection hc with hc
    subst hc
    simp [sameOption]
  · obtain ⟨hkt, kc, kcs, hkc, hksp, hk1, hk2, hk3, hk4⟩ := opkey_facts k hk
    unfold sameOption
    simp only [hlit, decide_false, Bool.false_or]
    unfold classify at hc
    cases ht : trim l with
    | nil =>
      rw [ht] at hc
      simp [classifyT] at hc
      subst hc
      simp [splitEq]
    | cons c cs =>
      rw [ht] at hc
      have hcsp := trim_head_nonspace l c cs ht
      constructor
      · intro h
        cases hs : splitEq (c :: cs) with
        | none => simp [hs] at h
        | some kv =>
          obtain ⟨k', v'⟩ := kv
          simp only [hs, Bool.and_eq_true, decide_eq_true_eq] at h
          rcases splitEq_cons_some c cs k' v' hs with ⟨_, hk'⟩ | ⟨hne, k'', hk'⟩
          · subst hk'
            have h1 := h.1
            rw [hkc] at h1
            simp [trim, trimR, trimL] at h1
          · subst hk'
            obtain ⟨t, htk⟩ := trim_cons c k'' hcsp
            have h1 := h.1
            rw [htk, hkc] at h1
            injection h1 with h1 _
            subst h1
            rw [classifyT_cons] at hc
            have : ¬(c = ';' ∨ c = '#') := by
              intro hh; rcases hh with hh | hh
              · exact hk1 hh
              · exact hk2 hh
            simp only [this, if_false, hk3, classifyKV, hs] at hc
            cases hu : unquote (trim v') with
            | none => simp [hu] at hc
            | some val =>
              simp only [hu, Option.map_some, Option.some.injEq] at hc
              subst hc
              have h2 := h.2
              simp only [hu, Option.getD_some] at h2
              rw [h.1, h2]
      · intro ha
        subst ha
        have h1 := (classifyT_kv c cs k v).mp hc
        have h2 := (classifyKV_kv (c :: cs) k v).mp h1.2.2.2
        cases hs : splitEq (c :: cs) with
        | none => simp [hs] at h2
        | some kv =>
          obtain ⟨k', v'⟩ := kv
          simp only [hs] at h2
          simp [h2.1, h2.2]

theorem classify_stripCR (l : Str) : classify (stripCR l) = classify l := by
  unfold stripCR
  split
  · rename_i h
    have hne : l ≠ [] := by intro h0; subst h0; simp at h
    have hl : l.getLast hne = '\r' := by
      rw [List.getLast?_eq_some_getLast hne] at h
      exact Option.some.inj h
    have : l.dropLast ++ ['\r'] = l := by rw [← hl]; exact List.dropLast_concat_getLast hne
    unfold classify trim
    conv => rhs; rw [← this, trimR_snoc_space _ _ (by decide)]
  · rfl

end PsVerif.Proofs.PolicyLemmas
