import PsVerif.Model.AbsMk
/-
Kernel-certified reachable sets of the maker abstraction (Model/AbsMk.lean) over the GENERATED tables of
both maker roles, for the environment in which the process does not die between the wallet's broadcast
and the persist that follows, GetOutputScript does not fail and a policy file is configured.
Shared by Props/C07, C15, C22, C26.
-/
namespace PsVerif.Proofs.MkCert
open PsVerif.Gen PsVerif.Model.Abs PsVerif.Model.AbsMk

def benign : Env := { trackAgreement := false, crashInBroadcast := false, errorAfterBroadcast := false, scriptFails := false, policyFails := false }
def hostile : Env := { trackAgreement := false, crashInBroadcast := true, errorAfterBroadcast := true, scriptFails := true, policyFails := true }

def sysIn (e : Env) := sys tableSwapInSender { e with trackAgreement := true }
def sysOut (e : Env) := sys tableSwapOutReceiver e

def certIn := reachCert (sysIn benign) 80
def certOut := reachCert (sysOut benign) 80

/-- all maker properties at once (one kernel evaluation per role) -/
def allProps (m : MC F) : Bool :=
  !m.f.unknownAct && oneOpening m && recorded m && settled m && watched m && resendOnlyWaiting m && quarantined m

theorem certIn_ok : (closedCert (sysIn benign) certIn && allGood certIn allProps) = true := by decide +kernel
theorem certOut_ok : (closedCert (sysOut benign) certOut && allGood certOut allProps) = true := by decide +kernel

theorem allProps_in : ∀ m, Reach (sysIn benign) m → allProps m = true := by
  have h := certIn_ok
  simp only [Bool.and_eq_true] at h
  exact invariant_of_cert _ certIn allProps h.1 h.2

theorem allProps_out : ∀ m, Reach (sysOut benign) m → allProps m = true := by
  have h := certOut_ok
  simp only [Bool.and_eq_true] at h
  exact invariant_of_cert _ certOut allProps h.1 h.2

end PsVerif.Proofs.MkCert
