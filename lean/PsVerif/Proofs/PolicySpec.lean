import PsVerif.Proofs.PolicyLemmas
/- the policy reader in closed form (`parse_meaning`), field by field, and what appending / removing an
   option does to it -/
namespace PsVerif.Proofs.PolicySpec
open PsVerif.Model.PolicyFile PsVerif.Proofs.PolicyLemmas

/-! ## what a file means: a closed form for `parse` -/

def classifyAll : List Str → Option (List Act)
  | [] => some []
  | l :: ls => match classify l, classifyAll ls with
    | some a, some as => some (a :: as)
    | _, _ => none

def runActs : PState → List Act → Option PState
  | st, [] => some st
  | st, a :: as => (applyAct st a).bind (runActs · as)

/-- the key=value entries before the first section header -/
def effKV : List Act → List (Str × Str)
  | [] => []
  | .header :: _ => []
  | .skip :: r => effKV r
  | .kv k v :: r => (k, v) :: effKV r

def hasHeader : List Act → Bool
  | [] => false
  | .header :: _ => true
  | _ :: r => hasHeader r

def okKV (kv : Str × Str) : Bool :=
  match keyField kv.1 with
  | .acc | .new => (parseBool kv.2).isSome
  | .min | .res => (parseUint kv.2).isSome
  | _ => true

def specStep (p : Policy) (kv : Str × Str) : Policy :=
  match keyField kv.1 with
  | .allow => { p with allow := p.allow ++ [kv.2] }
  | .susp => { p with susp := p.susp ++ [kv.2] }
  | .acc => { p with acceptAll := (parseBool kv.2).getD p.acceptAll }
  | .new => { p with allowNew := (parseBool kv.2).getD p.allowNew }
  | .min => { p with minMsat := (parseUint kv.2).getD p.minMsat }
  | .res => { p with reserve := (parseUint kv.2).getD p.reserve }
  | .unknown => p

def assignAll : PState → List (Str × Str) → Option PState
  | st, [] => some st
  | st, kv :: r => (assign st kv.1 kv.2).bind (assignAll · r)

def WF (st : PState) : Prop :=
  (st.allowCleared = false → st.pol.allow = []) ∧ (st.suspCleared = false → st.pol.susp = [])

theorem parseLines_eq (st : PState) (lines : List Str) :
    parseLines st lines = (classifyAll lines).bind (runActs st) := by
  induction lines generalizing st with
  | nil => rfl
  | cons l ls ih =>
    unfold parseLines classifyAll stepLine
    cases hc : classify l with
    | none => simp
    | some a =>
      cases hall : classifyAll ls with
      | none =>
        simp only [Option.bind_some]
        cases ha : applyAct st a with
        | none => simp
        | some st' => simp [ih, hall]
      | some as =>
        simp only [Option.bind_some]
        cases ha : applyAct st a with
        | none => simp [runActs, ha]
        | some st' => simp [ih, hall, runActs, ha]

theorem runActs_inSection (st : PState) (as : List Act) (h : st.inSection = true) : runActs st as = some st := by
  induction as with
  | nil => rfl
  | cons a as ih =>
    unfold runActs
    cases a with
    | skip => simpa [applyAct] using ih
    | header =>
      have : ({ st with inSection := true } : PState) = st := by cases st; simp_all
      simpa [applyAct, this] using ih
    | kv k v => simpa [applyAct, h] using ih

theorem assign_inSection (st st' : PState) (k v : Str) (h : assign st k v = some st') : st'.inSection = st.inSection := by
  unfold assign at h
  split at h <;> first
    | (injection h with h; subst h; rfl)
    | (cases hb : parseBool v <;> simp [hb] at h; subst h; rfl)
    | (cases hb : parseUint v <;> simp [hb] at h; subst h; rfl)

theorem assignAll_inSection (st st' : PState) (kvs : List (Str × Str)) (h : assignAll st kvs = some st') :
    st'.inSection = st.inSection := by
  induction kvs generalizing st with
  | nil => simp [assignAll] at h; subst h; rfl
  | cons kv r ih =>
    unfold assignAll at h
    cases ha : assign st kv.1 kv.2 with
    | none => simp [ha] at h
    | some s1 =>
      simp only [ha, Option.bind_some] at h
      rw [ih s1 h, assign_inSection _ _ _ _ ha]

/-- outside a section the reader's run is the assignment of the effective entries -/
theorem runActs_eff (st : PState) (as : List Act) (h : st.inSection = false) :
    runActs st as = (assignAll st (effKV as)).map fun s => { s with inSection := hasHeader as } := by
  induction as generalizing st with
  | nil =>
    simp only [runActs, effKV, assignAll, hasHeader, Option.map_some]
    congr 1; cases st; simp_all
  | cons a as ih =>
    cases a with
    | skip => simp only [runActs, applyAct, Option.bind_some, effKV, hasHeader]; exact ih st h
    | header =>
      simp only [runActs, applyAct, Option.bind_some, effKV, hasHeader, assignAll, Option.map_some]
      exact runActs_inSection _ _ rfl
    | kv k v =>
      simp only [runActs, applyAct, h, effKV, assignAll, hasHeader]
      cases ha : assign st k v with
      | none => simp
      | some s1 =>
        simp only [Bool.false_eq_true, if_false, Option.bind_some]
        exact ih s1 (by rw [assign_inSection _ _ _ _ ha, h])

theorem assign_spec (st : PState) (k v : Str) (hw : WF st) :
    (okKV (k, v) = false → assign st k v = none) ∧
    (okKV (k, v) = true → ∃ st', assign st k v = some st' ∧ st'.pol = specStep st.pol (k, v) ∧ WF st') := by
  unfold okKV assign specStep WF
  obtain ⟨hwa, hws⟩ := hw
  cases hk : keyField k <;> simp only []
  · -- allow
    refine ⟨by simp, fun _ => ⟨_, rfl, ?_, by simp, hws⟩⟩
    cases hc : st.allowCleared
    · simp [hwa hc]
    · simp
  · refine ⟨by simp, fun _ => ⟨_, rfl, ?_, hwa, by simp⟩⟩
    cases hc : st.suspCleared
    · simp [hws hc]
    · simp
  · cases parseBool v <;> simp; exact ⟨hwa, hws⟩
  · cases parseBool v <;> simp; exact ⟨hwa, hws⟩
  · cases parseUint v <;> simp; exact ⟨hwa, hws⟩
  · cases parseUint v <;> simp; exact ⟨hwa, hws⟩
  · exact ⟨by simp, fun _ => ⟨_, rfl, rfl, hwa, hws⟩⟩

theorem assignAll_spec (st : PState) (kvs : List (Str × Str)) (hw : WF st) :
    (kvs.all okKV = false → assignAll st kvs = none) ∧
    (kvs.all okKV = true → ∃ st', assignAll st kvs = some st' ∧ st'.pol = kvs.foldl specStep st.pol ∧ WF st') := by
  induction kvs generalizing st with
  | nil => exact ⟨by simp, fun _ => ⟨st, rfl, rfl, hw⟩⟩
  | cons kv r ih =>
    obtain ⟨k, v⟩ := kv
    have hs := assign_spec st k v hw
    simp only [List.all_cons, assignAll, List.foldl_cons]
    cases hok : okKV (k, v)
    · simp [hs.1 hok]
    · obtain ⟨s1, h1, h2, h3⟩ := hs.2 hok
      simp only [h1, Option.bind_some, Bool.true_and]
      rw [← h2]
      exact ih s1 h3

theorem wf_init : WF PState.init := ⟨fun _ => rfl, fun _ => rfl⟩

/-- **closed form of the reader**: the policy a file yields -/
def meaning (lines : List Str) : Option Policy :=
  match classifyAll lines with
  | none => none
  | some as => if (effKV as).all okKV then some ((effKV as).foldl specStep Policy.default) else none

theorem parse_meaning (f : File) : parse f = meaning f.lines := by
  unfold parse meaning
  rw [parseLines_eq]
  cases hc : classifyAll f.lines with
  | none => rfl
  | some as =>
    simp only [Option.bind_some]
    rw [runActs_eff _ _ rfl]
    have hs := assignAll_spec PState.init (effKV as) wf_init
    cases hok : (effKV as).all okKV
    · simp [hs.1 hok]
    · obtain ⟨st', h1, h2, _⟩ := hs.2 hok
      simp only [h1, Option.map_some, hok, if_true, h2]
      rfl

/-! ## field views of the closed form -/

def vals (fld : Field) (kvs : List (Str × Str)) : List Str :=
  kvs.filterMap fun kv => if keyField kv.1 = fld then some kv.2 else none
def lastBool (fld : Field) (d : Bool) (kvs : List (Str × Str)) : Bool :=
  kvs.foldl (fun b kv => if keyField kv.1 = fld then (parseBool kv.2).getD b else b) d
def lastUint (fld : Field) (d : Nat) (kvs : List (Str × Str)) : Nat :=
  kvs.foldl (fun b kv => if keyField kv.1 = fld then (parseUint kv.2).getD b else b) d

theorem spec_fields (p : Policy) (kvs : List (Str × Str)) :
    kvs.foldl specStep p =
      ⟨p.allow ++ vals .allow kvs, p.susp ++ vals .susp kvs, lastBool .acc p.acceptAll kvs,
       lastUint .min p.minMsat kvs, lastUint .res p.reserve kvs, lastBool .new p.allowNew kvs⟩ := by
  induction kvs generalizing p with
  | nil => simp [vals, lastBool, lastUint]
  | cons kv r ih =>
    rw [List.foldl_cons, ih]
    unfold specStep vals lastBool lastUint
    cases hk : keyField kv.1 <;> simp [hk]

theorem foldl_filter_noop {α β : Type} (g : β → α → β) (keep : α → Bool) (l : List α) (b : β)
    (h : ∀ x ∈ l, keep x = false → ∀ b, g b x = b) : (l.filter keep).foldl g b = l.foldl g b := by
  induction l generalizing b with
  | nil => rfl
  | cons x r ih =>
    have ih' := fun b => ih b (fun y hy => h y (List.mem_cons_of_mem _ hy))
    simp only [List.filter_cons]
    cases hk : keep x
    · simp only [Bool.false_eq_true, if_false, List.foldl_cons, h x (List.mem_cons_self) hk b]
      exact ih' b
    · simp only [if_true, List.foldl_cons]
      exact ih' _

theorem filterMap_filter_noop {α β : Type} (f : α → Option β) (keep : α → Bool) (l : List α)
    (h : ∀ x ∈ l, keep x = false → f x = none) : (l.filter keep).filterMap f = l.filterMap f := by
  induction l with
  | nil => rfl
  | cons x r ih =>
    have ih' := ih (fun y hy => h y (List.mem_cons_of_mem _ hy))
    simp only [List.filter_cons]
    cases hk : keep x
    · simp only [Bool.false_eq_true, if_false, List.filterMap_cons, h x (List.mem_cons_self) hk]
      exact ih'
    · simp only [if_true, List.filterMap_cons, ih']

/-- removing the entries (k,v): fields other than the one `k` names are untouched -/
theorem vals_filter_other (fld : Field) (k v : Str) (kvs : List (Str × Str)) (h : keyField k ≠ fld) :
    vals fld (kvs.filter (fun kv => !decide (kv = (k, v)))) = vals fld kvs := by
  apply filterMap_filter_noop
  intro x _ hx
  simp at hx
  subst hx
  simp [h]

theorem lastBool_filter_other (fld : Field) (d : Bool) (k v : Str) (kvs : List (Str × Str)) (h : keyField k ≠ fld) :
    lastBool fld d (kvs.filter (fun kv => !decide (kv = (k, v)))) = lastBool fld d kvs := by
  apply foldl_filter_noop
  intro x _ hx b
  simp at hx
  subst hx
  simp [h]

theorem lastUint_filter_other (fld : Field) (d : Nat) (k v : Str) (kvs : List (Str × Str)) (h : keyField k ≠ fld) :
    lastUint fld d (kvs.filter (fun kv => !decide (kv = (k, v)))) = lastUint fld d kvs := by
  apply foldl_filter_noop
  intro x _ hx b
  simp at hx
  subst hx
  simp [h]

/-- removing the entries (k,v) removes exactly the value v from the list field `k` names, when no other
    spelling of that option (the Go field name) occurs -/
theorem vals_filter_same (k v : Str) (kvs : List (Str × Str))
    (hone : ∀ kv ∈ kvs, keyField kv.1 = keyField k → kv.1 = k) :
    vals (keyField k) (kvs.filter (fun kv => !decide (kv = (k, v)))) = (vals (keyField k) kvs).filter (· ≠ v) := by
  induction kvs with
  | nil => rfl
  | cons x r ih =>
    have ih' := ih (fun y hy => hone y (List.mem_cons_of_mem _ hy))
    obtain ⟨xk, xv⟩ := x
    unfold vals at *
    by_cases hx : (xk, xv) = (k, v)
    · injection hx with h1 h2
      subst h1; subst h2
      simp [ih']
    · simp only [List.filter_cons, hx, decide_false, Bool.not_false, if_true, List.filterMap_cons]
      by_cases hf : keyField xk = keyField k
      · have := hone (xk, xv) (List.mem_cons_self) hf
        simp only at this
        subst this
        have hv : xv ≠ v := by intro h; apply hx; rw [h]
        simp [ih', hv]
      · simp [hf, ih']

/-! ## the edits the operations make, seen by the reader -/

theorem classifyAll_append (lines : List Str) (l : Str) (as : List Act) (a : Act)
    (h1 : classifyAll lines = some as) (h2 : classify l = some a) :
    classifyAll (lines ++ [l]) = some (as ++ [a]) := by
  induction lines generalizing as with
  | nil => simp [classifyAll] at h1; subst h1; simp [classifyAll, h2]
  | cons x r ih =>
    unfold classifyAll at h1
    cases hx : classify x with
    | none => simp [hx] at h1
    | some ax =>
      cases hr : classifyAll r with
      | none => simp [hx, hr] at h1
      | some ar =>
        simp only [hx, hr, Option.some.injEq] at h1
        subst h1
        simp [classifyAll, hx, ih ar hr]

theorem classifyAll_remove (lines : List Str) (k v : Str) (as : List Act) (hk : OpKey k) (hv : Clean v)
    (h1 : classifyAll lines = some as) :
    classifyAll ((lines.map stripCR).filter (fun l => !sameOption l k v))
      = some (as.filter (fun a => !decide (a = .kv k v))) := by
  induction lines generalizing as with
  | nil => simp [classifyAll] at h1; subst h1; rfl
  | cons x r ih =>
    unfold classifyAll at h1
    cases hx : classify x with
    | none => simp [hx] at h1
    | some ax =>
      cases hr : classifyAll r with
      | none => simp [hx, hr] at h1
      | some ar =>
        simp only [hx, hr, Option.some.injEq] at h1
        subst h1
        have hx' : classify (stripCR x) = some ax := by rw [classify_stripCR, hx]
        have hso := sameOption_classify (stripCR x) k v ax hk hv hx'
        simp only [List.map_cons, List.filter_cons]
        by_cases he : ax = .kv k v
        · simp [hso.mpr he, he, ih ar hr]
        · have : sameOption (stripCR x) k v = false := by
            cases hb : sameOption (stripCR x) k v
            · rfl
            · exact absurd (hso.mp hb) he
          simp [this, he, classifyAll, hx', ih ar hr]

theorem effKV_append_kv (as : List Act) (k v : Str) (h : hasHeader as = false) :
    effKV (as ++ [.kv k v]) = effKV as ++ [(k, v)] := by
  induction as with
  | nil => simp [effKV]
  | cons a r ih =>
    cases a with
    | skip => simpa [effKV, hasHeader] using ih (by simpa [hasHeader] using h)
    | header => simp [hasHeader] at h
    | kv k' v' => simp [effKV, ih (by simpa [hasHeader] using h)]

theorem effKV_append_kv_header (as : List Act) (k v : Str) (h : hasHeader as = true) :
    effKV (as ++ [.kv k v]) = effKV as := by
  induction as with
  | nil => simp [hasHeader] at h
  | cons a r ih =>
    cases a with
    | skip => simpa [effKV, hasHeader] using ih (by simpa [hasHeader] using h)
    | header => simp [effKV]
    | kv k' v' => simp [effKV, ih (by simpa [hasHeader] using h)]

theorem hasHeader_append_kv (as : List Act) (k v : Str) : hasHeader (as ++ [.kv k v]) = hasHeader as := by
  induction as with
  | nil => simp [hasHeader]
  | cons a r ih => cases a <;> simp [hasHeader, ih]

theorem effKV_remove (as : List Act) (k v : Str) :
    effKV (as.filter (fun a => !decide (a = .kv k v))) = (effKV as).filter (fun kv => !decide (kv = (k, v))) := by
  induction as with
  | nil => rfl
  | cons a r ih =>
    cases a with
    | skip => simpa [effKV, List.filter_cons] using ih
    | header => simp [effKV, List.filter_cons]
    | kv k' v' =>
      simp only [List.filter_cons, effKV]
      by_cases he : (k', v') = (k, v)
      · injection he with h1 h2; subst h1; subst h2; simpa using ih
      · have : ¬(Act.kv k' v' = Act.kv k v) := by
          intro h; injection h with h1 h2; apply he; rw [h1, h2]
        simp [he, this, effKV, ih]

theorem hasHeader_remove (as : List Act) (k v : Str) :
    hasHeader (as.filter (fun a => !decide (a = .kv k v))) = hasHeader as := by
  induction as with
  | nil => rfl
  | cons a r ih =>
    cases a with
    | skip => simpa [hasHeader, List.filter_cons] using ih
    | header => simp [hasHeader, List.filter_cons]
    | kv k' v' =>
      simp only [List.filter_cons, hasHeader]
      split <;> simp [hasHeader, ih]

end PsVerif.Proofs.PolicySpec
