import PsVerif.Model.Record
/- the record codec round trip: hex / base64 inverses, per-struct key lookup, and the mutual theorem `rt` -/
namespace PsVerif.Proofs.RecordRT
open PsVerif.Model.Record

theorem hexVal_digit : ∀ n : Fin 16, hexVal (hexDigit n.val) = some n.val := by decide
theorem b64Val_char : ∀ n : Fin 64, b64Val (b64Char n.val) = some n.val ∧ b64Char n.val ≠ '=' := by decide

theorem hex_rt : ∀ bs : List Nat, isByte bs = true → hexDec (hexEnc bs) = some bs
  | [], _ => rfl
  | b :: r, h => by
    have hb : b < 256 := by simp [isByte] at h; exact h.1
    have hr : isByte r = true := by simp [isByte] at h ⊢; exact h.2
    have h1 := hexVal_digit ⟨b / 16, by omega⟩
    have h2 := hexVal_digit ⟨b % 16, by omega⟩
    simp only at h1 h2
    simp only [hexEnc, List.flatMap_cons, List.cons_append, List.nil_append]
    unfold hexDec
    rw [h1, h2]
    have := hex_rt r hr
    simp only [hexEnc] at this
    rw [this]
    have e : b / 16 * 16 + b % 16 = b := by omega
    simp only [e]

theorem b64_rt : ∀ bs : List Nat, isByte bs = true → b64Dec (b64Enc bs) = some bs
  | [], _ => rfl
  | [a], h => by
    have ha : a < 256 := by simpa [isByte] using h
    have h1 := b64Val_char ⟨a / 4, by omega⟩
    have h2 := b64Val_char ⟨a % 4 * 16, by omega⟩
    simp only at h1 h2
    simp only [b64Enc, b64Dec, if_true, List.isEmpty_nil, Bool.not_true, Bool.false_eq_true, if_false, h1.1, h2.1]
    have : a % 4 * 16 % 16 = 0 := by omega
    simp only [this, if_true]
    congr 2; omega
  | [a, b], h => by
    have hab : a < 256 ∧ b < 256 := by simpa [isByte] using h
    have h1 := b64Val_char ⟨a / 4, by omega⟩
    have h2 := b64Val_char ⟨a % 4 * 16 + b / 16, by omega⟩
    have h3 := b64Val_char ⟨b % 16 * 4, by omega⟩
    simp only at h1 h2 h3
    simp only [b64Enc, b64Dec, if_true, List.isEmpty_nil, Bool.not_true, Bool.false_eq_true, if_false, h1.1, h2.1, h3.1, h3.2]
    have : b % 16 * 4 % 4 = 0 := by omega
    simp only [this, if_true]
    congr 2
    · omega
    · congr 1; omega
  | a :: b :: c :: r, h => by
    have habc : a < 256 ∧ b < 256 ∧ c < 256 ∧ isByte r = true := by
      simp [isByte] at h ⊢; exact ⟨h.1, h.2.1, h.2.2.1, h.2.2.2⟩
    have h1 := b64Val_char ⟨a / 4, by omega⟩
    have h2 := b64Val_char ⟨a % 4 * 16 + b / 16, by omega⟩
    have h3 := b64Val_char ⟨b % 16 * 4 + c / 64, by omega⟩
    have h4 := b64Val_char ⟨c % 64, by omega⟩
    simp only at h1 h2 h3 h4
    have ih := b64_rt r habc.2.2.2
    simp only [b64Enc, b64Dec, h4.2, if_false, h1.1, h2.1, h3.1, h4.1, ih]
    congr 2
    · omega
    · congr 1
      · omega
      · congr 1; omega

/-- every field of the struct value round-trips on its own -/
def AllRT : TF → VF → Prop
  | .nil, .nil => True
  | .cons _ _ ty rest, .cons v vs => dec ty (enc ty v) = some v ∧ AllRT rest vs
  | _, _ => False

/-- the object answers each field's key with that field's encoding (or not at all when it was omitted) -/
def Agree (jf : JF) : TF → VF → Prop
  | .nil, .nil => True
  | .cons k om ty rest, .cons v vs =>
    lookupJ jf k = (if om && isEmpty v then none else some (enc ty v)) ∧ Agree jf rest vs
  | _, _ => False

theorem lookup_enc_absent : ∀ (tf : TF) (vf : VF) (k : String), k ∉ tf.keys → lookupJ (encF tf vf) k = none
  | .nil, _, _, _ => by simp [encF, lookupJ]
  | .cons _ _ _ _, .nil, _, _ => by simp [encF, lookupJ]
  | .cons k0 om ty rest, .cons v vs, k, h => by
    have h1 : k0 ≠ k := by intro hh; apply h; simp [TF.keys, hh]
    have h2 : k ∉ rest.keys := by intro hh; apply h; simp [TF.keys, hh]
    unfold encF
    split
    · exact lookup_enc_absent rest vs k h2
    · simp only [lookupJ, h1, if_false]
      exact lookup_enc_absent rest vs k h2

theorem agree_cons (k : String) (j : J) (jf : JF) : ∀ (tf : TF) (vf : VF), k ∉ tf.keys → Agree jf tf vf → Agree (.cons k j jf) tf vf
  | .nil, .nil, _, _ => trivial
  | .nil, .cons _ _, _, h => h.elim
  | .cons _ _ _ _, .nil, _, h => h.elim
  | .cons k0 om ty rest, .cons v vs, hk, h => by
    have h1 : k ≠ k0 := by intro hh; apply hk; simp [TF.keys, hh]
    have h2 : k ∉ rest.keys := by intro hh; apply hk; simp [TF.keys, hh]
    exact ⟨by simp only [lookupJ, h1, if_false]; exact h.1, agree_cons k j jf rest vs h2 h.2⟩

theorem agree_enc : ∀ (tf : TF) (vf : VF), tf.keys.Nodup → wtF tf vf = true → Agree (encF tf vf) tf vf
  | .nil, .nil, _, _ => trivial
  | .nil, .cons _ _, _, h => by simp [wtF] at h
  | .cons _ _ _ _, .nil, _, h => by simp [wtF] at h
  | .cons k om ty rest, .cons v vs, hn, h => by
    have hk : k ∉ rest.keys := (List.nodup_cons.mp hn).1
    have hn' := (List.nodup_cons.mp hn).2
    have hw : wtF rest vs = true := by simp [wtF] at h; exact h.2
    have ih := agree_enc rest vs hn' hw
    unfold encF
    by_cases c : (om && isEmpty v) = true
    · rw [if_pos c]
      exact ⟨by rw [if_pos c]; exact lookup_enc_absent rest vs k hk, ih⟩
    · rw [if_neg c]
      exact ⟨by rw [if_neg c]; simp [lookupJ], agree_cons k _ _ rest vs hk ih⟩

theorem empty_is_zero : ∀ (ty : Ty) (v : V), wt ty v = true → omitSafe ty = true → isEmpty v = true → v = zero ty
  | .str, .str s, _, _, h => by simp [isEmpty] at h; simp [zero, h]
  | .uint _, .num i, _, _, h => by simp [isEmpty] at h; simp [zero, h]
  | .int _, .num i, _, _, h => by simp [isEmpty] at h; simp [zero, h]
  | .bool, .bool b, _, _, h => by simp [isEmpty] at h; simp [zero, h]
  | .id, .id none, _, _, _ => rfl
  | .id, .id (some _), _, _, h => by simp [isEmpty] at h
  | .iface, .nilIface, _, _, _ => rfl
  | .ptr _, .nilPtr, _, _, _ => rfl
  | .ptr _, .ptr _, _, _, h => by simp [isEmpty] at h
  | .bytes, _, _, h, _ => by simp [omitSafe] at h
  | .str, .num _, h, _, _ | .str, .bool _, h, _, _ | .str, .bytes _, h, _, _ | .str, .id _, h, _, _
  | .str, .nilIface, h, _, _ | .str, .nilPtr, h, _, _ | .str, .ptr _, h, _, _ => by simp [wt] at h
  | .uint _, .str _, h, _, _ | .uint _, .bool _, h, _, _ | .uint _, .bytes _, h, _, _ | .uint _, .id _, h, _, _
  | .uint _, .nilIface, h, _, _ | .uint _, .nilPtr, h, _, _ | .uint _, .ptr _, h, _, _ => by simp [wt] at h
  | .int _, .str _, h, _, _ | .int _, .bool _, h, _, _ | .int _, .bytes _, h, _, _ | .int _, .id _, h, _, _
  | .int _, .nilIface, h, _, _ | .int _, .nilPtr, h, _, _ | .int _, .ptr _, h, _, _ => by simp [wt] at h
  | .bool, .str _, h, _, _ | .bool, .num _, h, _, _ | .bool, .bytes _, h, _, _ | .bool, .id _, h, _, _
  | .bool, .nilIface, h, _, _ | .bool, .nilPtr, h, _, _ | .bool, .ptr _, h, _, _ => by simp [wt] at h
  | .id, .str _, h, _, _ | .id, .num _, h, _, _ | .id, .bool _, h, _, _ | .id, .bytes _, h, _, _
  | .id, .nilIface, h, _, _ | .id, .nilPtr, h, _, _ | .id, .ptr _, h, _, _ => by simp [wt] at h
  | .iface, .str _, h, _, _ | .iface, .num _, h, _, _ | .iface, .bool _, h, _, _ | .iface, .bytes _, h, _, _
  | .iface, .id _, h, _, _ | .iface, .nilPtr, h, _, _ | .iface, .ptr _, h, _, _ => by simp [wt] at h
  | .ptr _, .str _, h, _, _ | .ptr _, .num _, h, _, _ | .ptr _, .bool _, h, _, _ | .ptr _, .bytes _, h, _, _
  | .ptr _, .id _, h, _, _ | .ptr _, .nilIface, h, _, _ => by simp [wt] at h

theorem decF_agree (jf : JF) : ∀ (tf : TF) (vf : VF), Agree jf tf vf → AllRT tf vf → wtF tf vf = true → okTF tf = true →
    decF tf jf = some vf
  | .nil, .nil, _, _, _, _ => by simp [decF]
  | .nil, .cons _ _, h, _, _, _ => h.elim
  | .cons _ _ _ _, .nil, h, _, _, _ => h.elim
  | .cons k om ty rest, .cons v vs, ha, hr, hw, ho => by
    have hw1 : wt ty v = true ∧ wtF rest vs = true := by simpa [wtF] using hw
    have ho1 : okTy ty = true ∧ (om = false ∨ omitSafe ty = true) ∧ okTF rest = true := by
      simp [okTF] at ho; exact ⟨ho.1.1, by cases om <;> simp_all, ho.2⟩
    have ih := decF_agree jf rest vs ha.2 hr.2 hw1.2 ho1.2.2
    unfold decF
    rw [ha.1, ih]
    by_cases c : (om && isEmpty v) = true
    · rw [if_pos c]
      simp only [Bool.and_eq_true] at c
      have hs : omitSafe ty = true := by
        rcases ho1.2.1 with h | h
        · rw [h] at c; cases c.1
        · exact h
      have hz := empty_is_zero ty v hw1.1 hs c.2
      simp [hz]
    · rw [if_neg c]
      simp only [hr.1]

mutual
/-- **round trip of one value** -/
theorem rt : ∀ (ty : Ty) (v : V), wt ty v = true → okTy ty = true → dec ty (enc ty v) = some v
  | .ptr tf, .ptr vf, hw, ho => by
    have hw' : wtF tf vf = true := by simpa [wt] using hw
    have ho' : okTF tf = true ∧ tf.keys.Nodup := by simpa [okTy] using ho
    have hall := rtF tf vf hw' ho'.1
    have := decF_agree (encF tf vf) tf vf (agree_enc tf vf ho'.2 hw') hall hw' ho'.1
    simp [enc, dec, this]
  | .ptr _, .nilPtr, _, _ => by simp [enc, dec, zero]
  | .str, .str s, _, _ => by simp [enc, dec]
  | .uint b, .num i, hw, _ => by simp [wt] at hw; simp [enc, dec, hw]
  | .int b, .num i, hw, _ => by simp [wt] at hw; simp [enc, dec, hw]
  | .bool, .bool b, _, _ => by simp [enc, dec]
  | .bytes, .bytes none, _, _ => by simp [enc, dec, zero]
  | .bytes, .bytes (some b), hw, _ => by
    have : isByte b = true := by simpa [wt] using hw
    simp [enc, dec, b64_rt b this]
  | .id, .id none, _, _ => by simp [enc, dec, zero]
  | .id, .id (some b), hw, _ => by
    have h : isByte b = true ∧ b.length = 32 := by simpa [wt] using hw
    simp [enc, dec, hex_rt b h.1, h.2]
  | .iface, .nilIface, _, _ => by simp [enc, dec, zero]
  | .str, .num _, h, _ | .str, .bool _, h, _ | .str, .bytes _, h, _ | .str, .id _, h, _
  | .str, .nilIface, h, _ | .str, .nilPtr, h, _ | .str, .ptr _, h, _ => by simp [wt] at h
  | .uint _, .str _, h, _ | .uint _, .bool _, h, _ | .uint _, .bytes _, h, _ | .uint _, .id _, h, _
  | .uint _, .nilIface, h, _ | .uint _, .nilPtr, h, _ | .uint _, .ptr _, h, _ => by simp [wt] at h
  | .int _, .str _, h, _ | .int _, .bool _, h, _ | .int _, .bytes _, h, _ | .int _, .id _, h, _
  | .int _, .nilIface, h, _ | .int _, .nilPtr, h, _ | .int _, .ptr _, h, _ => by simp [wt] at h
  | .bool, .str _, h, _ | .bool, .num _, h, _ | .bool, .bytes _, h, _ | .bool, .id _, h, _
  | .bool, .nilIface, h, _ | .bool, .nilPtr, h, _ | .bool, .ptr _, h, _ => by simp [wt] at h
  | .bytes, .str _, h, _ | .bytes, .num _, h, _ | .bytes, .bool _, h, _ | .bytes, .id _, h, _
  | .bytes, .nilIface, h, _ | .bytes, .nilPtr, h, _ | .bytes, .ptr _, h, _ => by simp [wt] at h
  | .id, .str _, h, _ | .id, .num _, h, _ | .id, .bool _, h, _ | .id, .bytes _, h, _
  | .id, .nilIface, h, _ | .id, .nilPtr, h, _ | .id, .ptr _, h, _ => by simp [wt] at h
  | .iface, .str _, h, _ | .iface, .num _, h, _ | .iface, .bool _, h, _ | .iface, .bytes _, h, _
  | .iface, .id _, h, _ | .iface, .nilPtr, h, _ | .iface, .ptr _, h, _ => by simp [wt] at h
  | .ptr _, .str _, h, _ | .ptr _, .num _, h, _ | .ptr _, .bool _, h, _ | .ptr _, .bytes _, h, _
  | .ptr _, .id _, h, _ | .ptr _, .nilIface, h, _ => by simp [wt] at h
theorem rtF : ∀ (tf : TF) (vf : VF), wtF tf vf = true → okTF tf = true → AllRT tf vf
  | .nil, .nil, _, _ => trivial
  | .nil, .cons _ _, h, _ => by simp [wtF] at h
  | .cons _ _ _ _, .nil, h, _ => by simp [wtF] at h
  | .cons _ om ty rest, .cons v vs, hw, ho => by
    have hw1 : wt ty v = true ∧ wtF rest vs = true := by simpa [wtF] using hw
    have ho1 : okTy ty = true ∧ okTF rest = true := by simp [okTF] at ho; exact ⟨ho.1.1, ho.2⟩
    exact ⟨rt ty v hw1.1 ho1.1, rtF rest vs hw1.2 ho1.2⟩
end

end PsVerif.Proofs.RecordRT
