import PsVerif.Base
import PsVerif.Gen.Consts
import PsVerif.Model.Premium
/-
Model of the admission of an incoming swap request: the pre-checks of
SwapService.OnSwapInRequestReceived / OnSwapOutRequestReceived, message validation, lockSwap,
CheckRequestWrapperAction and the first action of the responder roles, in source order, as one decision
function.  uint64 products wrap as in Go.
-/
namespace PsVerif.Model
open PsVerif

structure NodeCfg where
  allowNew : Bool
  btcEnabled : Bool
  lbtcEnabled : Bool
  minMsat : Nat
  acceptAll : Bool
  allowlisted : Bool        -- the requesting peer is on the allowlist
  suspicious : Bool         -- the requesting peer is on the suspicious list
  walletAsset : String      -- liquid wallet's policy asset id
  walletNetwork : String    -- bitcoin wallet's network name
  rateBtc : Int             -- the rate this node charges the peer for BTC in the request's direction
  rateLbtc : Int            -- … and for L-BTC
  spendable : Nat           -- msat the channel can send
  receivable : Nat          -- msat the channel can receive
  probeOk : Bool
  channelBusy : Bool        -- another active swap already uses the channel
  balance : Nat             -- on-chain wallet balance in sat
  openingFee : Nat
  deriving Repr

structure Request where
  swapOut : Bool
  version : Nat
  asset : String
  network : String
  scidOk : Bool             -- validateScid accepts the scid
  pubkeyOk : Bool           -- 33-byte hex
  assetOk : Bool            -- 33-byte hex (only consulted when asset ≠ "")
  networkOk : Bool          -- one of the known network names (only when network ≠ "")
  amount : Nat
  premiumLimit : Int
  deriving Repr

inductive Verdict where
  | agreement (premium : Int)
  | cancel (reason : String)
  deriving DecidableEq, Repr

def reqChain (r : Request) : Gen.Chain :=
  if r.asset ≠ "" ∧ r.network = "" then .lbtc
  else if r.asset = "" ∧ r.network ≠ "" then .btc
  else .none

/-- message `Validate`: pubkey, exactly one of asset/network, their formats, scid -/
def validRequest (r : Request) : Bool :=
  r.pubkeyOk &&
  !((r.asset = "" ∧ r.network = "") ∨ (r.asset ≠ "" ∧ r.network ≠ "")) &&
  (r.asset = "" || r.assetOk) && (r.network = "" || r.networkOk) && r.scidOk

/-- the premium this node would charge: the service picks the L-BTC rate iff the network field is empty -/
def reqPremium (c : NodeCfg) (r : Request) : Int :=
  ppmCompute r.amount (if r.network = "" then c.rateLbtc else c.rateBtc)

/-- `amount * 1000` as the code computes it (uint64) -/
def reqMsat (r : Request) : Nat := wrapU64 (r.amount * 1000)

/-- the refusal conditions in the order the code evaluates them, each with the class of the cancel reason -/
def refusals (c : NodeCfg) (r : Request) : List (Bool × String) :=
  [ -- service pre-checks
    (decide (reqPremium c r > r.premiumLimit), "premium"),
    (!r.swapOut && decide (c.spendable < reqMsat r), "spendable"),
    (!r.swapOut && !c.probeOk, "probe"),
    (r.swapOut && decide (c.receivable < reqMsat r), "receivable"),
    (c.channelBusy, "active-swap"),
    -- SendEvent: message validation
    (!validRequest r, "invalid"),
    -- CheckRequestWrapperAction
    (!c.allowNew, "disabled"),
    (decide (reqChain r = .lbtc) && !c.lbtcEnabled, "lbtc-disabled"),
    (decide (reqChain r = .btc) && !c.btcEnabled, "btc-disabled"),
    (decide (r.version ≠ Gen.protocolVersion), "version"),
    (decide (reqMsat r < c.minMsat), "minimum"),
    (decide (r.asset ≠ "") && decide (r.asset ≠ c.walletAsset), "asset"),
    (decide (r.network ≠ "") && decide (r.network ≠ c.walletNetwork), "network"),
    (!(c.acceptAll || c.allowlisted), "not-allowed"),
    (c.suspicious, "suspicious"),
    -- swap-out responder: on-chain balance for amount + fee
    (r.swapOut && decide (c.balance < wrapU64 (r.amount + c.openingFee)), "balance") ]

def admission (c : NodeCfg) (r : Request) : Verdict :=
  match (refusals c r).find? (·.1) with
  | some x => .cancel x.2
  | none => .agreement (reqPremium c r)

/-! ### field formats (message `Validate`) -/

def hexDigit? (c : Char) : Bool :=
  ('0' ≤ c ∧ c ≤ '9') ∨ ('a' ≤ c ∧ c ≤ 'f') ∨ ('A' ≤ c ∧ c ≤ 'F')

/-- `hex.DecodeString`: number of bytes, `none` on odd length or a non-hex character -/
def hexLen (s : String) : Option Nat :=
  let l := s.toList
  if l.length % 2 == 1 ∨ !l.all hexDigit? then none else some (l.length / 2)

def knownNetwork (s : String) : Bool :=
  ["mainnet", "testnet", "testnet3", "testnet4", "signet", "regtest"].contains s

/-- `strconv.Atoi` accepts: optional sign, then decimal digits (underscores are not accepted in base 10),
    value within int64 -/
def atoiOk (l : List Char) : Bool :=
  let d := match l with
    | '+' :: r => r
    | '-' :: r => r
    | r => r
  !d.isEmpty && d.all (fun c => '0' ≤ c ∧ c ≤ '9') &&
    (d.foldl (fun acc c => acc * 10 + (c.toNat - '0'.toNat)) 0 ≤
      (match l with | '-' :: _ => 9223372036854775808 | _ => 9223372036854775807))

def splitOn (sep : Char) (l : List Char) : List (List Char) :=
  l.foldr (fun c acc => if c = sep then [] :: acc else match acc with
    | [] => [[c]]
    | h :: t => (c :: h) :: t) [[]]

/-- `validateScid`: separator is `x` if the string contains one, else `:`; exactly three parts; only the
    LAST part's Atoi error is looked at (the first two results are overwritten) -/
def scidValid (s : String) : Bool :=
  let l := s.toList
  let sep? := if l.contains 'x' then some 'x' else if l.contains ':' then some ':' else none
  match sep? with
  | none => false
  | some sep =>
    match splitOn sep l with
    | [_, _, c] => atoiOk c
    | _ => false

end PsVerif.Model
