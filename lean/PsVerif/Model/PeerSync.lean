import PsVerif.Base
/-
Model of peersync: the persistent peer table (peersync/store.go), the message handler
(message_handler.go: poll / request_poll), the poller (poller.go: poll rounds, requests to unknown connected
peers with the request rate limiter, cleanup of expired peers) and the compatibility query.

Time is a `Nat` of milliseconds.  The store is the only memory of peer state: every operation reads the
records, so the record round trip (`reload`) is part of every step.  `lastReq` is the poller's in-memory
request table (lost on restart).
-/
namespace PsVerif.Model.PeerSync

inductive Asset where
  | btc | lbtc
  deriving DecidableEq, Repr

structure Cap where
  version : Nat
  assets : List Asset
  allowed : Bool
  rates : List Int            -- btc in, btc out, lbtc in, lbtc out
  deriving DecidableEq, Repr

inductive Status where
  | unknown | active | expired
  deriving DecidableEq, Repr

structure PeerRec where
  cap : Option Cap
  status : Status
  lastPoll : Option Nat       -- none = the zero time
  lastObs : Option Nat
  deriving DecidableEq, Repr

structure Cfg where
  pollInterval : Nat
  timeout : Nat
  requestInterval : Nat
  ourVersion : Nat
  deriving DecidableEq, Repr

structure St where
  peers : List (String × PeerRec)      -- ordered by key, no duplicate keys
  lastReq : List (String × Nat)
  now : Nat
  connected : List String
  suspicious : List String
  deriving DecidableEq, Repr

inductive MsgType where
  | poll | requestPoll
  deriving DecidableEq, Repr

/-- `hasCapabilityData`: a stored record carries a capability only if some capability field is non-zero -/
def Cap.hasData (c : Cap) : Bool :=
  c.version != 0 || !c.assets.isEmpty || c.allowed || c.rates.any (· != 0)

/-- what `SavePeerState` followed by `GetPeerState` returns -/
def reload (r : PeerRec) : PeerRec :=
  { r with cap := match r.cap with
      | none => none
      | some c => if c.hasData then some c else none }

/-- `MergeCapabilities`: the newer poll wins unless it advertises a lower version -/
def merge (existing : Option Cap) (remote : Cap) : Cap :=
  match existing with
  | none => remote
  | some l => if remote.version < l.version then l else remote

def lookup (ps : List (String × PeerRec)) (k : String) : Option PeerRec :=
  (ps.find? (·.1 == k)).map (·.2)

/-- bbolt `Put`: replace in place or insert in key order -/
def put : List (String × PeerRec) → String → PeerRec → List (String × PeerRec)
  | [], k, r => [(k, r)]
  | (k', r') :: rest, k, r =>
    if k = k' then (k, r) :: rest
    else if k < k' then (k, r) :: (k', r') :: rest
    else (k', r') :: put rest k r

def newPeer : PeerRec := ⟨none, .unknown, none, none⟩

/-- `storeCapabilityMessage` for a payload that parsed to `c` -/
def storeCap (s : St) (src : String) (c : Cap) : St :=
  if s.suspicious.contains src then s
  else
    let old := (lookup s.peers src).getD newPeer
    { s with peers := put s.peers src (reload { old with cap := some (merge old.cap c), lastObs := some s.now, status := .active }) }

/-- an inbound message; `payload = none`: the payload does not parse (bad JSON, unknown asset, rate out of
    range).  Returns the messages sent. -/
def recv (s : St) (t : MsgType) (src : String) (payload : Option Cap) : St × List (String × MsgType) :=
  match t with
  | .poll => ((match payload with | none => s | some c => storeCap s src c), [])
  | .requestPoll =>
    if s.suspicious.contains src then (s, [])
    else ((match payload with | none => s | some c => storeCap s src c), [(src, .poll)])

/-- `ShouldPoll` -/
def shouldPoll (cfg : Cfg) (now : Nat) (r : PeerRec) : Bool :=
  r.status != .expired && (match r.lastPoll with | none => true | some t => now - t > cfg.pollInterval)

/-- `capabilityIsStale` -/
def isStale (cfg : Cfg) (now : Nat) (r : PeerRec) : Bool :=
  match r.lastObs with | none => false | some t => now - t > cfg.timeout / 2

/-- the known-peer half of `pollPeers`; `sendFails` lists peers the transport cannot reach -/
def pollKnown (cfg : Cfg) (s : St) (force : Bool) (sendFails : List String) :
    List (String × PeerRec) → List (String × PeerRec) × List (String × MsgType)
  | [] => ([], [])
  | (k, r) :: rest =>
    let (rest', sent) := pollKnown cfg s force sendFails rest
    if !force && !shouldPoll cfg s.now r then ((k, r) :: rest', sent)
    else if s.suspicious.contains k then ((k, r) :: rest', sent)
    else if sendFails.contains k then ((k, r) :: rest', sent)
    else ((k, reload { r with lastPoll := some s.now }) :: rest',
          (k, if isStale cfg s.now r then MsgType.requestPoll else MsgType.poll) :: sent)

/-- `allowRequest` -/
def allowRequest (cfg : Cfg) (lastReq : List (String × Nat)) (now : Nat) (force : Bool) (k : String) : Bool :=
  match (lastReq.find? (·.1 == k)) with
  | some (_, t) => force || !(now - t < cfg.requestInterval)
  | none => true

def setReq (lastReq : List (String × Nat)) (k : String) (t : Nat) : List (String × Nat) :=
  (k, t) :: lastReq.filter (·.1 != k)

/-- `requestUnknownConnectedPeers` over the connected peers: the attempt is recorded even when the send fails -/
def requestUnknown (cfg : Cfg) (now : Nat) (force : Bool) (known suspicious sendFails : List String) :
    List (String × Nat) → List String → List (String × Nat) × List (String × MsgType)
  | lr, [] => (lr, [])
  | lr, k :: rest =>
    if known.contains k || suspicious.contains k then requestUnknown cfg now force known suspicious sendFails lr rest
    else if allowRequest cfg lr now force k then
      ((requestUnknown cfg now force known suspicious sendFails (setReq lr k now) rest).1,
       (if sendFails.contains k then [] else [(k, MsgType.requestPoll)]) ++
         (requestUnknown cfg now force known suspicious sendFails (setReq lr k now) rest).2)
    else requestUnknown cfg now force known suspicious sendFails lr rest

/-- the connected peers as a set (the code iterates a map keyed by peer id) -/
def dedup : List String → List String
  | [] => []
  | k :: r => if r.contains k then dedup r else k :: dedup r

/-- one poll round (`pollPeers`) -/
def round (cfg : Cfg) (s : St) (force : Bool) (sendFails : List String) (listFails : Bool) :
    St × List (String × MsgType) :=
  let (peers', sent1) := pollKnown cfg s force sendFails s.peers
  if listFails then ({ s with peers := peers' }, sent1)
  else
    let pruned := s.lastReq.filter (fun e => s.connected.contains e.1)
    let (lr, sent2) := requestUnknown cfg s.now force (s.peers.map (·.1)) s.suspicious sendFails pruned (dedup s.connected)
    ({ s with peers := peers', lastReq := lr }, sent1 ++ sent2)

/-! ### the poll round in steps

A send takes up to seconds and the message handler runs on another goroutine: messages from a peer are
stored WHILE a round is under way.  The round reads the table once (the snapshot), decides from the
snapshot whom to poll, and after every successful send records the poll time.  `markStored` is what the
code does since fix 55c208f (`Store.UpdatePeerState`: one write transaction re-reads the record);
`markSnapshot` is what it did before (the copy loaded before the send is written back). -/

inductive IlOp where
  | recv (t : MsgType) (src : String) (p : Option Cap)   -- a message handled by the message handler
  | mark (k : String)                                     -- the round records the poll time of `k`
  | send (k : String) (t : MsgType)                       -- the round sends
  deriving DecidableEq, Repr

def markStored (s : St) (k : String) : St :=
  match lookup s.peers k with
  | none => s
  | some r => { s with peers := put s.peers k (reload { r with lastPoll := some s.now }) }

def markSnapshot (s : St) (k : String) (r : PeerRec) : St :=
  { s with peers := put s.peers k (reload { r with lastPoll := some s.now }) }

def ilStep (s : St) : IlOp → St × List (String × MsgType)
  | .recv t src p => recv s t src p
  | .mark k => (markStored s k, [])
  | .send k t => (s, [(k, t)])

def runIl : St → List IlOp → St × List (String × MsgType)
  | s, [] => (s, [])
  | s, op :: rest => ((runIl (ilStep s op).1 rest).1, (ilStep s op).2 ++ (runIl (ilStep s op).1 rest).2)

/-- a message that is handled while the round is sending to its source -/
abbrev During := Option (MsgType × String × Option Cap)

def duringOps (d : During) (k : String) : List IlOp :=
  match d with
  | some (t, src, p) => if src = k then [.recv t src p] else []
  | none => []

/-- the known-peer half of `pollPeers` as a schedule: every decision is taken from the snapshot -/
def knownSchedule (cfg : Cfg) (now : Nat) (susp : List String) (force : Bool) (sendFails : List String) (d : During) :
    List (String × PeerRec) → List IlOp
  | [] => []
  | (k, r) :: rest =>
    if !force && !shouldPoll cfg now r then knownSchedule cfg now susp force sendFails d rest
    else if susp.contains k then knownSchedule cfg now susp force sendFails d rest
    else if sendFails.contains k then knownSchedule cfg now susp force sendFails d rest
    else IlOp.send k (if isStale cfg now r then MsgType.requestPoll else MsgType.poll) :: (duringOps d k ++
          (IlOp.mark k :: knownSchedule cfg now susp force sendFails d rest))

/-- one poll round with (at most) one message handled during a send to its source -/
def roundIl (cfg : Cfg) (s : St) (force : Bool) (sendFails : List String) (listFails : Bool) (d : During) :
    St × List (String × MsgType) :=
  let r1 := runIl s (knownSchedule cfg s.now s.suspicious force sendFails d s.peers)
  if listFails then r1
  else
    let pruned := s.lastReq.filter (fun e => s.connected.contains e.1)
    let r2 := requestUnknown cfg s.now force (s.peers.map (·.1)) s.suspicious sendFails pruned (dedup s.connected)
    let s2 : St := { r1.1 with lastReq := r2.1 }
    let r3 : St × List (String × MsgType) := match d with
      | some (t, src, p) => if r2.2.any (·.1 == src) then recv s2 t src p else (s2, [])
      | none => (s2, [])
    (r3.1, r1.2 ++ r2.2 ++ r3.2)

/-- `IsExpired` -/
def isExpired (cfg : Cfg) (now : Nat) (r : PeerRec) : Bool :=
  match r.lastObs with | none => false | some t => now - t > cfg.timeout

/-- `cleanupExpired`: connected peers are kept; the others are removed when expired, rewritten otherwise -/
def cleanup (cfg : Cfg) (s : St) (listFails : Bool) : St :=
  if listFails then s
  else { s with peers := (s.peers.filter fun e => s.connected.contains e.1 || !isExpired cfg s.now e.2).map
                   fun e => if s.connected.contains e.1 then e else (e.1, reload e.2) }

/-- `HasCompatiblePeer` -/
def compatible (cfg : Cfg) (s : St) (k : String) : Bool :=
  match lookup s.peers k with
  | some r => (match r.cap with | some c => c.version == cfg.ourVersion | none => false)
  | none => false

/-- a new process on the same store -/
def restart (s : St) : St := { s with lastReq := [], peers := s.peers.map fun e => (e.1, reload e.2) }

end PsVerif.Model.PeerSync
