import PsVerif.Base
import PsVerif.Model.Premium
/-
Model of the amount arithmetic of a swap: SwapData.GetClaimAmount / GetOpeningTXAmount (with the
`uint64(int64(amount) + premium)` casts), CheckPremiumAmount, the bounds of PayFeeInvoiceAction, the
premium limit the initiator puts into its request, and the invoice amount checks.
-/
namespace PsVerif.Model
open PsVerif

/-- `uint64(int64(a) + p)` -/
def addPremium (amount : Nat) (premium : Int) : Nat := wrapU64i (wrapI64 (u64ToI64 amount + premium))

/-- the limit an initiator sends: `premium.NewPPM(limitPpm).Compute(amount)` -/
def premiumLimit (amount : Nat) (limitPpm : Int) : Int := ppmCompute amount limitPpm

/-- swap-out: what the initiator (taker) is asked to pay over Lightning for the claim -/
def claimAmountOut (amount : Nat) (premium : Int) : Nat := addPremium amount premium
/-- swap-in: what the initiator (maker) locks on-chain -/
def openingAmountIn (amount : Nat) (premium : Int) : Nat := addPremium amount premium

inductive FeeVerdict where
  | pay | premiumTooHigh | premiumTooLow | notEnoughSpendable | feeTooHigh
  deriving DecidableEq, Repr

/-- `checkPremiumLowerBound` (since /repo fix "refuse a premium that takes the whole amount away"):
    `amount > MaxInt64 || premium <= -int64(amount)` -/
def premiumTooLow (amount : Nat) (premium : Int) : Bool :=
  decide (amount > 9223372036854775807) || decide (premium ≤ wrapI64 (-(u64ToI64 amount)))

/-- swap-out initiator on receipt of the agreement: CheckPremiumAmount then the bounds of
    PayFeeInvoiceAction.  `expectedFee` is the node's own opening-fee estimate; `uint64(float64(e)*3)` is
    exact for e < 2^51 (assumed by the callers of the theorems, named there). -/
def feeDecision (amount : Nat) (premium limit : Int) (feeMsat spendable expectedFee : Nat) : FeeVerdict :=
  if premium > limit then .premiumTooHigh
  else if premiumTooLow amount premium then .premiumTooLow
  else if spendable < wrapU64 (wrapU64 (amount * 1000) + feeMsat) then .notEnoughSpendable
  else if feeMsat / 1000 > expectedFee * 3 then .feeTooHigh
  else .pay

/-- swap-in initiator on receipt of the agreement: CheckPremiumAmount, then it locks `openingAmountIn` and
    asks for `amount*1000` msat -/
def inDecision (amount : Nat) (premium limit : Int) : Option (Nat × Nat) :=
  if premium > limit then none
  else if premiumTooLow amount premium then none
  else some (openingAmountIn amount premium, wrapU64 (amount * 1000))

end PsVerif.Model
