import PsVerif.Base
import PsVerif.Gen.Consts
/-
Model of version/compare.go (CompareVersionStrings) and onchain/fee_floor.go (DetermineFeeFloor),
and of the fee-rate selection of onchain.(*BitcoinOnChain).GetFee.
Strings are lists of characters; only ASCII digits count as digits (Go RE2 `[0-9]`, `\d`).
-/
namespace PsVerif.Model
open PsVerif

def isDigit (c : Char) : Bool := '0' ≤ c ∧ c ≤ '9'
def digitVal (c : Char) : Nat := c.toNat - '0'.toNat

/-- maximal digit runs, left to right (`regexp [0-9]+`, FindAllString); `acc` is the current run reversed -/
def digitRunsAux : List Char → List Char → List (List Char)
  | [], acc => if acc.isEmpty then [] else [acc.reverse]
  | c :: cs, acc =>
    if isDigit c then digitRunsAux cs (c :: acc)
    else if acc.isEmpty then digitRunsAux cs []
    else acc.reverse :: digitRunsAux cs []

def digitRuns (l : List Char) : List (List Char) := digitRunsAux l []

def runValue (r : List Char) : Nat := r.foldl (fun acc c => acc * 10 + digitVal c) 0

/-- `strconv.Atoi` on a digit run: error when the value exceeds `MaxInt64` -/
def atoi (r : List Char) : Option Nat :=
  let v := runValue r
  if v > 9223372036854775807 then none else some v

def padTo (n : Nat) (l : List (List Char)) : List (List Char) :=
  l ++ List.replicate (n - l.length) ['0']

/-- lexicographic `a ≥ b` on equally long numeric lists, as the loop in the Go code -/
def geLex : List Nat → List Nat → Bool
  | a :: as, b :: bs => if b > a then false else if a > b then true else geLex as bs
  | _, _ => true

/-- interleaved conversion exactly as the Go loop does it (first failing Atoi aborts) -/
def convertBoth : List (List Char) → List (List Char) → Option (List Nat × List Nat)
  | a :: as, b :: bs =>
    match atoi a with
    | none => none
    | some x =>
      match atoi b with
      | none => none
      | some y => (convertBoth as bs).map fun (xs, ys) => (x :: xs, y :: ys)
  | _, _ => some ([], [])

/-- `CompareVersionStrings(a, b)`: `some true` iff a ≥ b, `none` = error -/
def compareVersions (a b : String) : Option Bool :=
  let pa := digitRuns a.toList
  let pb := digitRuns b.toList
  let n := max pa.length pb.length
  (convertBoth (padTo n pa) (padTo n pb)).map fun (xs, ys) => geLex xs ys

/-- the digits at the head of a list -/
def takeDigits (l : List Char) : List Char := l.takeWhile isDigit
def dropDigits (l : List Char) : List Char := l.dropWhile isDigit

/-- drop everything before the first digit -/
def dropToDigit (l : List Char) : List Char := l.dropWhile (fun c => !isDigit c)

/-- `normalizeBitcoinVersion`: (major, minor) of the leftmost match of `(\d+)(?:\.(\d+))?(?:\.(\d+))?`;
    `none` when there is no digit or the major run overflows `int`; an overflowing minor run counts as 0. -/
def bitcoinVersion (s : String) : Option (Nat × Nat) :=
  let l := dropToDigit s.toList
  match l with
  | [] => none
  | _ =>
    match atoi (takeDigits l) with
    | none => none
    | some major =>
      let rest := dropDigits l
      match rest with
      | '.' :: r =>
        let m := takeDigits r
        if m.isEmpty then some (major, 0) else some (major, (atoi m).getD 0)
      | _ => some (major, 0)

/-- `DetermineFeeFloor` (first component) -/
def feeFloor (s : String) : Nat :=
  match bitcoinVersion s with
  | none => Gen.legacyFeeFloor
  | some (major, minor) =>
    if major > 29 ∨ (major = 29 ∧ minor ≥ 2) then Gen.modernFeeFloor else Gen.legacyFeeFloor

/-- the estimate after the fallback rule of `GetFee`: error or zero → configured fallback -/
def feeEstimate (est : Option Int) (fallback : Int) : Int :=
  match est with
  | none => fallback
  | some e => if e = 0 then fallback else e

/-- the fee rate `GetFee` uses, in sat/kw: `est = none` is an estimator error -/
def feeRate (est : Option Int) (fallback floor : Int) : Int :=
  if feeEstimate est fallback < floor then floor else feeEstimate est fallback

end PsVerif.Model
