import PsVerif.Base
import PsVerif.Gen.Consts
/-
Model of messages/types.go (type numbers, hex conversion) and of the guards at the top of
swap.(*SwapService).OnMessageReceived.
-/
namespace PsVerif.Model
open PsVerif

def hexDigitVal? (c : Char) : Option Nat :=
  if '0' ≤ c ∧ c ≤ '9' then some (c.toNat - '0'.toNat)
  else if 'a' ≤ c ∧ c ≤ 'f' then some (c.toNat - 'a'.toNat + 10)
  else if 'A' ≤ c ∧ c ≤ 'F' then some (c.toNat - 'A'.toNat + 10)
  else none

def hexValue? : List Char → Nat → Option Nat
  | [], acc => some acc
  | c :: cs, acc => match hexDigitVal? c with
    | none => none
    | some d => hexValue? cs (acc * 16 + d)

/-- `strconv.ParseInt(s, 16, 64)`: optional sign, at least one hex digit, no underscores, range check -/
def parseInt16 (s : String) : Option Int :=
  let l := s.toList
  let (neg, digits) := match l with
    | '+' :: r => (false, r)
    | '-' :: r => (true, r)
    | r => (false, r)
  if digits.isEmpty then none else
  match hexValue? digits 0 with
  | none => none
  | some v =>
    if neg then (if v > 9223372036854775808 then none else some (-(Int.ofNat v)))
    else (if v > 9223372036854775807 then none else some (Int.ofNat v))

def hexDigitChar (n : Nat) : Char :=
  if n < 10 then Char.ofNat (n + '0'.toNat) else Char.ofNat (n - 10 + 'a'.toNat)

def natToHexAux : Nat → Nat → List Char → List Char
  | 0, _, acc => acc
  | fuel + 1, n, acc => if n < 16 then hexDigitChar n :: acc else natToHexAux fuel (n / 16) (hexDigitChar (n % 16) :: acc)

/-- `strconv.FormatInt(n, 16)` for the 64-bit range -/
def toHex (i : Int) : String :=
  if i < 0 then String.ofList ('-' :: natToHexAux 17 i.natAbs []) else String.ofList (natToHexAux 17 i.toNat [])

def peerswapTypes : List Nat := Gen.msgTypes.map (·.2)

inductive TypeClass where
  | parseError            -- not a hexadecimal int64: handler returns an error
  | notPeerswap           -- a number outside the nine: ignored
  | peerswap (t : Nat)
  deriving DecidableEq, Repr

/-- `messages.PeerswapCustomMessageType` -/
def classifyType (s : String) : TypeClass :=
  match parseInt16 s with
  | none => .parseError
  | some v => if v ≥ 0 ∧ peerswapTypes.contains v.toNat then .peerswap v.toNat else .notPeerswap

inductive Routing where
  | tooLarge | typeError | ignored | decode (t : Nat)
  deriving DecidableEq, Repr

def maxPayload : Nat := 100 * 1024

/-- the guards of `OnMessageReceived` in source order; only `decode t` goes on to JSON decoding and the
    swap lookup, every other result returns before any swap, store or messenger is touched.  The two poll
    types are peerswap types but the swap service's switch ignores them. -/
def routeMessage (payloadLen : Nat) (typeStr : String) : Routing :=
  if payloadLen > maxPayload then .tooLarge
  else match classifyType typeStr with
    | .parseError => .typeError
    | .notPeerswap => .ignored
    | .peerswap t => if (Gen.msgTypeOf.map (·.2.1)).contains t then .decode t else .ignored

end PsVerif.Model
