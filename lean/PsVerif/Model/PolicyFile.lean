import PsVerif.Base
/-
Model of policy/policy.go: the policy file as a list of lines, the go-flags ini reader for the line
shapes that occur (comments, blank lines, section headers, key=value with optional simple quoting),
and the runtime operations, each of which edits the file textually and then reloads it.

Strings are `List Char` (`Str`).  The file is `lines` (without line terminators) plus `terminated` (the
last line ends with a newline).  `addLineToFile` appends `line ++ "\n"` to the raw bytes: onto a file whose
last line is not terminated this GLUES the new text to that line.
-/
namespace PsVerif.Model.PolicyFile
open PsVerif

abbrev Str := List Char

structure Policy where
  allow : List Str
  susp : List Str
  acceptAll : Bool
  minMsat : Nat
  reserve : Nat
  allowNew : Bool
  deriving DecidableEq, Repr

def Policy.default : Policy := ⟨[], [], false, 100000000, 0, true⟩

structure File where
  lines : List Str
  terminated : Bool
  deriving DecidableEq, Repr

def kAllow : Str := ['a','l','l','o','w','l','i','s','t','e','d','_','p','e','e','r','s']
def kAllowF : Str := ['P','e','e','r','A','l','l','o','w','l','i','s','t']
def kSusp : Str := ['s','u','s','p','i','c','i','o','u','s','_','p','e','e','r','s']
def kSuspF : Str := ['S','u','s','p','i','c','i','o','u','s','P','e','e','r','L','i','s','t']
def kAcc : Str := ['a','c','c','e','p','t','_','a','l','l','_','p','e','e','r','s']
def kAccF : Str := ['A','c','c','e','p','t','A','l','l','P','e','e','r','s']
def kNew : Str := ['a','l','l','o','w','_','n','e','w','_','s','w','a','p','s']
def kNewF : Str := ['A','l','l','o','w','N','e','w','S','w','a','p','s']
def kMin : Str := ['m','i','n','_','s','w','a','p','_','a','m','o','u','n','t','_','m','s','a','t']
def kMinF : Str := ['M','i','n','S','w','a','p','A','m','o','u','n','t','M','s','a','t']
def kRes : Str := ['r','e','s','e','r','v','e','_','o','n','c','h','a','i','n','_','m','s','a','t']
def kResF : Str := ['R','e','s','e','r','v','e','O','n','c','h','a','i','n','M','s','a','t']
def vTrue : Str := ['t','r','u','e']
def vFalse : Str := ['f','a','l','s','e']

def isSpace (c : Char) : Bool := c = ' ' || c = '\t' || c = '\r' || c = '\n' || c.toNat = 11 || c.toNat = 12

def trimL (l : Str) : Str := l.dropWhile isSpace
def trimR (l : Str) : Str := (l.reverse.dropWhile isSpace).reverse
/-- strings.TrimSpace (ASCII white space) -/
def trim (l : Str) : Str := trimL (trimR l)

def parseBool (s : Str) : Option Bool :=
  if s = [] then some true
  else if [['1'], ['t'], ['T'], ['T','R','U','E'], ['t','r','u','e'], ['T','r','u','e']].contains s then some true
  else if [['0'], ['f'], ['F'], ['F','A','L','S','E'], ['f','a','l','s','e'], ['F','a','l','s','e']].contains s then some false
  else none

def isDigit (c : Char) : Bool := '0' ≤ c ∧ c ≤ '9'

def parseUint (l : Str) : Option Nat :=
  if l.isEmpty || !l.all isDigit then none
  else if l.foldl (fun a c => a * 10 + (c.toNat - '0'.toNat)) 0 > 18446744073709551615 then none
  else some (l.foldl (fun a c => a * 10 + (c.toNat - '0'.toNat)) 0)

/-- splitting at the first '=' -/
def splitEq : Str → Option (Str × Str)
  | [] => none
  | c :: cs => if c = '=' then some ([], cs) else (splitEq cs).map fun kv => (c :: kv.1, kv.2)

/-- value unquoting for the simple case: a leading '"' requires a closing '"' with no quote, backslash
    or control character inside (escapes are outside the model; the harness does not generate them) -/
def unquote (v : Str) : Option Str :=
  match v with
  | '"' :: rest =>
    match rest.reverse with
    | '"' :: innerRev =>
      if innerRev.any (fun c => c = '"' || c = '\\' || c.toNat < 32 || c.toNat = 127) then none else some innerRev.reverse
    | _ => none
  | _ => some v

structure PState where
  pol : Policy
  inSection : Bool           -- after a [section] header: entries belong to a group that does not exist
  allowCleared : Bool        -- go-flags clears a slice option on its first assignment
  suspCleared : Bool
  deriving DecidableEq, Repr

def PState.init : PState := ⟨Policy.default, false, false, false⟩

/-- the option a key names: the `long` name or the Go field name, exactly (go-flags `optionByName`) -/
inductive Field where
  | allow | susp | acc | new | min | res | unknown
  deriving DecidableEq, Repr

def keyField (k : Str) : Field :=
  if k = kAllow ∨ k = kAllowF then .allow
  else if k = kSusp ∨ k = kSuspF then .susp
  else if k = kAcc ∨ k = kAccF then .acc
  else if k = kNew ∨ k = kNewF then .new
  else if k = kMin ∨ k = kMinF then .min
  else if k = kRes ∨ k = kResF then .res
  else .unknown

/-- assignment of a key (outside any section) -/
def assign (st : PState) (key value : Str) : Option PState :=
  match keyField key with
  | .allow =>
    some { st with pol := { st.pol with allow := (if st.allowCleared then st.pol.allow else []) ++ [value] }, allowCleared := true }
  | .susp =>
    some { st with pol := { st.pol with susp := (if st.suspCleared then st.pol.susp else []) ++ [value] }, suspCleared := true }
  | .acc => (parseBool value).map fun b => { st with pol := { st.pol with acceptAll := b } }
  | .new => (parseBool value).map fun b => { st with pol := { st.pol with allowNew := b } }
  | .min => (parseUint value).map fun n => { st with pol := { st.pol with minMsat := n } }
  | .res => (parseUint value).map fun n => { st with pol := { st.pol with reserve := n } }
  | .unknown => some st       -- unknown keys are ignored (IgnoreUnknown)

/-- what a line means to the ini reader -/
inductive Act where
  | skip                      -- blank or comment
  | header                    -- [section]
  | kv (k v : Str)            -- key = value (trimmed, unquoted)
  deriving DecidableEq, Repr

def classifyKV (l : Str) : Option Act :=
  match splitEq l with
  | none => none
  | some (k, v) => (unquote (trim v)).map fun val => Act.kv (trim k) val

/-- reading one line; `none` = the reader rejects the file -/
def classifyT (t : Str) : Option Act :=
  match t with
  | [] => some .skip
  | c :: cs =>
    if c = ';' ∨ c = '#' then some .skip
    else if c = '[' then
      if (c :: cs).getLast? ≠ some ']' then none
      else if (trim cs.dropLast).isEmpty then none
      else some .header
    else classifyKV (c :: cs)

def classify (line : Str) : Option Act := classifyT (trim line)

def applyAct (st : PState) : Act → Option PState
  | .skip => some st
  | .header => some { st with inSection := true }
  | .kv k v => if st.inSection then some st else assign st k v

/-- one line of the file; `none` = the reader or a conversion fails (the whole load fails) -/
def stepLine (st : PState) (line : Str) : Option PState := (classify line).bind (applyAct st)

def parseLines : PState → List Str → Option PState
  | st, [] => some st
  | st, l :: ls => match stepLine st l with
    | none => none
    | some st' => parseLines st' ls

def parse (f : File) : Option Policy := (parseLines PState.init f.lines).map (·.pol)

/-- `addLineToFile`: the option goes on its own line (a missing final newline is supplied first) -/
def addLine (f : File) (line : Str) : File := ⟨f.lines ++ [line], true⟩

/-- bufio.ScanLines drops one trailing carriage return -/
def stripCR (l : Str) : Str := if l.getLast? = some '\r' then l.dropLast else l

/-- `sameOption`: the line sets option `key` to `value` as the ini reader reads it -/
def sameOption (text key value : Str) : Bool :=
  text = key ++ '=' :: value ||
  match splitEq (trim text) with
  | none => false
  | some (k, v) => trim k = key && (unquote (trim v)).getD (trim v) = value

/-- `removeLineFromFile`: drops every line that sets the option, rewrites all kept lines terminated -/
def removeLine (f : File) (key value : Str) : File :=
  ⟨(f.lines.map stripCR).filter (fun l => !sameOption l key value),
   !((f.lines.map stripCR).filter (fun l => !sameOption l key value)).isEmpty⟩

def isHexLower (c : Char) : Bool := ('0' ≤ c ∧ c ≤ '9') || ('a' ≤ c ∧ c ≤ 'f')
/-- `isValidPubkey`: ^[0-9a-f]{66}?\z — 66 lower-case hex characters -/
def validPubkey (s : Str) : Bool := s.length = 66 && s.all isHexLower

def allowLine (pk : Str) : Str := kAllow ++ '=' :: pk
def suspLine (pk : Str) : Str := kSusp ++ '=' :: pk
def boolStr (b : Bool) : Str := if b then vTrue else vFalse
def newLine (b : Bool) : Str := kNew ++ '=' :: boolStr b

structure St where
  file : File
  mem : Policy
  hasPath : Bool
  deriving DecidableEq, Repr

inductive R where
  | ok | errDup | errInvalid | errAbsent | errNoFile | errReload
  deriving DecidableEq, Repr

/-- `ReloadFile` -/
def reload (s : St) : St × R :=
  if !s.hasPath then (s, .errNoFile)
  else match parse s.file with
    | none => (s, .errReload)
    | some p => ({ s with mem := p }, .ok)

def addAllow (s : St) (pk : Str) : St × R :=
  if s.mem.allow.contains pk then (s, .errDup)
  else if !s.hasPath then (s, .errNoFile)
  else if !validPubkey pk then (s, .errInvalid)
  else reload { s with file := addLine s.file (allowLine pk) }

def addSusp (s : St) (pk : Str) : St × R :=
  if s.mem.susp.contains pk then (s, .errDup)
  else if !s.hasPath then (s, .errNoFile)
  else if !validPubkey pk then (s, .errInvalid)
  else reload { s with file := addLine s.file (suspLine pk) }

def removeAllow (s : St) (pk : Str) : St × R :=
  if !validPubkey pk then (s, .errInvalid)
  else if !s.mem.allow.contains pk then (s, .errAbsent)
  else if !s.hasPath then (s, .errNoFile)
  else reload { s with file := removeLine s.file kAllow pk }

def removeSusp (s : St) (pk : Str) : St × R :=
  if !validPubkey pk then (s, .errInvalid)
  else if !s.mem.susp.contains pk then (s, .errAbsent)
  else if !s.hasPath then (s, .errNoFile)
  else reload { s with file := removeLine s.file kSusp pk }

/-- `DisableSwaps` / `EnableSwaps` (the file helpers fail on an empty path: nothing changes) -/
def setNew (s : St) (b : Bool) : St × R :=
  if s.mem.allowNew = b then (s, .ok)
  else if !s.hasPath then (s, .errNoFile)
  else reload { s with file := addLine (removeLine s.file kNew (boolStr (!b))) (newLine b) }

inductive Op where
  | addAllow (pk : Str) | addSusp (pk : Str) | removeAllow (pk : Str) | removeSusp (pk : Str)
  | setNew (b : Bool) | reload
  deriving DecidableEq, Repr

def step (s : St) : Op → St × R
  | .addAllow pk => addAllow s pk
  | .addSusp pk => addSusp s pk
  | .removeAllow pk => removeAllow s pk
  | .removeSusp pk => removeSusp s pk
  | .setNew b => setNew s b
  | .reload => reload s

/-- the answers the next request sees -/
def isPeerAllowed (p : Policy) (peer : Str) : Bool := p.acceptAll || p.allow.contains peer
def isPeerSuspicious (p : Policy) (peer : Str) : Bool := p.susp.contains peer

end PsVerif.Model.PolicyFile
