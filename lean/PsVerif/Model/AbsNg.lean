import PsVerif.Model.Abs
/-
Abstraction for the negotiation phase (C17: waits are bounded by timeouts, also after restarts).

Flags (packed into one number, see AbsMk for the reason):
  timerArmed   a negotiation timer for this swap is pending in the timeout service (volatile: lost at restart)
  requestSent  the node's request or agreement for this swap went out to the peer
  cancelTried  the swap went through State_SendCancel (a cancel message was handed to the messenger)
  cancelRecv   the peer's cancel is in the record
  unknownAct   an action chain without a summary was executed
-/
namespace PsVerif.Model.AbsNg
open PsVerif.Gen PsVerif.Model.Abs

structure F where
  bits : Nat
  deriving DecidableEq, Repr

namespace F
def bit (f : F) (i : Nat) : Bool := f.bits.testBit i
def setBit (f : F) (i : Nat) (b : Bool) : F :=
  if b then ⟨f.bits ||| (1 <<< i)⟩ else ⟨f.bits &&& ((1 <<< 8) - 1 - (1 <<< i))⟩
def timerArmed (f : F) := f.bit 0
def requestSent (f : F) := f.bit 1
def cancelTried (f : F) := f.bit 2
def cancelRecv (f : F) := f.bit 3
def unknownAct (f : F) := f.bit 4
def setTimerArmed (f : F) (b : Bool) := f.setBit 0 b
def setRequestSent (f : F) (b : Bool) := f.setBit 1 b
def setCancelTried (f : F) (b : Bool) := f.setBit 2 b
def setCancelRecv (f : F) (b : Bool) := f.setBit 3 b
def setUnknownAct (f : F) (b : Bool) := f.setBit 4 b
def init : F := ⟨0⟩
end F

def okFail (f : F) : List (Ev × F) := [(E_ActionSucceeded, f), (E_ActionFailed, f)]

/-- states whose SendMessageAction sends the node's request / agreement -/
def sendsOffer (s : St) : Bool :=
  s == .State_SwapOutSender_SendRequest || s == .State_SwapInSender_SendRequest ||
  s == .State_SwapOutReceiver_SendFeeInvoice || s == .State_SwapInReceiver_SendAgreement

def outcomes (s : St) (acts : List Act) (f : F) : List (Ev × F) :=
  match acts with
  | [.NoOpAction] | [.AwaitFeeInvoicePayment] => [(E_NoOp, f)]
  -- the three actions that create a request / agreement arm the 10-minute timer on success
  | [.CreateSwapRequestAction] | [.SetBlindingKeyActionWrapper, .CreateSwapRequestAction]
  | [.CheckRequestWrapperAction, .SwapInReceiverInitAction]
  | [.CheckRequestWrapperAction, .SetBlindingKeyActionWrapper, .CreateSwapOutFromRequestAction] =>
      [(E_ActionSucceeded, f.setTimerArmed true), (E_ActionFailed, f)]
  | [.SendMessageAction] =>
      [(E_ActionSucceeded, if sendsOffer s then f.setRequestSent true else f), (E_ActionFailed, f)]
  | [.SendCancelAction] => okFail (f.setCancelTried true)
  | [.CheckPremiumAmount, .PayFeeInvoiceAction] | [.CheckPremiumAmount, .CreateAndBroadcastOpeningTransaction]
  | [.CreateAndBroadcastOpeningTransaction] | [.SendMessageWithRetryAction] | [.TakerSendPrivkeyAction]
  | [.ValidateTxAndPayClaimInvoiceAction] => okFail f
  | [.SetStartingBlockHeightAction] | [.AwaitTxConfirmationAction]
  | [.StopSendMessageWithRetryWrapperAction, .AwaitTxConfirmationAction] => [(E_NoOp, f), (E_ActionFailed, f), (E_OnTxConfirmed, f)]
  | [.AwaitPaymentOrCsvAction] | [.StopSendMessageWithRetryWrapperAction, .AwaitCsvAction] => [(E_NoOp, f), (E_ActionFailed, f)]
  | [.ClaimSwapTransactionWithPreimageAction] | [.StopSendMessageWithRetryWrapperAction, .ClaimSwapTransactionWithCsv] =>
      [(E_ActionSucceeded, f), (E_OnRetry, f)]
  | [.StopSendMessageWithRetryWrapperAction, .ClaimSwapTransactionCoop] => okFail f
  | [.CancelAction] | [.NoOpDoneAction] | [.AddSuspiciousPeerAction, .NoOpDoneAction] => [(E_Done, f)]
  | _ => Ev.all.map fun ev => (ev, f.setUnknownAct true)

def extEvents : List Ev :=
  [E_OnCancelReceived, E_OnCoopCloseReceived, E_OnFeeInvoiceReceived, E_OnTxOpenedMessage,
   E_SwapInSender_OnAgreementReceived, E_OnInvalid_Message, E_OnTimeout, E_OnFeeInvoicePaid,
   E_OnClaimInvoicePaid, E_OnCsvPassed, E_OnTxConfirmed, E_ActionFailed,
   E_OnSwapOutStarted, E_SwapInSender_OnSwapInRequested, E_OnSwapOutRequestReceived, E_SwapInReceiver_OnRequestReceived]

/-- the timeout callback runs only for an armed timer and consumes it; a cancel message is recorded -/
def applyCtx (ev : Ev) (f : F) : Option F :=
  if ev == E_OnTimeout then (if f.timerArmed then some (f.setTimerArmed false) else none)
  else if ev == E_OnCancelReceived then some (f.setCancelRecv true)
  else some f

def sys (tb : List Row) : Sys F :=
  { table := tb
    applyCtx := applyCtx
    outcomes := outcomes
    -- the process can die after the offer left the node and before the next persist
    crashIn := fun s acts f => if acts == [.SendMessageAction] && sendsOffer s then [f, f.setRequestSent true] else [f]
    restart := fun f => f.setTimerArmed false
    env := fun _ => []
    ext := extEvents
    init := F.init }

def awaitStates : List St :=
  [.State_SwapOutSender_AwaitAgreement, .State_SwapInSender_AwaitAgreement, .State_SwapOutReceiver_AwaitFeeInvoicePayment]

/-- a swap resting in a negotiation wait has its timer armed (so the wait is bounded) -/
def waitBounded (m : MC F) : Bool :=
  !(m.alive && m.pend.isNone && m.active && awaitStates.contains m.st) || m.f.timerArmed

/-- a swap that was offered to the peer and then cancelled by this node went through SendCancel -/
def peerTold (m : MC F) : Bool :=
  !(m.st == .State_SwapCanceled && m.f.requestSent && !m.f.cancelRecv) || m.f.cancelTried

end PsVerif.Model.AbsNg
