import PsVerif.Model.Abs
/-
Abstraction for C06 (a taker never reveals its key once its claim payment may have gone out).

Flags:
  paid         the node's claim payment for this swap SUCCEEDED (Lightning payment table; environment)
  pending      an HTLC of a claim payment attempt is still outstanding (environment)
  revealed     a coop_close carrying the swap private key has left the node (environment)
  preimageRec  the persisted record holds the claim preimage (SwapData.ClaimPreimage != "")
  nextIsCoop   the persisted NextMessage is the coop_close built by TakerSendPrivkeyAction
  unknownAct   an action chain without a summary was executed (makes every property check fail)

`Backend` restricts what the environment may do; everything else is left open (the model is the
UNION of the behaviours of a back-end that refuses to pay a hash twice (LND-like) and one that returns
the existing result (CLN sendpay-like), and of protocol-7 swaps (may create a payment) and legacy Liquid
swaps (may only follow an existing payment)):
  errorWhilePending   a pay attempt can return an error while its HTLC stays in flight
  crashInPay          the process can die between the start of a payment and the persist that follows it
-/
namespace PsVerif.Model.AbsC06
open PsVerif.Gen PsVerif.Model.Abs

structure F where
  paid : Bool
  pending : Bool
  revealed : Bool
  preimageRec : Bool
  nextIsCoop : Bool
  unknownAct : Bool
  deriving DecidableEq, Repr

def F.init : F := ⟨false, false, false, false, false, false⟩

structure Backend where
  errorWhilePending : Bool
  crashInPay : Bool
  deriving DecidableEq, Repr

def okFail (f : F) : List (Ev × F) := [(E_ActionSucceeded, f), (E_ActionFailed, f)]

/-- the pay action `ValidateTxAndPayClaimInvoiceAction`.
    Assumption (named in the trusted base): `ValidateTx` is a function of the persisted opening
    transaction and parameters, so once the action got past it (preimage persisted) a re-execution gets
    past it again. -/
def payOutcomes (b : Backend) (f : F) : List (Ev × F) :=
  if f.preimageRec then
    -- the persisted preimage is honoured (all protocol versions): no payment call at all
    [(E_ActionSucceeded, f)]
  else
    -- validation / height / window failures before any payment call, definitive payment failure,
    -- a refused second payment, a legacy swap without an existing payment
    [(E_ActionFailed, f)] ++
    (if f.paid then
       -- legacy recovery follows the existing payment; a sendpay-like back-end returns the existing result
       [(E_ActionSucceeded, { f with preimageRec := true })]
     else if f.pending then
       -- a back-end that waits for the HTLC already in flight instead of refusing a second payment
       [(E_ActionSucceeded, { f with paid := true, pending := false, preimageRec := true }),
        (E_ActionFailed, { f with pending := false })]
     else
       [(E_ActionSucceeded, { f with paid := true, preimageRec := true })] ++
       (if b.errorWhilePending then [(E_ActionFailed, { f with pending := true })] else []))

def payCrash (b : Backend) (f : F) : List F :=
  if b.crashInPay && !f.preimageRec && !f.paid && !f.pending then
    [f, { f with paid := true }, { f with pending := true }]
  else [f]

def outcomes (b : Backend) (_s : St) (acts : List Act) (f : F) : List (Ev × F) :=
  match acts with
  | [.NoOpAction] => [(E_NoOp, f)]
  | [.CreateSwapRequestAction] | [.SetBlindingKeyActionWrapper, .CreateSwapRequestAction]
  | [.CheckRequestWrapperAction, .SwapInReceiverInitAction] =>
      [(E_ActionSucceeded, { f with nextIsCoop := false }), (E_ActionFailed, f)]
  | [.SendMessageAction] =>
      [(E_ActionSucceeded, { f with revealed := f.revealed || f.nextIsCoop }), (E_ActionFailed, f)]
  | [.CheckPremiumAmount, .PayFeeInvoiceAction] => okFail f
  | [.SetStartingBlockHeightAction] => [(E_NoOp, f), (E_ActionFailed, f)]
  | [.AwaitTxConfirmationAction] | [.StopSendMessageWithRetryWrapperAction, .AwaitTxConfirmationAction] =>
      [(E_NoOp, f), (E_ActionFailed, f)] ++
      -- legacy Liquid: an existing, succeeded payment is followed straight from this state
      (if f.paid then [(E_OnTxConfirmed, { f with preimageRec := true })] else [])
  | [.ValidateTxAndPayClaimInvoiceAction] => payOutcomes b f
  | [.ClaimSwapTransactionWithPreimageAction] => [(E_ActionSucceeded, f), (E_OnRetry, f)]
  | [.TakerSendPrivkeyAction] => [(E_ActionSucceeded, { f with nextIsCoop := true }), (E_ActionFailed, f)]
  | [.SendCancelAction] => okFail f
  | [.CancelAction] | [.NoOpDoneAction] | [.AddSuspiciousPeerAction, .NoOpDoneAction] => [(E_Done, f)]
  | _ => Ev.all.map fun e => (e, { f with unknownAct := true })

def crashIn (b : Backend) (_s : St) (acts : List Act) (f : F) : List F :=
  match acts with
  | [.SendMessageAction] => [f, { f with revealed := f.revealed || f.nextIsCoop }]
  | [.ValidateTxAndPayClaimInvoiceAction] => payCrash b f
  | _ => [f]

/-- events the outside can deliver: peer messages of every type (the router dispatches on the message
    type, not on the role), invalid messages, timers, payment and chain notifications, a watcher error -/
def extEvents : List Ev :=
  [E_OnCancelReceived, E_OnCoopCloseReceived, E_OnFeeInvoiceReceived, E_OnTxOpenedMessage,
   E_SwapInSender_OnAgreementReceived, E_OnInvalid_Message, E_OnTimeout, E_OnFeeInvoicePaid,
   E_OnClaimInvoicePaid, E_OnCsvPassed, E_OnTxConfirmed, E_ActionFailed,
   E_OnSwapOutStarted, E_SwapInReceiver_OnRequestReceived]

def sys (role : Role) (tb : List Row) (b : Backend) : Sys F :=
  { table := tb
    applyCtx := fun _ f => some f
    outcomes := outcomes b
    crashIn := crashIn b
    restart := fun f => f
    env := fun f => if f.pending then [{ f with pending := false, paid := true }, { f with pending := false }] else []
    ext := extEvents
    init := F.init }
  where _r := role

/-- the property on one configuration: the key is not out while the payment succeeded or may still succeed,
    and every executed action chain had a summary -/
def good (m : MC F) : Bool :=
  !m.f.unknownAct && !(m.f.revealed && (m.f.paid || m.f.pending))

/-- once paid, the swap is in a state from which it only tries to claim with the preimage -/
def claimStates : List St :=
  [.State_SwapOutSender_ValidateTxAndPayClaimInvoice, .State_SwapOutSender_ClaimSwap,
   .State_SwapInReceiver_ValidateTxAndPayClaimInvoice, .State_SwapInReceiver_ClaimSwap,
   .State_ClaimedPreimage]

def keepsClaiming (m : MC F) : Bool := !m.f.paid || claimStates.contains m.st

end PsVerif.Model.AbsC06
