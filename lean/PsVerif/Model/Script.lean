import PsVerif.Base
/-
Model of the opening script (onchain/utils.go GetOpeningTxScript) and of its evaluation as a
segwit-v0 witness script under CONSENSUS rules (clean stack, BIP66 strict DER — a malformed non-empty
signature aborts the script —, BIP112; no NULLFAIL / MINIMALIF, i.e. the weakest rule set an attacker
enjoys).  Signature checking and SHA-256 are parameters: the theorems hold for every interpretation.

Bytes are lists of naturals (< 256 by the separate predicate `wfBytes`).
-/
namespace PsVerif.Model.Script
open PsVerif

abbrev Bytes := List Nat

/-- verdict of OP_CHECKSIG on (pubkey, signature element) -/
inductive V where
  | valid | invalid | abort
  deriving DecidableEq, Repr

/-- the cryptographic environment: signature verdicts for this transaction/input, and SHA-256 -/
structure Crypto where
  checksig : Bytes → Bytes → V      -- pubkey → signature element → verdict
  sha256 : Bytes → Bytes

/-- the spending transaction's relevant fields -/
structure TxCtx where
  version : Nat
  sequence : Nat      -- nSequence of the input, a uint32

/-- minimal script-number encoding of a natural (positive) number, little endian with sign bit rule -/
def scriptNumBytes : Nat → Nat → Bytes
  | 0, _ => []
  | fuel + 1, n =>
    if n = 0 then []
    else if n < 128 then [n]
    else if n < 256 then [n, 0]
    else (n % 256) :: scriptNumBytes fuel (n / 256)

def scriptNum (n : Nat) : Bytes := scriptNumBytes 9 n

/-- the script as a structured program -/
inductive Instr where
  | push (b : Bytes)
  | checksig
  | size
  | equalverify
  | sha256
  | csv
  | notif (thenB elseB : List Instr)

/-- `GetOpeningTxScript(taker, maker, hash, csv)` as a program -/
def opening (maker taker hash : Bytes) (csv : Nat) : List Instr :=
  [ .push maker, .checksig,
    .notif
      [ .push maker, .checksig,
        .notif [ .size, .push [32], .equalverify, .sha256, .push hash, .equalverify ] [],
        .push taker, .checksig ]
      [ .push (scriptNum csv), .csv ] ]

def boolBytes (b : Bool) : Bytes := if b then [1] else []

/-- script truth value of a stack element: any non-zero byte, except a lone sign byte at the end -/
def truthy : Bytes → Bool
  | [] => false
  | [b] => b ≠ 0 ∧ b ≠ 128
  | b :: rest => b ≠ 0 || truthy rest

/-- decode a (minimally or not) encoded positive script number of at most 5 bytes, as OP_CSV reads it;
    `none` when negative or too long -/
def numOf (b : Bytes) : Option Nat :=
  if b.length > 5 then none else
  match b.getLast? with
  | none => some 0
  | some last =>
    if last ≥ 128 then none   -- negative
    else some (b.foldr (fun x acc => x + 256 * acc) 0)

/-- BIP112 for a non-negative operand `n` -/
def csvOk (tx : TxCtx) (n : Nat) : Bool :=
  if n / 2147483648 % 2 = 1 then true          -- disable flag in the operand: NOP
  else
    tx.version ≥ 2 &&
    tx.sequence / 2147483648 % 2 = 0 &&                       -- sequence not disabled
    (n / 4194304 % 2 = tx.sequence / 4194304 % 2) &&          -- same type (blocks / time)
    (n % 65536 ≤ tx.sequence % 65536)

mutual
/-- run a block on a stack (top of stack = head of the list); `none` = script failure -/
def run (c : Crypto) (tx : TxCtx) : List Instr → List Bytes → Option (List Bytes)
  | [], st => some st
  | i :: rest, st =>
    match step c tx i st with
    | none => none
    | some st' => run c tx rest st'

def step (c : Crypto) (tx : TxCtx) : Instr → List Bytes → Option (List Bytes)
  | .push b, st => some (b :: st)
  | .checksig, pk :: sig :: st =>
    (match c.checksig pk sig with
     | .abort => none
     | .valid => some ([1] :: st)
     | .invalid => some ([] :: st))
  | .checksig, _ => none
  | .size, x :: st => some (scriptNum x.length :: x :: st)
  | .size, [] => none
  | .equalverify, a :: b :: st => if a = b then some st else none
  | .equalverify, _ => none
  | .sha256, x :: st => some (c.sha256 x :: st)
  | .sha256, [] => none
  | .csv, x :: st =>
    (match numOf x with
     | none => none
     | some n => if csvOk tx n then some (x :: st) else none)
  | .csv, [] => none
  | .notif t e, x :: st => if truthy x then run c tx e st else run c tx t st
  | .notif _ _, [] => none
end

/-- evaluation of a witness script with the witness stack `w` (first element = bottom, as serialised):
    success iff the program runs and leaves exactly one, true, element -/
def accepts (c : Crypto) (tx : TxCtx) (prog : List Instr) (w : List Bytes) : Bool :=
  match run c tx prog w.reverse with
  | some [x] => truthy x
  | _ => false

end PsVerif.Model.Script

namespace PsVerif.Model.Script

/-- `ScriptBuilder.AddInt64` for a positive number above 16: a data push of its script-number bytes -/
def pushNum (n : Nat) : Bytes := (scriptNum n).length :: scriptNum n

/-- the bytes of the script as `txscript.ScriptBuilder` emits them (keys of 33 bytes and a 32-byte hash
    are direct pushes `len ++ data`; `h2b("20")` is the one-byte push `01 20`; csv > 16) -/
def scriptBytes (maker taker hash : Bytes) (csv : Nat) : Bytes :=
  [maker.length] ++ maker ++ [0xac, 0x64] ++ [maker.length] ++ maker ++
  [0xac, 0x64, 0x82, 0x01, 0x20, 0x88, 0xa8] ++ [hash.length] ++ hash ++ [0x88, 0x68] ++
  [taker.length] ++ taker ++ [0xac, 0x67] ++ pushNum csv ++ [0xb2, 0x68]

end PsVerif.Model.Script
