import PsVerif.Base
import PsVerif.Model.Timelock
/-
Model of clightning.buildDirectClaimRoute, lnd.buildDirectClaimPaymentRequest and
lightning.Scid.{ClnStyle,LndStyle}.
-/
namespace PsVerif.Model
open PsVerif

def clnStyle (s : String) : String := String.ofList (s.toList.map fun c => if c = ':' then 'x' else c)
def lndStyle (s : String) : String := String.ofList (s.toList.map fun c => if c = 'x' then ':' else c)

inductive RouteErr where
  | invalidCltv | totalCltv | destMismatch | cltvTooLarge | limitTooLarge
  deriving DecidableEq, Repr

structure ClnHop where
  id : String
  channel : String
  amountMsat : Nat
  delay : Nat
  direction : Nat
  deriving DecidableEq, Repr

/-- `delay := uint32(bolt11.MinFinalCltvExpiry + 1)` -/
def clnDelay (cltv : Int) : Nat := wrapU32i (cltv + 1)

/-- `buildDirectClaimRoute(bolt11, scid, maxTotalCLTVDelta)`; `cltv` is Go `int` (64 bit). -/
def clnRoute (payee : String) (amountMsat : Nat) (cltv : Int) (scid : String) (limit : Nat) :
    Except RouteErr (List ClnHop) :=
  if limit ≠ 0 then
    if cltv < 0 ∨ cltv.toNat ≥ 4294967295 then .error .invalidCltv
    else if validateTotalCLTVDelta (clnDelay cltv) limit ≠ .ok then .error .totalCltv
    else .ok [⟨payee, clnStyle scid, amountMsat, clnDelay cltv, 0⟩]
  else .ok [⟨payee, clnStyle scid, amountMsat, clnDelay cltv, 0⟩]

structure LndReq where
  paymentRequest : String
  timeoutSeconds : Nat
  cltvLimit : Int
  outgoingChanIds : List Nat
  maxParts : Nat
  amt : Int        -- Amt / AmtMsat overrides: 0 means "use the invoice amount"
  amtMsat : Int
  deriving DecidableEq, Repr

/-- `buildDirectClaimPaymentRequest(payreq, decoded, channel, maxTotalCLTVDelta)`;
    `cltv` is `int64`, `pad` is `routing.BlockPadding`. -/
def lndRequest (payreq dest remote : String) (chanId : Nat) (cltv : Int) (pad limit : Nat) :
    Except RouteErr LndReq :=
  if dest ≠ remote then .error .destMismatch
  else if limit ≠ 0 then
    if cltv < 0 then .error .invalidCltv
    -- `required = uint64(cltv) + pad`: a non-negative int64 plus a small constant, no wrap
    else if cltv.toNat + pad > 4294967295 then .error .cltvTooLarge
      else if validateTotalCLTVDelta (cltv.toNat + pad) limit ≠ .ok then .error .totalCltv
      else if limit ≥ 2147483647 then .error .limitTooLarge
      else .ok ⟨payreq, 30, Int.ofNat (limit + 1), [chanId], 1, 0, 0⟩
  else .ok ⟨payreq, 30, wrapI32 (wrapI64 (wrapI64 (cltv + Int.ofNat pad) + 1)), [chanId], 1, 0, 0⟩

end PsVerif.Model
