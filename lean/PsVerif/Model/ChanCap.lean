import PsVerif.Base
/-
Model of what the two Lightning adapters report as sendable / receivable over a channel — the input of the
"fits the channel" conditions of C11 (lnd/client.go `aboveReserveMsat`, clightning/clightning.go
`PeerChannel.GetSpendableMsat` / `GetReceivableMsat`), with the uint64 arithmetic of the code.
-/
namespace PsVerif.Model
open PsVerif

/-- lnd: `balance` is an int64 of satoshi, the reserve a uint64 -/
def lndAboveReserveMsat (balanceSat : Int) (reserveSat : Nat) : Nat :=
  if balanceSat ≤ 0 then 0
  else if balanceSat.toNat ≤ reserveSat then 0
  else wrapU64 ((balanceSat.toNat - reserveSat) * 1000)

/-- the rule of the code before fix 112d7d5: `(uint64(balance) - reserve) * 1000` -/
def lndAboveReserveMsatOld (balanceSat : Int) (reserveSat : Nat) : Nat :=
  wrapU64 (wrapU64 (wrapU64i balanceSat + 18446744073709551616 - reserveSat) * 1000)

/-- CLN: lightningd's own figure when it is not zero, else the fallback subtraction (saturating) -/
def clnSpendableMsat (reported toUs ourReserve : Nat) : Nat :=
  if reported > 0 then reported else if toUs ≤ ourReserve then 0 else toUs - ourReserve

def clnReceivableMsat (reported total toUs theirReserve : Nat) : Nat :=
  if reported > 0 then reported
  else if total ≤ toUs then 0
  else if total - toUs ≤ theirReserve then 0
  else total - toUs - theirReserve

end PsVerif.Model
