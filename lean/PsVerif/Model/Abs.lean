import PsVerif.Gen.Tables
/-
The abstract swap engine.

`Sys F` is a nondeterministic transition system over micro-configurations
`MC F = (persisted state, flags F, event in flight, process alive?, swap in the active map?)`.
Its control part is the GENERATED state table of a role (Gen/Tables.lean) interpreted exactly as
`SwapStateMachine.SendEvent` / `Recover` do (fsm.go):

  * an external event the current state does not accept leaves everything as it is (the table is
    consulted before anything else);
  * an accepted event's context is applied to the data and persisted, then the transition runs;
  * on a transition the action chain of the NEW state runs, then the record is persisted;
  * `NoOp` and `Event_Done` end the handling (`Done` also removes the swap from the active map),
    `Event_OnRetry` loops (and gives up after 21 rounds), every other result event is handled next;
  * a crash can happen at any persisted point and inside any action (`crashIn`: what the environment
    looks like when the process dies in the middle of that action; the record is unchanged);
  * restart: finished swaps stay as they are, `FailOnrecover` states get `Event_ActionFailed`,
    all others re-execute the action of their persisted state.

What an action does to the flags is NOT generated: `outcomes`/`crashIn`/`applyCtx`/`env` are
hand-written summaries per property, tied to the real actions by the correspondence check
(every persisted configuration the real machine goes through must be a successor here).
-/
namespace PsVerif.Model.Abs
open PsVerif.Gen

def rowOf (tb : List Row) (s : St) : Option Row := tb.find? (fun r => r.st == s)

def nextSt (tb : List Row) (s : St) (e : Ev) : Option St :=
  match rowOf tb s with
  | none => none
  | some r => (r.evs.find? (fun p => p.1 == e)).map (·.2)

def actsOf (tb : List Row) (s : St) : List Act :=
  match rowOf tb s with
  | none => []
  | some r => r.acts

def failOnRecover (tb : List Row) (s : St) : Bool :=
  match rowOf tb s with
  | none => false
  | some r => r.failOnRecover

structure Sys (F : Type) where
  table : List Row
  /-- event context applied to the swap data before the table is consulted; `none` = ApplyToSwapData error -/
  applyCtx : Ev → F → Option F
  /-- complete executions of the action chain of the state just entered: (result event, flags after) -/
  outcomes : St → List Act → F → List (Ev × F)
  /-- flags when the process dies inside that action (persisted part as before, environment possibly changed) -/
  crashIn : St → List Act → F → List F
  /-- flags after a process restart (volatile parts reset) -/
  restart : F → F
  /-- spontaneous environment changes (e.g. a pending HTLC resolves) -/
  env : F → List F
  /-- events the outside world can send to a live swap at rest -/
  ext : List Ev
  init : F

structure MC (F : Type) where
  st : St
  f : F
  pend : Option Ev
  alive : Bool
  active : Bool
  deriving DecidableEq, Repr

def endsHandling (e : Ev) : Bool := e == E_NoOp || e == E_Done

/-- configurations after the action chain of state `s'` ran to completion from flags `f` (the record is
    persisted with the new state and flags) -/
def actionDone {F : Type} (sys : Sys F) (s' : St) (f : F) (active : Bool) : List (MC F) :=
  (sys.outcomes s' (actsOf sys.table s') f).flatMap fun (r, f') =>
    if r == E_Done then [⟨s', f', none, true, false⟩]
    else if r == E_NoOp then [⟨s', f', none, true, active⟩]
    else if r == E_OnRetry then [⟨s', f', some r, true, active⟩, ⟨s', f', none, true, active⟩]
    else [⟨s', f', some r, true, active⟩]

/-- the process dies inside the action chain of state `s'`: the record stays as `orig`, the environment
    part of the flags may have moved -/
def actionCrash {F : Type} (sys : Sys F) (s' : St) (f : F) (orig : MC F) : List (MC F) :=
  (sys.crashIn s' (actsOf sys.table s') f).map (fun f' => { orig with f := f', pend := none, alive := false })

/-- spontaneous environment changes -/
def envSteps {F : Type} (sys : Sys F) (m : MC F) : List (MC F) :=
  (sys.env m.f).map (fun f' => { m with f := f' })

/-- the event in flight is not accepted by the current state: nothing changes -/
def rejectSteps {F : Type} (sys : Sys F) (m : MC F) : List (MC F) :=
  if !m.alive then [] else
  match m.pend with
  | none => []
  | some e => match nextSt sys.table m.st e with
    | none => [{ m with pend := none }]
    | some _ => []

/-- events that carry a message (an `EventContext`); all other outside events (timer, payment and chain
    notifications, a watcher error, and the `Event_Invalid_Message` that a failed validation turns a
    message into) are sent with a nil context -/
def hasCtx (e : Ev) : Bool :=
  e == E_OnCancelReceived || e == E_OnCoopCloseReceived || e == E_OnFeeInvoiceReceived || e == E_OnTxOpenedMessage ||
  e == E_SwapInSender_OnAgreementReceived || e == E_OnSwapOutStarted || e == E_SwapInSender_OnSwapInRequested ||
  e == E_OnSwapOutRequestReceived || e == E_SwapInReceiver_OnRequestReceived

/-- an outside event `e` reaches a swap at rest.  For a message event `SendEvent` consults the table
    FIRST — a message the current state does not accept changes nothing and writes nothing; otherwise its
    context is applied to the swap data and persisted before the transition runs.  A context-free event
    is persisted (unchanged data) and then looked up. -/
def extStep {F : Type} (sys : Sys F) (m : MC F) (e : Ev) : List (MC F) :=
  if hasCtx e && (nextSt sys.table m.st e).isNone then []
  else match sys.applyCtx e m.f with
    | none => []
    | some f1 => [⟨m.st, f1, some e, true, m.active⟩]

/-- steps of a live process that end with a store write: an accepted outside event's context is applied
    and persisted, or the event in flight makes a transition and the new state's action runs -/
def persistSteps {F : Type} (sys : Sys F) (m : MC F) : List (MC F) :=
  if !m.alive then [] else
  match m.pend with
  | none =>
    -- `OnTxConfirmed` with a watcher error sends `ActionFailed` and then, without returning, a second
    -- event through the pointer it still holds, even if the first one finished the swap and removed it
    -- from the active map
    (if m.active then sys.ext else [E_OnTxConfirmed]).flatMap (extStep sys m)
  | some e => match nextSt sys.table m.st e with
    | none => []
    | some s' => actionDone sys s' m.f m.active

/-- the process dies: at a persisted point, or inside the action about to run -/
def crashSteps {F : Type} (sys : Sys F) (m : MC F) : List (MC F) :=
  if !m.alive then [] else
  { m with pend := none, alive := false } ::
  match m.pend with
  | none => []
  | some e => match nextSt sys.table m.st e with
    | none => []
    | some s' => actionCrash sys s' m.f m

/-- restart of a dead process: finished swaps are left alone, `FailOnrecover` states are failed, every
    other state's action is re-executed (and may crash again) -/
def restartSteps {F : Type} (sys : Sys F) (m : MC F) : List (MC F) :=
  if m.alive then [] else
  let f0 := sys.restart m.f
  if isFinished m.st then [⟨m.st, f0, none, true, false⟩]
  else if failOnRecover sys.table m.st then [⟨m.st, f0, some E_ActionFailed, true, true⟩]
  -- a state without an action that is not failed on recovery: `Recover` fails with ErrFsmConfig after
  -- `lockSwap`, so the swap stays in the active map as it is
  else if (actsOf sys.table m.st).isEmpty then [⟨m.st, f0, none, true, true⟩]
  else actionDone sys m.st f0 true ++ actionCrash sys m.st f0 ⟨m.st, f0, none, false, true⟩

def succs {F : Type} (sys : Sys F) (m : MC F) : List (MC F) :=
  envSteps sys m ++ rejectSteps sys m ++ persistSteps sys m ++ crashSteps sys m ++ restartSteps sys m

def initMC {F : Type} (sys : Sys F) : MC F := ⟨.Default, sys.init, none, true, true⟩

/-- every configuration any history can produce: external events in any order at any rest point,
    crashes anywhere, restarts, environment changes — no bound on length -/
inductive Reach {F : Type} (sys : Sys F) : MC F → Prop where
  | init : Reach sys (initMC sys)
  | step {m m' : MC F} : Reach sys m → m' ∈ succs sys m → Reach sys m'

/-! ### certified reachable sets

A certificate is a finite set of configurations, bucketed by state so that membership tests stay cheap
for the kernel.  `explore` only PRODUCES a candidate; soundness never depends on its fuel because
closedness (`closedCert`) is checked separately and is all the theorems use. -/

abbrev Rest (F : Type) := F × Option Ev × Bool × Bool
abbrev Cert (F : Type) := List (St × List (Rest F))

def restOf {F : Type} (m : MC F) : Rest F := (m.f, m.pend, m.alive, m.active)
def mcOf {F : Type} (s : St) (r : Rest F) : MC F := ⟨s, r.1, r.2.1, r.2.2.1, r.2.2.2⟩

def Cert.mem {F : Type} [DecidableEq F] (c : Cert F) (m : MC F) : Bool :=
  match c.find? (fun b => b.1 == m.st) with
  | some b => b.2.contains (restOf m)
  | none => false

def Cert.insert {F : Type} [DecidableEq F] (c : Cert F) (m : MC F) : Cert F :=
  if c.any (fun b => b.1 == m.st) then
    c.map fun b => if b.1 == m.st then (b.1, restOf m :: b.2) else b
  else (m.st, [restOf m]) :: c

def Cert.toList {F : Type} (c : Cert F) : List (MC F) :=
  c.flatMap fun b => b.2.map (mcOf b.1)

/-- one sweep: add every successor of the frontier that is not yet in the certificate -/
def sweep {F : Type} [DecidableEq F] (sys : Sys F) (c : Cert F) (frontier : List (MC F)) : Cert F × List (MC F) :=
  frontier.foldl (fun acc m =>
    (succs sys m).foldl (fun (acc : Cert F × List (MC F)) m' =>
      if acc.1.mem m' then acc else (acc.1.insert m', m' :: acc.2)) acc) (c, [])

def explore {F : Type} [DecidableEq F] (sys : Sys F) : Nat → Cert F → List (MC F) → Cert F
  | 0, c, _ => c
  | n + 1, c, frontier =>
    match frontier with
    | [] => c
    | _ =>
      let r := sweep sys c frontier
      explore sys n r.1 r.2

def reachCert {F : Type} [DecidableEq F] (sys : Sys F) (fuel : Nat) : Cert F :=
  explore sys fuel [((initMC sys).st, [restOf (initMC sys)])] [initMC sys]

/-- the certificate contains the initial configuration and is closed under `succs` -/
def closedCert {F : Type} [DecidableEq F] (sys : Sys F) (c : Cert F) : Bool :=
  c.mem (initMC sys) && c.all fun b => b.2.all fun r => (succs sys (mcOf b.1 r)).all fun m' => c.mem m'

/-- every configuration of the certificate satisfies `good` -/
def allGood {F : Type} (c : Cert F) (good : MC F → Bool) : Bool :=
  c.all fun b => b.2.all fun r => good (mcOf b.1 r)

theorem mcOf_restOf {F : Type} (m : MC F) : mcOf m.st (restOf m) = m := by
  cases m; rfl

theorem Cert.mem_iff {F : Type} [DecidableEq F] (c : Cert F) (m : MC F) (h : c.mem m = true) :
    ∃ b ∈ c, b.1 = m.st ∧ restOf m ∈ b.2 := by
  unfold Cert.mem at h
  split at h
  · rename_i b hb
    have h1 := List.find?_some hb
    have h2 := List.mem_of_find?_eq_some hb
    refine ⟨b, h2, ?_, ?_⟩
    · simpa using h1
    · simpa [List.contains_iff_mem] using h
  · cases h

theorem reach_in_cert {F : Type} [DecidableEq F] (sys : Sys F) (c : Cert F)
    (h : closedCert sys c = true) : ∀ m, Reach sys m → c.mem m = true := by
  unfold closedCert at h
  simp only [Bool.and_eq_true, List.all_eq_true] at h
  intro m hm
  induction hm with
  | init => exact h.1
  | @step m m' _ hs ih =>
    obtain ⟨b, hb, hst, hr⟩ := Cert.mem_iff c m ih
    have := h.2 b hb (restOf m) hr m'
    rw [hst, mcOf_restOf] at this
    exact this hs

/-- a property that holds on a closed certificate holds in every reachable configuration, i.e. after
    every history of external events, crashes, restarts and environment changes of any length -/
theorem invariant_of_cert {F : Type} [DecidableEq F] (sys : Sys F) (c : Cert F) (good : MC F → Bool)
    (hc : closedCert sys c = true) (hg : allGood c good = true) : ∀ m, Reach sys m → good m = true := by
  intro m hm
  obtain ⟨b, hb, hst, hr⟩ := Cert.mem_iff c m (reach_in_cert sys c hc m hm)
  unfold allGood at hg
  simp only [List.all_eq_true] at hg
  have := hg b hb (restOf m) hr
  rw [hst, mcOf_restOf] at this
  exact this

/-! ### concrete histories (used for violation witnesses and non-vacuity) -/

/-- `p` starts in the initial configuration and every next element is a successor of the previous one -/
def validPathFrom {F : Type} [DecidableEq F] (sys : Sys F) : MC F → List (MC F) → Bool
  | _, [] => true
  | m, m' :: rest => (succs sys m).contains m' && validPathFrom sys m' rest

def validPath {F : Type} [DecidableEq F] (sys : Sys F) : List (MC F) → Bool
  | [] => false
  | m :: rest => decide (m = initMC sys) && validPathFrom sys m rest

theorem reach_of_validPathFrom {F : Type} [DecidableEq F] (sys : Sys F) (m : MC F) (p : List (MC F))
    (hm : Reach sys m) (h : validPathFrom sys m p = true) : ∀ x ∈ p, Reach sys x := by
  induction p generalizing m with
  | nil => intro x hx; cases hx
  | cons m' rest ih =>
    simp only [validPathFrom, Bool.and_eq_true, List.contains_iff_mem] at h
    have hm' : Reach sys m' := Reach.step hm h.1
    intro x hx
    cases hx with
    | head => exact hm'
    | tail _ hx => exact ih m' hm' h.2 x hx

theorem reach_of_validPath {F : Type} [DecidableEq F] (sys : Sys F) (p : List (MC F))
    (h : validPath sys p = true) : ∀ x ∈ p, Reach sys x := by
  cases p with
  | nil => simp [validPath] at h
  | cons m rest =>
    simp only [validPath, Bool.and_eq_true, decide_eq_true_eq] at h
    intro x hx
    cases hx with
    | head => rw [h.1]; exact Reach.init
    | tail _ hx => exact reach_of_validPathFrom sys m rest (h.1 ▸ Reach.init) h.2 x hx

/-- breadth-first search for a shortest history into a configuration satisfying `bad`; the result is only
    a CANDIDATE, it is validated by `validPath` -/
def searchStep {F : Type} [DecidableEq F] (sys : Sys F) (bad : MC F → Bool) :
    Nat → Cert F → List (List (MC F)) → Option (List (MC F))
  | 0, _, _ => none
  | n + 1, seen, frontier =>
    match frontier with
    | [] => none
    | _ =>
      let r := frontier.foldl (fun (acc : Option (List (MC F)) × Cert F × List (List (MC F))) path =>
        match acc.1 with
        | some _ => acc
        | none =>
          match path with
          | [] => acc
          | m :: _ =>
            (succs sys m).foldl (fun (acc : Option (List (MC F)) × Cert F × List (List (MC F))) m' =>
              match acc.1 with
              | some _ => acc
              | none =>
                if bad m' then (some (m' :: path), acc.2.1, acc.2.2)
                else if acc.2.1.mem m' then acc
                else (none, acc.2.1.insert m', (m' :: path) :: acc.2.2)) acc) (none, seen, [])
      match r.1 with
      | some p => some p.reverse
      | none => searchStep sys bad n r.2.1 r.2.2

def findPath {F : Type} [DecidableEq F] (sys : Sys F) (bad : MC F → Bool) (fuel : Nat) : List (MC F) :=
  if bad (initMC sys) then [initMC sys] else
  (searchStep sys bad fuel [((initMC sys).st, [restOf (initMC sys)])] [[initMC sys]]).getD []

end PsVerif.Model.Abs
