import PsVerif.Base
import PsVerif.Gen.Consts
/-
Model of premium/premium.go (PPM.Compute, Setting.GetRate/Compute) and premium/store.go
(the bbolt bucket as an association list keyed by "<peer>.<asset>.<operation>").
-/
namespace PsVerif.Model
open PsVerif

/-- `(*PPM).Compute`: `int64(amtSat) * ppm / 1e6` with both the conversion and the product wrapping in
    `int64`, and Go's truncating division. -/
def ppmCompute (amt : Nat) (ppm : Int) : Int :=
  Int.tdiv (wrapI64 (u64ToI64 amt * ppm)) 1000000

/-- the bucket: key string ↦ decimal value string, modelled after parsing as key ↦ Int -/
abbrev RateStore := List (String × Int)

def rateKey (peer : String) (asset op : Nat) : String :=
  peer ++ "." ++ toString asset ++ "." ++ toString op

def storeGet : RateStore → String → Option Int
  | [], _ => none
  | (k', v) :: rest, k => if k' = k then some v else storeGet rest k
def storeDel : RateStore → String → RateStore
  | [], _ => []
  | (k', v) :: rest, k => if k' = k then storeDel rest k else (k', v) :: storeDel rest k
def storePut (s : RateStore) (k : String) (v : Int) : RateStore := (k, v) :: storeDel s k

def defaultPeer : String := "default"

def builtinRate (asset op : Nat) : Option Int :=
  (Gen.defaultPremiumRate.find? (·.1 == (asset, op))).map (·.2)

/-- `Setting.GetRate`: peer rate, else stored default, else built-in default -/
def getRate (s : RateStore) (peer : String) (asset op : Nat) : Option Int :=
  match storeGet s (rateKey peer asset op) with
  | some r => some r
  | none =>
    match storeGet s (rateKey defaultPeer asset op) with
    | some r => some r
    | none => builtinRate asset op

def settingCompute (s : RateStore) (peer : String) (asset op amt : Nat) : Option Int :=
  (getRate s peer asset op).map (ppmCompute amt)

end PsVerif.Model
