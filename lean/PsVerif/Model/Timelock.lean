import PsVerif.Base
import PsVerif.Gen.Consts
/-
Model of swap/timelock.go and of the height/CLTV guards in swap/actions.go.
All arguments are the Go values as naturals / integers; every place where Go
wraps is written out.
-/
namespace PsVerif.Model
open PsVerif

inductive TlErr where
  | windowUnset | windowBelow | windowExceeded
  | invoiceCltv | invoiceAmount
  | totalCltv
  | noStart | unsafeRange | policy
  deriving DecidableEq, Repr

/-- `checkPaymentWindow(swap, currentHeight, policy)`; `start`, `cur`, `window` are `uint32`
    values, the comparison is done after widening to `uint64`, so no wrap can occur. -/
def checkPaymentWindow (set : Bool) (start cur window : Nat) : Res TlErr :=
  if !set then .err .windowUnset
  else if cur < start then .err .windowBelow
  else if cur ≥ start + window then .err .windowExceeded
  else .ok

/-- `validateClaimInvoice(paymentAmountMsat, finalCLTVDelta, claimAmountSat, policy)`;
    `claimSat*1000` wraps in `uint64`. -/
def validateClaimInvoice (msat : Nat) (cltv : Int) (claimSat maxFinal : Nat) : Res TlErr :=
  if cltv < 0 ∨ cltv.toNat > maxFinal then .err .invoiceCltv
  else if msat ≠ wrapU64 (claimSat * 1000) then .err .invoiceAmount
  else .ok

/-- `ValidateTotalCLTVDelta(required, limit)` -/
def validateTotalCLTVDelta (required limit : Nat) : Res TlErr :=
  if limit ≠ 0 ∧ required > limit then .err .totalCltv else .ok

/-- The Bitcoin branch of the pre-checks in `AwaitTxConfirmationAction.Execute`:
    invoice CLTV against `csv/2`, invoice amount, start height present, and
    `height >= start + csv/2` computed in `uint32` (wraps). -/
def awaitTxConfBtc (csv : Nat) (cltv : Int) (msat claimSat start height : Nat) : Res TlErr :=
  if cltv > Int.ofNat (csv / 2) then .err .invoiceCltv
  else if msat ≠ wrapU64 (claimSat * 1000) then .err .invoiceAmount
  else if start = 0 then .err .noStart
  else if height ≥ wrapU32 (start + csv / 2) then .err .unsafeRange
  else .ok

/-- The Liquid branch of the same pre-checks. -/
def awaitTxConfLbtc (p : Gen.TimelockPolicy) (cltv : Int) (msat claimSat : Nat)
    (set : Bool) (start height : Nat) : Res TlErr :=
  match validateClaimInvoice msat cltv claimSat p.finalCltv with
  | .err e => .err e
  | .ok => checkPaymentWindow set start height p.window

/-- One iteration of the pay loop of `ValidateTxAndPayClaimInvoiceAction.Execute`, up to the
    call of `RebalancePayment`: `true` = the payment call is made at height `now`.
    Bitcoin: `(now - start) > csv/2` in `uint32` stops; Liquid: `checkPaymentWindow`. -/
def payIterationBtc (csv start now : Nat) : Bool :=
  !(wrapU32i (Int.ofNat now - Int.ofNat start) > csv / 2)

def payIterationLbtc (p : Gen.TimelockPolicy) (set : Bool) (start now : Nat) : Bool :=
  checkPaymentWindow set start now p.window == .ok

/-- `SetStartingBlockHeightAction` for the non-(Liquid v7) case: returns the new start height or failure. -/
def setStartLegacy (csv start now : Nat) : Option Nat :=
  if start = 0 then some now
  else if now ≥ wrapU32 (start + csv / 2) then none
  else some start

end PsVerif.Model
