import PsVerif.Base
/-
Model of the taker's validation of the opening transaction (onchain/bitcoin.go `ValidateTx`,
onchain/liquid.go `ValidateTx` / `FindVout` / `validateOpeningOutput`) and of how the claim invoice is bound
to it (swap/actions.go `AwaitTxConfirmationAction`, `ValidateTxAndPayClaimInvoiceAction`).

Scripts are values of an arbitrary type `S` with decidable equality: `want` is the script-pubkey the taker
computes from both swap keys, the payment hash of the invoice and the chain's CSV (C02 is about that script).
Deserialisation (btcd wire, go-elements) and unblinding (secp256k1-zkp) are outside: outputs enter the model
as what those libraries return.
-/
namespace PsVerif.Model.OpeningCheck
open PsVerif

/-- an output of a Bitcoin transaction -/
structure BtcOut (S : Type) where
  value : Int          -- int64
  script : S
  deriving Repr

/-- `BitcoinOnChain.ValidateTx` (`findSwapOutput`): some output has the value int64(amount) AND the wanted script -/
def validateBtc {S : Type} [DecidableEq S] (amount : Nat) (want : S) (outs : List (BtcOut S)) : Bool :=
  (outs.find? (fun o => o.value == wrapI64 (amount : Int) && decide (o.script = want))).isSome

/-- what unblinding an Elements output with the swap's blinding key yields -/
structure Unblinded where
  assetIsPolicy : Bool       -- unblinded asset id == the network's policy asset
  value : Nat
  deriving DecidableEq, Repr

/-- an output of an Elements transaction as `validateOpeningOutput` sees it -/
structure LqOut (S : Type) where
  script : S
  unblind : Option Unblinded       -- none: UnblindOutputWithKey fails
  confidential : Bool
  explicitAssetIsPolicy : Bool     -- for an explicit output: output.Asset == 0x01 ‖ policy asset
  commitmentMatches : Bool         -- for a confidential output: commitment rebuilt from (asset, blinder) == output.Asset
  deriving Repr

/-- `LiquidOnChain.ValidateTx`: the FIRST output carrying the wanted script must unblind to the policy asset
    (consistently with what the output shows) and to exactly the amount -/
def validateLq {S : Type} [DecidableEq S] (amount : Nat) (want : S) (outs : List (LqOut S)) : Bool :=
  match outs.find? (fun o => decide (o.script = want)) with
  | none => false
  | some o =>
    match o.unblind with
    | none => false
    | some u =>
      u.assetIsPolicy && (if o.confidential then o.commitmentMatches else o.explicitAssetIsPolicy) && u.value == amount

/-! ### the invoice and the pay decision -/

structure Invoice (H : Type) where
  hash : H
  msat : Nat
  cltv : Int
  deriving Repr

/-- the invoice checks of `AwaitTxConfirmationAction` that do not depend on heights; on success the invoice's
    payment hash becomes the swap's `ClaimPaymentHash` (from which the wanted script is built) -/
def bindInvoice {H : Type} (maxFinal : Nat) (claimSat : Nat) (inv : Invoice H) : Option H :=
  if inv.cltv > (maxFinal : Int) then none
  else if inv.msat ≠ wrapU64 (claimSat * 1000) then none
  else some inv.hash

/-- the taker's whole decision for a Bitcoin swap, heights aside (they are C05): the claim payment call is
    made for `inv` iff the invoice was bound and the confirmed transaction validates against the script built
    from the bound hash -/
def paysBtc {S H : Type} [DecidableEq S] (scriptOf : H → S) (maxFinal amount claimSat : Nat)
    (inv : Invoice H) (outs : List (BtcOut S)) : Bool :=
  match bindInvoice maxFinal claimSat inv with
  | none => false
  | some h => validateBtc amount (scriptOf h) outs

def paysLq {S H : Type} [DecidableEq S] (scriptOf : H → S) (maxFinal amount claimSat : Nat)
    (inv : Invoice H) (outs : List (LqOut S)) : Bool :=
  match (if inv.cltv < 0 then none else bindInvoice maxFinal claimSat inv) with
  | none => false
  | some h => validateLq amount (scriptOf h) outs

end PsVerif.Model.OpeningCheck
