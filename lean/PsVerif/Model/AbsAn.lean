import PsVerif.Model.Abs
/-
Abstraction for C13 (the Liquid payment-window anchor is stored before the pubkey is revealed), for
Liquid protocol-7 swaps in the two taker roles.

Flags:
  anchorRec    the persisted record has StartingBlockHeightSet
  keySent      the node's swap_out_request / swap_in_agreement (which carries its swap pubkey) went out
  paidNoAnchor a claim payment call was made while the record had no anchor        (never set by a summary)
  anchorMoved  the persisted anchor height changed after it was first stored         (never set by a summary)
  unknownAct   an action chain without a summary was executed
The two "never set" flags are computed by the harness from the real run; a real run that sets them is
rejected by the trace inclusion.
-/
namespace PsVerif.Model.AbsAn
open PsVerif.Gen PsVerif.Model.Abs

structure F where
  bits : Nat
  deriving DecidableEq, Repr

namespace F
def bit (f : F) (i : Nat) : Bool := f.bits.testBit i
def setBit (f : F) (i : Nat) (b : Bool) : F :=
  if b then ⟨f.bits ||| (1 <<< i)⟩ else ⟨f.bits &&& ((1 <<< 8) - 1 - (1 <<< i))⟩
def anchorRec (f : F) := f.bit 0
def keySent (f : F) := f.bit 1
def paidNoAnchor (f : F) := f.bit 2
def anchorMoved (f : F) := f.bit 3
def unknownAct (f : F) := f.bit 4
def setAnchorRec (f : F) (b : Bool) := f.setBit 0 b
def setKeySent (f : F) (b : Bool) := f.setBit 1 b
def setPaidNoAnchor (f : F) (b : Bool) := f.setBit 2 b
def setAnchorMoved (f : F) (b : Bool) := f.setBit 3 b
def setUnknownAct (f : F) (b : Bool) := f.setBit 4 b
def init : F := ⟨0⟩
end F

def okFail (f : F) : List (Ev × F) := [(E_ActionSucceeded, f), (E_ActionFailed, f)]

def sendsKey (s : St) : Bool :=
  s == .State_SwapOutSender_SendRequest || s == .State_SwapInReceiver_SendAgreement

def outcomes (s : St) (acts : List Act) (f : F) : List (Ev × F) :=
  match acts with
  | [.NoOpAction] => [(E_NoOp, f)]
  -- setLiquidPaymentWindowAnchor runs first; the action fails if the height lookup fails
  | [.CreateSwapRequestAction] | [.CheckRequestWrapperAction, .SwapInReceiverInitAction] =>
      [(E_ActionSucceeded, f.setAnchorRec true), (E_ActionFailed, f)]
  | [.SendMessageAction] => [(E_ActionSucceeded, if sendsKey s then f.setKeySent true else f), (E_ActionFailed, f)]
  | [.CheckPremiumAmount, .PayFeeInvoiceAction] | [.SendCancelAction] | [.TakerSendPrivkeyAction] => okFail f
  | [.SetStartingBlockHeightAction] => [(E_NoOp, f), (E_ActionFailed, f)]
  | [.AwaitTxConfirmationAction] | [.StopSendMessageWithRetryWrapperAction, .AwaitTxConfirmationAction] =>
      [(E_NoOp, f), (E_ActionFailed, f), (E_OnTxConfirmed, f)]
  | [.ValidateTxAndPayClaimInvoiceAction] => okFail f
  | [.ClaimSwapTransactionWithPreimageAction] => [(E_ActionSucceeded, f), (E_OnRetry, f)]
  | [.CancelAction] | [.NoOpDoneAction] | [.AddSuspiciousPeerAction, .NoOpDoneAction] => [(E_Done, f)]
  | _ => Ev.all.map fun ev => (ev, f.setUnknownAct true)

def extEvents : List Ev :=
  [E_OnCancelReceived, E_OnCoopCloseReceived, E_OnFeeInvoiceReceived, E_OnTxOpenedMessage,
   E_SwapInSender_OnAgreementReceived, E_OnInvalid_Message, E_OnTimeout, E_OnFeeInvoicePaid,
   E_OnClaimInvoicePaid, E_OnCsvPassed, E_OnTxConfirmed, E_ActionFailed,
   E_OnSwapOutStarted, E_SwapInReceiver_OnRequestReceived]

def sys (tb : List Row) : Sys F :=
  { table := tb
    applyCtx := fun _ f => some f
    outcomes := outcomes
    crashIn := fun s acts f => if acts == [.SendMessageAction] && sendsKey s then [f, f.setKeySent true] else [f]
    restart := fun f => f
    env := fun _ => []
    ext := extEvents
    init := F.init }

/-- the pubkey never left the node unless the anchor is in the durable record; the harness-computed
    flags stay clear -/
def holds (m : MC F) : Bool :=
  !m.f.unknownAct && (!m.f.keySent || m.f.anchorRec) && !m.f.paidNoAnchor && !m.f.anchorMoved

end PsVerif.Model.AbsAn
