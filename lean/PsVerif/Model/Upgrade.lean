import PsVerif.Gen.Tables
import PsVerif.Gen.Consts
/- Model of version.(*VersionService).SafeUpgrade over the stored version and the persisted swaps' states. -/
namespace PsVerif.Model
open PsVerif.Gen

inductive UpErr where
  | activeSwaps
  | queryFailed      -- the active-swap query itself failed (a record of the swaps bucket does not decode)
  deriving DecidableEq, Repr

/-- `SwapService.HasActiveSwaps`: some persisted swap is not finished (`IsFinished` is generated) -/
def hasActiveSwaps (states : List St) : Bool := states.any (fun s => !isFinished s)

/-- result: the stored version afterwards (`none` = no version key), or the error; the swaps bucket is not
    touched on any path -/
def safeUpgrade (current : String) (stored : Option String) (states : List St) : Except UpErr (Option String) :=
  if stored = some current then .ok stored
  else if hasActiveSwaps states then .error .activeSwaps
  else .ok (some current)

/-- the same over a swaps bucket in which a record may be undecodable (`none`): `HasActiveSwaps` lists and decodes
    every record, so one bad record makes the query fail — and then nothing may be upgraded -/
def safeUpgradeQ (current : String) (stored : Option String) (records : List (Option St)) : Except UpErr (Option String) :=
  if stored = some current then .ok stored
  else if records.any Option.isNone then .error .queryFailed
  else safeUpgrade current stored (records.filterMap id)

end PsVerif.Model
