import PsVerif.Model.Abs
/-
Abstraction for the maker roles (C07 locked funds are never abandoned, C15 no second opening
transaction, C22 retransmission, C26 quarantine).

Flags:
  openings     number of opening transactions the wallet broadcast for this swap: 0, 1, 2 (= two or more)
  openingRec   the persisted record holds the announcement (SwapData.OpeningTxBroadcasted != nil)
  invoicePaid  the claim invoice was paid by the peer (environment)
  spentBack    a transaction spending the opening output back (coop or CSV) was broadcast (environment)
  claimTxRec   the persisted record holds the id of that transaction (SwapData.ClaimTxId != "")
  csvWatch     a CSV watch for the opening output is registered at the chain watcher (volatile)
  resend       a retransmitter for opening_tx_broadcasted is active (volatile)
  suspicious   the peer was written to the suspicious-peer list
  unknownAct   an action chain without a summary was executed
  agreementRec the persisted record holds the peer's swap_in_agreement (a second one is refused with
               AlreadyExists before anything else happens)
  openFailed   the swap is stored in its broadcast-opening state with a failed attempt on record
               (SwapData.LastErrString != ""): since fix (repo) "do not repeat a failed opening broadcast"
               the action, run again by a recovery, fails at once instead of funding the swap a second time

`Env` restricts the environment:
  crashInBroadcast    the process can die between the wallet's broadcast and the persist that follows
  errorAfterBroadcast the wallet adapter can broadcast and THEN report an error (lwk fetches the raw transaction
                      from the Electrum server after the broadcast; a lost reply)
  scriptFails         wallet.GetOutputScript can fail (it is a pure computation on validated keys)
  policyFails         AddToSuspiciousPeerList can fail (no policy file configured)
-/
namespace PsVerif.Model.AbsMk
open PsVerif.Gen PsVerif.Model.Abs

/-- the flags, packed into one natural number so that the kernel compares configurations with a single
    big-number comparison: bits 0-1 `openings`, then one bit per Boolean flag -/
structure F where
  bits : Nat
  deriving DecidableEq, Repr

namespace F
def bit (f : F) (i : Nat) : Bool := f.bits.testBit i
def setBit (f : F) (i : Nat) (b : Bool) : F :=
  if b then ⟨f.bits ||| (1 <<< i)⟩ else ⟨f.bits &&& ((1 <<< 12) - 1 - (1 <<< i))⟩
def openings (f : F) : Nat := f.bits % 4
def setOpenings (f : F) (n : Nat) : F := ⟨f.bits - f.bits % 4 + n % 4⟩
def openingRec (f : F) := f.bit 2
def invoicePaid (f : F) := f.bit 3
def spentBack (f : F) := f.bit 4
def claimTxRec (f : F) := f.bit 5
def csvWatch (f : F) := f.bit 6
def resend (f : F) := f.bit 7
def suspicious (f : F) := f.bit 8
def unknownAct (f : F) := f.bit 9
def agreementRec (f : F) := f.bit 10
def openFailed (f : F) := f.bit 11
def setOpeningRec (f : F) (b : Bool) := f.setBit 2 b
def setInvoicePaid (f : F) (b : Bool) := f.setBit 3 b
def setSpentBack (f : F) (b : Bool) := f.setBit 4 b
def setClaimTxRec (f : F) (b : Bool) := f.setBit 5 b
def setCsvWatch (f : F) (b : Bool) := f.setBit 6 b
def setResend (f : F) (b : Bool) := f.setBit 7 b
def setSuspicious (f : F) (b : Bool) := f.setBit 8 b
def setUnknownAct (f : F) (b : Bool) := f.setBit 9 b
def setAgreementRec (f : F) (b : Bool) := f.setBit 10 b
def setOpenFailed (f : F) (b : Bool) := f.setBit 11 b
def init : F := ⟨0⟩
end F

structure Env where
  /-- track the persisted swap_in_agreement (only the swap-in initiator ever accepts that event) -/
  trackAgreement : Bool
  crashInBroadcast : Bool
  errorAfterBroadcast : Bool
  /-- the code BEFORE the fix: a recovery repeats an opening attempt that is on record as failed
      (only the witness of the repaired finding sets this) -/
  retryFailedOpening : Bool := false
  scriptFails : Bool
  policyFails : Bool
  deriving DecidableEq, Repr

def inc (n : Nat) : Nat := if n ≥ 2 then 2 else n + 1

def okFail (f : F) : List (Ev × F) := [(E_ActionSucceeded, f), (E_ActionFailed, f)]

/-- `CreateAndBroadcastOpeningTransaction` (after the height lookup was moved in front of the broadcast):
    idempotent once the announcement is in the record; fails at once when an earlier attempt is on record
    as failed; otherwise it fails before the broadcast, broadcasts and records, or — a wallet adapter that
    reports an error after it broadcast — broadcasts and fails.  Every failure is recorded (`HandleError`). -/
def openOutcomes (e : Env) (f : F) : List (Ev × F) :=
  if f.openingRec then [(E_ActionSucceeded, f)]
  else if f.openFailed && !e.retryFailedOpening then [(E_ActionFailed, f)]
  else [(E_ActionFailed, f.setOpenFailed true),
        (E_ActionSucceeded, (f.setOpenings (inc f.openings)).setOpeningRec true)] ++
       (if e.errorAfterBroadcast then [(E_ActionFailed, (f.setOpenings (inc f.openings)).setOpenFailed true)] else [])

def stopResend (f : F) : F := f.setResend false

/-- spending the output back (`ClaimSwapTransactionWithCsv` / `ClaimSwapTransactionCoop`) -/
def spendOutcomes (retry : Bool) (f : F) : List (Ev × F) :=
  if f.claimTxRec then [(E_ActionSucceeded, f)]
  else [(E_ActionSucceeded, (f.setSpentBack true).setClaimTxRec true),
        (if retry then (E_OnRetry, f) else (E_ActionFailed, f))]

def awaitOutcomes (e : Env) (f : F) : List (Ev × F) :=
  [(E_NoOp, f.setCsvWatch true)] ++ (if e.scriptFails then [(E_ActionFailed, f)] else [])

def doneOutcomes (e : Env) (acts : List Act) (f : F) : List (Ev × F) :=
  match acts with
  | [.AddSuspiciousPeerAction, .NoOpDoneAction] =>
      [(E_Done, (stopResend f).setSuspicious true)] ++ (if e.policyFails then [(E_Done, stopResend f)] else [])
  | [.NoOpDoneAction] => [(E_Done, stopResend f)]
  | _ => [(E_Done, f)]

def outcomes0 (e : Env) (acts : List Act) (f : F) : List (Ev × F) :=
  match acts with
  | [.NoOpAction] => [(E_NoOp, f)]
  | [.SetBlindingKeyActionWrapper, .CreateSwapRequestAction]
  | [.CheckRequestWrapperAction, .SetBlindingKeyActionWrapper, .CreateSwapOutFromRequestAction]
  | [.SendMessageAction] | [.SendCancelAction] => okFail f
  | [.AwaitFeeInvoicePayment] => [(E_NoOp, f)]
  | [.CheckPremiumAmount, .CreateAndBroadcastOpeningTransaction] =>
      -- the premium check compares persisted values: once it passed (the node broadcast) it passes again
      -- (a failed check is recorded by `HandleError` like a failed broadcast)
      if f.openingRec && f.openings ≥ 1 then [(E_ActionSucceeded, f)]
      else (E_ActionFailed, f.setOpenFailed true) :: openOutcomes e f
  | [.CreateAndBroadcastOpeningTransaction] => openOutcomes e f
  | [.SendMessageWithRetryAction] =>
      -- AddSender refuses a second sender for the same swap
      if f.resend then [(E_ActionFailed, f)] else [(E_ActionSucceeded, f.setResend true), (E_ActionFailed, f)]
  | [.AwaitPaymentOrCsvAction] => awaitOutcomes e f
  | [.StopSendMessageWithRetryWrapperAction, .AwaitCsvAction] => awaitOutcomes e (stopResend f)
  | [.StopSendMessageWithRetryWrapperAction, .ClaimSwapTransactionWithCsv] => spendOutcomes true (stopResend f)
  | [.StopSendMessageWithRetryWrapperAction, .ClaimSwapTransactionCoop] =>
      (E_ActionFailed, stopResend f) :: spendOutcomes false (stopResend f)
  | [.CancelAction] | [.NoOpDoneAction] | [.AddSuspiciousPeerAction, .NoOpDoneAction] => doneOutcomes e acts f
  | _ => Ev.all.map fun ev => (ev, f.setUnknownAct true)

/-- the broadcast-opening states: `openFailed` speaks about records stored in these states only -/
def openStates : List St := [.State_SwapInSender_BroadcastOpeningTx, .State_SwapOutReceiver_BroadcastOpeningTx]

def outcomes (e : Env) (s : St) (acts : List Act) (f : F) : List (Ev × F) :=
  (outcomes0 e acts f).map fun (ev, f') => (ev, if openStates.contains s then f' else f'.setOpenFailed false)

def crashIn (e : Env) (_s : St) (acts : List Act) (f : F) : List F :=
  match acts with
  | [.CheckPremiumAmount, .CreateAndBroadcastOpeningTransaction] | [.CreateAndBroadcastOpeningTransaction] =>
      -- (with a failed attempt on record the action returns before it reaches the wallet)
      if e.crashInBroadcast && !f.openingRec && !(f.openFailed && !e.retryFailedOpening) then [f, f.setOpenings (inc f.openings)]
      else [f]
  | [.StopSendMessageWithRetryWrapperAction, .ClaimSwapTransactionWithCsv]
  | [.StopSendMessageWithRetryWrapperAction, .ClaimSwapTransactionCoop] =>
      if f.claimTxRec then [f] else [f, f.setSpentBack true]
  | [.AddSuspiciousPeerAction, .NoOpDoneAction] => [f, f.setSuspicious true]
  | _ => [f]

def extEvents : List Ev :=
  [E_OnCancelReceived, E_OnCoopCloseReceived, E_OnFeeInvoiceReceived, E_OnTxOpenedMessage,
   E_SwapInSender_OnAgreementReceived, E_OnInvalid_Message, E_OnTimeout, E_OnFeeInvoicePaid,
   E_OnClaimInvoicePaid, E_OnCsvPassed, E_OnTxConfirmed, E_ActionFailed,
   E_SwapInSender_OnSwapInRequested, E_OnSwapOutRequestReceived]

/-- event guards: the claim-paid notification needs a paid invoice, the CSV callback needs a registered
    watch; an `opening_tx_broadcasted` from the peer is applied to the record before the table rejects it -/
def applyCtx (e : Env) (ev : Ev) (f : F) : Option F :=
  -- (a notification before any invoice exists is possible in principle and hits no table edge)
  if ev == E_OnClaimInvoicePaid then (if f.invoicePaid || f.openings == 0 then some f else none)
  else if ev == E_OnCsvPassed then (if f.csvWatch then some (f.setCsvWatch false) else none)
  else if ev == E_SwapInSender_OnAgreementReceived && e.trackAgreement then
    (if f.agreementRec then none else some (f.setAgreementRec true))
  else if ev == E_OnTxOpenedMessage then (if f.openingRec then none else some (f.setOpeningRec true))
  else some f

def sys (tb : List Row) (e : Env) : Sys F :=
  { table := tb
    applyCtx := applyCtx e
    outcomes := outcomes e
    crashIn := crashIn e
    restart := fun f => (f.setCsvWatch false).setResend false
    env := fun f => if f.openings ≥ 1 && f.openingRec && !f.invoicePaid then [f.setInvoicePaid true] else []
    ext := extEvents
    init := F.init }

def finished (s : St) : Bool := isFinished s

/-- C15: never a second opening transaction -/
def oneOpening (m : MC F) : Bool := m.f.openings ≤ 1
/-- C07: a broadcast opening transaction is in the durable record -/
def recorded (m : MC F) : Bool := m.f.openings == 0 || m.f.openingRec
/-- C07: a swap with locked funds is finished only when paid or spent back -/
def settled (m : MC F) : Bool := !(finished m.st && m.f.openings ≥ 1) || m.f.invoicePaid || m.f.spentBack
/-- C07/C16: while funds are locked and the swap rests in a waiting state, the CSV watch is registered -/
def csvWaitStates : List St :=
  [.State_SwapInSender_AwaitClaimPayment, .State_SwapOutReceiver_AwaitClaimInvoicePayment, .State_WaitCsv]
def watched (m : MC F) : Bool :=
  !(m.alive && m.pend.isNone && m.active && csvWaitStates.contains m.st) || m.f.csvWatch

def waitingStates : List St :=
  [.State_SwapInSender_SendTxBroadcastedMessage, .State_SwapInSender_AwaitClaimPayment,
   .State_SwapOutReceiver_SendTxBroadcastedMessage, .State_SwapOutReceiver_AwaitClaimInvoicePayment]
/-- C22: a retransmitter is active only while the swap waits for the taker's reaction -/
def resendOnlyWaiting (m : MC F) : Bool := !m.f.resend || waitingStates.contains m.st
/-- C26: a swap that ended in a CSV refund has the peer on the suspicious list -/
def quarantined (m : MC F) : Bool := !(m.st == .State_ClaimedCsv && m.pend.isNone && m.alive && !m.active) || m.f.suspicious

end PsVerif.Model.AbsMk
