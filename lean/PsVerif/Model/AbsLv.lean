import PsVerif.Model.Abs
/-
Abstraction for termination (C16): which local triggers a waiting swap holds.

Flags:
  timerArmed   a negotiation timer for this swap is pending in the timeout service     (volatile)
  confWatch    a confirmation watch for the opening transaction is registered          (volatile)
  csvWatch     a CSV watch for the opening output is registered                        (volatile)
  late         the chain has advanced beyond the taker's payment window counted from the stored start height
               (environment; once true it stays true)
  unknownAct   an action chain without a summary was executed

All three triggers live in memory only: a restart clears them and `Recover` re-runs the action of the
persisted state, which re-arms what that action arms (or the state is failed, `FailOnrecover`).
The timeout, confirmation and CSV events reach a swap only through an armed trigger (`applyCtx`).
-/
namespace PsVerif.Model.AbsLv
open PsVerif.Gen PsVerif.Model.Abs

structure F where
  bits : Nat
  deriving DecidableEq, Repr

namespace F
def bit (f : F) (i : Nat) : Bool := f.bits.testBit i
def setBit (f : F) (i : Nat) (b : Bool) : F :=
  if b then ⟨f.bits ||| (1 <<< i)⟩ else ⟨f.bits &&& ((1 <<< 8) - 1 - (1 <<< i))⟩
def timerArmed (f : F) := f.bit 0
def confWatch (f : F) := f.bit 1
def csvWatch (f : F) := f.bit 2
def unknownAct (f : F) := f.bit 3
def late (f : F) := f.bit 4
def setTimerArmed (f : F) (b : Bool) := f.setBit 0 b
def setConfWatch (f : F) (b : Bool) := f.setBit 1 b
def setCsvWatch (f : F) (b : Bool) := f.setBit 2 b
def setUnknownAct (f : F) (b : Bool) := f.setBit 3 b
def setLate (f : F) (b : Bool) := f.setBit 4 b
def init : F := ⟨0⟩
end F

def okFail (f : F) : List (Ev × F) := [(E_ActionSucceeded, f), (E_ActionFailed, f)]

/-- complete executions of an action chain: every result the real action can produce (services failing or
    not); `good = true` keeps only what happens when the local services answer -/
def outcomesG (good : Bool) (_s : St) (acts : List Act) (f : F) : List (Ev × F) :=
  let fail (x : List (Ev × F)) : List (Ev × F) := if good then [] else x
  match acts with
  | [.NoOpAction] | [.AwaitFeeInvoicePayment] => [(E_NoOp, f)]
  | [.CreateSwapRequestAction] | [.SetBlindingKeyActionWrapper, .CreateSwapRequestAction]
  | [.CheckRequestWrapperAction, .SwapInReceiverInitAction]
  | [.CheckRequestWrapperAction, .SetBlindingKeyActionWrapper, .CreateSwapOutFromRequestAction] =>
      -- a request can also be refused by the checks (policy, amounts): that is an answer, not a failing service
      [(E_ActionSucceeded, f.setTimerArmed true), (E_ActionFailed, f)]
  | [.SendMessageAction] | [.SendCancelAction] | [.SendMessageWithRetryAction] | [.TakerSendPrivkeyAction] =>
      (E_ActionSucceeded, f) :: fail [(E_ActionFailed, f)]
  | [.CheckPremiumAmount, .PayFeeInvoiceAction] | [.CheckPremiumAmount, .CreateAndBroadcastOpeningTransaction]
  | [.CreateAndBroadcastOpeningTransaction] | [.ValidateTxAndPayClaimInvoiceAction] =>
      -- premium above the limit, an unpayable invoice, an invalid transaction: failures that no retry cures
      okFail f
  | [.SetStartingBlockHeightAction] =>
      -- stores the start height the first time; re-run (recovery) it fails once the window has passed
      if f.late then [(E_ActionFailed, f)] else (E_NoOp, f) :: fail [(E_ActionFailed, f)]
  | [.AwaitTxConfirmationAction] | [.StopSendMessageWithRetryWrapperAction, .AwaitTxConfirmationAction] =>
      -- registers the confirmation watch, or refuses the invoice / finds the window closed
      if f.late then [(E_ActionFailed, f)] else [(E_NoOp, f.setConfWatch true), (E_ActionFailed, f)]
  | [.AwaitPaymentOrCsvAction] | [.StopSendMessageWithRetryWrapperAction, .AwaitCsvAction] =>
      (E_NoOp, f.setCsvWatch true) :: fail [(E_ActionFailed, f)]
  | [.ClaimSwapTransactionWithPreimageAction] | [.StopSendMessageWithRetryWrapperAction, .ClaimSwapTransactionWithCsv] =>
      (E_ActionSucceeded, f) :: fail [(E_OnRetry, f)]
  | [.StopSendMessageWithRetryWrapperAction, .ClaimSwapTransactionCoop] => okFail f
  | [.CancelAction] | [.NoOpDoneAction] | [.AddSuspiciousPeerAction, .NoOpDoneAction] => [(E_Done, f)]
  | _ => Ev.all.map fun ev => (ev, f.setUnknownAct true)

def extEvents : List Ev :=
  [E_OnCancelReceived, E_OnCoopCloseReceived, E_OnFeeInvoiceReceived, E_OnTxOpenedMessage,
   E_SwapInSender_OnAgreementReceived, E_OnInvalid_Message, E_OnTimeout, E_OnFeeInvoicePaid,
   E_OnClaimInvoicePaid, E_OnCsvPassed, E_OnTxConfirmed, E_ActionFailed,
   E_OnSwapOutStarted, E_SwapInSender_OnSwapInRequested, E_OnSwapOutRequestReceived, E_SwapInReceiver_OnRequestReceived]

/-- the events a node receives when the peer has gone silent: its own timer and its chain watchers -/
def quietEvents : List Ev := [E_OnTimeout, E_OnCsvPassed, E_OnTxConfirmed, E_ActionFailed]

/-- the timeout callback runs only for an armed timer and consumes it; the watcher callbacks only for a
    registered watch; the confirmation watch reports once: confirmed, or a failure (`Event_ActionFailed`
    from outside comes from nowhere else) -/
def applyCtx (ev : Ev) (f : F) : Option F :=
  if ev == E_OnTimeout then (if f.timerArmed then some (f.setTimerArmed false) else none)
  else if ev == E_OnCsvPassed then (if f.csvWatch then some (f.setCsvWatch false) else none)
  else if ev == E_OnTxConfirmed || ev == E_ActionFailed then (if f.confWatch then some (f.setConfWatch false) else none)
  else some f

def restartF (f : F) : F := ((f.setTimerArmed false).setConfWatch false).setCsvWatch false

/-- every behaviour: any event at any rest point, any service result, crashes anywhere -/
def sys (tb : List Row) : Sys F :=
  { table := tb, applyCtx := applyCtx, outcomes := outcomesG false, crashIn := fun _ _ f => [f],
    restart := restartF, env := fun f => if f.late then [] else [f.setLate true], ext := extEvents, init := F.init }

/-! ### the quiet continuation: peer silent, chain advancing, local services answering, a restart when
    nothing else can happen -/

def qsys (tb : List Row) : Sys F :=
  { table := tb, applyCtx := applyCtx, outcomes := outcomesG true, crashIn := fun _ _ f => [f],
    restart := restartF, env := fun _ => [], ext := quietEvents, init := F.init }

def terminal (m : MC F) : Bool := isFinished m.st && m.pend.isNone && !m.active

/-- what can happen next once the peer is silent:
    a dead process is restarted; an event in flight is handled; a swap at rest receives one of its armed
    local triggers; with no trigger armed the only thing left is "the node is restarted from time to time" -/
def qsuccs (tb : List Row) (m : MC F) : List (MC F) :=
  if !m.alive then (restartSteps (qsys tb) m).filter (·.alive)      -- the restart itself completes
  else match m.pend with
    | some _ => rejectSteps (qsys tb) m ++ persistSteps (qsys tb) m
    | none =>
      let fired := persistSteps (qsys tb) m
      if !fired.isEmpty then fired
      else if !m.f.late then [{ m with f := m.f.setLate true }]      -- the chain keeps advancing
      else [{ m with alive := false }]                                -- a restart, from time to time

/-- every quiet continuation reaches a terminal configuration within `n` steps -/
def terminates (tb : List Row) : Nat → MC F → Bool
  | 0, m => terminal m
  | n + 1, m => terminal m || (!(qsuccs tb m).isEmpty && (qsuccs tb m).all (terminates tb n))

end PsVerif.Model.AbsLv
