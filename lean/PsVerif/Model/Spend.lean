import PsVerif.Base
import PsVerif.Model.Script
import PsVerif.Model.OpeningCheck
/-
Model of what the node builds around the opening transaction:

* the maker's side of `CreateOpeningTransaction` (lnd/lnd_wallet.go, clightning/clightning_wallet.go,
  onchain/liquid.go): which output index is reported for the funded transaction, and the
  `opening_tx_broadcasted` message assembled from it (swap/actions.go `CreateAndBroadcastOpeningTransaction`);
* the spending transactions (onchain/bitcoin.go `PrepareSpendingTransaction`, onchain/liquid.go
  `createSpendingTransaction`, onchain/utils.go `Get*Witness`): which output is spent, with which sequence,
  which value is paid out and which witness is attached.

Outputs enter as what the libraries deserialise; signatures as opaque byte strings with the verdicts of
`Script.Crypto`; the script interpreter is the one C02 is proved about.
-/
namespace PsVerif.Model.Spend
open PsVerif PsVerif.Model.Script PsVerif.Model.OpeningCheck

/-- `BitcoinOnChain.GetVoutAndVerify`: index of the first output that has the amount AND the wanted script;
    `none` is the error the adapters return -/
def findVoutBtc {S : Type} [DecidableEq S] (amount : Nat) (want : S) (outs : List (BtcOut S)) : Option Nat :=
  outs.findIdx? (fun o => o.value == wrapI64 (amount : Int) && decide (o.script = want))

/-- `LiquidOnChain.FindVout`: index of the first output with the wanted script -/
def findVoutLq {S : Type} [DecidableEq S] (want : S) (outs : List (LqOut S)) : Option Nat :=
  outs.findIdx? (fun o => decide (o.script = want))

inductive Kind where
  | preimage | csv | coop
  deriving DecidableEq, Repr

/-- the parts of a spending transaction the property speaks about -/
structure SpendTx (A : Type) where
  version : Nat
  prevIndex : Nat          -- index of the spent output of the opening transaction
  sequence : Nat
  outputs : List (Int × A) -- (value, destination)
  witness : List Bytes     -- witness stack without the trailing witness script
  sighashAmount : Int      -- the input amount the signature commits to (BIP143)
  deriving Repr

/-- `Get{Preimage,Csv,Cooperative}Witness`: own signature, and per kind the preimage / the peer's signature -/
def witnessOf (kind : Kind) (ownSig otherSig preimage : Bytes) : List Bytes :=
  match kind with
  | .preimage => [ownSig, preimage, [], []]
  | .csv => [ownSig]
  | .coop => [otherSig, ownSig, []]        -- taker's signature first, then the maker's (the maker builds it)

/-- the sequence of the input: the CSV for the refund, 0 otherwise -/
def seqOf (kind : Kind) (csv : Nat) : Nat := if kind = .csv then csv else 0

/-- the three Bitcoin adapters: `GetVoutAndVerify`, then `PrepareSpendingTransaction(addr, vout, csvArg, fee)`;
    `fee` is the prepared fee (coop) or the estimator's answer -/
def buildBtc {S A : Type} [DecidableEq S] (kind : Kind) (amount : Nat) (want : S) (outs : List (BtcOut S))
    (csv fee : Nat) (addr : A) (ownSig otherSig preimage : Bytes) : Option (SpendTx A) :=
  match findVoutBtc amount want outs with
  | none => none
  | some i =>
    match outs[i]? with
    | none => none
    | some o =>
      -- since /repo fix "fee exceeds the value of the swap output": value − 200 ≤ fee is refused
      if wrapI64 (o.value - 200) ≤ wrapI64 (fee : Int) then none else
      some { version := 2, prevIndex := i,
             sequence := seqOf kind csv,
             outputs := [(wrapI64 (wrapI64 (o.value - 200) - wrapI64 (fee : Int)), addr)],
             witness := witnessOf kind ownSig otherSig preimage,
             sighashAmount := wrapI64 (amount : Int) }

/-- `validateOpeningOutput` on an unblinded output -/
def lqOutputOk {S : Type} (o : LqOut S) (u : Unblinded) (amount : Nat) : Bool :=
  u.assetIsPolicy && (if o.confidential then o.commitmentMatches else o.explicitAssetIsPolicy) && u.value == amount

/-- Liquid: `FindVout`, `validateOpeningOutput`, one blinded output of value − fee to the wallet's address and
    the explicit fee output (destination `none`) -/
def buildLq {S A : Type} [DecidableEq S] (kind : Kind) (amount : Nat) (want : S) (outs : List (LqOut S))
    (csv fee : Nat) (addr : A) (ownSig otherSig preimage : Bytes) : Option (SpendTx (Option A)) :=
  if fee = 0 then none else
  match findVoutLq want outs with
  | none => none
  | some i =>
    match outs[i]? with
    | none => none
    | some o =>
      match o.unblind with
      | none => none
      | some u =>
        if lqOutputOk o u amount = false then none
        -- value − fee in uint64; an output of zero or of wrapped value the blinding library refuses
        else if fee ≥ u.value then none
        else
          some { version := 2, prevIndex := i,
                 sequence := seqOf kind csv,
                 outputs := [(((wrapU64 (u.value + 18446744073709551616 - fee) : Nat) : Int), some addr), ((fee : Int), none)],
                 witness := witnessOf kind ownSig otherSig preimage,
                 sighashAmount := (u.value : Int) }

/-- BIP68 for a version-2 transaction with a block-based relative lock: the input may be included once its
    output is `depth` blocks deep (depth 1 = next block after confirmation …) -/
def bip68Ok (version sequence depth : Nat) : Bool :=
  if version < 2 then true
  else if sequence / 2147483648 % 2 = 1 then true      -- disable flag
  else if sequence / 4194304 % 2 = 1 then true         -- time based: not modelled, the node never sets it
  else sequence % 65536 ≤ depth

/-! ### the opening_tx_broadcasted message -/

structure OpeningMsg (H T K : Type) where
  txid : T
  scriptOut : Nat
  invoiceMsat : Nat
  invoiceHash : H
  invoiceExpiry : Nat
  invoiceCltv : Nat
  blindingKey : Option K
  deriving Repr

inductive Chain where
  | btc | lbtc
  deriving DecidableEq, Repr

/-- `GetInvoiceExpiry` -/
def invoiceExpiry : Chain → Nat
  | .btc => 86400
  | .lbtc => 3600

/-- `CreateAndBroadcastOpeningTransaction`: the message from what the wallet adapter returned (`txid`, `vout`),
    the invoice made for the fresh preimage, and the swap's blinding key on Liquid -/
def openingMsg {H T K : Type} (chain : Chain) (claimSat finalCltv : Nat) (hash : H) (txid : T) (vout : Nat) (bk : K) :
    OpeningMsg H T K :=
  { txid := txid, scriptOut := vout, invoiceMsat := wrapU64 (claimSat * 1000), invoiceHash := hash,
    invoiceExpiry := invoiceExpiry chain, invoiceCltv := finalCltv,
    blindingKey := (match chain with | .lbtc => some bk | .btc => none) }

end PsVerif.Model.Spend
