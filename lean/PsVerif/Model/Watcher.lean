import PsVerif.Base
/-
Model of the RPC chain watcher (txwatcher/rpctxwatcher.go, txwatcher/blockchainRpc.go): one iteration of
`observationLoop` as a function of the height it was handed and of the RPC answers it reads
(`IsTxInMempoolOrRange`), with the uint32 arithmetic of the code; and the CSV checks of `HandleCsvTx` /
`AddWaitForCsvTx`.
-/
namespace PsVerif.Model.Watcher
open PsVerif

/-- gettxout: does its best-block hash equal the hash of the tip the watcher just read, and the confirmations -/
structure TxOut where
  bestMatches : Bool
  confs : Nat
  deriving DecidableEq, Repr

/-- the block scan `IsTxInRange(start .. tip)` used when gettxout knows nothing of the output -/
inductive RangeRes where
  | notFound | found (h : Nat) | rpcErr
  deriving DecidableEq, Repr

/-- the RPC answers read during one `IsTxInMempoolOrRange` call -/
structure View where
  heightErr : Bool
  rpcHeight : Nat
  hashErr : Bool
  txoutErr : Bool
  txout : Option TxOut
  hashErr2 : Bool          -- GetBlockHash(tip + 1 - confirmations)
  rawErr : Bool            -- GetRawtransactionWithBlockHash
  range : RangeRes
  deriving DecidableEq, Repr

inductive Found where
  | ok (firstSeen : Nat) | notFound | unconfirmed | outOfSync | err
  deriving DecidableEq, Repr

def isTxInMempoolOrRange (start : Nat) (v : View) : Found :=
  if v.heightErr then .err
  else if v.hashErr then .err
  else if v.txoutErr then .err
  else match v.txout with
    | some t =>
      if !t.bestMatches then .outOfSync
      else if t.confs = 0 then .unconfirmed
      else if t.confs = 1 then (if v.rawErr then .err else .ok (wrapU32 v.rpcHeight))
      else if v.hashErr2 then .err
      else if v.rawErr then .err
      else .ok (wrapU32i (Int.ofNat (wrapU32 v.rpcHeight) + 1 - Int.ofNat t.confs))
    | none =>
      if wrapU32 v.rpcHeight < start then .err          -- "expected start_block < end_block"
      else match v.range with
        | .found h => .ok h
        | .notFound => .notFound
        | .rpcErr => .err

inductive Out where
  | dup          -- a height already seen: nothing is read
  | wait
  | failed       -- the confirmation callback is called with an error: the taker gives the swap up
  | confirmed
  deriving DecidableEq, Repr

/-- one iteration of `observationLoop` for the height `height` taken from the channel -/
def observe (confs start limit lastHeight height : Nat) (v : View) : Out :=
  if height ≤ lastHeight then .dup
  else if height ≥ wrapU32 (start + limit) then .failed
  else match isTxInMempoolOrRange start v with
    | .notFound => .wait
    | .unconfirmed => .wait
    | .outOfSync => .wait
    | .err => .failed
    | .ok firstSeen =>
      if firstSeen > wrapU32 (start + limit) then .failed
      -- the depth is counted up to the handed height or the tip the answers refer to, whichever is lower
      -- (a reorganisation can leave the node with a shorter best chain than the height handed)
      else if Int.ofNat (min height (wrapU32 v.rpcHeight)) - (Int.ofNat firstSeen - 1) ≥ Int.ofNat confs then .confirmed
      else .wait

/-- `HandleCsvTx` for one watched output: gettxout error / unknown output / too few confirmations: not yet -/
def csvDue (csv : Nat) (txoutErr : Bool) (txout : Option Nat) : Bool :=
  if txoutErr then false else match txout with
    | none => false
    | some c => !(decide (csv > c))

end PsVerif.Model.Watcher

/-! ### the Electrum observers (electrum/tx_observer.go) and the LWK header filter -/
namespace PsVerif.Model.Watcher

inductive ElOut where
  | nothing      -- not called back, stays registered
  | error        -- an error is returned (logged), stays registered
  | failed       -- confirmation callback with an error, deregistered
  | confirmed    -- confirmation callback with the raw transaction, deregistered
  | matured      -- CSV callback, deregistered
  deriving DecidableEq, Repr

/-- `hasConfirmations`: none = error -/
def hasConfirmations (txHeight tip : Int) (required : Nat) : Option Bool :=
  if tip ≤ 0 then none
  else if txHeight ≤ 0 then some false
  else if txHeight > tip then none
  else some (decide (tip - txHeight + 1 ≥ Int.ofNat required))

/-- `observeOpeningTX.Callback`; `hist` = the height Electrum lists the transaction at (≤ 0: mempool), none = not listed -/
def elOpening (start window required : Nat) (current : Int) (histErr : Bool) (hist : Option Int) (rawErr : Bool) : ElOut :=
  if current ≤ 0 then .error
  else if current < Int.ofNat start ∨ current ≥ Int.ofNat start + Int.ofNat window then .failed
  else if histErr then .error
  else match hist with
    | none => .nothing
    | some txH => match hasConfirmations txH current required with
      | none => .error
      | some false => .nothing
      | some true => if rawErr then .nothing else .confirmed

/-- `observeCSVTX.Callback` -/
def elCsv (csv : Nat) (current : Int) (histErr : Bool) (hist : Option Int) : ElOut :=
  if histErr then .error
  else match hist with
    | none => .nothing
    | some txH => match hasConfirmations txH current csv with
      | none => .error
      | some false => .nothing
      | some true => .matured

/-- `acceptBlockHeight`: (new stored height, observers are updated); none = error -/
def acceptHeight (stored : Int) (terminal : Bool) (header : Option Int) : Option (Int × Bool) :=
  match header with
  | none => none
  | some h =>
    if h ≤ 0 then none
    else if terminal then none
    else if stored > 0 ∧ h ≤ stored then some (stored, false)
    else some (h, true)

end PsVerif.Model.Watcher

/-! ### the LND watcher (lnd/txwatcher.go): what it does with a confirmation event and with block epochs -/
namespace PsVerif.Model.Watcher

inductive LndOut where
  | nothing | confirmed | failed
  deriving DecidableEq, Repr

/-- the confirmation notification of lnd arrives (the transaction has the target confirmations; `confHeight`
    is the block of its first confirmation); `current` is GetInfo's height -/
def lndOnConf (safety : Nat) (currentErr : Bool) (current confHeight : Nat) : LndOut :=
  if currentErr then .nothing
  else if Int.ofNat current - Int.ofNat confHeight + 1 ≥ Int.ofNat safety then .failed
  else .confirmed

/-- the CSV watcher counts block epochs after lnd's 144-confirmation notification -/
def lndCsvOnEpoch (csv : Nat) (epoch confHeight : Nat) : Bool :=
  decide (wrapU32i (Int.ofNat epoch - Int.ofNat confHeight + 1) ≥ csv)

end PsVerif.Model.Watcher
