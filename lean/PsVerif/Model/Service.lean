import PsVerif.Model.Route
/-
Model of the swap registry of swap.SwapService: the active-swap map with `lockSwap` /
`RemoveActiveSwap`, the known-id check of the request handlers, and the routing guards of
`OnMessageReceived` for messages that belong to an existing swap.
-/
namespace PsVerif.Model.Service
open PsVerif.Model

structure Entry where
  id : String
  scid : String
  peer : String
  deriving DecidableEq, Repr

structure Reg where
  active : List Entry
  stored : List String       -- ids that have a record in the store (active or not, recovered or not)
  deriving Repr

inductive LockErr where
  | idInUse | channelBusy
  deriving DecidableEq, Repr

/-- `lockSwap`: one state machine per id, one active swap per channel (channel ids compared in one
    spelling) -/
def lockSwap (r : Reg) (e : Entry) : Except LockErr Reg :=
  if r.active.any (fun a => a.id == e.id) then .error .idInUse
  else if r.active.any (fun a => clnStyle a.scid == clnStyle e.scid) then .error .channelBusy
  else .ok { r with active := e :: r.active }

def removeActive (r : Reg) (id : String) : Reg := { r with active := r.active.filter (fun a => a.id != id) }

def known (r : Reg) (id : String) : Bool := r.active.any (fun a => a.id == id) || r.stored.contains id

inductive ReqResult where
  | refusedKnownId | cancelBusy | accepted
  deriving DecidableEq, Repr

/-- an incoming request (after its pre-checks passed): refused without any effect when the id is known,
    answered with cancel when the channel is busy, otherwise registered (and its record stored) -/
def onRequest (r : Reg) (e : Entry) : Reg × ReqResult :=
  if known r e.id then (r, .refusedKnownId)
  else match lockSwap r e with
    | .error _ => (r, .cancelBusy)
    | .ok r' => ({ r' with stored := e.id :: r'.stored }, .accepted)

/-! The request handlers are NOT one atomic step: the "id known?" test runs first, then several Lightning calls
(spendable / receivable balance, probe payment) during which other messages are handled (the CLN plugin runs
every incoming message in its own goroutine), and only then the lock is taken.  `passesIdTest` and
`commitRequest` are the two halves; any operations may happen in between. -/

/-- first half: the test at the top of the handler -/
def passesIdTest (r : Reg) (e : Entry) : Bool := !known r e.id

/-- second half, when the Lightning calls have returned: take the lock; then (fix e55bb17) look at the store again
    and give the lock back if a swap with this id has been stored in the meantime -/
def commitRequest (r : Reg) (e : Entry) : Reg × ReqResult :=
  match lockSwap r e with
  | .error .idInUse => (r, .refusedKnownId)
  | .error .channelBusy => (r, .cancelBusy)
  | .ok r' => if r.stored.contains e.id then (r, .refusedKnownId) else ({ r' with stored := e.id :: r'.stored }, .accepted)

/-- the second half as it was before the fix: the lock alone decided -/
def commitRequestOld (r : Reg) (e : Entry) : Reg × ReqResult :=
  match lockSwap r e with
  | .error .idInUse => (r, .refusedKnownId)
  | .error .channelBusy => (r, .cancelBusy)
  | .ok r' => ({ r' with stored := e.id :: r'.stored }, .accepted)

inductive Route where
  | unknownSwap | wrongSender | toSwap (e : Entry)
  deriving DecidableEq, Repr

/-- a non-request message: it reaches a swap only if that swap is active and the sender is its peer -/
def routeMsg (r : Reg) (id sender : String) : Route :=
  match r.active.find? (fun a => a.id == id) with
  | none => .unknownSwap
  | some e => if e.peer == sender then .toSwap e else .wrongSender

inductive Op where
  | lock (e : Entry) | remove (id : String) | request (e : Entry) | commit (e : Entry)

def apply (r : Reg) : Op → Reg
  | .lock e => match lockSwap r e with | .ok r' => r' | .error _ => r
  | .remove id => removeActive r id
  | .request e => (onRequest r e).1
  | .commit e => (commitRequest r e).1

def RegInv (r : Reg) : Prop :=
  (r.active.map (fun a => clnStyle a.scid)).Nodup ∧ (r.active.map (·.id)).Nodup

end PsVerif.Model.Service
