import PsVerif.Model.Abs
/-
Trace inclusion for the correspondence check: the driver follows the REAL machine's persisted
configurations and keeps the set of abstract configurations consistent with what was observed so far
(subset construction).  An observation the abstract system cannot produce empties the set.
-/
namespace PsVerif.Model.Abs
open PsVerif.Gen

def dedup {α : Type} [DecidableEq α] (l : List α) : List α :=
  l.foldl (fun acc x => if acc.contains x then acc else x :: acc) []

/-- steps that leave no trace in the store: environment changes, rejected events, a finished swap
    coming back after a restart -/
def silentSteps {F : Type} (sys : Sys F) (m : MC F) : List (MC F) :=
  envSteps sys m ++ rejectSteps sys m ++
  (restartSteps sys m).filter (fun m' => m'.alive && m'.pend.isNone && (!m'.active || (actsOf sys.table m'.st).isEmpty))

def silentClosure {F : Type} [DecidableEq F] (sys : Sys F) (S : List (MC F)) : List (MC F) :=
  let s1 := dedup (S ++ S.flatMap (silentSteps sys))
  let s2 := dedup (s1 ++ s1.flatMap (silentSteps sys))
  dedup (s2 ++ s2.flatMap (silentSteps sys))

/-- the real machine wrote a record with state `st` and flags `f` -/
def obsPersist {F : Type} [DecidableEq F] (sys : Sys F) (S : List (MC F)) (st : St) (f : F) : List (MC F) :=
  dedup (((silentClosure sys S).flatMap fun m =>
    persistSteps sys m ++ (restartSteps sys m).filter (fun m' => m'.alive && m'.active && (!(actsOf sys.table m'.st).isEmpty || m'.pend.isSome))).filter
      fun m' => m'.st == st && m'.f == f)

/-- the real process died (flags of the environment are re-read at the next persist) -/
def obsCrash {F : Type} [DecidableEq F] (sys : Sys F) (S : List (MC F)) : List (MC F) :=
  dedup ((silentClosure sys S).flatMap fun m =>
    (if m.alive then [] else [m]) ++ crashSteps sys m ++ (restartSteps sys m).filter (fun m' => !m'.alive))

/-- the real process is alive and at rest (the scenario step returned): no event is in flight, and the swap is /
    is not in the service's active map -/
def obsRest {F : Type} [DecidableEq F] (sys : Sys F) (S : List (MC F)) (active : Bool) : List (MC F) :=
  dedup ((silentClosure sys S).filter fun m => m.alive && m.pend.isNone && m.active == active)

end PsVerif.Model.Abs
