import PsVerif.Props.C25
/-
C25 violation witnesses (known findings; replayed on the real code by monitor C25).
Outside the documented file format the operations answer nil without taking effect:
 * after a [section] header every appended option belongs to a group that does not exist and is ignored;
 * a list entry written under the Go field name (`PeerAllowlist=`) is not removed by Remove*.
-/
namespace PsVerif.Findings.C25
open PsVerif.Model.PolicyFile PsVerif.Props.C25

def withSection : St := ⟨⟨[['[', 'p', ']']], true⟩, Policy.default, true⟩

/-- file and memory agree, yet … -/
example : Sync withSection := by unfold Sync; decide +kernel

/-- … adding a peer answers ok and the peer is not allowed (memory and file still agree: the line is in
    the file, in the section) -/
theorem section_add_no_effect :
    (step withSection (.addAllow pkA)).2 = .ok ∧ isPeerAllowed (step withSection (.addAllow pkA)).1.mem pkA = false := by
  decide +kernel

/-- … switching new swaps off answers ok and new swaps stay allowed -/
theorem section_disable_no_effect :
    (step withSection (.setNew false)).2 = .ok ∧ (step withSection (.setNew false)).1.mem.allowNew = true := by
  decide +kernel

def withFieldName : St := ⟨⟨[kAllowF ++ '=' :: pkA], true⟩, { Policy.default with allow := [pkA] }, true⟩

example : Sync withFieldName := by unfold Sync; decide +kernel

/-- removing a peer listed under the Go field name answers ok and the peer stays allowed -/
theorem fieldname_remove_no_effect :
    (step withFieldName (.removeAllow pkA)).2 = .ok ∧ isPeerAllowed (step withFieldName (.removeAllow pkA)).1.mem pkA = true := by
  decide +kernel

end PsVerif.Findings.C25
