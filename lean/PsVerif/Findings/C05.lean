import PsVerif.Props.C05
/- Witnesses that the full statement of C05 is false of this tree's model. Not part of any check's obligations. -/
namespace PsVerif.Findings.C05
open PsVerif PsVerif.Model PsVerif.Gen PsVerif.Props.C05

/-- both guards admit the boundary: final CLTV 504 paid at start + 504 over CLN, transaction confirmed in
    the block after the start height: the HTLC can be held until block start + 1009, which is the block in
    which the CSV refund can confirm -/
theorem C05_violated_boundaries : ¬ C05_statement := by
  intro h
  have := h 504 1000000000 1000000 800000 800001 800504 800001 1 (Or.inl rfl) (by decide) (by decide) (by decide)
  revert this
  decide

/-- even the honest invoice (final 503) violates it on LND (BlockPadding 3) at the end of the window -/
theorem C05_violated_honest_lnd :
    awaitTxConfBtc bitcoinCsv 503 1000000000 1000000 800000 800001 = .ok ∧
    payIterationBtc bitcoinCsv 800000 800504 = true ∧
    ¬ (htlcExpiry 800504 503 3 < 800001 + bitcoinCsv) := by decide

end PsVerif.Findings.C05
