import PsVerif.Props.C06
/-
Witnesses that the FULL statement of C06 is false of this tree's model (and, replayed by the Go
monitor, of the real code): recorded as known findings.  This module is not part of any check's
proof obligations: if the code is repaired these witnesses are expected to stop type-checking.
-/
namespace PsVerif.Findings.C06
open PsVerif.Gen PsVerif.Model.Abs PsVerif.Model.AbsC06 PsVerif.Props.C06

def pendingOnly : Backend := { errorWhilePending := true, crashInPay := false }
def crashOnly : Backend := { errorWhilePending := false, crashInPay := true }

def bad (m : MC F) : Bool := !holds m

def w_pending := findPath (sysOut pendingOnly) bad 40
def w_crash := findPath (sysOut crashOnly) bad 40

/-- a pay attempt errors while its HTLC is in flight: the taker gives up and reveals its key -/
theorem C06_violated_error_while_pending :
    ∃ m, Reach (sysOut pendingOnly) m ∧ holds m = false := by
  have hv : validPath (sysOut pendingOnly) w_pending = true := by decide +kernel
  have hb : (w_pending.getLast?.map bad) = some true := by decide +kernel
  cases hl : w_pending.getLast? with
  | none => simp [hl] at hb
  | some m =>
    simp [hl, bad] at hb
    exact ⟨m, reach_of_validPath _ _ hv m (List.mem_of_getLast? hl), by simpa using hb⟩

/-- the process dies between the start of the payment and the next persist -/
theorem C06_violated_crash_in_pay :
    ∃ m, Reach (sysOut crashOnly) m ∧ holds m = false := by
  have hv : validPath (sysOut crashOnly) w_crash = true := by decide +kernel
  have hb : (w_crash.getLast?.map bad) = some true := by decide +kernel
  cases hl : w_crash.getLast? with
  | none => simp [hl] at hb
  | some m =>
    simp [hl, bad] at hb
    exact ⟨m, reach_of_validPath _ _ hv m (List.mem_of_getLast? hl), by simpa using hb⟩

/-- hence the full statement fails -/
theorem C06_statement_false : ¬ C06_statement := by
  intro h
  obtain ⟨m, hr, hb⟩ := C06_violated_error_while_pending
  -- the hostile environment allows everything `pendingOnly` allows; re-run the witness there
  have hv : validPath (sysOut hostile) (findPath (sysOut hostile) bad 40) = true := by decide +kernel
  have hb' : ((findPath (sysOut hostile) bad 40).getLast?.map bad) = some true := by decide +kernel
  cases hl : (findPath (sysOut hostile) bad 40).getLast? with
  | none => simp [hl] at hb'
  | some m' =>
    simp [hl, bad] at hb'
    have := h.1 m' (reach_of_validPath _ _ hv m' (List.mem_of_getLast? hl))
    simp [this] at hb'

end PsVerif.Findings.C06
