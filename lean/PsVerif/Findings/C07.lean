import PsVerif.Proofs.MkCert
/- Witness histories for the known findings of C07 / C15 (crash between the wallet's broadcast and the
   persist that follows).  Not part of any check's obligations. -/
namespace PsVerif.Findings.C07
open PsVerif.Gen PsVerif.Model.Abs PsVerif.Model.AbsMk PsVerif.Proofs.MkCert

def crashy : Env := { trackAgreement := false, crashInBroadcast := true, errorAfterBroadcast := false, scriptFails := false, policyFails := false }
/-- the code before the fix "do not repeat a failed opening broadcast on recovery" -/
def crashyOld : Env := { crashy with retryFailedOpening := true }

def w_norecord := findPath (sysOut crashy) (fun m => !recorded m) 60
def w_second := findPath (sysIn crashyOld) (fun m => !oneOpening m) 60

/-- an opening transaction is on the chain while the record does not contain it -/
theorem C07_violated_crash_after_broadcast : ∃ m, Reach (sysOut crashy) m ∧ recorded m = false := by
  have hv : validPath (sysOut crashy) w_norecord = true := by decide +kernel
  have hb : (w_norecord.getLast?.map fun m => !recorded m) = some true := by decide +kernel
  cases hl : w_norecord.getLast? with
  | none => simp [hl] at hb
  | some m =>
    simp [hl] at hb
    exact ⟨m, reach_of_validPath _ _ hv m (List.mem_of_getLast? hl), hb⟩

/-- two opening transactions for one swap (C15) in the code before the fix: a failed attempt, the process
    dies with the broadcast-opening state stored, the recovery repeats the attempt and dies between the
    broadcast and the persist, the next recovery broadcasts again -/
theorem C15_violated_second_opening_before_fix : ∃ m, Reach (sysIn crashyOld) m ∧ oneOpening m = false := by
  have hv : validPath (sysIn crashyOld) w_second = true := by decide +kernel
  have hb : (w_second.getLast?.map fun m => !oneOpening m) = some true := by decide +kernel
  cases hl : w_second.getLast? with
  | none => simp [hl] at hb
  | some m =>
    simp [hl] at hb
    exact ⟨m, reach_of_validPath _ _ hv m (List.mem_of_getLast? hl), hb⟩

end PsVerif.Findings.C07
