/-
Machine integers and small helpers shared by every model file.

Go's fixed-width integers are modelled as `Nat`/`Int` with explicit wrap so that
`omega` decides the arithmetic and overflow is part of the model.
-/
namespace PsVerif

def U8 : Nat := 2 ^ 8
def U32 : Nat := 2 ^ 32
def U64 : Nat := 2 ^ 64
def I64max : Int := 2 ^ 63 - 1
def I64min : Int := -(2 ^ 63)

/-- wrap a natural number to `uint32` -/
def wrapU32 (n : Nat) : Nat := n % 4294967296
/-- wrap a natural number to `uint64` -/
def wrapU64 (n : Nat) : Nat := n % 18446744073709551616
/-- wrap an integer to `uint64` (two's complement) -/
def wrapU64i (i : Int) : Nat := (i % 18446744073709551616).toNat
/-- wrap an integer to `uint32` (two's complement) -/
def wrapU32i (i : Int) : Nat := (i % 4294967296).toNat
/-- wrap an integer to `int64` (two's complement) -/
def wrapI64 (i : Int) : Int :=
  let m := i % 18446744073709551616
  if m ≥ 9223372036854775808 then m - 18446744073709551616 else m
/-- wrap an integer to `int32` (two's complement) -/
def wrapI32 (i : Int) : Int :=
  let m := i % 4294967296
  if m ≥ 2147483648 then m - 4294967296 else m
/-- `int64(x)` for `x : uint64` -/
def u64ToI64 (n : Nat) : Int := wrapI64 (Int.ofNat n)

/-- result of a Go function returning `error` only -/
inductive Res (ε : Type) where
  | ok : Res ε
  | err : ε → Res ε
  deriving Repr, DecidableEq

end PsVerif
