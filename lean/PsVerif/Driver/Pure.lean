import PsVerif.Model.ChanCap
import PsVerif.Driver.Util
import PsVerif.Model.Timelock
import PsVerif.Model.Route
import PsVerif.Model.Premium
import PsVerif.Model.Version
import PsVerif.Model.Upgrade
import PsVerif.Model.Wire
import PsVerif.Model.Admit
import PsVerif.Model.Amounts
/- line-protocol front end for the pure layer -/
namespace PsVerif.Driver
open PsVerif PsVerif.Model

def tlErrName : TlErr → String
  | .windowUnset => "windowUnset" | .windowBelow => "windowBelow" | .windowExceeded => "windowExceeded"
  | .invoiceCltv => "invoiceCltv" | .invoiceAmount => "invoiceAmount" | .totalCltv => "totalCltv"
  | .noStart => "noStart" | .unsafeRange => "unsafeRange" | .policy => "policy"

def resTl : Res TlErr → String
  | .ok => "ok"
  | .err e => "err " ++ tlErrName e

def routeErrName : RouteErr → String
  | .invalidCltv => "invalidCltv" | .totalCltv => "totalCltv" | .destMismatch => "destMismatch"
  | .cltvTooLarge => "cltvTooLarge" | .limitTooLarge => "limitTooLarge"

def chain? (s : String) : Option Gen.Chain :=
  if s == "btc" then some .btc else if s == "lbtc" then some .lbtc else if s == "none" then some .none else none

def handlePure : List String → Option String
  | ["tl.window", set, start, cur, window] => do
    let r := checkPaymentWindow (← bool? set) (← nat? start) (← nat? cur) (← nat? window)
    pure (resTl r)
  | ["tl.invoice", msat, cltv, claim, maxFinal] => do
    pure (resTl (validateClaimInvoice (← nat? msat) (← int? cltv) (← nat? claim) (← nat? maxFinal)))
  | ["tl.total", req, lim] => do
    pure (resTl (validateTotalCLTVDelta (← nat? req) (← nat? lim)))
  | ["tl.policy", ch, v] => do
    match Gen.timelockPolicy (← chain? ch) (← nat? v) with
    | none => pure "err policy"
    | some p => pure s!"ok {p.csv} {p.window} {p.finalCltv} {p.maxTotal} {b2s p.allowNew}"
  | ["tl.invparams", ch, v] => do
    let (e, c) := Gen.invoiceParams (← chain? ch) (← nat? v)
    pure s!"ok {e} {c}"
  | ["route.cln", payee, amt, cltv, scid, limit] => do
    match clnRoute (← unhexStr payee) (← nat? amt) (← int? cltv) (← unhexStr scid) (← nat? limit) with
    | .error e => pure ("err " ++ routeErrName e)
    | .ok hops =>
      pure ("ok " ++ toString hops.length ++ String.join (hops.map fun h =>
        s!" {hexStr h.id} {hexStr h.channel} {h.amountMsat} {h.delay} {h.direction}"))
  | ["route.lnd", payreq, dest, remote, chanId, cltv, pad, limit] => do
    match lndRequest (← unhexStr payreq) (← unhexStr dest) (← unhexStr remote) (← nat? chanId) (← int? cltv) (← nat? pad) (← nat? limit) with
    | .error e => pure ("err " ++ routeErrName e)
    | .ok q =>
      pure s!"ok {hexStr q.paymentRequest} {q.timeoutSeconds} {q.cltvLimit} {q.outgoingChanIds} {q.maxParts} {q.amt} {q.amtMsat}"
  | ["paygate", ch, h0, cltv, dmsat, d1, d2] => do
    -- a swap-in responder (taker) for 1 000 000 sat: request at height h0, announcement d1 blocks later,
    -- confirmation callback d2 blocks after that
    let c ← chain? ch
    let h0 ← nat? h0
    let cltv ← int? cltv
    let msat := wrapU64i (1000000000 + (← int? dmsat))
    let h1 := wrapU32 (h0 + (← nat? d1))
    let h2 := wrapU32 (h1 + (← nat? d2))
    match c with
    | .btc =>
      match awaitTxConfBtc Gen.bitcoinCsv cltv msat 1000000 h0 h1 with
      | .err _ => pure "rejected"
      | .ok => pure (if payIterationBtc Gen.bitcoinCsv h0 h2 then "pay" else "nopay")
    | .lbtc =>
      match Gen.timelockPolicy .lbtc Gen.protocolVersion with
      | none => pure "rejected"
      | some p =>
        match awaitTxConfLbtc p cltv msat 1000000 true h0 h1 with
        | .err _ => pure "rejected"
        | .ok => pure (if payIterationLbtc p true h0 h2 then "pay" else "nopay")
    | .none => none
  | "upgrade" :: stored :: states => do
    -- stored: "absent" or hex string; states: state names ("-" = initial state)
    let st : Option String ← (if stored == "absent" then some none else (unhexStr stored).map some)
    -- "corrupt" = a record of the swaps bucket that does not decode
    let ss ← states.mapM fun n => if n == "corrupt" then some none else (Gen.St.ofName (if n == "-" then "" else n)).map some
    match safeUpgradeQ Gen.dbVersion st ss with
    | .error .activeSwaps => pure "err activeSwaps"
    | .error .queryFailed => pure "err other"
    | .ok none => pure "ok absent"
    | .ok (some v) => pure ("ok " ++ hexStr v)
  | ["wire.classify", s] => do
    match classifyType (← unhexStr s) with
    | .parseError => pure "parseError"
    | .notPeerswap => pure "notPeerswap"
    | .peerswap t => pure s!"peerswap {t}"
  | ["wire.route", len, s] => do
    match routeMessage (← nat? len) (← unhexStr s) with
    | .tooLarge => pure "tooLarge"
    | .typeError => pure "typeError"
    | .ignored => pure "ignored"
    | .decode t => pure s!"decode {t}"
  | ["wire.tohex", n] => do pure (toHex (← int? n))
  | ["payloop", ch, h0, d2, k] => do
    -- pay loop entered d2 blocks after the start, every attempt fails, k blocks arrive after each attempt:
    -- the heights at which the payment call is made (the loop ends at the first height the guard rejects)
    let c ← chain? ch
    let h0 ← nat? h0
    let k ← nat? k
    let h2 := wrapU32 (h0 + (← nat? d2))
    let guard : Nat → Bool ← match c with
      | .btc => some (fun h => payIterationBtc Gen.bitcoinCsv h0 h)
      | .lbtc => (Gen.timelockPolicy .lbtc Gen.protocolVersion).map fun p => (fun h => payIterationLbtc p true h0 h)
      | .none => none
    let rec go (fuel h : Nat) (acc : List Nat) : List Nat :=
      match fuel with
      | 0 => acc
      | fuel + 1 => if guard h then go fuel (wrapU32 (h + k)) (h :: acc) else acc
    -- the announcement is checked at the start height first (honest invoice)
    let awaitOk : Bool ← match c with
      | .btc => some (awaitTxConfBtc Gen.bitcoinCsv 503 1000000000 1000000 h0 h0 == .ok)
      | .lbtc => (Gen.timelockPolicy .lbtc Gen.protocolVersion).map fun p =>
          (awaitTxConfLbtc p 29 1000000000 1000000 true h0 h0 == .ok)
      | .none => none
    let hs := if awaitOk then (go 40 h2 []).reverse else []
    pure (if hs.isEmpty then "none" else ",".intercalate (hs.map toString))
  | ["admission", allowNew, btcOn, lbtcOn, minMsat, acceptAll, allowlisted, suspicious, wAsset, wNet, rateBtc, rateLbtc,
     spendable, probeOk, busy, balance, fee, swapOut, version, asset, network, scid, pub, amount, limit, receivable] => do
    let scidS ← unhexStr scid
    let pubS ← unhexStr pub
    let assetS ← unhexStr asset
    let netS ← unhexStr network
    let cfg : NodeCfg := ⟨(← bool? allowNew), (← bool? btcOn), (← bool? lbtcOn), (← nat? minMsat), (← bool? acceptAll),
      (← bool? allowlisted), (← bool? suspicious), (← unhexStr wAsset), (← unhexStr wNet), (← int? rateBtc),
      (← int? rateLbtc), (← nat? spendable), (← nat? receivable), (← bool? probeOk), (← bool? busy),
      (← nat? balance), (← nat? fee)⟩
    let req : Request := ⟨(← bool? swapOut), (← nat? version), assetS, netS, scidValid scidS, hexLen pubS == some 33,
      hexLen assetS == some 33, knownNetwork netS, (← nat? amount), (← int? limit)⟩
    match admission cfg req with
    | .agreement p => pure s!"agreement {p}"
    | .cancel reason => pure ("cancel " ++ (if reason == "suspicious" then "not-allowed" else reason))
  | ["amt.out", amount, limitPpm, premium, feeSat, expectedFee, spendable] => do
    let a ← nat? amount
    let p ← int? premium
    match feeDecision a p (premiumLimit a (← int? limitPpm)) ((← nat? feeSat) * 1000) (← nat? spendable) (← nat? expectedFee) with
    | .pay => pure s!"pay claim={wrapU64 (claimAmountOut a p * 1000)}"
    | .premiumTooHigh => pure "premiumTooHigh"
    | .premiumTooLow => pure "premiumTooLow"
    | .notEnoughSpendable => pure "notEnoughSpendable"
    | .feeTooHigh => pure "feeTooHigh"
  | ["amt.in", amount, limitPpm, premium] => do
    let a ← nat? amount
    let p ← int? premium
    match inDecision a p (premiumLimit a (← int? limitPpm)) with
    | none => pure (if p > premiumLimit a (← int? limitPpm) then "premiumTooHigh" else "premiumTooLow")
    | some (lock, ask) => pure s!"lock={lock} ask={ask}"
  | ["cap.lnd", bal, res] => do pure (toString (lndAboveReserveMsat (← int? bal) (← nat? res)))
  | ["cap.clnspend", rep, toUs, res] => do pure (toString (clnSpendableMsat (← nat? rep) (← nat? toUs) (← nat? res)))
  | ["cap.clnrecv", rep, total, toUs, res] => do
    pure (toString (clnReceivableMsat (← nat? rep) (← nat? total) (← nat? toUs) (← nat? res)))
  | ["scid.cln", s] => do pure (hexStr (clnStyle (← unhexStr s)))
  | ["scid.lnd", s] => do pure (hexStr (lndStyle (← unhexStr s)))
  | ["premium.compute", amt, ppm] => do pure (toString (ppmCompute (← nat? amt) (← int? ppm)))
  | ["version.ge", a, b] => do
    match compareVersions (← unhexStr a) (← unhexStr b) with
    | none => pure "err"
    | some r => pure (if r then "true" else "false")
  | ["fee.floor", s] => do pure (toString (feeFloor (← unhexStr s)))
  | ["fee.rate", est, fb, fl] => do
    let e : Option Int ← (if est == "err" then some none else (int? est).map some)
    pure (toString (feeRate e (← int? fb) (← int? fl)))
  | _ => none

end PsVerif.Driver
