import PsVerif.Driver.Util
import PsVerif.Model.Script
/- line-protocol front end for the script model -/
namespace PsVerif.Driver
open PsVerif PsVerif.Model.Script

def verdict? (s : String) : Option V :=
  if s == "v" then some .valid else if s == "i" then some .invalid else if s == "a" then some .abort else none

/-- items come as quadruples: hex bytes, verdict under the maker key, verdict under the taker key,
    whether SHA-256 of the item is the script's hash -/
def parseItems : List String → Option (List (Bytes × V × V × Bool))
  | [] => some []
  | b :: vm :: vt :: h :: rest => do
    let r ← parseItems rest
    pure ((← unhexBytesS b, ← verdict? vm, ← verdict? vt, ← bool? h) :: r)
  | _ => none

def makerKey : Bytes := [2]
def takerKey : Bytes := [3]

def handleScript : List String → Option String
  | ["script.build", maker, taker, hash, csv] => do
    pure (hexBytes (scriptBytes (← unhexBytesS maker) (← unhexBytesS taker) (← unhexBytesS hash) (← nat? csv)))
  | "script.eval" :: csv :: seq :: ver :: hash :: items => do
    let its ← parseItems items
    let h ← unhexBytesS hash
    let c : Crypto := {
      checksig := fun pk sig =>
        match its.find? (fun it => it.1 == sig) with
        | some it => if pk == makerKey then it.2.1 else it.2.2.1
        | none => .abort
      sha256 := fun x =>
        match its.find? (fun it => it.1 == x) with
        | some it => if it.2.2.2 then h else [0]
        | none => [0] }
    let ok := accepts c ⟨← nat? ver, ← nat? seq⟩ (opening makerKey takerKey h (← nat? csv)) (its.map (·.1))
    pure (if ok then "true" else "false")
  | _ => none

end PsVerif.Driver
