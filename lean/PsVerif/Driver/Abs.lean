import PsVerif.Driver.Util
import PsVerif.Model.Observe
import PsVerif.Model.AbsC06
import PsVerif.Model.AbsMk
import PsVerif.Model.AbsNg
import PsVerif.Model.AbsAn
import PsVerif.Model.AbsLv
/- line-protocol front end for the abstract-engine trace inclusion -/
namespace PsVerif.Driver
open PsVerif PsVerif.Gen PsVerif.Model.Abs

/-- the observer state of the abstraction selected by `abs.reset` -/
inductive AbsState where
  | none
  | c06 (sys : Sys Model.AbsC06.F) (S : List (MC Model.AbsC06.F))
  | mk (sys : Sys Model.AbsMk.F) (S : List (MC Model.AbsMk.F))
  | ng (sys : Sys Model.AbsNg.F) (S : List (MC Model.AbsNg.F))
  | an (sys : Sys Model.AbsAn.F) (S : List (MC Model.AbsAn.F))
  | lv (sys : Sys Model.AbsLv.F) (S : List (MC Model.AbsLv.F))

def role? (s : String) : Option Role := Role.ofName s

def bits? (s : String) : Option (List Bool) :=
  s.toList.mapM fun c => if c == '1' then some true else if c == '0' then some false else Option.none

def c06F? (s : String) : Option Model.AbsC06.F :=
  match bits? s with
  | some [a, b, c, d, e] => some ⟨a, b, c, d, e, false⟩
  | _ => Option.none

def mkF? (s : String) : Option Model.AbsMk.F :=
  match s.toList with
  | o :: rest =>
    match bits? (String.ofList rest) with
    | some [a, b, c, d, e, g, h, i, j] =>
      let n := if o == '0' then 0 else if o == '1' then 1 else 2
      some ((((((((((Model.AbsMk.F.init.setOpenings n).setOpeningRec a).setInvoicePaid b).setSpentBack c).setClaimTxRec d).setCsvWatch e).setResend g).setSuspicious h).setAgreementRec i).setOpenFailed j)
    | _ => Option.none
  | [] => Option.none

def ngF? (s : String) : Option Model.AbsNg.F :=
  match bits? s with
  | some [a, b, c, d] => some ((((Model.AbsNg.F.init.setTimerArmed a).setRequestSent b).setCancelTried c).setCancelRecv d)
  | _ => Option.none

def anF? (s : String) : Option Model.AbsAn.F :=
  match bits? s with
  | some [a, b, c, d] => some ((((Model.AbsAn.F.init.setAnchorRec a).setKeySent b).setPaidNoAnchor c).setAnchorMoved d)
  | _ => Option.none

def lvF? (s : String) : Option Model.AbsLv.F :=
  match bits? s with
  | some [a, b, c] => some (((Model.AbsLv.F.init.setTimerArmed a).setConfWatch b).setCsvWatch c)
  | _ => Option.none

def tableOf : Role → List Row := Gen.table

def handleAbs (st : AbsState) : List String → Option (AbsState × String)
  | ["abs.reset", "C06", role, ewp, cip] => do
    let r ← role? role
    let sys := Model.AbsC06.sys r (tableOf r) ⟨← bool? ewp, ← bool? cip⟩
    pure (.c06 sys [initMC sys], "ok")
  | ["abs.reset", "Mk", role, cib, eab, sf, pf] => do
    let r ← role? role
    let sys := Model.AbsMk.sys (tableOf r) ⟨r == .SwapInSender, ← bool? cib, ← bool? eab, false, ← bool? sf, ← bool? pf⟩
    pure (.mk sys [initMC sys], "ok")
  | ["abs.reset", "Ng", role] => do
    let r ← role? role
    let sys := Model.AbsNg.sys (tableOf r)
    pure (.ng sys [initMC sys], "ok")
  | ["abs.reset", "An", role] => do
    let r ← role? role
    let sys := Model.AbsAn.sys (tableOf r)
    pure (.an sys [initMC sys], "ok")
  | ["abs.reset", "Lv", role] => do
    let r ← role? role
    let sys := Model.AbsLv.sys (tableOf r)
    pure (.lv sys [initMC sys], "ok")
  | ["abs.persist", s, fl] =>
    match st with
    | .lv sys S => do
      let s' ← St.ofName (if s == "-" then "" else s)
      -- `late` is a fact about the chain that the record does not show: both values are tried
      let f0 ← lvF? fl
      let S' := obsPersist sys S s' f0 ++ obsPersist sys S s' (f0.setLate true)
      pure (.lv sys S', if S'.isEmpty then "REJECT" else "ok")
    | .an sys S => do
      let s' ← St.ofName (if s == "-" then "" else s)
      let S' := obsPersist sys S s' (← anF? fl)
      pure (.an sys S', if S'.isEmpty then "REJECT" else "ok")
    | .ng sys S => do
      let s' ← St.ofName (if s == "-" then "" else s)
      let S' := obsPersist sys S s' (← ngF? fl)
      pure (.ng sys S', if S'.isEmpty then "REJECT" else "ok")
    | .mk sys S => do
      let s' ← St.ofName (if s == "-" then "" else s)
      let S' := obsPersist sys S s' (← mkF? fl)
      pure (.mk sys S', if S'.isEmpty then "REJECT" else "ok")
    | .c06 sys S => do
      let s' ← St.ofName (if s == "-" then "" else s)
      let S' := obsPersist sys S s' (← c06F? fl)
      pure (.c06 sys S', if S'.isEmpty then "REJECT" else "ok")
    | .none => some (st, "no-abstraction")
  | ["abs.crash"] =>
    match st with
    | .lv sys S =>
      let S' := obsCrash sys S
      some (.lv sys S', if S'.isEmpty then "REJECT" else "ok")
    | .an sys S =>
      let S' := obsCrash sys S
      some (.an sys S', if S'.isEmpty then "REJECT" else "ok")
    | .ng sys S =>
      let S' := obsCrash sys S
      some (.ng sys S', if S'.isEmpty then "REJECT" else "ok")
    | .mk sys S =>
      let S' := obsCrash sys S
      some (.mk sys S', if S'.isEmpty then "REJECT" else "ok")
    | .c06 sys S =>
      let S' := obsCrash sys S
      some (.c06 sys S', if S'.isEmpty then "REJECT" else "ok")
    | .none => some (st, "no-abstraction")
  | ["abs.rest", a] => do
    let act ← bool? a
    match st with
    | .lv sys S =>
      let S' := obsRest sys S act
      pure (.lv sys S', if S'.isEmpty then "REJECT" else "ok")
    | .an sys S =>
      let S' := obsRest sys S act
      pure (.an sys S', if S'.isEmpty then "REJECT" else "ok")
    | .ng sys S =>
      let S' := obsRest sys S act
      pure (.ng sys S', if S'.isEmpty then "REJECT" else "ok")
    | .mk sys S =>
      let S' := obsRest sys S act
      pure (.mk sys S', if S'.isEmpty then "REJECT" else "ok")
    | .c06 sys S =>
      let S' := obsRest sys S act
      pure (.c06 sys S', if S'.isEmpty then "REJECT" else "ok")
    | .none => pure (st, "no-abstraction")
  | _ => Option.none

end PsVerif.Driver
