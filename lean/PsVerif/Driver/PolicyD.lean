import PsVerif.Driver.Util
import PsVerif.Model.PolicyFile
/- line-protocol front end for the policy-file model (C25) -/
namespace PsVerif.Driver
open PsVerif.Model.PolicyFile

def splitNL : List Char → List (List Char)
  | [] => [[]]
  | c :: cs => match splitNL cs with
    | [] => [[]]
    | l :: ls => if c = '\n' then [] :: l :: ls else (c :: l) :: ls

def fileOfRaw (raw : List Char) : File :=
  if raw.isEmpty then ⟨[], false⟩
  else if raw.getLast? = some '\n' then ⟨(splitNL raw).dropLast, true⟩
  else ⟨splitNL raw, false⟩

def rawOfFile (f : File) : List Char :=
  let body := (f.lines.map (· ++ ['\n'])).flatten
  if f.terminated then body else body.dropLast

def polSummary (p : Policy) : String :=
  let lst (xs : List Str) := if xs.isEmpty then "-" else ",".intercalate (xs.map fun x => hexStr (String.ofList x))
  s!"allow={lst p.allow} susp={lst p.susp} acc={b2s p.acceptAll} min={p.minMsat} res={p.reserve} new={b2s p.allowNew}"

def rStr : R → String
  | .ok => "ok" | .errDup => "errDup" | .errInvalid => "errInvalid" | .errAbsent => "errAbsent"
  | .errNoFile => "errNoFile" | .errReload => "errReload"

def polReply (s : St) (r : R) : String :=
  let fresh := match parse s.file with
    | none => "err"
    | some p => if p = s.mem then "same" else "diff"
  s!"{rStr r} {polSummary s.mem} file={hexStr (String.ofList (rawOfFile s.file))} fresh={fresh}"

def handlePolicy (st : Option St) : List String → Option (Option St × String)
  | ["pol.reset", fhex, hp] => do
    let raw ← unhexStr fhex
    let hasPath ← bool? hp
    if !hasPath then
      let s : St := ⟨⟨[], false⟩, Policy.default, false⟩
      pure (some s, "ok " ++ polSummary s.mem)
    else
      let f := fileOfRaw raw.toList
      match parse f with
      | none => pure (none, "errCreate")
      | some p => pure (some ⟨f, p, true⟩, "ok " ++ polSummary p)
  | ["pol.op", name, arg] => do
    let s ← st
    let a ← unhexStr arg
    let op ← (match name with
      | "addAllow" => some (Op.addAllow a.toList)
      | "addSusp" => some (Op.addSusp a.toList)
      | "removeAllow" => some (Op.removeAllow a.toList)
      | "removeSusp" => some (Op.removeSusp a.toList)
      | "enable" => some (Op.setNew true)
      | "disable" => some (Op.setNew false)
      | "reload" => some Op.reload
      | _ => none)
    let (s', r) := step s op
    pure (some s', polReply s' r)
  | ["pol.touch", fhex] => do        -- the operator edits the file by hand
    let s ← st
    let raw ← unhexStr fhex
    pure (some { s with file := fileOfRaw raw.toList }, "ok")
  | ["pol.ask", peer] => do
    let s ← st
    let p ← unhexStr peer
    pure (some s, s!"allowed={b2s (isPeerAllowed s.mem p.toList)} suspicious={b2s (isPeerSuspicious s.mem p.toList)} new={b2s s.mem.allowNew}")
  | _ => none

end PsVerif.Driver
