import PsVerif.Driver.Util
import PsVerif.Model.Premium
/- stateful line-protocol handlers: premium store -/
namespace PsVerif.Driver
open PsVerif PsVerif.Model

def optInt : Option Int → String
  | none => "none"
  | some i => toString i

/-- `ps.*` operations on the model of the premium bucket -/
def handlePremium (s : RateStore) : List String → Option (RateStore × String)
  | ["ps.reset"] => some ([], "ok")
  | ["ps.reopen"] => some (s, "ok")      -- closing and reopening the database keeps the bucket
  | ["ps.set", peer, a, o, v] => do
    pure (storePut s (rateKey (← unhexStr peer) (← nat? a) (← nat? o)) (← int? v), "ok")
  | ["ps.setdefault", a, o, v] => do
    pure (storePut s (rateKey defaultPeer (← nat? a) (← nat? o)) (← int? v), "ok")
  | ["ps.del", peer, a, o] => do
    pure (storeDel s (rateKey (← unhexStr peer) (← nat? a) (← nat? o)), "ok")
  | ["ps.get", peer, a, o] => do
    pure (s, optInt (getRate s (← unhexStr peer) (← nat? a) (← nat? o)))
  | ["ps.compute", peer, a, o, amt] => do
    pure (s, optInt (settingCompute s (← unhexStr peer) (← nat? a) (← nat? o) (← nat? amt)))
  | ["ps.advertised", peer] => do
    let p ← unhexStr peer
    let r := fun a o => optInt (getRate s p a o)
    pure (s, s!"{r 1 1} {r 1 2} {r 2 1} {r 2 2}")
  | _ => none

end PsVerif.Driver
