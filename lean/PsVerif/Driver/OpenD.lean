import PsVerif.Driver.Util
import PsVerif.Model.OpeningCheck
/- line-protocol front end for the opening-transaction validators (C01); scripts are numbered, 0 = the wanted one -/
namespace PsVerif.Driver
open PsVerif.Model.OpeningCheck

def parseBtcOut (s : String) : Option (BtcOut Nat) :=
  match s.splitOn "/" with
  | [v, sc] => do pure ⟨← int? v, ← nat? sc⟩
  | _ => none

def parseLqOut (s : String) : Option (LqOut Nat) :=
  match s.splitOn "/" with
  | [sc, unb, conf, expl, cm] => do
    let u ← (if unb == "none" then some none else
      match unb.splitOn ":" with
      | [a, v] => do pure (some (⟨← bool? a, ← nat? v⟩ : Unblinded))
      | _ => none)
    pure ⟨← nat? sc, u, ← bool? conf, ← bool? expl, ← bool? cm⟩
  | _ => none

def tf (b : Bool) : String := if b then "true" else "false"

def handleOpen : List String → Option String
  | "open.btc" :: amount :: "-" :: outs => do
    let os ← outs.mapM parseBtcOut
    pure (tf (validateBtc (← nat? amount) 0 os))
  | "open.lq" :: amount :: outs => do
    let os ← outs.mapM parseLqOut
    pure (tf (validateLq (← nat? amount) 0 os))
  | ["open.malformed"] => some "false"   -- outside the model's domain: what does not parse has no outputs
  | ["open.bind", maxFinal, claim, msat, cltv] => do
    pure (match bindInvoice (← nat? maxFinal) (← nat? claim) (⟨0, ← nat? msat, ← int? cltv⟩ : Invoice Nat) with
      | none => "reject" | some _ => "bind")
  | _ => none

end PsVerif.Driver
