import PsVerif.Driver.Util
import PsVerif.Model.Record
import PsVerif.Gen.Schema
/- line-protocol front end for the record codec model (C14): a value of the generated record type is
   described by one token per leaf in declaration order; the reply is the JSON text encoding/json writes -/
namespace PsVerif.Driver
open PsVerif.Model.Record

mutual
def parseV : Ty → List String → Option (V × List String)
  | .ptr tf, tok :: rest =>
    if tok == "p0" then some (.nilPtr, rest)
    else if tok == "p1" then (parseF tf rest).map fun (vf, r) => (.ptr vf, r)
    else none
  | .str, tok :: rest =>
    if tok.startsWith "s:" then (unhexStr (tok.drop 2).toString).map fun s => (.str s, rest) else none
  | .uint _, tok :: rest => if tok.startsWith "n:" then ((tok.drop 2).toString.toInt?).map fun i => (.num i, rest) else none
  | .int _, tok :: rest => if tok.startsWith "n:" then ((tok.drop 2).toString.toInt?).map fun i => (.num i, rest) else none
  | .bool, tok :: rest => if tok == "b:1" then some (.bool true, rest) else if tok == "b:0" then some (.bool false, rest) else none
  | .bytes, tok :: rest =>
    if tok == "y:nil" then some (.bytes none, rest)
    else if tok.startsWith "y:" then (unhexBytesS (tok.drop 2).toString).map fun b => (.bytes (some b), rest) else none
  | .id, tok :: rest =>
    if tok == "i:nil" then some (.id none, rest)
    else if tok.startsWith "i:" then (unhexBytesS (tok.drop 2).toString).map fun b => (.id (some b), rest) else none
  | .iface, tok :: rest => if tok == "f" then some (.nilIface, rest) else none
  | _, [] => none
def parseF : TF → List String → Option (VF × List String)
  | .nil, toks => some (.nil, toks)
  | .cons _ _ ty rest, toks =>
    match parseV ty toks with
    | none => none
    | some (v, r) => (parseF rest r).map fun (vs, r') => (.cons v vs, r')
end

def hex4 (n : Nat) : String := String.ofList [hexDigit (n / 4096 % 16), hexDigit (n / 256 % 16), hexDigit (n / 16 % 16), hexDigit (n % 16)]

/-- encoding/json `appendString` with HTML escaping -/
def jsonStr (s : String) : String :=
  "\"" ++ String.join (s.toList.map fun c =>
    if c = '"' then "\\\"" else if c = '\\' then "\\\\"
    else if c.toNat = 8 then "\\b" else if c.toNat = 12 then "\\f"
    else if c = '\n' then "\\n" else if c = '\r' then "\\r" else if c = '\t' then "\\t"
    else if c.toNat < 32 || c = '<' || c = '>' || c = '&' then "\\u" ++ hex4 c.toNat
    else if c.toNat = 0x2028 || c.toNat = 0x2029 then "\\u" ++ hex4 c.toNat
    else String.singleton c) ++ "\""

mutual
def jsonText : J → String
  | .null => "null"
  | .str s => jsonStr s
  | .num i => toString i
  | .bool b => if b then "true" else "false"
  | .obj fs => "{" ++ jsonFields fs true ++ "}"
def jsonFields : JF → Bool → String
  | .nil, _ => ""
  | .cons k v rest, first => (if first then "" else ",") ++ jsonStr k ++ ":" ++ jsonText v ++ jsonFields rest false
end

mutual
def beqV : V → V → Bool
  | .str a, .str b => a == b
  | .num a, .num b => a == b
  | .bool a, .bool b => a == b
  | .bytes a, .bytes b => a == b
  | .id a, .id b => a == b
  | .nilIface, .nilIface => true
  | .nilPtr, .nilPtr => true
  | .ptr a, .ptr b => beqVF a b
  | _, _ => false
def beqVF : VF → VF → Bool
  | .nil, .nil => true
  | .cons a r, .cons b s => beqV a b && beqVF r s
  | _, _ => false
end

def handleRecord : List String → Option String
  | "rec.enc" :: toks => do
    match parseV Gen.fsmTy toks with
    | some (v, []) =>
      if !wt Gen.fsmTy v then pure "ill-typed"
      else
        let j := enc Gen.fsmTy v
        let back := match dec Gen.fsmTy j with
          | some v' => if beqV v v' then "1" else "0"
          | none => "0"
        pure (back ++ " " ++ jsonText j)
    | _ => pure "bad-value"
  | _ => none

end PsVerif.Driver
