import PsVerif.Base
/- helpers for the line protocol: decimal integers, hex-encoded strings -/
namespace PsVerif.Driver

def hexVal (c : Char) : Option Nat :=
  if '0' ≤ c ∧ c ≤ '9' then some (c.toNat - '0'.toNat)
  else if 'a' ≤ c ∧ c ≤ 'f' then some (c.toNat - 'a'.toNat + 10)
  else if 'A' ≤ c ∧ c ≤ 'F' then some (c.toNat - 'A'.toNat + 10)
  else none

def unhexBytes : List Char → Option (List Nat)
  | [] => some []
  | a :: b :: rest => do
    let x ← hexVal a
    let y ← hexVal b
    let r ← unhexBytes rest
    pure ((x * 16 + y) :: r)
  | _ => none

/-- strings travel hex-encoded (UTF-8 bytes); "-" is the empty string -/
def unhexStr (s : String) : Option String :=
  if s == "-" then some "" else
  match unhexBytes s.toList with
  | none => none
  | some bs =>
    let ba : ByteArray := ⟨(bs.map (fun n => n.toUInt8)).toArray⟩
    String.fromUTF8? ba

def hexDigit (n : Nat) : Char :=
  if n < 10 then Char.ofNat (n + '0'.toNat) else Char.ofNat (n - 10 + 'a'.toNat)

def hexStr (s : String) : String :=
  if s.isEmpty then "-" else
  String.ofList (s.toUTF8.toList.flatMap fun b => [hexDigit (b.toNat / 16), hexDigit (b.toNat % 16)])

def hexBytes (bs : List Nat) : String :=
  if bs.isEmpty then "-" else String.ofList (bs.flatMap fun b => [hexDigit (b / 16), hexDigit (b % 16)])

def unhexBytesS (s : String) : Option (List Nat) :=
  if s == "-" then some [] else unhexBytes s.toList

def nat? (s : String) : Option Nat := s.toNat?
def int? (s : String) : Option Int := s.toInt?
def bool? (s : String) : Option Bool := if s == "1" then some true else if s == "0" then some false else none
def b2s (b : Bool) : String := if b then "1" else "0"

end PsVerif.Driver
