import PsVerif.Driver.Util
import PsVerif.Model.PeerSync
/- line-protocol front end for the peersync model (C28) -/
namespace PsVerif.Driver
open PsVerif.Model.PeerSync

structure SyncState where
  cfg : Cfg
  st : St

def csv (s : String) : List String := if s == "-" then [] else s.splitOn ","

def sendsStr (xs : List (String × MsgType)) : String :=
  if xs.isEmpty then "-" else
  let ys := xs.map fun (k, t) => k ++ ":" ++ (match t with | .poll => "poll" | .requestPoll => "req")
  ",".intercalate (ys.toArray.qsort (· < ·)).toList

def assetOf (s : String) : Option Asset :=
  if s == "BTC" then some .btc else if s == "LBTC" then some .lbtc else none

def capStr (c : Cap) : String :=
  let a := if c.assets.isEmpty then "-" else "+".intercalate (c.assets.map fun x => match x with | .btc => "BTC" | .lbtc => "LBTC")
  s!"{c.version},{a},{b2s c.allowed},{",".intercalate (c.rates.map toString)}"

def age (now : Nat) : Option Nat → String
  | none => "never"
  | some t => toString ((now - t) / 1000)

def dump (s : St) : String :=
  let ps := s.peers.map fun (k, r) =>
    let c := match r.cap with | none => "nocap" | some c => capStr c
    let st := match r.status with | .unknown => "unknown" | .active => "active" | .expired => "expired"
    s!"{k}|{c}|{st}|{age s.now r.lastPoll}|{age s.now r.lastObs}"
  let rq := (s.lastReq.map fun (k, t) => s!"{k}:{(s.now - t) / 1000}").toArray.qsort (· < ·)
  (if ps.isEmpty then "-" else ";".intercalate ps) ++ " req=" ++ (if rq.isEmpty then "-" else ",".intercalate rq.toList)

def handleSync (st : Option SyncState) : List String → Option (Option SyncState × String)
  | ["sync.reset", p, t, r, v, susp] => do
    let cfg : Cfg := ⟨← nat? p, ← nat? t, ← nat? r, ← nat? v⟩
    pure (some ⟨cfg, ⟨[], [], 1000000000, [], csv susp⟩⟩, "ok")
  | ["sync.recv", ty, src, "bad"] => do
    let s ← st
    let t ← (if ty == "poll" then some MsgType.poll else if ty == "req" then some MsgType.requestPoll else none)
    let (s', out) := recv { s.st with now := s.st.now + 1 } t src none
    pure (some { s with st := s' }, sendsStr out)
  | ["sync.recv", ty, src, ver, assets, allowed, r1, r2, r3, r4] => do
    let s ← st
    let t ← (if ty == "poll" then some MsgType.poll else if ty == "req" then some MsgType.requestPoll else none)
    let c : Cap := ⟨← nat? ver, ← (csv assets).mapM assetOf, ← bool? allowed, [← int? r1, ← int? r2, ← int? r3, ← int? r4]⟩
    let (s', out) := recv { s.st with now := s.st.now + 1 } t src (some c)
    pure (some { s with st := s' }, sendsStr out)
  | ["sync.round", force, fails, lf] => do
    let s ← st
    let (s', out) := round s.cfg { s.st with now := s.st.now + 1 } (← bool? force) (csv fails) (← bool? lf)
    pure (some { s with st := s' }, sendsStr out)
  | ["sync.roundduring", force, fails, lf, ty, src, "bad"] => do
    let s ← st
    let t ← (if ty == "poll" then some MsgType.poll else if ty == "req" then some MsgType.requestPoll else none)
    let (s', out) := roundIl s.cfg { s.st with now := s.st.now + 1 } (← bool? force) (csv fails) (← bool? lf) (some (t, src, none))
    pure (some { s with st := s' }, sendsStr out)
  | ["sync.roundduring", force, fails, lf, ty, src, ver, assets, allowed, r1, r2, r3, r4] => do
    let s ← st
    let t ← (if ty == "poll" then some MsgType.poll else if ty == "req" then some MsgType.requestPoll else none)
    let c : Cap := ⟨← nat? ver, ← (csv assets).mapM assetOf, ← bool? allowed, [← int? r1, ← int? r2, ← int? r3, ← int? r4]⟩
    let (s', out) := roundIl s.cfg { s.st with now := s.st.now + 1 } (← bool? force) (csv fails) (← bool? lf) (some (t, src, some c))
    pure (some { s with st := s' }, sendsStr out)
  | ["sync.cleanup", lf] => do
    let s ← st
    pure (some { s with st := cleanup s.cfg { s.st with now := s.st.now + 1 } (← bool? lf) }, "ok")
  | ["sync.connect", ids] => do
    let s ← st
    pure (some { s with st := { s.st with connected := csv ids } }, "ok")
  | ["sync.advance", secs] => do
    let s ← st
    pure (some { s with st := { s.st with now := s.st.now + (← nat? secs) * 1000 } }, "ok")
  | ["sync.restart"] => do
    let s ← st
    pure (some { s with st := restart s.st }, "ok")
  | ["sync.compat", k] => do
    let s ← st
    pure (some s, b2s (compatible s.cfg s.st k))
  | ["sync.dump"] => do
    let s ← st
    pure (some s, dump s.st)
  | _ => none

end PsVerif.Driver
