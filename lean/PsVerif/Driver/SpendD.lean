import PsVerif.Driver.Util
import PsVerif.Driver.OpenD
import PsVerif.Model.Spend
/- line-protocol front end for the spending-transaction and opening-message model (C03, C08).
   Keys, signatures, preimage and hash are small tokens; the script interpreter (the one C02 is about) runs on them. -/
namespace PsVerif.Driver
open PsVerif.Model.Spend PsVerif.Model.Script PsVerif.Model.OpeningCheck

def kMaker : Bytes := [1]
def kTaker : Bytes := [2]
def sMaker : Bytes := [101]
def sTaker : Bytes := [102]
def tPre : Bytes := List.replicate 32 7
def tHash : Bytes := [9]

/-- signatures are valid exactly for their key; the empty element is an invalid signature (no abort) -/
def tokCrypto : Crypto :=
  { checksig := fun pk sig =>
      if sig = [] then .invalid
      else if (pk = kMaker ∧ sig = sMaker) ∨ (pk = kTaker ∧ sig = sTaker) then .valid
      else if sig = sMaker ∨ sig = sTaker then .invalid
      else .abort,
    sha256 := fun p => if p = tPre then tHash else [0] }

def shapeStr (w : List Bytes) : String :=
  String.join (w.map fun b =>
    if b = [] then "E" else if b = tPre then "P" else if b = sTaker then "T" else if b = sMaker then "M" else "X")

def kind? : String → Option Kind
  | "preimage" => some .preimage | "csv" => some .csv | "coop" => some .coop | _ => none

/-- own signature / the other party's signature per kind: the taker builds the preimage claim, the maker the rest -/
def sigsOf : Kind → Bytes × Bytes
  | .preimage => (sTaker, [])
  | .csv => (sMaker, [])
  | .coop => (sMaker, sTaker)

def handleSpend : List String → Option String
  | "spend.btc" :: kind :: amount :: csv :: fee :: "-" :: outs => do
    let os ← outs.mapM parseBtcOut
    let k ← kind? kind
    let csvN ← nat? csv
    let (own, other) := sigsOf k
    pure (match buildBtc k (← nat? amount) (0 : Nat) os csvN (← nat? fee) () own other tPre with
      | none => "err"
      | some tx =>
        let ok := accepts tokCrypto ⟨tx.version, tx.sequence⟩ (opening kMaker kTaker tHash csvN) tx.witness
        match tx.outputs with
        | [(v, _)] => s!"{tx.prevIndex} {tx.sequence} {v} {shapeStr tx.witness} engine={b2s ok}"
        | _ => "bad-model")
  | "spend.lq" :: kind :: amount :: csv :: fee :: outs => do
    let os ← outs.mapM parseLqOut
    let k ← kind? kind
    let (own, other) := sigsOf k
    pure (match buildLq k (← nat? amount) (0 : Nat) os (← nat? csv) (← nat? fee) () own other tPre with
      | none => "err"
      | some tx =>
        match tx.outputs with
        | [(v, _), (f, _)] => s!"{tx.prevIndex} {tx.sequence} {v} {f} {shapeStr tx.witness}"
        | _ => "bad-model")
  | "openmsg.btc" :: amount :: "-" :: outs => do
    let os ← outs.mapM parseBtcOut
    pure (match findVoutBtc (← nat? amount) (0 : Nat) os with | none => "err" | some i => toString i)
  | "openmsg.lq" :: _amount :: outs => do
    let os ← outs.mapM parseLqOut
    pure (match findVoutLq (0 : Nat) os with | none => "err" | some i => toString i)
  | _ => none

end PsVerif.Driver
