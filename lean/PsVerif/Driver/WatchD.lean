import PsVerif.Driver.Util
import PsVerif.Model.Watcher
/- line-protocol front end for the chain watcher model (C20) -/
namespace PsVerif.Driver
open PsVerif.Model.Watcher

def elStr : ElOut → String
  | .nothing => "nothing" | .error => "error" | .failed => "failed" | .confirmed => "confirmed" | .matured => "matured"

def handleWatch : List String → Option String
  | ["watch.obs", confs, start, limit, last, height, he, rh, hse, te, txo, h2e, re, rng] => do
    let txout ← (if txo == "none" then some none else
      match txo.splitOn ":" with
      | [m, c] => do pure (some (⟨← bool? m, ← nat? c⟩ : TxOut))
      | _ => none)
    let range ← (if rng == "nf" then some RangeRes.notFound else if rng == "err" then some RangeRes.rpcErr else
      match rng.splitOn ":" with
      | ["f", h] => (nat? h).map RangeRes.found
      | _ => none)
    let v : View := ⟨← bool? he, ← nat? rh, ← bool? hse, ← bool? te, txout, ← bool? h2e, ← bool? re, range⟩
    pure (match observe (← nat? confs) (← nat? start) (← nat? limit) (← nat? last) (← nat? height) v with
      | .dup => "dup" | .wait => "wait" | .failed => "failed" | .confirmed => "confirmed")
  | ["watch.csv", csv, te, txo] => do
    let txout ← (if txo == "none" then some none else (nat? txo).map some)
    pure (b2s (csvDue (← nat? csv) (← bool? te) txout))
  | ["watch.elopen", start, window, req, cur, he, hist, re] => do
    let h ← (if hist == "none" then some none else (int? hist).map some)
    pure (elStr (elOpening (← nat? start) (← nat? window) (← nat? req) (← int? cur) (← bool? he) h (← bool? re)))
  | ["watch.elcsv", csv, cur, he, hist] => do
    let h ← (if hist == "none" then some none else (int? hist).map some)
    pure (elStr (elCsv (← nat? csv) (← int? cur) (← bool? he) h))
  | ["watch.lndconf", safety, ce, cur, ch, _hint] => do   -- the height hint does not enter the decision
    pure (match lndOnConf (← nat? safety) (← bool? ce) (← nat? cur) (← nat? ch) with
      | .nothing => "nothing" | .confirmed => "confirmed" | .failed => "failed")
  | ["watch.lndcsv", csv, ep, ch] => do
    pure (b2s (lndCsvOnEpoch (← nat? csv) (← nat? ep) (← nat? ch)))
  | ["watch.accept", stored, term, header] => do
    let h ← (if header == "nil" then some none else (int? header).map some)
    pure (match acceptHeight (← int? stored) (← bool? term) h with
      | none => "err"
      | some (st, ch) => s!"{st} {b2s ch}")
  | _ => none

end PsVerif.Driver
