import PsVerif.Driver.Util
import PsVerif.Model.Service
/- line-protocol front end for the swap registry model -/
namespace PsVerif.Driver
open PsVerif.Model.Service

def handleRegistry (r : Reg) : List String → Option (Reg × String)
  | ["reg.reset"] => some (⟨[], []⟩, "ok")
  | ["reg.lock", id, scid] => do
    match lockSwap r ⟨id, ← unhexStr scid, ""⟩ with
    | .ok r' => pure (r', "ok")
    | .error .idInUse => pure (r, "err idInUse")
    | .error .channelBusy => pure (r, "err channelBusy")
  | ["reg.remove", id] => some (removeActive r id, "ok")
  | ["reg.active"] =>
    let xs := (r.active.map fun a => a.id ++ ":" ++ hexStr a.scid)
    some (r, " ".intercalate (xs.toArray.qsort (· < ·)).toList)
  | _ => none

end PsVerif.Driver
