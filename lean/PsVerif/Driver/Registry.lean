import PsVerif.Driver.Util
import PsVerif.Model.Service
/- line-protocol front end for the swap registry model -/
namespace PsVerif.Driver
open PsVerif.Model.Service

def resStr : ReqResult → String
  | .accepted => "accepted" | .refusedKnownId => "refusedKnownId" | .cancelBusy => "cancelBusy"

def handleRegistry (r : Reg) : List String → Option (Reg × String)
  | ["reg.reset"] => some (⟨[], []⟩, "ok")
  | ["reg.request", id, scid] => do
    let (r', res) := onRequest r ⟨id, ← unhexStr scid, ""⟩
    pure (r', resStr res)
  | ["reg.lock", id, scid] => do
    match lockSwap r ⟨id, ← unhexStr scid, ""⟩ with
    | .ok r' => pure (r', "ok")
    | .error .idInUse => pure (r, "err idInUse")
    | .error .channelBusy => pure (r, "err channelBusy")
  | ["reg.remove", id] => some (removeActive r id, "ok")
  | ["reg.active"] =>
    let xs := (r.active.map fun a => a.id ++ ":" ++ hexStr a.scid)
    some (r, " ".intercalate (xs.toArray.qsort (· < ·)).toList)
  | _ => none

/-- the two halves of a request handler with other operations in between -/
def handleInflight (r : Reg) (pending : Option Entry) : List String → Option (Reg × Option Entry × String)
  | ["reg.reqbegin", id, scid] => do
    let e : Entry := ⟨id, ← unhexStr scid, ""⟩
    if passesIdTest r e then pure (r, some e, "pending") else pure (r, pending, "refusedKnownId")
  | ["reg.reqend"] =>
    match pending with
    | none => some (r, none, "no-request-in-flight")
    | some e =>
      let (r', res) := commitRequest r e
      some (r', none, resStr res)
  | _ => none

end PsVerif.Driver
