import PsVerif.Gen.Guarded
/-
C19  No data races between concurrent events, RPC calls and watchers.

What a proof can carry here is the lock discipline of the structures that own a mutex: the facts
`Gen.guardedAccesses` are REGENERATED from the source on every run (go/ast: every access to a guarded field
through the method receiver, with the locks held at that point by the same walk as the lock-order facts of
C18), and the theorems are the expectations: every access holds the guarding lock, except the listed ones.
The races themselves are a runtime matter: the check runs the concurrent entry points of the real code from
a binary built with Go's race detector (see the evidence) and reports every race between accesses in
peerswap code.  The swap data (`SwapData`, reached through action parameters, not through a receiver) is
outside the syntactic facts and covered only by the detector.
-/
namespace PsVerif.Props.C19
open PsVerif.Gen

/-- accesses that do not hold the lock themselves, and why that is right:
    `reloadFile` is the body of ReloadFile for callers that already hold the policy mutex (the exported
    ReloadFile locks and delegates; every other caller is a locked operation);
    the two LWK registration functions read callbacks that are set once, before the watcher is started -/
def allowedUnguarded : List (String × String × String) :=
  [("policy.Policy", "path", "reloadFile"),
   ("lwk.electrumTxWatcher", "confirmationCallback", "AddWaitForConfirmationTx"),
   ("lwk.electrumTxWatcher", "csvCallback", "AddWaitForCsvTx")]

/-- **lock discipline**: every other access to a guarded field is made with its mutex held -/
theorem C19_guarded :
    guardedAccesses.all (fun a => a.held || allowedUnguarded.contains (a.owner, a.field, a.fn)) = true := by decide

/-- the policy: every exported reader and every operation works under the package mutex (the three functions
    that used to read or replace the policy without it are in the list with `held = true`) -/
theorem C19_policy_locked :
    (guardedAccesses.filter (fun a => a.owner == "policy.Policy" && a.fn != "reloadFile")).all (·.held) = true
    ∧ guardedAccesses.any (fun a => a.fn == "NewSwapsAllowed" && a.held) = true
    ∧ guardedAccesses.any (fun a => a.fn == "String" && a.held) = true := by decide

/-- the RPC watcher's three maps, in every method that touches them (the block dispatcher included) -/
theorem C19_rpc_watcher_maps_locked :
    (guardedAccesses.filter (fun a => a.owner == "txwatcher.BlockchainRpcTxWatcher")).all (·.held) = true
    ∧ guardedAccesses.any (fun a => a.owner == "txwatcher.BlockchainRpcTxWatcher" && a.field == "observerLoopList" && a.fn == "StartWatchingTxs") = true := by
  decide

/-- the swap registry, the peersync request table, the Electrum observer list, the LND watcher's bookkeeping -/
theorem C19_other_structures_locked :
    (guardedAccesses.filter (fun a => a.owner == "swap.SwapService" || a.owner == "peersync.poller" ||
      a.owner == "electrum.liquidBlockHeaderSubscriber" || a.owner == "lnd.TxWatcher" || a.owner == "messages.Manager")).all (·.held) = true := by
  decide

example : guardedAccesses.length > 40 := by decide

end PsVerif.Props.C19
