import PsVerif.Model.Spend
import PsVerif.Props.C03
import PsVerif.Gen.Consts
import PsVerif.Gen.Tables
import PsVerif.Gen.Adapters
/-
C08  The opening_tx_broadcasted message describes the broadcast transaction exactly.

Model: Model/Spend.lean (`findVoutBtc`, `findVoutLq`, `openingMsg`) and the GENERATED invoice parameters
(`Gen.invoiceParams`: GetInvoiceExpiry / GetInvoiceCltv evaluated by the running code for every chain and version).
Tie: slice `openmsg` — the REAL lnd.Client.CreateOpeningTransaction (over fake FundPsbt / FinalizePsbt /
PublishTransaction) and the REAL LiquidOnChain.CreateOpeningTransaction (over a fake wallet) under funding plans that
move the swap output around; monitor C08 — the real maker machines on those adapters: every message sent is compared
with the transaction that reached the back-end and with the invoice created in the Lightning back-end.
-/
namespace PsVerif.Props.C08
open PsVerif PsVerif.Gen PsVerif.Model.OpeningCheck PsVerif.Model.Spend PsVerif.Props.C03

/-- Bitcoin: the reported index is that of an output of the amount to the wanted script, for EVERY funded
    transaction — wherever the wallet put change and whatever its value -/
theorem C08_index_btc {S : Type} [DecidableEq S] (amount : Nat) (want : S) (outs : List (BtcOut S)) (i : Nat)
    (h : findVoutBtc amount want outs = some i) :
    ∃ o, outs[i]? = some o ∧ o.value = wrapI64 (amount : Int) ∧ o.script = want := by
  obtain ⟨o, ho, hp⟩ := findIdx_spec _ _ _ h
  simp only [Bool.and_eq_true, beq_iff_eq, decide_eq_true_eq] at hp
  exact ⟨o, ho, hp.1, hp.2⟩

/-- … and an index is reported whenever the wallet did put the requested output into the transaction -/
theorem C08_index_btc_total {S : Type} [DecidableEq S] (amount : Nat) (want : S) (outs : List (BtcOut S))
    (h : ∃ o ∈ outs, o.value = wrapI64 (amount : Int) ∧ o.script = want) : (findVoutBtc amount want outs).isSome = true := by
  obtain ⟨o, hm, hv, hs⟩ := h
  unfold findVoutBtc
  rw [List.findIdx?_isSome]
  simp only [List.any_eq_true, Bool.and_eq_true, beq_iff_eq, decide_eq_true_eq]
  exact ⟨o, hm, hv, hs⟩

/-- Liquid: the reported index is that of the first output carrying the swap script -/
theorem C08_index_lq {S : Type} [DecidableEq S] (want : S) (outs : List (LqOut S)) (i : Nat)
    (h : findVoutLq want outs = some i) : ∃ o, outs[i]? = some o ∧ o.script = want := by
  obtain ⟨o, ho, hp⟩ := findIdx_spec _ _ _ h
  exact ⟨o, ho, by simpa using hp⟩

theorem C08_index_lq_total {S : Type} [DecidableEq S] (want : S) (outs : List (LqOut S))
    (h : ∃ o ∈ outs, o.script = want) : (findVoutLq want outs).isSome = true := by
  obtain ⟨o, hm, hs⟩ := h
  unfold findVoutLq
  rw [List.findIdx?_isSome]
  simp only [List.any_eq_true, decide_eq_true_eq]
  exact ⟨o, hm, hs⟩

/-- the message carries what the adapter reported and the invoice made for the same hash: exactly the claim
    amount, expiry 24 h / 1 h, and the blinding key on Liquid only -/
theorem C08_message {H T K : Type} (chain : PsVerif.Model.Spend.Chain) (claimSat finalCltv : Nat) (hash : H) (txid : T) (vout : Nat) (bk : K)
    (hc : claimSat * 1000 < 18446744073709551616) :
    let m := openingMsg chain claimSat finalCltv hash txid vout bk
    m.txid = txid ∧ m.scriptOut = vout ∧ m.invoiceMsat = claimSat * 1000 ∧ m.invoiceHash = hash ∧ m.invoiceCltv = finalCltv ∧
    m.invoiceExpiry = (match chain with | .btc => 86400 | .lbtc => 3600) ∧
    (m.blindingKey = some bk ↔ chain = .lbtc) := by
  refine ⟨rfl, rfl, ?_, rfl, rfl, ?_, ?_⟩
  · exact Nat.mod_eq_of_lt hc
  · cases chain <;> rfl
  · cases chain <;> simp [openingMsg]

/-- the invoice parameters the running code uses, for both protocol versions it speaks: 24 h / 503 on Bitcoin,
    1 h / 29 on Liquid — and they are the model's expiry -/
theorem C08_invoice_params : ∀ v ∈ [6, 7],
    invoiceParams .btc v = (invoiceExpiry .btc, 503) ∧ invoiceParams .lbtc v = (invoiceExpiry .lbtc, 29) := by decide

/-- the message is built and sent by exactly one action, in the makers' broadcast states -/
theorem C08_where_built :
    ∀ r : Role, ((table r).filter (fun row => row.acts.contains .CreateAndBroadcastOpeningTransaction)).map (·.st) =
      (match r with
        | .SwapInSender => [.State_SwapInSender_BroadcastOpeningTx]
        | .SwapOutReceiver => [.State_SwapOutReceiver_BroadcastOpeningTx]
        | _ => []) := by
  intro r; cases r <;> decide

/-- both Bitcoin adapters take the index from GetVoutAndVerify on the funded transaction (error checked) -/
theorem C08_adapter_calls : ["cln", "lnd"].all (fun a => (callsOf a).filter (fun c => c.1 == "CreateOpeningTransaction") ==
    [("CreateOpeningTransaction", "CreateOpeningAddress", ["swapParams", "onchain.BitcoinCsv"], ["addr", "err"], true),
     ("CreateOpeningTransaction", "GetFeeSatsFromTx", ["PSBT", "OPENINGTX"], ["fee", "err"], true),
     ("CreateOpeningTransaction", "GetVoutAndVerify", ["OPENINGTX", "swapParams"], ["_", "vout", "err"], true)]) = true := by decide

-- non-vacuity: change of the same value in front of the swap output
example : findVoutBtc 1000 "w" [⟨1000, "change"⟩, ⟨5, "x"⟩, ⟨1000, "w"⟩] = some 2 := by decide
example : findVoutLq "w" [⟨"c", none, true, false, false⟩, ⟨"w", some ⟨true, 1000⟩, true, false, true⟩] = some 1 := by decide

end PsVerif.Props.C08
