import PsVerif.Model.Service
import PsVerif.Model.Abs
/-
C09  A swap is affected only by its own counterparty; swap ids cannot be reused.

Model: Model/Service.lean (routing by id and sender, known-id check, lockSwap) and the engine's `extStep`
(Model/Abs.lean: a message event is looked up in the GENERATED table before its context is applied).
Tie: slice `registry`, the trace-inclusion slices (the real machines no longer write a record for a
rejected message), and the monitor (record bytes before/after).
-/
namespace PsVerif.Props.C09
open PsVerif.Gen PsVerif.Model PsVerif.Model.Service PsVerif.Model.Abs

/-- a message for an unknown (not active) swap id reaches no swap -/
theorem C09_unknown_id (r : Reg) (id sender : String) (h : ∀ a ∈ r.active, a.id ≠ id) :
    routeMsg r id sender = .unknownSwap := by
  unfold routeMsg
  have : r.active.find? (fun a => a.id == id) = none := by
    apply List.find?_eq_none.mpr
    intro a ha; simpa using h a ha
  rw [this]

/-- a message with a live swap's id from anyone but that swap's peer reaches no swap -/
theorem C09_foreign_sender (r : Reg) (id sender : String) (e : Entry)
    (h : routeMsg r id sender = .toSwap e) : e.id = id ∧ e.peer = sender ∧ e ∈ r.active := by
  unfold routeMsg at h
  split at h
  · cases h
  · rename_i e' he
    split at h
    · rename_i hp
      injection h with h
      subst h
      have h1 := List.find?_some he
      exact ⟨by simpa using h1, by simpa using hp, List.mem_of_find?_eq_some he⟩
    · cases h

/-- a message event that the swap's current state does not accept changes nothing: no successor
    configuration, no store write — for every abstraction, every configuration -/
theorem C09_unacceptable_message_noop {F : Type} (sys : Sys F) (m : MC F) (e : Ev) (hc : hasCtx e = true)
    (hn : nextSt sys.table m.st e = none) : extStep sys m e = [] := by
  simp [extStep, hc, hn]

/-- the seven swap message kinds are message events -/
theorem C09_message_events :
    [E_OnCancelReceived, E_OnCoopCloseReceived, E_OnFeeInvoiceReceived, E_OnTxOpenedMessage,
     E_SwapInSender_OnAgreementReceived, E_OnSwapOutRequestReceived, E_SwapInReceiver_OnRequestReceived].all hasCtx = true := by
  decide

/-- a request that reuses a known id (active, finished, or stored and not yet recovered) is refused and
    the registry — hence the existing record, keys and progress — is unchanged -/
theorem C09_id_reuse_refused (r : Reg) (e : Entry) (h : known r e.id = true) :
    onRequest r e = (r, .refusedKnownId) := by
  simp [onRequest, h]

/-- lockSwap itself never replaces an entry: a second state machine for an active id is refused -/
theorem C09_lock_refuses_active_id (r : Reg) (e a : Entry) (ha : a ∈ r.active) (hid : a.id = e.id) :
    lockSwap r e = .error .idInUse := by
  unfold lockSwap
  have : r.active.any (fun x => x.id == e.id) = true := List.any_eq_true.mpr ⟨a, ha, by simp [hid]⟩
  simp [this]

/-- an accepted request is stored, so its id is known from then on -/
theorem C09_accepted_becomes_known (r : Reg) (e : Entry) (r' : Reg) (h : onRequest r e = (r', .accepted)) :
    known r' e.id = true := by
  unfold onRequest at h
  split at h
  · cases h
  · cases hl : lockSwap r e with
    | error _ => simp [hl] at h
    | ok r2 =>
      simp [hl] at h
      subst h
      simp [known]

end PsVerif.Props.C09
