import PsVerif.Model.Service
import PsVerif.Model.Abs
/-
C09  A swap is affected only by its own counterparty; swap ids cannot be reused.

Model: Model/Service.lean (routing by id and sender, known-id check, lockSwap) and the engine's `extStep`
(Model/Abs.lean: a message event is looked up in the GENERATED table before its context is applied).
Tie: slice `registry`, the trace-inclusion slices (the real machines no longer write a record for a
rejected message), and the monitor (record bytes before/after).
-/
namespace PsVerif.Props.C09
open PsVerif.Gen PsVerif.Model PsVerif.Model.Service PsVerif.Model.Abs

/-- a message for an unknown (not active) swap id reaches no swap -/
theorem C09_unknown_id (r : Reg) (id sender : String) (h : ∀ a ∈ r.active, a.id ≠ id) :
    routeMsg r id sender = .unknownSwap := by
  unfold routeMsg
  have : r.active.find? (fun a => a.id == id) = none := by
    apply List.find?_eq_none.mpr
    intro a ha; simpa using h a ha
  rw [this]

/-- a message with a live swap's id from anyone but that swap's peer reaches no swap -/
theorem C09_foreign_sender (r : Reg) (id sender : String) (e : Entry)
    (h : routeMsg r id sender = .toSwap e) : e.id = id ∧ e.peer = sender ∧ e ∈ r.active := by
  unfold routeMsg at h
  split at h
  · cases h
  · rename_i e' he
    split at h
    · rename_i hp
      injection h with h
      subst h
      have h1 := List.find?_some he
      exact ⟨by simpa using h1, by simpa using hp, List.mem_of_find?_eq_some he⟩
    · cases h

/-- a message event that the swap's current state does not accept changes nothing: no successor
    configuration, no store write — for every abstraction, every configuration -/
theorem C09_unacceptable_message_noop {F : Type} (sys : Sys F) (m : MC F) (e : Ev) (hc : hasCtx e = true)
    (hn : nextSt sys.table m.st e = none) : extStep sys m e = [] := by
  simp [extStep, hc, hn]

/-- the seven swap message kinds are message events -/
theorem C09_message_events :
    [E_OnCancelReceived, E_OnCoopCloseReceived, E_OnFeeInvoiceReceived, E_OnTxOpenedMessage,
     E_SwapInSender_OnAgreementReceived, E_OnSwapOutRequestReceived, E_SwapInReceiver_OnRequestReceived].all hasCtx = true := by
  decide

/-- a request that reuses a known id (active, finished, or stored and not yet recovered) is refused and
    the registry — hence the existing record, keys and progress — is unchanged -/
theorem C09_id_reuse_refused (r : Reg) (e : Entry) (h : known r e.id = true) :
    onRequest r e = (r, .refusedKnownId) := by
  simp [onRequest, h]

/-- lockSwap itself never replaces an entry: a second state machine for an active id is refused -/
theorem C09_lock_refuses_active_id (r : Reg) (e a : Entry) (ha : a ∈ r.active) (hid : a.id = e.id) :
    lockSwap r e = .error .idInUse := by
  unfold lockSwap
  have : r.active.any (fun x => x.id == e.id) = true := List.any_eq_true.mpr ⟨a, ha, by simp [hid]⟩
  simp [this]

/-- an accepted request is stored, so its id is known from then on -/
theorem C09_accepted_becomes_known (r : Reg) (e : Entry) (r' : Reg) (h : onRequest r e = (r', .accepted)) :
    known r' e.id = true := by
  unfold onRequest at h
  split at h
  · cases h
  · cases hl : lockSwap r e with
    | error _ => simp [hl] at h
    | ok r2 =>
      simp [hl] at h
      subst h
      simp [known]

/-! ### requests are two steps with anything in between -/

/-- the second half of a request handler registers a swap only for an id that is, AT THAT MOMENT, neither active nor
    stored — whatever happened since its id test: a request that was in flight while a swap with the same id was
    created and finished cannot take the id over (fix e55bb17) -/
theorem C09_commit_only_unknown (r : Reg) (e : Entry) (r' : Reg) (h : commitRequest r e = (r', .accepted)) :
    known r e.id = false := by
  unfold commitRequest at h
  cases hl : lockSwap r e with
  | error err => cases err <;> simp [hl] at h
  | ok r2 =>
    simp only [hl] at h
    split at h
    · cases h
    · rename_i hs
      unfold lockSwap at hl
      split at hl
      · cases hl
      · rename_i ha
        simp only [known, Bool.or_eq_false_iff]
        exact ⟨by simpa using ha, by simpa using hs⟩

/-- nothing ever removes an id from the store: once a swap was stored its id stays known through every sequence of
    local initiations, requests (in both halves), recoveries and removals -/
theorem C09_stored_forever (ops : List Op) (r : Reg) (id : String) (h : id ∈ r.stored) :
    id ∈ (ops.foldl apply r).stored := by
  induction ops generalizing r with
  | nil => exact h
  | cons op rest ih =>
    apply ih
    cases op with
    | lock e =>
      simp only [apply]
      cases hl : lockSwap r e with
      | error _ => exact h
      | ok r' =>
        unfold lockSwap at hl
        split at hl
        · cases hl
        · split at hl
          · cases hl
          · injection hl with hl; subst hl; exact h
    | remove i => simpa [apply, removeActive] using h
    | request e =>
      simp only [apply, onRequest]
      split
      · exact h
      · cases hl : lockSwap r e with
        | error _ => exact h
        | ok r' =>
          unfold lockSwap at hl
          split at hl
          · cases hl
          · split at hl
            · cases hl
            · injection hl with hl; subst hl; simp [h]
    | commit e =>
      simp only [apply, commitRequest]
      cases hl : lockSwap r e with
      | error err => cases err <;> exact h
      | ok r' =>
        simp only []
        split
        · exact h
        · unfold lockSwap at hl
          split at hl
          · cases hl
          · split at hl
            · cases hl
            · injection hl with hl; subst hl; simp [h]

/-- so: after a swap with id X was stored, no request with id X is ever registered again, in whichever order the two
    halves of the handlers and everything else interleave -/
theorem C09_no_takeover (ops : List Op) (r : Reg) (e : Entry) (h : e.id ∈ r.stored) :
    (commitRequest (ops.foldl apply r) e).2 ≠ .accepted := by
  intro hacc
  have hk := C09_commit_only_unknown (ops.foldl apply r) e (commitRequest (ops.foldl apply r) e).1 (by rw [← hacc])
  have hs := C09_stored_forever ops r e.id h
  simp only [known, Bool.or_eq_false_iff] at hk
  have : (ops.foldl apply r).stored.contains e.id = true := by simpa using hs
  rw [this] at hk
  exact absurd hk.2 (by simp)

/-- the handler before the fix did not have this: a finished swap's id (stored, no longer active) was given away
    (witness: the schedule the monitor replays on the real code) -/
theorem C09_old_commit_takes_over :
    (commitRequestOld ⟨[], ["X"]⟩ ⟨"X", "777x1x0", "peer"⟩).2 = .accepted := by decide

end PsVerif.Props.C09
