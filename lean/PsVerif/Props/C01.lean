import PsVerif.Model.OpeningCheck
import PsVerif.Gen.Tables
import PsVerif.Gen.Consts
import PsVerif.Props.C02
/-
C01  Taker pays the claim invoice only for a validated, confirmed opening output.

Model: Model/OpeningCheck.lean (`validateBtc`, `validateLq`, `bindInvoice`, `paysBtc`, `paysLq`) and the
GENERATED state tables.  Tie: slice `opening` (the REAL BitcoinOnChain.ValidateTx / LiquidOnChain.ValidateTx on
real serialised transactions with generated outputs: amounts equal / off by one / wrapped, scripts right / of
another hash / of other keys / of another CSV, positions, duplicates, explicit and blinded Elements outputs,
wrong assets) and slice `paygate` (the real taker machines driven to the pay decision with every kind of wrong
announcement and invoice).  Depth and window are C20 / C04 / C05; the script itself is C02.
What is outside the model: transaction deserialisation and Elements unblinding are the libraries'.
-/
namespace PsVerif.Props.C01
open PsVerif PsVerif.Gen PsVerif.Model.OpeningCheck

theorem find_some_mem {α : Type} (p : α → Bool) (l : List α) (a : α) (h : l.find? p = some a) : a ∈ l ∧ p a = true :=
  ⟨List.mem_of_find?_eq_some h, List.find?_some h⟩

/-- Bitcoin: a transaction is accepted only if it contains an output of exactly int64(amount) that carries
    the wanted script -/
theorem C01_btc_sound {S : Type} [DecidableEq S] (amount : Nat) (want : S) (outs : List (BtcOut S))
    (h : validateBtc amount want outs = true) :
    ∃ o ∈ outs, o.value = wrapI64 (amount : Int) ∧ o.script = want := by
  unfold validateBtc at h
  cases hf : outs.find? (fun o => o.value == wrapI64 (amount : Int) && decide (o.script = want)) with
  | none => simp [hf] at h
  | some o =>
    obtain ⟨hm, hp⟩ := find_some_mem _ _ _ hf
    simp only [Bool.and_eq_true, beq_iff_eq, decide_eq_true_eq] at hp
    exact ⟨o, hm, hp.1, hp.2⟩

/-- … and accepts every transaction that has such an output, wherever it stands -/
theorem C01_btc_complete {S : Type} [DecidableEq S] (amount : Nat) (want : S) (outs : List (BtcOut S))
    (h : ∃ o ∈ outs, o.value = wrapI64 (amount : Int) ∧ o.script = want) : validateBtc amount want outs = true := by
  obtain ⟨o, hm, hv, hs⟩ := h
  unfold validateBtc
  cases hf : outs.find? (fun o => o.value == wrapI64 (amount : Int) && decide (o.script = want)) with
  | some _ => rfl
  | none =>
    have := List.find?_eq_none.mp hf o hm
    simp [hv, hs] at this

/-- for amounts a wallet can hold the value is the amount itself -/
theorem C01_btc_amount (amount : Nat) (h : amount < 9223372036854775808) : wrapI64 (amount : Int) = (amount : Int) := by
  unfold wrapI64
  have : ((amount : Int) % 18446744073709551616) = (amount : Int) := by apply Int.emod_eq_of_lt <;> omega
  rw [this]
  simp only []
  rw [if_neg (by omega)]

/-- Liquid: accepted only if an output carries the wanted script and unblinds, consistently with what the
    output shows, to the policy asset and exactly the amount -/
theorem C01_lq_sound {S : Type} [DecidableEq S] (amount : Nat) (want : S) (outs : List (LqOut S))
    (h : validateLq amount want outs = true) :
    ∃ o ∈ outs, o.script = want ∧ ∃ u, o.unblind = some u ∧ u.assetIsPolicy = true ∧ u.value = amount ∧
      (if o.confidential then o.commitmentMatches else o.explicitAssetIsPolicy) = true := by
  unfold validateLq at h
  cases hf : outs.find? (fun o => decide (o.script = want)) with
  | none => simp [hf] at h
  | some o =>
    simp only [hf] at h
    obtain ⟨hm, hp⟩ := find_some_mem _ _ _ hf
    cases hu : o.unblind with
    | none => simp [hu] at h
    | some u =>
      simp only [hu, Bool.and_eq_true, beq_iff_eq] at h
      exact ⟨o, hm, by simpa using hp, u, hu, h.1.1, h.2, h.1.2⟩

/-- the invoice that is bound has exactly the claim amount (in msat, uint64 arithmetic of the code) and a final
    CLTV within the limit; its hash is the one the wanted script is built from -/
theorem C01_bind {H : Type} (maxFinal claimSat : Nat) (inv : Invoice H) (h : H)
    (hb : bindInvoice maxFinal claimSat inv = some h) :
    h = inv.hash ∧ inv.msat = wrapU64 (claimSat * 1000) ∧ inv.cltv ≤ (maxFinal : Int) := by
  unfold bindInvoice at hb
  split at hb
  · cases hb
  · split at hb
    · cases hb
    · rename_i h1 h2
      injection hb with hb
      exact ⟨hb.symm, by simpa using h2, by omega⟩

/-- **C01 (Bitcoin)**: the claim payment call is made only for an invoice of exactly the claim amount whose
    payment hash is locked in the script of an output of exactly the on-chain amount of the confirmed
    transaction; with an injective script construction (C02) no other hash fits that output -/
theorem C01_pays_btc {S H : Type} [DecidableEq S] (scriptOf : H → S) (maxFinal amount claimSat : Nat)
    (inv : Invoice H) (outs : List (BtcOut S)) (h : paysBtc scriptOf maxFinal amount claimSat inv outs = true) :
    inv.msat = wrapU64 (claimSat * 1000) ∧ inv.cltv ≤ (maxFinal : Int) ∧
    ∃ o ∈ outs, o.value = wrapI64 (amount : Int) ∧ o.script = scriptOf inv.hash ∧
      (Function.Injective scriptOf → ∀ h', o.script = scriptOf h' → h' = inv.hash) := by
  unfold paysBtc at h
  cases hb : bindInvoice maxFinal claimSat inv with
  | none => simp [hb] at h
  | some hh =>
    simp only [hb] at h
    obtain ⟨e1, e2, e3⟩ := C01_bind maxFinal claimSat inv hh hb
    subst e1
    obtain ⟨o, hm, hv, hs⟩ := C01_btc_sound amount _ outs h
    exact ⟨e2, e3, o, hm, hv, hs, fun hinj h' hh' => hinj (by rw [← hh', hs])⟩

/-- **C01 (Liquid)** -/
theorem C01_pays_lq {S H : Type} [DecidableEq S] (scriptOf : H → S) (maxFinal amount claimSat : Nat)
    (inv : Invoice H) (outs : List (LqOut S)) (h : paysLq scriptOf maxFinal amount claimSat inv outs = true) :
    inv.msat = wrapU64 (claimSat * 1000) ∧ 0 ≤ inv.cltv ∧ inv.cltv ≤ (maxFinal : Int) ∧
    ∃ o ∈ outs, o.script = scriptOf inv.hash ∧ ∃ u, o.unblind = some u ∧ u.assetIsPolicy = true ∧ u.value = amount := by
  unfold paysLq at h
  by_cases hneg : inv.cltv < 0
  · simp [hneg] at h
  · simp only [hneg, if_false] at h
    cases hb : bindInvoice maxFinal claimSat inv with
    | none => simp [hb] at h
    | some hh =>
      simp only [hb] at h
      obtain ⟨e1, e2, e3⟩ := C01_bind maxFinal claimSat inv hh hb
      subst e1
      obtain ⟨o, hm, hs, u, hu, ha, hv, _⟩ := C01_lq_sound amount _ outs h
      exact ⟨e2, by omega, e3, o, hm, hs, u, hu, ha, hv⟩

/-- for every other transaction it never pays: no output of the amount, or the first such output with another
    script -/
theorem C01_btc_rejects {S : Type} [DecidableEq S] (amount : Nat) (want : S) (outs : List (BtcOut S))
    (h : ∀ o ∈ outs, o.value = wrapI64 (amount : Int) → o.script ≠ want) : validateBtc amount want outs = false := by
  cases hv : validateBtc amount want outs
  · rfl
  · obtain ⟨o, hm, h1, h2⟩ := C01_btc_sound amount want outs hv
    exact absurd h2 (h o hm h1)

theorem C01_lq_rejects {S : Type} [DecidableEq S] (amount : Nat) (want : S) (outs : List (LqOut S))
    (h : ∀ o ∈ outs, o.script ≠ want) : validateLq amount want outs = false := by
  cases hv : validateLq amount want outs
  · rfl
  · obtain ⟨o, hm, h1, _⟩ := C01_lq_sound amount want outs hv
    exact absurd h1 (h o hm)

/-- the pay action exists only in the two validate-and-pay states, and those are entered only from
    AwaitTxConfirmation on the watcher's confirmation event -/
theorem C01_pay_only_after_confirmation :
    (∀ r : Role, ((table r).filter (fun row => row.acts.contains .ValidateTxAndPayClaimInvoiceAction)).map (·.st) =
      (match r with
        | .SwapOutSender => [.State_SwapOutSender_ValidateTxAndPayClaimInvoice]
        | .SwapInReceiver => [.State_SwapInReceiver_ValidateTxAndPayClaimInvoice]
        | _ => []))
    ∧ ((table .SwapOutSender).flatMap (fun row => (row.evs.filter (·.2 == .State_SwapOutSender_ValidateTxAndPayClaimInvoice)).map (fun e => (row.st, e.1))))
        = [(.State_SwapOutSender_AwaitTxConfirmation, E_OnTxConfirmed)]
    ∧ ((table .SwapInReceiver).flatMap (fun row => (row.evs.filter (·.2 == .State_SwapInReceiver_ValidateTxAndPayClaimInvoice)).map (fun e => (row.st, e.1))))
        = [(.State_SwapInReceiver_AwaitTxConfirmation, E_OnTxConfirmed)] := by
  refine ⟨?_, ?_, ?_⟩
  · intro r; cases r <;> decide
  · decide
  · decide

/-- required depths are the generated constants: 3 Bitcoin / 2 Liquid confirmations -/
theorem C01_depths : bitcoinMinConfs = 3 ∧ liquidConfs = 2 := by decide

/-! ### C01 ∘ C02: the hash locked in the output -/
section
open PsVerif.Model.Script PsVerif.Props.C02

/-- the output script of a swap as the wallets and validators build it: P2WSH of the opening script bytes, with the
    hash function a parameter -/
def p2wshOf (sha : Bytes → Bytes) (maker taker : Bytes) (csv : Nat) (h : Bytes) : Bytes :=
  0 :: 32 :: sha (scriptBytes maker taker h csv)

/-- C01 ∘ C02: with the concrete script construction, an output that carries the script of one payment hash
    carries the script of no other payment hash — under the one named assumption that the hash function does not
    collide on the two scripts.  So the hash the taker pays for is the hash locked in the output. -/
theorem C01_hash_locked (sha : Bytes → Bytes) (maker taker : Bytes) (csv : Nat) (h h' : Bytes)
    (hm : maker.length = 33) (ht : taker.length = 33) (hh : h.length = 32) (hh' : h'.length = 32)
    (hc : CsvOperand csv)
    (hcoll : sha (scriptBytes maker taker h csv) = sha (scriptBytes maker taker h' csv) →
             scriptBytes maker taker h csv = scriptBytes maker taker h' csv)
    (e : p2wshOf sha maker taker csv h = p2wshOf sha maker taker csv h') : h = h' := by
  unfold p2wshOf at e
  simp only [List.cons.injEq, true_and] at e
  exact (C02_script_injective maker taker h maker taker h' csv csv hm hm ht ht hh hh' hc hc (hcoll e)).2.2.1

end

-- non-vacuity; an output of the same value in front of the swap output does not matter
example : validateBtc 1000 "w" [⟨500, "x"⟩, ⟨1000, "w"⟩] = true := by decide
example : validateBtc 1000 "w" [⟨1000, "change"⟩, ⟨1000, "w"⟩] = true := by decide
example : validateBtc 1000 "w" [⟨1000, "change"⟩, ⟨999, "w"⟩] = false := by decide
example : validateLq 1000 "w" [⟨"x", none, false, false, false⟩, ⟨"w", some ⟨true, 1000⟩, false, true, false⟩] = true := by decide
example : validateLq 1000 "w" [⟨"w", some ⟨false, 1000⟩, false, true, false⟩] = false := by decide

end PsVerif.Props.C01
