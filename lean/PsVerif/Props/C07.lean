import PsVerif.Proofs.MkCert
/-
C07  A maker's locked funds are never abandoned.

Model: the abstract engine over the GENERATED tables of both maker roles with the flag summaries of
Model/AbsMk.lean; certificates in Proofs/MkCert.lean.  Full statement (`C07_statement`): for the
unrestricted environment.  FALSE on this tree: a crash between the wallet's broadcast and the persist
that follows leaves a broadcast opening transaction without a record (known finding, Findings/C07.lean).
Proved (`C07_partial_*`): for every history without such a crash.  The Liquid `vout` defect (announced
index always 0) is below this abstraction; it is handled under C08.
-/
namespace PsVerif.Props.C07
open PsVerif.Gen PsVerif.Model.Abs PsVerif.Model.AbsMk PsVerif.Proofs.MkCert

/-- per configuration: a broadcast opening transaction is in the durable record; a finished swap with
    locked funds was paid or spent back; a swap resting in a CSV-waiting state has its CSV watch
    registered (so the refund is triggered when the CSV matures, also after a restart) -/
def holds (m : MC F) : Bool := recorded m && settled m && watched m

def C07_statement : Prop :=
  (∀ m, Reach (sysIn hostile) m → holds m = true) ∧ (∀ m, Reach (sysOut hostile) m → holds m = true)

theorem holds_of_allProps (m : MC F) (h : allProps m = true) : holds m = true := by
  unfold allProps at h
  unfold holds
  simp only [Bool.and_eq_true] at h ⊢
  exact ⟨⟨h.1.1.1.1.2, h.1.1.1.2⟩, h.1.1.2⟩

/-- swap-in initiator (maker) -/
theorem C07_partial_swap_in_sender : ∀ m, Reach (sysIn benign) m → holds m = true :=
  fun m hm => holds_of_allProps m (allProps_in m hm)

/-- swap-out responder (maker) -/
theorem C07_partial_swap_out_receiver : ∀ m, Reach (sysOut benign) m → holds m = true :=
  fun m hm => holds_of_allProps m (allProps_out m hm)

/-- non-vacuity: configurations with a broadcast opening, with a refund, and finished ones are reachable -/
theorem C07_nonvacuous :
    (certIn.toList.any fun m => m.f.openings == 1 && m.f.spentBack && isFinished m.st) = true ∧
    (certOut.toList.any fun m => m.f.openings == 1 && m.f.invoicePaid && isFinished m.st) = true := by
  decide +kernel

end PsVerif.Props.C07
