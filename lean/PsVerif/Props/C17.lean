import PsVerif.Model.AbsNg
/-
C17  Negotiation waits are bounded by timeouts, also after restarts.

Model: the abstract engine over the GENERATED tables of the two requester roles and the swap-out responder
with the flags of Model/AbsNg.lean (timer armed — volatile, lost at restart —, offer sent, cancel handed to
the messenger, cancel received).  The 10-minute durations are observed by the harness
(swap.VerifTimeouts records every registration with its duration).
-/
namespace PsVerif.Props.C17
open PsVerif.Gen PsVerif.Model.Abs PsVerif.Model.AbsNg

def sysOutS := sys tableSwapOutSender
def sysInS := sys tableSwapInSender
def sysOutR := sys tableSwapOutReceiver

def certOutS := reachCert sysOutS 80
def certInS := reachCert sysInS 80
def certOutR := reachCert sysOutR 80

def holds (m : MC F) : Bool := !m.f.unknownAct && waitBounded m && peerTold m

theorem certOutS_ok : (closedCert sysOutS certOutS && allGood certOutS holds) = true := by decide +kernel
theorem certInS_ok : (closedCert sysInS certInS && allGood certInS holds) = true := by decide +kernel
theorem certOutR_ok : (closedCert sysOutR certOutR && allGood certOutR holds) = true := by decide +kernel

theorem lift {s : Sys F} {c : Cert F} (h : (closedCert s c && allGood c holds) = true) :
    ∀ m, Reach s m → holds m = true := by
  simp only [Bool.and_eq_true] at h
  exact invariant_of_cert s c holds h.1 h.2

/-- swap-out requester: in every history (incl. restarts at any point) a swap resting in AwaitAgreement has
    an armed timer, and a swap it offered and then cancelled on its own went through SendCancel -/
theorem C17_requester_swap_out : ∀ m, Reach sysOutS m → holds m = true := lift certOutS_ok
/-- swap-in requester: same -/
theorem C17_requester_swap_in : ∀ m, Reach sysInS m → holds m = true := lift certInS_ok
/-- swap-out responder: a swap resting in AwaitFeeInvoicePayment has an armed timer -/
theorem C17_responder_fee_invoice : ∀ m, Reach sysOutR m → holds m = true := lift certOutR_ok

/-- when that timer fires the generated tables send a cancel (never ignore it) in the three waits -/
theorem C17_timeout_cancels :
    nextSt tableSwapOutSender .State_SwapOutSender_AwaitAgreement E_OnTimeout = some .State_SendCancel ∧
    nextSt tableSwapInSender .State_SwapInSender_AwaitAgreement E_OnTimeout = some .State_SendCancel ∧
    nextSt tableSwapOutReceiver .State_SwapOutReceiver_AwaitFeeInvoicePayment E_OnTimeout = some .State_SendCancel ∧
    (∀ tb ∈ [tableSwapOutSender, tableSwapInSender, tableSwapOutReceiver],
      actsOf tb .State_SendCancel = [.SendCancelAction] ∧
      nextSt tb .State_SendCancel E_ActionSucceeded = some .State_SwapCanceled ∧
      nextSt tb .State_SendCancel E_ActionFailed = some .State_SwapCanceled) := by decide

/-- after a restart every negotiation state before the opening transaction exists is failed and the peer
    is told: the persisted states of the three roles are FailOnrecover with ActionFailed → SendCancel, or
    (CreateSwap: nothing was sent yet) → SwapCanceled -/
theorem C17_restart_fails_negotiation :
    (∀ s ∈ [St.State_SwapOutSender_SendRequest, .State_SwapOutSender_AwaitAgreement],
      failOnRecover tableSwapOutSender s = true ∧ nextSt tableSwapOutSender s E_ActionFailed = some .State_SendCancel) ∧
    (∀ s ∈ [St.State_SwapInSender_SendRequest, .State_SwapInSender_AwaitAgreement],
      failOnRecover tableSwapInSender s = true ∧ nextSt tableSwapInSender s E_ActionFailed = some .State_SendCancel) ∧
    (∀ s ∈ [St.State_SwapOutReceiver_SendFeeInvoice, .State_SwapOutReceiver_AwaitFeeInvoicePayment],
      failOnRecover tableSwapOutReceiver s = true ∧ nextSt tableSwapOutReceiver s E_ActionFailed = some .State_SendCancel) := by
  decide

/-- non-vacuity: the waits are reachable with the timer armed -/
theorem C17_nonvacuous :
    (certInS.toList.any fun m => m.st == .State_SwapInSender_AwaitAgreement && m.f.timerArmed && m.pend.isNone) = true ∧
    (certOutR.toList.any fun m => m.st == .State_SwapOutReceiver_AwaitFeeInvoicePayment && m.f.timerArmed && m.pend.isNone) = true := by
  decide +kernel

end PsVerif.Props.C17
