import PsVerif.Model.Timelock
import PsVerif.Model.Route
/-
C05  Bitcoin claim HTLC always expires before the maker can refund via CSV.

Model: `awaitTxConfBtc` (pre-checks of AwaitTxConfirmationAction, Bitcoin branch, with the uint32
wrap of `start + csv/2`), `payIterationBtc` (pay loop guard `(now - start) > csv/2` in uint32),
route deltas final+1 (CLN) and final+BlockPadding (LND).

Full statement (`C05_statement`): for every accepted invoice, every pay height the loop admits and
every confirmation height, `now + delta < conf + csv`.  It is FALSE of this tree (Findings/C05.lean:
both guards admit the boundary value 504 and nothing bounds the confirmation height from below);
recorded as known findings.  Proved here: the exact bound the guards do give (`C05_guards`), and the
property under the extra hypothesis it leaves open (`C05_partial`).
-/
namespace PsVerif.Props.C05
open PsVerif PsVerif.Model PsVerif.Gen

/-- route delta the node's own payment permits on top of the pay height: `pad` = 1 for CLN
    (`delay = final + 1`), `routing.BlockPadding` for LND -/
def htlcExpiry (now : Nat) (cltv : Int) (pad : Nat) : Nat := now + cltv.toNat + pad

def C05_statement : Prop :=
  ∀ (cltv : Int) (msat claim start hAwait now conf pad : Nat),
    pad = 1 ∨ pad = 3 →
    awaitTxConfBtc bitcoinCsv cltv msat claim start hAwait = .ok →
    payIterationBtc bitcoinCsv start now = true →
    conf + 2 ≤ now →                       -- the opening transaction is at least 3 deep when paid
    htlcExpiry now cltv pad < conf + bitcoinCsv

/-- what the two guards give: the invoice's final CLTV is at most csv/2 = 504, the amount is exact, and
    (when `start + 504` does not wrap) the payment is made at most 504 blocks after the start height -/
theorem C05_guards (cltv : Int) (msat claim start hAwait now : Nat)
    (hs : start + 504 < 4294967296) (hn : now < 4294967296)
    (ha : awaitTxConfBtc bitcoinCsv cltv msat claim start hAwait = .ok)
    (hp : payIterationBtc bitcoinCsv start now = true) :
    cltv ≤ 504 ∧ msat = wrapU64 (claim * 1000) ∧ start ≠ 0 ∧ hAwait < start + 504 ∧ now ≤ start + 504 := by
  -- a height BELOW the start height (the chain was reorganised back) wraps to a huge distance: no payment
  have hsn : start ≤ now := by
    apply Decidable.byContradiction
    intro hlt
    unfold payIterationBtc wrapU32i at hp
    simp only [bitcoinCsv] at hp
    have e : ((Int.ofNat now - Int.ofNat start) % 4294967296).toNat = 4294967296 + now - start := by
      simp only [Int.ofNat_eq_coe]
      have : ((now : Int) - (start : Int)) % 4294967296 = (now : Int) - (start : Int) + 4294967296 := by
        rw [← Int.add_emod_right]
        apply Int.emod_eq_of_lt <;> omega
      rw [this]; omega
    rw [e] at hp
    simp at hp
    omega
  unfold awaitTxConfBtc at ha
  by_cases h1 : cltv > Int.ofNat (bitcoinCsv / 2)
  · rw [if_pos h1] at ha; cases ha
  · rw [if_neg h1] at ha
    by_cases h2 : msat ≠ wrapU64 (claim * 1000)
    · rw [if_pos h2] at ha; cases ha
    · rw [if_neg h2] at ha
      by_cases h3 : start = 0
      · rw [if_pos h3] at ha; cases ha
      · rw [if_neg h3] at ha
        by_cases h4 : hAwait ≥ wrapU32 (start + bitcoinCsv / 2)
        · rw [if_pos h4] at ha; cases ha
        · simp only [bitcoinCsv, wrapU32] at h4 h1
          have e1 : (start + 1008 / 2) % 4294967296 = start + 504 := by omega
          rw [e1] at h4
          unfold payIterationBtc wrapU32i at hp
          simp only [bitcoinCsv] at hp
          have e2 : ((Int.ofNat now - Int.ofNat start) % 4294967296).toNat = now - start := by
            simp only [Int.ofNat_eq_coe]
            have : ((now : Int) - (start : Int)) % 4294967296 = (now : Int) - (start : Int) := by
              apply Int.emod_eq_of_lt <;> omega
            rw [this]; omega
          rw [e2] at hp
          simp at hp
          have hm : msat = wrapU64 (claim * 1000) := by
            cases Nat.decEq msat (wrapU64 (claim * 1000)) with
            | isTrue h => exact h
            | isFalse h => exact absurd h h2
          have hc : cltv ≤ 504 := by
            have : (Int.ofNat (1008 / 2)) = 504 := by decide
            rw [this] at h1
            omega
          exact ⟨hc, hm, h3, by omega, by omega⟩

/-- the property holds whenever the opening transaction confirmed late enough relative to the taker's
    start height: conf + 1008 > start + 504 + final + pad (e.g. final = 503 needs conf ≥ start + pad) -/
theorem C05_partial (cltv : Int) (msat claim start hAwait now conf pad : Nat)
    (hs : start + 504 < 4294967296) (hn : now < 4294967296)
    (ha : awaitTxConfBtc bitcoinCsv cltv msat claim start hAwait = .ok)
    (hp : payIterationBtc bitcoinCsv start now = true)
    (hconf : start + 504 + cltv.toNat + pad < conf + bitcoinCsv) :
    htlcExpiry now cltv pad < conf + bitcoinCsv := by
  have := C05_guards cltv msat claim start hAwait now hs hn ha hp
  unfold htlcExpiry
  omega

-- non-vacuity: the honest case (final 503, paid 100 blocks after the start, confirmed right after it)
example : awaitTxConfBtc bitcoinCsv 503 1000000000 1000000 800000 800001 = .ok := by decide
example : payIterationBtc bitcoinCsv 800000 800100 = true := by decide

end PsVerif.Props.C05
