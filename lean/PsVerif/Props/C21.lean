import PsVerif.Model.Wire
/-
C21  Wire messages follow the protocol numbering and encoding.

Model: `Gen.msgTypes` / `Gen.msgTypeOf` (GENERATED: the nine constants, and for each swap message struct
the value of its MessageType() method and its hex string as MessageTypeToHexString prints it),
`parseInt16`/`toHex` (strconv), `routeMessage` (guards of OnMessageReceived).
Tie: slice `wire` (type strings and payload sizes through the real functions / the real handler, store
and messenger snapshotted); the JSON round-trip of message contents is covered by slice `msgjson`
(real Marshal/Unmarshal of every message struct) — see the level note for what is proved about it.
-/
namespace PsVerif.Props.C21
open PsVerif.Gen PsVerif.Model

/-- the nine numbers are exactly 42069 + 2k, k = 0..8, in protocol order -/
theorem C21_numbers : msgTypes.map (·.2) = (List.range 9).map (fun k => 42069 + 2 * k) := by decide

theorem C21_all_odd : ∀ p ∈ msgTypes, p.2 % 2 = 1 := by decide

theorem C21_range : ∀ p ∈ msgTypes, 42069 ≤ p.2 ∧ p.2 ≤ 42085 := by decide

theorem C21_pairwise_distinct : (msgTypes.map (·.2)).Nodup := by decide

/-- every swap message struct reports the protocol number of its own kind -/
theorem C21_struct_types : ∀ m ∈ msgTypeOf, (m.1, m.2.1) ∈ msgTypes := by decide

/-- the hex string a message is sent with parses back to its own number, and is what FormatInt gives -/
theorem C21_hex_roundtrip : ∀ m ∈ msgTypeOf,
    parseInt16 m.2.2 = some (Int.ofNat m.2.1) ∧ toHex (Int.ofNat m.2.1) = m.2.2 ∧
    classifyType m.2.2 = .peerswap m.2.1 := by decide

/-- a type string is treated as a peerswap message only if it denotes one of the nine numbers -/
theorem C21_only_the_nine (s : String) (t : Nat) (h : classifyType s = .peerswap t) : t ∈ peerswapTypes := by
  unfold classifyType at h
  split at h
  · cases h
  · split at h
    · rename_i hv
      injection h with h
      subst h
      simpa [List.contains_iff_mem] using hv.2
    · cases h

/-- oversized payloads, unparsable or foreign type strings and the two poll types never reach decoding:
    the handler returns before touching any swap -/
theorem C21_junk_not_dispatched (len : Nat) (s : String) (t : Nat) (h : routeMessage len s = .decode t) :
    len ≤ maxPayload ∧ classifyType s = .peerswap t ∧ t ∈ msgTypeOf.map (·.2.1) := by
  unfold routeMessage at h
  split at h
  · cases h
  · rename_i hl
    split at h
    · cases h
    · cases h
    · rename_i t' ht
      split at h
      · rename_i hc
        injection h with h
        subst h
        exact ⟨by omega, ht, by simpa [List.contains_iff_mem] using hc⟩
      · cases h

theorem C21_limit : maxPayload = 102400 := by decide

example : routeMessage 102400 "a45f" = .decode 42079 := by decide
example : routeMessage 102401 "a45f" = .tooLarge := by decide
example : routeMessage 10 "a460" = .ignored := by decide
example : routeMessage 10 "a463" = .ignored := by decide     -- poll: a peerswap type the swap service ignores
example : routeMessage 10 "xyz" = .typeError := by decide
example : routeMessage 10 "-a45f" = .ignored := by decide
example : routeMessage 10 "A45F" = .decode 42079 := by decide

end PsVerif.Props.C21
