import PsVerif.Model.Watcher
/-
C20  Chain watchers report confirmation and CSV maturity only when true.

Model: Model/Watcher.lean — one iteration of the RPC watcher's `observationLoop` (with
`IsTxInMempoolOrRange`) as a function of the height it is handed and the RPC answers it reads, and the CSV
test of `HandleCsvTx` / `AddWaitForCsvTx`.  Tie: slice `watcher` (the REAL BlockchainRpcTxWatcher over a
scripted RPC: handed heights in sync with, behind and ahead of the RPC tip; confirmed / unconfirmed / spent
/ unknown outputs; stale best-block hashes; errors of every call; heights around both window edges).

The Electrum observers (electrum/tx_observer.go), the LWK header filter and the decisions of the LND watcher
(lnd/txwatcher.go) are modelled in the same file and tied by slices `elwatch` and `lndwatch` (the real
observers over a scripted Electrum RPC; the real lnd.TxWatcher over scripted gRPC clients and streams).

Truth is stated against a chain: tip `H`, the transaction in block `h` of that chain (depth H-h+1), the RPC
answering consistently with it (`viewOf`), the handed height not ahead of that tip.
-/
namespace PsVerif.Props.C20
open PsVerif PsVerif.Model.Watcher

/-- the answers of a node whose best chain has tip `H` and holds the (unspent) transaction in block `h` -/
def viewOf (H h : Nat) : View :=
  ⟨false, H, false, false, some ⟨true, H + 1 - h⟩, false, false, .notFound⟩

theorem firstSeen_of_view (start H h : Nat) (hh : 1 ≤ h) (hH : h ≤ H) (hb : H < 4294967296) :
    isTxInMempoolOrRange start (viewOf H h) = .ok h := by
  unfold isTxInMempoolOrRange viewOf
  simp only [Bool.false_eq_true, if_false, Bool.not_true]
  have hw : wrapU32 H = H := by unfold wrapU32; omega
  by_cases h1 : H + 1 - h = 0
  · omega
  · simp only [h1, if_false]
    by_cases h2 : H + 1 - h = 1
    · simp only [h2, if_true, hw]
      congr 1; omega
    · simp only [h2, if_false, hw]
      congr 1
      unfold wrapU32i
      have : (Int.ofNat H + 1 - Int.ofNat (H + 1 - h)) = Int.ofNat h := by
        simp only [Int.ofNat_eq_coe]; omega
      rw [this]
      simp only [Int.ofNat_eq_coe]
      omega

/-- **soundness**: whenever the watcher reports the opening transaction as confirmed, the transaction has at
    least the required depth on the node's best chain and the payment window was still open at the height the
    watcher was handed — for EVERY handed height: at or below the tip (a stale notification) and above it
    (a reorganisation left the node with a shorter best chain than the height the block poller had seen; the
    hypothesis `height ≤ H` that this theorem needed before /repo fix "count the depth up to the node's tip"
    is gone, its witness is `C20_depth_from_handed_height_unsound`) -/
theorem C20_confirmed_sound (confs start limit last height H h : Nat)
    (hh : 1 ≤ h) (hH : h ≤ H) (hb : H < 4294967296) (hs : start + limit < 4294967296)
    (hc : observe confs start limit last height (viewOf H h) = .confirmed) :
    confs ≤ H - h + 1 ∧ height < start + limit ∧ h ≤ start + limit := by
  unfold observe at hc
  rw [firstSeen_of_view start H h hh hH hb] at hc
  have hw : wrapU32 (start + limit) = start + limit := by unfold wrapU32; omega
  have hwH : wrapU32 (viewOf H h).rpcHeight = H := by unfold wrapU32 viewOf; simp only; omega
  simp only [hw, hwH] at hc
  split at hc
  · cases hc
  · split at hc
    · cases hc
    · split at hc
      · cases hc
      · split at hc
        · rename_i h1 h2 h3 h4
          simp only [Int.ofNat_eq_coe] at h4
          omega
        · cases hc

/-- the rule of the code before that fix (depth counted from the handed height alone): tip 103 with the
    transaction in block 103 (one confirmation), handed height 105 from the chain that was reorganised away,
    three confirmations required — reported as confirmed -/
theorem C20_depth_from_handed_height_unsound :
    (Int.ofNat 105 - (Int.ofNat 103 - 1) ≥ Int.ofNat 3) ∧ ¬ (3 ≤ 103 - 103 + 1)
    ∧ isTxInMempoolOrRange 100 (viewOf 103 103) = .ok 103
    ∧ observe 3 100 60 104 105 (viewOf 103 103) = .wait := by decide

/-- once the window has closed the watcher reports a failure, whatever the node answers -/
theorem C20_window_closed_fails (confs start limit last height : Nat) (v : View)
    (hs : start + limit < 4294967296) (hnew : last < height) (hclosed : start + limit ≤ height) :
    observe confs start limit last height v = .failed := by
  unfold observe
  have hw : wrapU32 (start + limit) = start + limit := by unfold wrapU32; omega
  simp only [hw]
  rw [if_neg (by omega), if_pos (by omega)]

/-- **completeness**: in sync with the node, inside the window, a transaction with the required depth is
    reported as confirmed -/
theorem C20_confirmed_complete (confs start limit last H h : Nat)
    (hh : 1 ≤ h) (hH : h ≤ H) (hb : H < 4294967296) (hs : start + limit < 4294967296)
    (hnew : last < H) (hopen : H < start + limit) (hdeep : confs ≤ H - h + 1) :
    observe confs start limit last H (viewOf H h) = .confirmed := by
  unfold observe
  rw [firstSeen_of_view start H h hh hH hb]
  have hw : wrapU32 (start + limit) = start + limit := by unfold wrapU32; omega
  simp only [hw]
  rw [if_neg (by omega), if_neg (by omega)]
  have hwH : wrapU32 (viewOf H h).rpcHeight = H := by unfold wrapU32 viewOf; simp only; omega
  rw [hwH, Nat.min_self]
  show (if h > start + limit then Out.failed else if Int.ofNat H - (Int.ofNat h - 1) ≥ Int.ofNat confs then Out.confirmed else Out.wait) = Out.confirmed
  rw [if_neg (by omega), if_pos (by simp only [Int.ofNat_eq_coe]; omega)]

/-- a mempool transaction, a stale best-block answer and an output the node does not know yet only make the
    watcher wait; they never end the swap -/
theorem C20_transients_wait (confs start limit last height rpcH : Nat) (t : TxOut)
    (hs : start + limit < 4294967296) (hnew : last < height) (hopen : height < start + limit)
    (ht : t.bestMatches = false ∨ t.confs = 0) :
    observe confs start limit last height ⟨false, rpcH, false, false, some t, false, false, .notFound⟩ = .wait := by
  unfold observe isTxInMempoolOrRange
  have hw : wrapU32 (start + limit) = start + limit := by unfold wrapU32; omega
  simp only [hw]
  rw [if_neg (by omega), if_neg (by omega)]
  rcases ht with h | h
  · simp [h]
  · cases hb : t.bestMatches <;> simp [hb, h]

/-- a height the loop has already seen reads nothing and reports nothing -/
theorem C20_duplicate_height (confs start limit last height : Nat) (v : View) (h : height ≤ last) :
    observe confs start limit last height v = .dup := by
  unfold observe; rw [if_pos h]

/-- CSV maturity is reported exactly when the node sees the output with at least CSV confirmations -/
theorem C20_csv_iff (csv : Nat) (txoutErr : Bool) (txout : Option Nat) :
    csvDue csv txoutErr txout = true ↔ txoutErr = false ∧ ∃ c, txout = some c ∧ csv ≤ c := by
  unfold csvDue
  cases txoutErr <;> cases txout <;> simp

/-! ### Electrum observers (LWK back end): the subscription height is the tip -/

theorem hasConfirmations_true (txH tip : Int) (req : Nat) (h : hasConfirmations txH tip req = some true) :
    0 < txH ∧ txH ≤ tip ∧ Int.ofNat req ≤ tip - txH + 1 := by
  unfold hasConfirmations at h
  by_cases h1 : tip ≤ 0
  · simp [h1] at h
  · by_cases h2 : txH ≤ 0
    · simp [h1, h2] at h
    · by_cases h3 : txH > tip
      · simp [h1, h2, h3] at h
      · simp only [h1, h2, h3, if_false, Option.some.injEq, decide_eq_true_eq] at h
        exact ⟨by omega, by omega, h⟩

/-- the Electrum opening observer reports confirmed only for a transaction listed at a positive height not
    above the tip, with at least the required depth, at a tip inside [start, start+window) -/
theorem C20_electrum_confirmed_sound (start window required : Nat) (current : Int) (histErr rawErr : Bool)
    (hist : Option Int) (h : elOpening start window required current histErr hist rawErr = .confirmed) :
    ∃ txH, hist = some txH ∧ 0 < txH ∧ txH ≤ current ∧ Int.ofNat required ≤ current - txH + 1 ∧
      Int.ofNat start ≤ current ∧ current < Int.ofNat start + Int.ofNat window := by
  unfold elOpening at h
  by_cases h1 : current ≤ 0
  · rw [if_pos h1] at h; cases h
  · rw [if_neg h1] at h
    by_cases h2 : current < Int.ofNat start ∨ current ≥ Int.ofNat start + Int.ofNat window
    · rw [if_pos h2] at h; cases h
    · rw [if_neg h2] at h
      by_cases h3 : histErr = true
      · rw [if_pos h3] at h; cases h
      · rw [if_neg h3] at h
        cases hist with
        | none => simp at h
        | some txH =>
          simp only at h
          cases hc : hasConfirmations txH current required with
          | none => simp [hc] at h
          | some b =>
            cases b
            · simp [hc] at h
            · obtain ⟨a1, a2, a3⟩ := hasConfirmations_true _ _ _ hc
              exact ⟨txH, rfl, a1, a2, a3, by omega, by omega⟩

/-- … and reports a failure exactly when the tip is outside the window (below the start, which only a stale
    server can produce, or at/after its end) -/
theorem C20_electrum_failed_iff (start window required : Nat) (current : Int) (histErr rawErr : Bool) (hist : Option Int) :
    elOpening start window required current histErr hist rawErr = .failed ↔
      0 < current ∧ (current < Int.ofNat start ∨ Int.ofNat start + Int.ofNat window ≤ current) := by
  unfold elOpening
  constructor
  · intro h
    split at h
    · cases h
    · split at h
      · rename_i h1 h2; exact ⟨by omega, by omega⟩
      · split at h
        · cases h
        · cases hist with
          | none => simp at h
          | some txH =>
            simp only at h
            cases hc : hasConfirmations txH current required with
            | none => simp [hc] at h
            | some b => cases b <;> simp [hc] at h <;> (split at h <;> cases h)
  · intro ⟨h1, h2⟩
    rw [if_neg (by omega), if_pos (by omega)]

/-- the Electrum CSV observer reports maturity only at depth >= csv -/
theorem C20_electrum_csv_sound (csv : Nat) (current : Int) (histErr : Bool) (hist : Option Int)
    (h : elCsv csv current histErr hist = .matured) :
    ∃ txH, hist = some txH ∧ 0 < txH ∧ txH ≤ current ∧ Int.ofNat csv ≤ current - txH + 1 := by
  unfold elCsv at h
  by_cases h3 : histErr = true
  · rw [if_pos h3] at h; cases h
  · rw [if_neg h3] at h
    cases hist with
    | none => simp at h
    | some txH =>
      simp only at h
      cases hc : hasConfirmations txH current csv with
      | none => simp [hc] at h
      | some b =>
        cases b
        · simp [hc] at h
        · obtain ⟨a1, a2, a3⟩ := hasConfirmations_true _ _ _ hc
          exact ⟨txH, rfl, a1, a2, a3⟩

/-- the LWK header filter only ever moves the stored tip upwards, and observers are run only for a new
    higher tip -/
theorem C20_accept_monotone (stored : Int) (terminal : Bool) (header : Option Int) (st : Int) (ch : Bool)
    (h : acceptHeight stored terminal header = some (st, ch)) :
    stored ≤ st ∨ stored ≤ 0 := by
  unfold acceptHeight at h
  cases header with
  | none => simp at h
  | some hh =>
    simp only at h
    split at h
    · cases h
    · split at h
      · cases h
      · split at h
        · injection h with h; injection h with h1 _; omega
        · injection h with h; injection h with h1 _; omega

/-! ### LND back end -/

/-- on lnd's confirmation notification (lnd itself guarantees the target confirmations) the watcher reports
    confirmed only while fewer than CSV/2 blocks have passed since the first confirmation, and a failure — not
    a CSV event — once that window has closed; a GetInfo height behind the notifier never produces a failure -/
theorem C20_lnd_on_conf (safety current confHeight : Nat) :
    (lndOnConf safety false current confHeight = .confirmed ↔ Int.ofNat current - Int.ofNat confHeight + 1 < Int.ofNat safety)
    ∧ (lndOnConf safety false current confHeight = .failed ↔ Int.ofNat safety ≤ Int.ofNat current - Int.ofNat confHeight + 1)
    ∧ (current < confHeight → 0 < safety → lndOnConf safety false current confHeight = .confirmed) := by
  unfold lndOnConf
  simp only [Bool.false_eq_true, if_false, Int.ofNat_eq_coe]
  refine ⟨?_, ?_, ?_⟩
  · by_cases h : (current : Int) - confHeight + 1 ≥ safety
    · simp [h]
    · simp [h]; omega
  · by_cases h : (current : Int) - confHeight + 1 ≥ safety
    · simp [h]
    · simp [h]
  · intro h1 h2
    rw [if_neg (by omega)]

/-- the LND CSV watcher reports maturity exactly at depth >= csv (for epochs not below the confirmation block) -/
theorem C20_lnd_csv (csv epoch confHeight : Nat) (h : confHeight ≤ epoch + 1) (hb : epoch + 1 < 4294967296) :
    lndCsvOnEpoch csv epoch confHeight = true ↔ csv ≤ epoch + 1 - confHeight := by
  unfold lndCsvOnEpoch wrapU32i
  simp only [Int.ofNat_eq_coe, decide_eq_true_eq]
  have : ((epoch : Int) - confHeight + 1) % 4294967296 = (epoch : Int) - confHeight + 1 := by
    apply Int.emod_eq_of_lt <;> omega
  rw [this]
  omega

-- non-vacuity, and the case that used to go wrong (handed height 1000, tip 1005, 4 of 6 confirmations)
example : observe 3 800000 504 0 800010 (viewOf 800010 800008) = .confirmed := by decide
example : observe 3 800000 504 0 800010 (viewOf 800010 800009) = .wait := by decide
example : observe 6 1000 504 0 1000 (viewOf 1005 1002) = .wait := by decide
example : observe 3 800000 504 0 800504 (viewOf 800504 800400) = .failed := by decide

end PsVerif.Props.C20
