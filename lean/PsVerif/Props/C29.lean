import PsVerif.Model.Upgrade
import PsVerif.Gen.Startup
/-
C29  The database version changes only when no swap is active.

Model: `safeUpgrade`; `isFinished` and the four state tables are GENERATED from the running code.
Tie: differential slice `upgrade` (real VersionService + real bbolt swap store on one file, bucket bytes
compared before/after).
-/
namespace PsVerif.Props.C29
open PsVerif.Gen PsVerif.Model

/-- same version: nothing changes -/
theorem C29_same (cur : String) (states : List St) : safeUpgrade cur (some cur) states = .ok (some cur) := by
  simp [safeUpgrade]

/-- different (or absent) version and every persisted swap terminal: the current version is stored -/
theorem C29_upgrade (cur : String) (stored : Option String) (states : List St) (h : stored ≠ some cur)
    (hall : ∀ s ∈ states, isFinished s = true) : safeUpgrade cur stored states = .ok (some cur) := by
  have : hasActiveSwaps states = false := by
    unfold hasActiveSwaps
    simp only [List.any_eq_false]
    intro s hs; simp [hall s hs]
  simp [safeUpgrade, h, this]

/-- different version and some swap not terminal: startup fails and no new version is produced -/
theorem C29_refuse (cur : String) (stored : Option String) (states : List St) (h : stored ≠ some cur)
    (s : St) (hs : s ∈ states) (hact : isFinished s = false) :
    safeUpgrade cur stored states = .error .activeSwaps := by
  have : hasActiveSwaps states = true := by
    unfold hasActiveSwaps
    simp only [List.any_eq_true]
    exact ⟨s, hs, by simp [hact]⟩
  simp [safeUpgrade, h, this]

/-- the version changes only in the all-terminal case -/
theorem C29_changes_only_when_idle (cur : String) (stored new : Option String) (states : List St)
    (h : safeUpgrade cur stored states = .ok new) (hne : new ≠ stored) :
    ∀ s ∈ states, isFinished s = true := by
  unfold safeUpgrade at h
  split at h
  · injection h with h; exact absurd h.symm hne
  · split at h
    · cases h
    · rename_i hh
      unfold hasActiveSwaps at hh
      have hh' : ∀ x ∈ states, isFinished x = true := by simpa using hh
      exact hh'

/-- when the question "is a swap active?" cannot be answered (a record does not decode), startup fails and the
    version stays: an unanswered question is not a "no" -/
theorem C29_query_failure (cur : String) (stored : Option String) (records : List (Option St)) (h : stored ≠ some cur)
    (hbad : none ∈ records) : safeUpgradeQ cur stored records = .error .queryFailed := by
  have : records.any Option.isNone = true := by
    simp only [List.any_eq_true]
    exact ⟨none, hbad, rfl⟩
  simp [safeUpgradeQ, h, this]

/-- over such buckets too the version changes only when every record decodes to a terminal state -/
theorem C29_Q_changes_only_when_idle (cur : String) (stored new : Option String) (records : List (Option St))
    (h : safeUpgradeQ cur stored records = .ok new) (hne : new ≠ stored) :
    ∀ r ∈ records, ∃ s, r = some s ∧ isFinished s = true := by
  unfold safeUpgradeQ at h
  split at h
  · injection h with h; exact absurd h.symm hne
  · split at h
    · cases h
    · rename_i hbad
      have hall := C29_changes_only_when_idle cur stored new _ h hne
      intro r hr
      cases r with
      | none =>
        have : records.any Option.isNone = true := by
          simp only [List.any_eq_true]; exact ⟨none, hr, rfl⟩
        exact absurd this hbad
      | some s => exact ⟨s, rfl, hall s (by simp [List.mem_filterMap]; exact hr)⟩

/-- `IsFinished` is exactly "the state has no outgoing edge" in every generated role table: a terminal
    state that `IsFinished` forgot (or a finished state with an edge) breaks this -/
theorem C29_terminal_iff_no_edges :
    ∀ r ∈ Role.all, ∀ row ∈ table r, (isFinished row.st = true ↔ row.evs = []) := by decide

theorem C29_finished_states :
    St.all.filter isFinished = [.State_ClaimedCoop, .State_ClaimedCsv, .State_ClaimedPreimage, .State_SwapCanceled] := by
  decide

/-! ### the gate in the start-up sequence of the two daemons (regenerated go/ast facts)

`SafeUpgrade` decides correctly (theorems above) — but "otherwise startup FAILS and the stored version and swaps
are left unchanged" also needs (1) that nothing that can write a swap is live before the gate and (2) that a
refusal ends the process.  A reviewing sub-agent showed both failing for the CLN plugin (the message handler
and the commands were live before the gate; after a refusal `outer` only logged and kept waiting, so the
plugin went on accepting swaps on a database it must not touch); repaired in /repo. -/

def gateBefore (d a : String) : Bool :=
  match startupOrder.find? (·.1 == d) with
  | none => false
  | some (_, l) => match l.idxOf? "versionService.SafeUpgrade", l.idxOf? a with
    | some i, some j => decide (i < j)
    | _, _ => false

/-- the version gate comes before the peer-message handler and the commands go live: in the CLN plugin before
    `swapService.Start` (which registers the custom-message handler) and `SetReady` (which unlocks the RPC
    commands); in the LND daemon before `StartListening` (the message stream; its gRPC server starts later still) -/
theorem C29_gate_before_serving :
    gateBefore "cln" "swapService.Start" = true ∧ gateBefore "cln" "lightningPlugin.SetReady" = true
    ∧ gateBefore "cln" "swapService.RecoverSwaps" = true
    ∧ gateBefore "lnd" "lndClient.StartListening" = true ∧ gateBefore "lnd" "swapService.RecoverSwaps" = true := by
  decide

/-- a failed start ends the process in both daemons (the block guarded by the error of `run` returns the error
    to `main`, which exits / calls Fatal) -/
theorem C29_refusal_ends_process :
    startFailureEndsProcess = [("cln", true), ("lnd", true)] := by decide

example : (safeUpgrade "v0.2" (some "v0.1") [.State_ClaimedCsv, .State_WaitCsv]).toOption = none := by decide
example : (safeUpgrade "v0.2" none [.State_ClaimedCsv]).toOption = some (some "v0.2") := by decide
example : (safeUpgradeQ "v0.2" (some "v0.1") [some .State_ClaimedCsv, none]).toOption = none := by decide

end PsVerif.Props.C29
