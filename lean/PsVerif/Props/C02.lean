import PsVerif.Model.Script
/-
C02  Opening output spendable only by preimage+taker, taker+maker, or maker after CSV.

Model: Model/Script.lean (the opening script as a structured program, evaluated under segwit-v0
consensus rules with abstract signature verdicts and an abstract SHA-256).
Tie: slice `script` — (i) the bytes of the real GetOpeningTxScript against `serialize (opening …)`,
(ii) the model's accept/reject against btcd's txscript engine on real transactions with real signatures
for witness stacks of every shape, sequences around the CSV and both tx versions.
-/
namespace PsVerif.Props.C02
open PsVerif PsVerif.Model.Script

/-- evaluation on a stack given top-first -/
def acceptsStack (c : Crypto) (tx : TxCtx) (prog : List Instr) (st : List Bytes) : Bool :=
  match run c tx prog st with
  | some [x] => truthy x
  | _ => false

theorem accepts_eq (c : Crypto) (tx : TxCtx) (prog : List Instr) (w : List Bytes) :
    accepts c tx prog w = acceptsStack c tx prog w.reverse := rfl

theorem scriptNum_eq_32 (n : Nat) : scriptNum n = [32] ↔ n = 32 := by
  unfold scriptNum scriptNumBytes
  by_cases h0 : n = 0
  · subst h0; simp
  · by_cases h1 : n < 128
    · simp [h0, h1]
    · by_cases h2 : n < 256
      · simp [h0, h1, h2]; omega
      · simp only [h0, h1, h2, if_false]
        constructor
        · intro h
          unfold scriptNumBytes at h
          have : n / 256 ≠ 0 := by omega
          simp only [this, if_false] at h
          split at h <;> (try split at h) <;> simp at h
        · intro h; omega

/-- what the CSV operand must satisfy (true for 60, 1008, 10080: `csv_operands`) -/
structure CsvOperand (csv : Nat) : Prop where
  num : numOf (scriptNum csv) = some csv
  truthy : truthy (scriptNum csv) = true

theorem csv_operands : CsvOperand 60 ∧ CsvOperand 1008 ∧ CsvOperand 10080 := by
  refine ⟨⟨by decide, by decide⟩, ⟨by decide, by decide⟩, ⟨by decide, by decide⟩⟩

/-- every accepted stack has one of the three shapes -/
theorem C02_only_three_paths (c : Crypto) (tx : TxCtx) (maker taker hash : Bytes) (csv : Nat) (hc : CsvOperand csv)
    (st : List Bytes) (h : acceptsStack c tx (opening maker taker hash csv) st = true) :
      (∃ b a p sT, st = [b, a, p, sT] ∧ c.checksig maker b = .invalid ∧ c.checksig maker a = .invalid ∧
          p.length = 32 ∧ c.sha256 p = hash ∧ c.checksig taker sT = .valid)
      ∨ (∃ a sM sT, st = [a, sM, sT] ∧ c.checksig maker a = .invalid ∧ c.checksig maker sM = .valid ∧
          c.checksig taker sT = .valid)
      ∨ (∃ sM, st = [sM] ∧ c.checksig maker sM = .valid ∧ csvOk tx csv = true) := by
  unfold acceptsStack opening at h
  cases st with
  | nil => simp [run, step] at h
  | cons x1 st1 =>
    cases h1 : c.checksig maker x1 with
    | abort => simp [run, step, h1] at h
    | valid =>
      -- maker's signature on top: the ELSE branch (CSV); the stack below must be empty
      right; right
      cases st1 with
      | nil =>
        cases hcsv : csvOk tx csv
        · simp [run, step, h1, truthy, hc.num, hcsv] at h
        · exact ⟨x1, rfl, h1, rfl⟩
      | cons x2 st2 =>
        cases hcsv : csvOk tx csv <;> simp [run, step, h1, truthy, hc.num, hcsv] at h
    | invalid =>
      cases st1 with
      | nil => simp [run, step, h1, truthy] at h
      | cons x2 st2 =>
        cases h2 : c.checksig maker x2 with
        | abort => simp [run, step, h1, h2, truthy] at h
        | valid =>
          -- cooperative path
          right; left
          cases st2 with
          | nil => simp [run, step, h1, h2, truthy] at h
          | cons x3 st3 =>
            cases h3 : c.checksig taker x3 with
            | abort => simp [run, step, h1, h2, h3, truthy] at h
            | invalid => cases st3 <;> simp [run, step, h1, h2, h3, truthy] at h
            | valid =>
              cases st3 with
              | nil => exact ⟨x1, x2, x3, rfl, h1, h2, h3⟩
              | cons x4 st4 => simp [run, step, h1, h2, h3, truthy] at h
        | invalid =>
          -- preimage path
          left
          cases st2 with
          | nil => simp [run, step, h1, h2, truthy] at h
          | cons x3 st3 =>
            by_cases hs : scriptNum x3.length = [32]
            · have hlen := (scriptNum_eq_32 _).mp hs
              by_cases hh : c.sha256 x3 = hash
              · cases st3 with
                | nil => simp [run, step, h1, h2, truthy, hs, hh] at h
                | cons x4 st4 =>
                  cases h4 : c.checksig taker x4 with
                  | abort => simp [run, step, h1, h2, h4, truthy, hs, hh] at h
                  | invalid => cases st4 <;> simp [run, step, h1, h2, h4, truthy, hs, hh] at h
                  | valid =>
                    cases st4 with
                    | nil => exact ⟨x1, x2, x3, x4, rfl, h1, h2, hlen, hh, h4⟩
                    | cons x5 st5 => simp [run, step, h1, h2, h4, truthy, hs, hh] at h
              · have hh' : ¬ hash = c.sha256 x3 := fun e => hh e.symm
                simp [run, step, h1, h2, truthy, hs, hh, hh'] at h
            · have hs' : ¬ [32] = scriptNum x3.length := fun e => hs e.symm
              simp [run, step, h1, h2, truthy, hs, hs'] at h

/-- and each of the three shapes is accepted -/
theorem C02_three_paths_work (c : Crypto) (tx : TxCtx) (maker taker hash : Bytes) (csv : Nat) (hc : CsvOperand csv) :
    (∀ b a p sT, c.checksig maker b = .invalid → c.checksig maker a = .invalid → p.length = 32 →
        c.sha256 p = hash → c.checksig taker sT = .valid →
        acceptsStack c tx (opening maker taker hash csv) [b, a, p, sT] = true) ∧
    (∀ a sM sT, c.checksig maker a = .invalid → c.checksig maker sM = .valid → c.checksig taker sT = .valid →
        acceptsStack c tx (opening maker taker hash csv) [a, sM, sT] = true) ∧
    (∀ sM, c.checksig maker sM = .valid → csvOk tx csv = true →
        acceptsStack c tx (opening maker taker hash csv) [sM] = true) := by
  refine ⟨?_, ?_, ?_⟩
  · intro b a p sT hb ha hl hh ht
    have hs := (scriptNum_eq_32 _).mpr hl
    simp [acceptsStack, opening, run, step, hb, ha, hs, hh, ht, truthy]
  · intro a sM sT ha hm ht
    simp [acceptsStack, opening, run, step, ha, hm, ht, truthy]
  · intro sM hm hcsv
    simp [acceptsStack, opening, run, step, hm, truthy, hc.num, hcsv, hc.truthy]

/-- corollary, in witness order (bottom first, as serialised in the transaction) -/
theorem C02_exact (c : Crypto) (tx : TxCtx) (maker taker hash : Bytes) (csv : Nat) (hc : CsvOperand csv)
    (w : List Bytes) (h : accepts c tx (opening maker taker hash csv) w = true) :
      (∃ sT p a b, w = [sT, p, a, b] ∧ c.checksig maker b = .invalid ∧ c.checksig maker a = .invalid ∧
          p.length = 32 ∧ c.sha256 p = hash ∧ c.checksig taker sT = .valid)
      ∨ (∃ sT sM a, w = [sT, sM, a] ∧ c.checksig maker a = .invalid ∧ c.checksig maker sM = .valid ∧
          c.checksig taker sT = .valid)
      ∨ (∃ sM, w = [sM] ∧ c.checksig maker sM = .valid ∧ csvOk tx csv = true) := by
  rw [accepts_eq] at h
  have := C02_only_three_paths c tx maker taker hash csv hc w.reverse h
  rcases this with ⟨b, a, p, sT, hw, h1, h2, h3, h4, h5⟩ | ⟨a, sM, sT, hw, h1, h2, h3⟩ | ⟨sM, hw, h1, h2⟩
  · left
    refine ⟨sT, p, a, b, ?_, h1, h2, h3, h4, h5⟩
    have := congrArg List.reverse hw
    simpa using this
  · right; left
    refine ⟨sT, sM, a, ?_, h1, h2, h3⟩
    have := congrArg List.reverse hw
    simpa using this
  · right; right
    refine ⟨sM, ?_, h1, h2⟩
    have := congrArg List.reverse hw
    simpa using this

/-- no witness without the taker's valid signature succeeds unless the maker signs and the input's
    sequence commits to at least the CSV in blocks with transaction version ≥ 2 -/
theorem C02_without_taker_needs_csv (c : Crypto) (tx : TxCtx) (maker taker hash : Bytes) (csv : Nat)
    (hc : CsvOperand csv) (hcsvlt : csv < 65536) (w : List Bytes)
    (h : accepts c tx (opening maker taker hash csv) w = true)
    (hnt : ∀ s ∈ w, c.checksig taker s ≠ .valid) :
    ∃ sM, w = [sM] ∧ c.checksig maker sM = .valid ∧ tx.version ≥ 2 ∧ tx.sequence % 65536 ≥ csv := by
  rcases C02_exact c tx maker taker hash csv hc w h with ⟨sT, p, a, b, hw, _, _, _, _, h5⟩ | ⟨sT, sM, a, hw, _, _, h3⟩ | ⟨sM, hw, h1, h2⟩
  · exact absurd h5 (hnt sT (by simp [hw]))
  · exact absurd h3 (hnt sT (by simp [hw]))
  · refine ⟨sM, hw, h1, ?_⟩
    unfold csvOk at h2
    have hd : ¬ (csv / 2147483648 % 2 = 1) := by omega
    simp only [hd, if_false, Bool.and_eq_true, decide_eq_true_eq] at h2
    have : csv % 65536 = csv := Nat.mod_eq_of_lt hcsvlt
    omega

-- non-vacuity: an environment in which all three paths exist
example : CsvOperand 1008 := csv_operands.2.1

end PsVerif.Props.C02


namespace PsVerif.Props.C02
open PsVerif PsVerif.Model.Script

/-- the script bytes determine both keys, the hash and the CSV: two swaps with the same output script
    have the same parameters (used by C01: "the script built from both swap pubkeys, the payment hash and
    the chain's CSV") -/
theorem C02_script_injective (m t h m' t' h' : Bytes) (csv csv' : Nat)
    (hm : m.length = 33) (hm' : m'.length = 33) (ht : t.length = 33) (ht' : t'.length = 33)
    (hh : h.length = 32) (hh' : h'.length = 32) (hc : CsvOperand csv) (hc' : CsvOperand csv')
    (e : scriptBytes m t h csv = scriptBytes m' t' h' csv') : m = m' ∧ t = t' ∧ h = h' ∧ csv = csv' := by
  unfold scriptBytes at e
  simp only [hm, hm', ht, ht', hh, hh', List.append_assoc, List.cons_append, List.nil_append, List.cons.injEq, true_and] at e
  obtain ⟨rfl, e⟩ := List.append_inj e (by simp [hm, hm'])
  simp at e
  obtain ⟨rfl, e⟩ := List.append_inj e (by simp [hh, hh'])
  simp at e
  obtain ⟨rfl, e⟩ := List.append_inj e (by simp [ht, ht'])
  simp at e
  unfold pushNum at e
  have e6 : scriptNum csv = scriptNum csv' := by
    injection e with _ e
  have : some csv = some csv' := by rw [← hc.num, ← hc'.num, e6]
  injection this with this
  exact ⟨rfl, rfl, rfl, this⟩

end PsVerif.Props.C02
