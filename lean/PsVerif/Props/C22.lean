import PsVerif.Proofs.MkCert
/-
C22  Retransmissions stop when the swap moves on.

Model: `resend` flag of Model/AbsMk.lean (set by SendMessageWithRetryAction through AddSender, cleared by
StopSendMessageWithRetryWrapperAction / NoOpDoneAction through RemoveSender, lost at restart) over the
GENERATED maker tables; `Resend` below models the goroutine of messages.RedundantMessenger.
-/
namespace PsVerif.Props.C22
open PsVerif.Gen PsVerif.Model.Abs PsVerif.Model.AbsMk PsVerif.Proofs.MkCert

theorem resend_of_allProps (m : MC F) (h : allProps m = true) : resendOnlyWaiting m = true := by
  unfold allProps at h
  simp only [Bool.and_eq_true] at h
  exact h.1.2

/-- in every history a retransmitter exists only while the swap is in one of the states that wait for
    the taker's reaction (announcement being sent / waiting for the claim payment) -/
theorem C22_only_while_waiting_in : ∀ m, Reach (sysIn benign) m → resendOnlyWaiting m = true :=
  fun m hm => resend_of_allProps m (allProps_in m hm)
theorem C22_only_while_waiting_out : ∀ m, Reach (sysOut benign) m → resendOnlyWaiting m = true :=
  fun m hm => resend_of_allProps m (allProps_out m hm)

/-- never two retransmitters for one swap: the summary of SendMessageWithRetryAction refuses when one is
    active (AddSender returns ErrAlreadyHasASender), so the flag is a faithful count -/
theorem C22_at_most_one (e : Env) (s : St) (f : F) (h : f.resend = true) :
    outcomes0 e [.SendMessageWithRetryAction] f = [(E_ActionFailed, f)]
    ∧ (outcomes e s [.SendMessageWithRetryAction] f).map (·.1) = [E_ActionFailed] := by
  simp [outcomes, outcomes0, h]

/-! ### the retransmission goroutine after `Stop`

`select { case <-ticker.C: send; case <-stop: return }` with a ticker channel of capacity one.
State: whether a tick is buffered, whether `stop` is closed, whether the goroutine has returned.
Schedule steps: `tick` (the ticker fires), `stop`, `run` with the branch the runtime picks.
Real-time assumption (named): after `Stop` no NEW tick becomes ready between two consecutive
evaluations of the select (an evaluation takes microseconds, the interval is 10 s). -/

structure G where
  buffered : Bool
  stopped : Bool
  exited : Bool
  sentAfterStop : Nat
  deriving DecidableEq, Repr

inductive Step where
  | tick | stop | runTick | runStop
  deriving DecidableEq, Repr

def gstep (g : G) : Step → G
  | .tick => if g.stopped then g else { g with buffered := true }     -- real-time assumption
  | .stop => { g with stopped := true }
  | .runTick => if !g.exited && g.buffered then
      { g with buffered := false, sentAfterStop := g.sentAfterStop + (if g.stopped then 1 else 0) } else g
  | .runStop => if !g.exited && g.stopped then { g with exited := true } else g

def grun (g : G) (sched : List Step) : G := sched.foldl gstep g

def Inv (g : G) : Prop :=
  (g.stopped = false ∧ g.sentAfterStop = 0) ∨
  (g.stopped = true ∧ g.sentAfterStop + (if g.buffered then 1 else 0) ≤ 1)

theorem inv_step (g : G) (s : Step) (h : Inv g) : Inv (gstep g s) := by
  obtain ⟨b, st, ex, n⟩ := g
  unfold Inv at *
  cases s <;> cases b <;> cases st <;> cases ex <;> simp [gstep] at h ⊢ <;> omega

theorem inv_run (sched : List Step) (g : G) (h : Inv g) : Inv (grun g sched) := by
  induction sched generalizing g with
  | nil => exact h
  | cons s rest ih =>
    simp only [grun, List.foldl_cons]
    exact ih _ (inv_step g s h)

/-- at most one copy goes out after `Stop`, on every schedule of ticks, the stop and select evaluations -/
theorem C22_after_stop (sched : List Step) :
    (grun ⟨false, false, false, 0⟩ sched).sentAfterStop ≤ 1 := by
  have h := inv_run sched ⟨false, false, false, 0⟩ (Or.inl ⟨rfl, rfl⟩)
  unfold Inv at h
  rcases h with h | h
  · omega
  · have := h.2
    split at this <;> omega

/-- and it is exactly the already-buffered tick: a schedule that sends one copy after the stop exists -/
example : (grun ⟨false, false, false, 0⟩ [.tick, .stop, .runTick, .runStop]).sentAfterStop = 1 := by decide

end PsVerif.Props.C22
