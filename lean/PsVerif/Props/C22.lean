import PsVerif.Proofs.MkCert
/-
C22  Retransmissions stop when the swap moves on.

Model: `resend` flag of Model/AbsMk.lean (set by SendMessageWithRetryAction through AddSender, cleared by
StopSendMessageWithRetryWrapperAction / NoOpDoneAction through RemoveSender, lost at restart) over the
GENERATED maker tables; `Resend` below models the goroutine of messages.RedundantMessenger.
-/
namespace PsVerif.Props.C22
open PsVerif.Gen PsVerif.Model.Abs PsVerif.Model.AbsMk PsVerif.Proofs.MkCert

theorem resend_of_allProps (m : MC F) (h : allProps m = true) : resendOnlyWaiting m = true := by
  unfold allProps at h
  simp only [Bool.and_eq_true] at h
  exact h.1.2

/-- in every history a retransmitter exists only while the swap is in one of the states that wait for
    the taker's reaction (announcement being sent / waiting for the claim payment) -/
theorem C22_only_while_waiting_in : ∀ m, Reach (sysIn benign) m → resendOnlyWaiting m = true :=
  fun m hm => resend_of_allProps m (allProps_in m hm)
theorem C22_only_while_waiting_out : ∀ m, Reach (sysOut benign) m → resendOnlyWaiting m = true :=
  fun m hm => resend_of_allProps m (allProps_out m hm)

/-- never two retransmitters for one swap: the summary of SendMessageWithRetryAction refuses when one is
    active (AddSender returns ErrAlreadyHasASender), so the flag is a faithful count -/
theorem C22_at_most_one (e : Env) (s : St) (f : F) (h : f.resend = true) :
    outcomes0 e [.SendMessageWithRetryAction] f = [(E_ActionFailed, f)]
    ∧ (outcomes e s [.SendMessageWithRetryAction] f).map (·.1) = [E_ActionFailed] := by
  simp [outcomes, outcomes0, h]

/-! ### the retransmission goroutine after `Stop`

`select { case <-ticker.C: (stop closed? return) send; case <-stop: return }` with a ticker channel of
capacity one.  A send takes time (`beginSend` … `endSend`); ticks arrive WHENEVER the ticker fires — also
after `Stop`, also while a send is in flight (the first model assumed "no new tick becomes ready after Stop
between two evaluations of the select": false as soon as a send lasts longer than the interval — a Lightning
node that answers slowly — and the real code then started further copies with probability 1/2 each; found
by a reviewing sub-agent, repaired in /repo: the tick branch looks at `stop` first).  `checkStop = false` is
the code before the repair. -/

structure G where
  buffered : Bool       -- a tick is waiting in the ticker channel
  stopped : Bool
  exited : Bool
  inflight : Bool       -- a send has started and not returned
  startedAfterStop : Nat
  finishedAfterStop : Nat
  deriving DecidableEq, Repr

inductive Step where
  | tick | stop | runTick | runStop | endSend
  deriving DecidableEq, Repr

def gstep (checkStop : Bool) (g : G) : Step → G
  | .tick => { g with buffered := true }                       -- no real-time assumption
  | .stop => { g with stopped := true }
  | .runTick =>                                                -- the select takes the tick branch
      if !g.exited && !g.inflight && g.buffered then
        if checkStop && g.stopped then { g with buffered := false, exited := true }
        else { g with buffered := false, inflight := true,
                      startedAfterStop := g.startedAfterStop + (if g.stopped then 1 else 0) }
      else g
  | .runStop => if !g.exited && !g.inflight && g.stopped then { g with exited := true } else g
  | .endSend => if g.inflight then
      { g with inflight := false, finishedAfterStop := g.finishedAfterStop + (if g.stopped then 1 else 0) } else g

def grun (checkStop : Bool) (g : G) (sched : List Step) : G := sched.foldl (gstep checkStop) g

def g0 : G := ⟨false, false, false, false, 0, 0⟩

def Inv (g : G) : Prop :=
  g.startedAfterStop = 0 ∧
  ((g.stopped = false ∧ g.finishedAfterStop = 0) ∨
   (g.stopped = true ∧ g.finishedAfterStop + (if g.inflight then 1 else 0) ≤ 1))

theorem inv_step (g : G) (s : Step) (h : Inv g) : Inv (gstep true g s) := by
  obtain ⟨b, st, ex, fl, n, m⟩ := g
  unfold Inv at *
  cases s <;> cases b <;> cases st <;> cases ex <;> cases fl <;> simp [gstep] at h ⊢ <;> omega

theorem inv_run (sched : List Step) (g : G) (h : Inv g) : Inv (grun true g sched) := by
  induction sched generalizing g with
  | nil => exact h
  | cons s rest ih =>
    simp only [grun, List.foldl_cons]
    exact ih _ (inv_step g s h)

/-- on EVERY schedule of ticks (at any time, any number), the stop, select evaluations and send completions:
    no copy is started after `Stop`, and at most one — the copy in flight at that moment — completes after it -/
theorem C22_after_stop (sched : List Step) :
    (grun true g0 sched).startedAfterStop = 0 ∧ (grun true g0 sched).finishedAfterStop ≤ 1 := by
  have h := inv_run sched g0 ⟨rfl, Or.inl ⟨rfl, rfl⟩⟩
  unfold Inv at h
  refine ⟨h.1, ?_⟩
  rcases h.2 with h | h
  · omega
  · have := h.2
    split at this <;> omega

/-- the copy in flight does complete after the stop on some schedule (the bound 1 is attained) -/
example : (grun true g0 [.tick, .runTick, .stop, .endSend, .runStop]).finishedAfterStop = 1 := by decide

/-- the code before the repair: with a send that outlasts the interval, copies keep being started after the
    stop (here two; every further `tick, endSend, runTick` adds one) -/
theorem C22_old_select_keeps_sending :
    (grun false g0 [.tick, .runTick, .stop, .tick, .endSend, .runTick, .tick, .endSend, .runTick]).startedAfterStop = 2 := by
  decide

end PsVerif.Props.C22
