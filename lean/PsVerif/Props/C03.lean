import PsVerif.Model.Spend
import PsVerif.Props.C01
import PsVerif.Props.C02
import PsVerif.Gen.Consts
import PsVerif.Gen.Adapters
/-
C03  Claim, coop and CSV-refund transactions the node builds are valid and pay it.

Model: Model/Spend.lean (`findVoutBtc`, `findVoutLq`, `buildBtc`, `buildLq`, `witnessOf`, `bip68Ok`) on top of the
script interpreter of C02 and the validators of C01.
Tie: slice `spend` — the REAL lnd.Client wallet adapter (over fake gRPC clients) and the REAL LiquidOnChain (over a
fake wallet) build the three kinds of spend for generated opening transactions; each Bitcoin result is run through
btcd's script engine with the standard verification flags, each Liquid result is checked by Elements sighash + ECDSA
verification and unblinding; index, sequence, paid value, witness shape and the engine's verdict are compared with
what the model computes (the verdict by the interpreter C02 is proved about).  The CLN adapter has no offline
back-end: Gen/Adapters (go/ast facts) shows it makes the same calls with the same arguments as the LND adapter.
-/
namespace PsVerif.Props.C03
open PsVerif PsVerif.Gen PsVerif.Model.Script PsVerif.Model.OpeningCheck PsVerif.Model.Spend PsVerif.Props.C02

theorem findIdx_spec {α : Type} (p : α → Bool) (l : List α) (i : Nat) (h : l.findIdx? p = some i) :
    ∃ a, l[i]? = some a ∧ p a = true := by
  have h1 := List.findIdx?_eq_some_iff_getElem.mp h
  obtain ⟨hlt, hp, _⟩ := h1
  exact ⟨l[i], by simp [hlt], hp⟩

/-- the spent output is an output of the amount to the wanted script, and it is one the validator accepts the
    transaction for -/
theorem C03_btc_spends_validated {S A : Type} [DecidableEq S] (kind : Kind) (amount : Nat) (want : S)
    (outs : List (BtcOut S)) (csv fee : Nat) (addr : A) (own other pre : Bytes) (tx : SpendTx A)
    (h : buildBtc kind amount want outs csv fee addr own other pre = some tx) :
    (∃ o, outs[tx.prevIndex]? = some o ∧ o.value = wrapI64 (amount : Int) ∧ o.script = want) ∧
    validateBtc amount want outs = true := by
  unfold buildBtc at h
  cases hf : findVoutBtc amount want outs with
  | none => simp [hf] at h
  | some i =>
    simp only [hf] at h
    obtain ⟨o, ho, hp⟩ := findIdx_spec _ _ _ hf
    simp only [ho] at h
    by_cases hfee : wrapI64 (o.value - 200) ≤ wrapI64 (fee : Int)
    · rw [if_pos hfee] at h; cases h
    rw [if_neg hfee] at h
    simp only [Option.some.injEq] at h
    subst h
    simp only [Bool.and_eq_true, beq_iff_eq, decide_eq_true_eq] at hp
    refine ⟨⟨o, ho, hp.1, hp.2⟩, ?_⟩
    exact PsVerif.Props.C01.C01_btc_complete amount want outs ⟨o, List.mem_of_getElem? ho, hp.1, hp.2⟩

/-- shape of the transaction: version 2, one output (to the address the wallet handed out), the value is the swap
    amount minus 200 sat minus the fee (all of it miner fee: there is no other output) and is POSITIVE (the
    hypothesis `fee + 200 ≤ amount` this theorem needed at first marked a defect: a fee that eats the whole output
    gave a transaction with a negative output; repaired in /repo, the builder now refuses), the signature commits
    to the amount of the spent output, the sequence is the CSV exactly for the refund -/
theorem C03_btc_shape {S A : Type} [DecidableEq S] (kind : Kind) (amount : Nat) (want : S)
    (outs : List (BtcOut S)) (csv fee : Nat) (addr : A) (own other pre : Bytes) (tx : SpendTx A)
    (h : buildBtc kind amount want outs csv fee addr own other pre = some tx)
    (ha : amount < 9223372036854775808) (hfb : fee < 9223372036854775808) :
    tx.version = 2 ∧ tx.outputs = [((amount : Int) - 200 - (fee : Int), addr)] ∧ 0 < (amount : Int) - 200 - (fee : Int) ∧
    tx.sighashAmount = (amount : Int) ∧
    tx.sequence = seqOf kind csv ∧ tx.witness = witnessOf kind own other pre := by
  have hv := C03_btc_spends_validated kind amount want outs csv fee addr own other pre tx h
  obtain ⟨⟨o, ho, hval, _⟩, _⟩ := hv
  unfold buildBtc at h
  cases hfi : findVoutBtc amount want outs with
  | none => simp [hfi] at h
  | some i =>
    simp only [hfi] at h
    have hi : tx.prevIndex = i := by
      cases hoi : outs[i]? with
      | none => simp [hoi] at h
      | some o' =>
        simp only [hoi] at h
        split at h
        · cases h
        · simp only [Option.some.injEq] at h; subst h; rfl
    rw [hi] at ho
    simp only [ho] at h
    by_cases hfee : wrapI64 (o.value - 200) ≤ wrapI64 (fee : Int)
    · rw [if_pos hfee] at h; cases h
    rw [if_neg hfee] at h
    simp only [Option.some.injEq] at h
    subst h
    have e1 := PsVerif.Props.C01.C01_btc_amount amount ha
    have w1 : ∀ x : Int, -9223372036854775808 ≤ x → x < 9223372036854775808 → wrapI64 x = x := by
      intro x h1 h2
      unfold wrapI64
      simp only []
      by_cases hx : 0 ≤ x
      · have : x % 18446744073709551616 = x := Int.emod_eq_of_lt hx (by omega)
        rw [this, if_neg (by omega)]
      · have : x % 18446744073709551616 = x + 18446744073709551616 := by
          have := Int.add_emod_right x 18446744073709551616
          rw [← this]; exact Int.emod_eq_of_lt (by omega) (by omega)
        rw [this, if_pos (by omega)]; omega
    have hpos : (fee : Int) < (amount : Int) - 200 := by
      rw [hval, e1, w1 ((amount : Int) - 200) (by omega) (by omega), w1 (fee : Int) (by omega) (by omega)] at hfee
      omega
    refine ⟨rfl, ?_, by omega, e1, ?_, rfl⟩
    · simp only [hval, e1]
      rw [w1 ((amount : Int) - 200) (by omega) (by omega), w1 (fee : Int) (by omega) (by omega),
        w1 ((amount : Int) - 200 - (fee : Int)) (by omega) (by omega)]
    · rfl

/-- the witness the node attaches satisfies the opening script under the interpreter of C02, for each kind, in
    every cryptographic environment in which the node's own signature (and for coop the peer's) verifies, the
    empty element is an invalid signature, and the preimage is the 32-byte preimage of the script's hash -/
theorem C03_witness_accepted (c : Crypto) (maker taker hash : Bytes) (csv : Nat) (hc : CsvOperand csv)
    (hcsv : csv < 65536) (kind : Kind) (own other pre : Bytes)
    (hempty : c.checksig maker [] = .invalid)
    (hown : match kind with
      | .preimage => c.checksig taker own = .valid ∧ pre.length = 32 ∧ c.sha256 pre = hash
      | .csv => c.checksig maker own = .valid
      | .coop => c.checksig maker own = .valid ∧ c.checksig taker other = .valid) :
    accepts c ⟨2, seqOf kind csv⟩ (opening maker taker hash csv) (witnessOf kind own other pre) = true := by
  have W := C02_three_paths_work c ⟨2, seqOf kind csv⟩ maker taker hash csv hc
  rw [accepts_eq]
  cases kind with
  | preimage =>
    obtain ⟨h1, h2, h3⟩ := hown
    exact W.1 [] [] pre own hempty hempty h2 h3 h1
  | coop =>
    obtain ⟨h1, h2⟩ := hown
    exact W.2.1 [] own other hempty h1 h2
  | csv =>
    refine W.2.2 own hown ?_
    unfold csvOk seqOf
    have h1 : csv / 2147483648 = 0 := by omega
    have h2 : csv / 4194304 = 0 := by omega
    simp [h1, h2]

/-- the refund transaction the node builds (version 2, sequence = CSV) can be mined exactly from the block in
    which the opening output is CSV blocks deep (BIP68), not before -/
theorem C03_refund_exactly_after_csv (csv depth : Nat) (hcsv : csv < 65536) :
    bip68Ok 2 csv depth = true ↔ csv ≤ depth := by
  unfold bip68Ok
  have h1 : ¬ (csv / 2147483648 % 2 = 1) := by omega
  have h2 : ¬ (csv / 4194304 % 2 = 1) := by omega
  have h3 : csv % 65536 = csv := Nat.mod_eq_of_lt hcsv
  simp [h1, h2, h3]

/-- and no other transaction spends the output without the taker's signature earlier: whatever witness is
    accepted without a valid taker signature forces a version ≥ 2 input whose sequence makes BIP68 demand a depth
    of at least the CSV -/
theorem C03_no_refund_before_csv (c : Crypto) (tx : TxCtx) (maker taker hash : Bytes) (csv : Nat)
    (hc : CsvOperand csv) (hcsv : csv < 65536) (w : List Bytes)
    (h : accepts c tx (opening maker taker hash csv) w = true)
    (hnt : ∀ s ∈ w, c.checksig taker s ≠ .valid) (hseq : tx.sequence < 4294967296)
    (depth : Nat) (hb : bip68Ok tx.version tx.sequence depth = true)
    (hflags : csvOk tx csv = true) : csv ≤ depth := by
  obtain ⟨sM, _, _, hv, hs⟩ := C02_without_taker_needs_csv c tx maker taker hash csv hc hcsv w h hnt
  unfold csvOk at hflags
  have hd : ¬ (csv / 2147483648 % 2 = 1) := by omega
  simp only [hd, if_false, Bool.and_eq_true, decide_eq_true_eq] at hflags
  unfold bip68Ok at hb
  have hv' : ¬ tx.version < 2 := by omega
  have h1 : ¬ (tx.sequence / 2147483648 % 2 = 1) := by omega
  have h2 : ¬ (tx.sequence / 4194304 % 2 = 1) := by omega
  simp only [hv', h1, h2, if_false, decide_eq_true_eq] at hb
  omega

/-! ### Liquid -/

/-- the spent output is the one `ValidateTx` judges (same search, same checks) -/
theorem C03_lq_spends_validated {S A : Type} [DecidableEq S] (kind : Kind) (amount : Nat) (want : S)
    (outs : List (LqOut S)) (csv fee : Nat) (addr : A) (own other pre : Bytes) (tx : SpendTx (Option A))
    (h : buildLq kind amount want outs csv fee addr own other pre = some tx) :
    (∃ o u, outs[tx.prevIndex]? = some o ∧ o.script = want ∧ o.unblind = some u ∧ u.assetIsPolicy = true ∧ u.value = amount ∧
      fee < amount ∧ fee ≠ 0 ∧
      tx = { version := 2, prevIndex := tx.prevIndex, sequence := seqOf kind csv,
             outputs := [(((wrapU64 (u.value + 18446744073709551616 - fee) : Nat) : Int), some addr), ((fee : Int), none)],
             witness := witnessOf kind own other pre, sighashAmount := (u.value : Int) }) ∧
    validateLq amount want outs = true := by
  unfold buildLq at h
  by_cases hf0 : fee = 0
  · simp [hf0] at h
  · rw [if_neg hf0] at h
    cases hf : findVoutLq want outs with
    | none => simp [hf] at h
    | some i =>
      simp only [hf] at h
      obtain ⟨o, ho, hp⟩ := findIdx_spec _ _ _ hf
      simp only [ho] at h
      cases hu : o.unblind with
      | none => simp [hu] at h
      | some u =>
        simp only [hu] at h
        by_cases hok : lqOutputOk o u amount = false
        · rw [if_pos hok] at h; cases h
        · rw [if_neg hok] at h
          by_cases hfee : fee ≥ u.value
          · rw [if_pos hfee] at h; cases h
          · rw [if_neg hfee] at h
            simp only [Option.some.injEq] at h
            have hok' : lqOutputOk o u amount = true := by simpa using hok
            unfold lqOutputOk at hok'
            simp only [Bool.and_eq_true, beq_iff_eq] at hok'
            have hidx : tx.prevIndex = i := by rw [← h]
            refine ⟨⟨o, u, by rw [hidx]; exact ho, by simpa using hp, hu, hok'.1.1, hok'.2, by omega, hf0, ?_⟩, ?_⟩
            · rw [hidx]; exact h.symm
            · -- the validator looks at the same (first) output with the wanted script
              unfold validateLq
              have hfind : outs.find? (fun o => decide (o.script = want)) = some o := by
                unfold findVoutLq at hf
                obtain ⟨hlt, hpi, hbefore⟩ := List.findIdx?_eq_some_iff_getElem.mp hf
                have hoi : outs[i] = o := by
                  have := List.getElem?_eq_getElem hlt
                  rw [this] at ho; exact Option.some.inj ho
                rw [List.find?_eq_some_iff_getElem]
                refine ⟨by rw [← hoi]; exact hpi, i, hlt, hoi, ?_⟩
                intro j hj
                simpa using hbefore j hj
              simp [hfind, hu, hok'.1.1, hok'.1.2, hok'.2]

/-- two outputs: the unblinded amount minus the fee to the wallet's address, and the explicit fee output; the
    signature commits to the spent output -/
theorem C03_lq_shape {S A : Type} [DecidableEq S] (kind : Kind) (amount : Nat) (want : S)
    (outs : List (LqOut S)) (csv fee : Nat) (addr : A) (own other pre : Bytes) (tx : SpendTx (Option A))
    (h : buildLq kind amount want outs csv fee addr own other pre = some tx) (ha : amount < 18446744073709551616) :
    fee < amount ∧ tx.version = 2 ∧ tx.outputs = [(((amount - fee : Nat) : Int), some addr), ((fee : Int), none)] ∧
    tx.sequence = seqOf kind csv ∧ tx.witness = witnessOf kind own other pre ∧
    tx.sighashAmount = (amount : Int) := by
  obtain ⟨⟨o, u, _, _, _, _, hval, hlt, _, htx⟩, _⟩ := C03_lq_spends_validated kind amount want outs csv fee addr own other pre tx h
  have hw : wrapU64 (amount + 18446744073709551616 - fee) = amount - fee := by
    unfold wrapU64
    have : amount + 18446744073709551616 - fee = (amount - fee) + 18446744073709551616 := by omega
    rw [this, Nat.add_mod_right]
    exact Nat.mod_eq_of_lt (by omega)
  rw [htx]
  refine ⟨hlt, rfl, ?_, ?_, rfl, ?_⟩
  · simp only [hval, hw]
  · rfl
  · simp only [hval]

/-- the CSV values of the node are script operands for which all of the above applies -/
theorem C03_csv_values : ∀ ch ∈ [Gen.Chain.btc, Gen.Chain.lbtc], ∀ v ∈ [6, 7], ∀ p, timelockPolicy ch v = some p →
    CsvOperand p.csv ∧ p.csv < 65536 := by
  intro ch hch v hv p hp
  simp only [List.mem_cons, List.mem_nil_iff, or_false] at hch hv
  rcases hch with rfl | rfl <;> rcases hv with rfl | rfl <;> simp only [timelockPolicy, Option.some.injEq] at hp <;>
    subst hp <;> exact ⟨⟨by decide, by decide⟩, by decide⟩

/-! ### the two Bitcoin wallet adapters (generated go/ast facts) -/

def callsOf (a : String) : List (String × String × List String × List String × Bool) :=
  (adapterCalls.filter (·.adapter == a)).map fun c => (c.method, c.callee, c.args, c.lhs, c.errChecked)

/-- the CLN adapter (not executable offline) makes the same deciding calls with the same arguments, results and
    error checks as the LND adapter (executed by the `spend` / `openmsg` slices and the monitors) -/
theorem C03_cln_same_as_lnd : callsOf "cln" = callsOf "lnd" := by decide

def expectedSpendCalls : List (String × String × List String × List String × Bool) := [
  ("CreatePreimageSpendingTransaction", "GetVoutAndVerify", ["claimParams.OpeningTxHex", "swapParams"], ["_", "vout", "err"], true),
  ("CreatePreimageSpendingTransaction", "PrepareSpendingTransaction", ["swapParams", "claimParams", "ADDR", "vout", "0", "0"], ["tx", "sigHash", "redeemScript", "err"], true),
  ("CreatePreimageSpendingTransaction", "claimParams.Signer.Sign", ["sigHash"], ["sigBytes", "err"], true),
  ("CreatePreimageSpendingTransaction", "MakePreimageFromStr", ["claimParams.Preimage"], ["preimage", "err"], true),
  ("CreatePreimageSpendingTransaction", "GetPreimageWitness", ["sigBytes.Serialize()", "preimage[:]", "redeemScript"], ["tx.TxIn[0].Witness"], false),
  ("CreateCsvSpendingTransaction", "GetVoutAndVerify", ["claimParams.OpeningTxHex", "swapParams"], ["_", "vout", "err"], true),
  ("CreateCsvSpendingTransaction", "PrepareSpendingTransaction", ["swapParams", "claimParams", "ADDR", "vout", "onchain.BitcoinCsv", "0"], ["tx", "sigHash", "redeemScript", "err"], true),
  ("CreateCsvSpendingTransaction", "claimParams.Signer.Sign", ["sigHash"], ["sigBytes", "err"], true),
  ("CreateCsvSpendingTransaction", "GetCsvWitness", ["sigBytes.Serialize()", "redeemScript"], ["tx.TxIn[0].Witness"], false),
  ("CreateCoopSpendingTransaction", "GetRefundFee", [], ["refundFee", "err"], true),
  ("CreateCoopSpendingTransaction", "GetVoutAndVerify", ["claimParams.OpeningTxHex", "swapParams"], ["_", "vout", "err"], true),
  ("CreateCoopSpendingTransaction", "PrepareSpendingTransaction", ["swapParams", "claimParams", "ADDR", "vout", "0", "refundFee"], ["spendingTx", "sigHashBytes", "redeemScript", "err"], true),
  ("CreateCoopSpendingTransaction", "takerSigner.Sign", ["sigHashBytes[:]"], ["takerSig", "err"], true),
  ("CreateCoopSpendingTransaction", "claimParams.Signer.Sign", ["sigHashBytes[:]"], ["makerSig", "err"], true),
  ("CreateCoopSpendingTransaction", "GetCooperativeWitness", ["takerSig.Serialize()", "makerSig.Serialize()", "redeemScript"], ["spendingTx.TxIn[0].Witness"], false)]

/-- what `buildBtc` assumes of the adapters: the index found by GetVoutAndVerify on the opening transaction goes
    into PrepareSpendingTransaction (error checked first), the sequence argument is BitcoinCsv only for the refund,
    the prepared fee only for coop, the witness builder matches the kind with the taker's signature first -/
theorem C03_adapter_calls : (callsOf "lnd").filter (fun c => c.1 != "CreateOpeningTransaction") = expectedSpendCalls := by decide

-- non-vacuity
example : (buildBtc .csv 100000 "w" [⟨100000, "change"⟩, ⟨100000, "w"⟩] 1008 600 "addr" [5] [] []).map (fun t => (t.prevIndex, t.sequence, t.outputs))
    = some (1, 1008, [(99200, "addr")]) := by decide
example : (buildLq .preimage 100000 "w" [⟨"x", none, true, false, false⟩, ⟨"w", some ⟨true, 100000⟩, true, false, true⟩] 60 500 "addr" [5] [] []).map
    (fun t => (t.prevIndex, t.sequence, t.outputs)) = some (1, 0, [(99500, some "addr"), (500, none)]) := by decide

end PsVerif.Props.C03
