import PsVerif.Model.Route
/-
C24  Swap payments are a single HTLC over the swap channel to the swap peer.

Model: `clnRoute` (clightning.buildDirectClaimRoute), `lndRequest`
(lnd.buildDirectClaimPaymentRequest), `clnStyle`/`lndStyle` (lightning.Scid).
Tie: differential slice `route` (real builders vs. these definitions).
-/
namespace PsVerif.Props.C24
open PsVerif PsVerif.Model

/-- CLN: whenever a route is built it is exactly one hop, to the invoice's payee, over the given
    channel in `x` spelling, for the invoice's exact amount, direction 0. -/
theorem C24_cln_single_hop (payee : String) (amt : Nat) (cltv : Int) (scid : String) (limit : Nat)
    (r : List ClnHop) (h : clnRoute payee amt cltv scid limit = .ok r) :
    r = [⟨payee, clnStyle scid, amt, clnDelay cltv, 0⟩] := by
  unfold clnRoute at h
  repeat' (split at h)
  all_goals first
    | (cases h; done)
    | (injection h with h; exact h.symm)

theorem map_colon_x (l : List Char) :
    (l.map fun c => if c = 'x' then ':' else c).map (fun c => if c = ':' then 'x' else c)
      = l.map (fun c => if c = ':' then 'x' else c) := by
  induction l with
  | nil => rfl
  | cons c cs ih =>
    simp only [List.map_cons, List.map_map] at ih ⊢
    congr 1
    by_cases h : c = 'x'
    · subst h; decide
    · simp [h]

/-- either spelling of the channel id yields the same `x`-separated id -/
theorem C24_cln_spelling (s : String) : clnStyle (lndStyle s) = clnStyle s := by
  unfold clnStyle lndStyle
  simp only [String.toList_ofList]
  rw [map_colon_x]

/-- the channel id put into the route never contains `:` -/
theorem C24_cln_no_colon (s : String) : ':' ∉ (clnStyle s).toList := by
  unfold clnStyle
  simp only [String.toList_ofList, List.mem_map, not_exists, not_and]
  intro c _ h
  by_cases hc : c = ':'
  · simp [hc] at h
  · simp [hc] at h

/-- LND: a request is refused when the invoice's destination is not the channel's peer -/
theorem C24_lnd_refuses_other_destination (payreq dest remote : String) (chanId : Nat) (cltv : Int)
    (pad limit : Nat) (h : dest ≠ remote) :
    lndRequest payreq dest remote chanId cltv pad limit = .error .destMismatch := by
  unfold lndRequest; simp [h]

/-- LND: whenever a request is built it pays that very payment request (no amount override), with one
    part, restricted to the swap channel, and the destination is the channel's peer -/
theorem C24_lnd_single_htlc (payreq dest remote : String) (chanId : Nat) (cltv : Int)
    (pad limit : Nat) (q : LndReq)
    (h : lndRequest payreq dest remote chanId cltv pad limit = .ok q) :
    dest = remote ∧ q.paymentRequest = payreq ∧ q.outgoingChanIds = [chanId] ∧ q.maxParts = 1
      ∧ q.amt = 0 ∧ q.amtMsat = 0 := by
  unfold lndRequest at h
  repeat' (split at h)
  all_goals first
    | (cases h; done)
    | (injection h with h; subst h; simp_all)

-- non-vacuity: both builders do produce payments
example : (clnRoute "02aa" 1000 29 "1:2:3" 32).toOption.isSome = true := by decide
example : (lndRequest "lnbc1" "02aa" "02aa" 7 29 3 32).toOption.isSome = true := by decide

end PsVerif.Props.C24
