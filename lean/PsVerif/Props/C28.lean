import PsVerif.Model.PeerSync
/-
C28  Peer-sync keeps an accurate, persistent view of peers.

Model: Model/PeerSync.lean — the bbolt peer table as a key-ordered list, the record round trip (`reload`:
an all-zero capability is stored as "no capability"), `storeCapabilityMessage`/`MergeCapabilities`, the poll
round (`pollPeers`: known peers, stale → request_poll, `requestUnknownConnectedPeers` with `allowRequest`
and `pruneRequestTimes`), `cleanupExpired`, `HasCompatiblePeer`, restart (request table lost).
Tie: slice `peersync`: operation sequences (poll / request_poll with well-formed, all-zero and malformed
payloads, poll rounds with send and ListPeers failures, cleanups, connects/disconnects, clock advances to
both sides of every threshold, restarts) on the REAL PeerSync over a real bbolt store under a virtual clock,
compared after every operation (messages sent) and at dumps (every record, every request time).

"At most once per request interval" is proved for a peer that stays connected: a peer seen disconnected
at a poll round loses its request time (poller.go: "so a peer that reconnects is requested again
immediately") and a restart loses the whole table; both are in the model and shown as examples.
-/
namespace PsVerif.Props.C28
open PsVerif.Model.PeerSync

/-! ## the stored capability: latest poll unless it advertises a lower version -/

theorem C28_latest_unless_lower (old : Option Cap) (c : Cap) :
    merge old c = c ∨ ∃ l, old = some l ∧ c.version < l.version ∧ merge old c = l := by
  unfold merge
  cases old with
  | none => exact Or.inl rfl
  | some l =>
    by_cases h : c.version < l.version
    · exact Or.inr ⟨l, rfl, h, by simp [h]⟩
    · exact Or.inl (by simp [h])

theorem rev_induction {α : Type} {P : List α → Prop} (nil : P []) (snoc : ∀ l a, P l → P (l ++ [a])) :
    ∀ l, P l := by
  intro l
  rw [← List.reverse_reverse l]
  induction l.reverse with
  | nil => exact nil
  | cons a t ih => rw [List.reverse_cons]; exact snoc _ _ ih

/-- the capability stored after a history of polls -/
def mergeAll (init : Option Cap) (h : List Cap) : Option Cap := h.foldl (fun acc c => some (merge acc c)) init

/-- over any non-empty history of accepted polls the stored capability is one of them, has the highest
    version seen, and every poll received after it advertised a strictly lower version -/
theorem C28_merge_history (h : List Cap) (hne : h ≠ []) :
    ∃ s pre post, mergeAll none h = some s ∧ h = pre ++ s :: post ∧
      (∀ c ∈ h, c.version ≤ s.version) ∧ (∀ c ∈ post, c.version < s.version) := by
  revert hne
  refine rev_induction (P := fun h => h ≠ [] → ∃ s pre post, mergeAll none h = some s ∧ h = pre ++ s :: post ∧
      (∀ c ∈ h, c.version ≤ s.version) ∧ (∀ c ∈ post, c.version < s.version)) ?_ ?_ h
  · intro hne; exact absurd rfl hne
  · intro h' c ih _
    by_cases hh : h' = []
    · subst hh
      exact ⟨c, [], [], rfl, rfl, by simp, by simp⟩
    · obtain ⟨s, pre, post, h1, h2, h3, h4⟩ := ih hh
      have hm : mergeAll none (h' ++ [c]) = some (merge (some s) c) := by
        unfold mergeAll at *
        rw [List.foldl_append, h1]; rfl
      by_cases hv : c.version < s.version
      · refine ⟨s, pre, post ++ [c], ?_, ?_, ?_, ?_⟩
        · rw [hm]; simp [merge, hv]
        · rw [h2]; simp
        · intro x hx
          rcases List.mem_append.mp hx with hx | hx
          · exact h3 x hx
          · simp at hx; subst hx; omega
        · intro x hx
          rcases List.mem_append.mp hx with hx | hx
          · exact h4 x hx
          · simp at hx; subst hx; exact hv
      · refine ⟨c, h', [], ?_, rfl, ?_, by simp⟩
        · rw [hm]; simp [merge, hv]
        · intro x hx
          rcases List.mem_append.mp hx with hx | hx
          · have := h3 x hx; omega
          · simp at hx; subst hx; omega

theorem lookup_put_same (ps : List (String × PeerRec)) (k : String) (r : PeerRec) : lookup (put ps k r) k = some r := by
  induction ps with
  | nil => simp [put, lookup]
  | cons e rest ih =>
    obtain ⟨k', r'⟩ := e
    unfold put
    by_cases h1 : k = k'
    · simp [h1, lookup]
    · simp only [h1, if_false]
      by_cases h2 : k < k'
      · simp [h2, lookup]
      · simp only [h2, if_false]
        unfold lookup at *
        have : (k' == k) = false := by simp; exact fun h => h1 h.symm
        simp only [List.find?_cons, this]
        exact ih

theorem lookup_put_other (ps : List (String × PeerRec)) (k k2 : String) (r : PeerRec) (hne : k2 ≠ k) :
    lookup (put ps k r) k2 = lookup ps k2 := by
  induction ps with
  | nil =>
    have : (k == k2) = false := by simp; exact fun h => hne h.symm
    simp [put, lookup, this]
  | cons e rest ih =>
    obtain ⟨k', r'⟩ := e
    have hk : (k == k2) = false := by simp; exact fun h => hne h.symm
    unfold put
    by_cases h1 : k = k'
    · subst h1
      simp [lookup, List.find?_cons, hk]
    · simp only [h1, if_false]
      by_cases h2 : k < k'
      · simp [h2, lookup, List.find?_cons, hk]
      · simp only [h2, if_false]
        unfold lookup at *
        simp only [List.find?_cons]
        cases (k' == k2)
        · exact ih
        · rfl

/-- a poll (or request_poll) with a well-formed payload from a peer that is not suspicious: the stored
    record carries the merge of the stored and the received capability, is marked observed now, and no
    other peer's record changes -/
theorem C28_store_poll (s : St) (src : String) (c : Cap) (hs : s.suspicious.contains src = false) :
    lookup (storeCap s src c).peers src =
      some (reload { ((lookup s.peers src).getD newPeer) with
        cap := some (merge ((lookup s.peers src).getD newPeer).cap c), lastObs := some s.now, status := .active })
    ∧ ∀ k, k ≠ src → lookup (storeCap s src c).peers k = lookup s.peers k := by
  unfold storeCap
  simp only [hs, Bool.false_eq_true, if_false]
  exact ⟨lookup_put_same _ _ _, fun k hk => lookup_put_other _ _ _ _ hk⟩

/-- suspicious peers and malformed payloads never change the table -/
theorem C28_store_ignored (s : St) (t : MsgType) (src : String) :
    (recv s t src none).1 = s ∧ (∀ c, s.suspicious.contains src = true → (recv s t src (some c)).1 = s) := by
  constructor
  · cases t <;> simp [recv]
    split <;> rfl
  · intro c hs
    have hs' : src ∈ s.suspicious := by simpa using hs
    cases t <;> simp [recv, storeCap, hs']

/-! ## stored records reload unchanged -/

theorem C28_reload_idempotent (r : PeerRec) : reload (reload r) = reload r := by
  unfold reload
  cases hc : r.cap with
  | none => simp
  | some c => by_cases h : c.hasData = true <;> simp [h]

/-- a record reloads to itself unless its capability is the all-zero capability, which the record format
    cannot tell from "no capability" … -/
theorem C28_reload_identity (r : PeerRec) (h : ∀ c, r.cap = some c → c.hasData = true) : reload r = r := by
  unfold reload
  cases hc : r.cap with
  | none => cases r; simp_all
  | some c => cases r; simp_all

/-- … and that difference is invisible to every query: the peer is compatible with a non-zero protocol
    version before the reload iff after, and all its rates read 0 either way -/
def capCompatible (v : Nat) (c : Option Cap) : Bool := match c with | some c => c.version == v | none => false
def capRate (c : Option Cap) (i : Nat) : Int := match c with | some c => c.rates.getD i 0 | none => 0

theorem C28_reload_unobservable (r : PeerRec) (v : Nat) (hv : v ≠ 0) (i : Nat) :
    capCompatible v (reload r).cap = capCompatible v r.cap ∧ capRate (reload r).cap i = capRate r.cap i := by
  unfold reload capCompatible capRate
  cases hc : r.cap with
  | none => simp
  | some c =>
    by_cases h : c.hasData = true
    · simp [h]
    · simp only [h, Bool.false_eq_true, if_false]
      unfold Cap.hasData at h
      simp only [Bool.or_eq_true, not_or, Bool.not_eq_true, bne_eq_false_iff_eq, List.any_eq_false, bne_iff_ne, ne_eq,
        Decidable.not_not] at h
      obtain ⟨⟨⟨h1, _⟩, _⟩, h4⟩ := h
      constructor
      · simp [h1]; exact fun h => hv h.symm
      · by_cases hi : i < c.rates.length
        · have := h4 (c.rates[i]) (List.getElem_mem hi)
          simp [List.getD, hi, this]
        · simp [List.getD, hi]

/-! ## cleanup -/

/-- what a cleanup sweep leaves: a record stays iff its peer is connected or not expired; connected peers'
    records are untouched, the others are rewritten as they reload -/
theorem C28_cleanup_spec (cfg : Cfg) (s : St) (k : String) (r : PeerRec) :
    (k, r) ∈ (cleanup cfg s false).peers ↔
      ∃ r0, (k, r0) ∈ s.peers ∧ (s.connected.contains k = true ∨ isExpired cfg s.now r0 = false) ∧
        r = (if s.connected.contains k then r0 else reload r0) := by
  unfold cleanup
  simp only [Bool.false_eq_true, if_false, List.mem_map, List.mem_filter, Bool.or_eq_true, Bool.not_eq_true']
  constructor
  · rintro ⟨⟨k0, r0⟩, ⟨hm, hc⟩, he⟩
    by_cases hk : s.connected.contains k0 = true
    · simp only [hk, if_true] at he
      injection he with h1 h2
      subst h1; subst h2
      exact ⟨r0, hm, hc, by rw [if_pos hk]⟩
    · simp only [hk, Bool.false_eq_true, if_false] at he
      injection he with h1 h2
      subst h1; subst h2
      exact ⟨r0, hm, hc, by rw [if_neg hk]⟩
  · rintro ⟨r0, hm, hc, hr⟩
    refine ⟨(k, r0), ⟨hm, hc⟩, ?_⟩
    by_cases hk : s.connected.contains k = true
    · simp only [hk, if_true] at hr ⊢; rw [hr]
    · simp only [hk, Bool.false_eq_true, if_false] at hr ⊢; rw [hr]

/-- expired peers are removed only while disconnected: a connected peer's record always survives … -/
theorem C28_cleanup_keeps_connected (cfg : Cfg) (s : St) (k : String) (r : PeerRec) (lf : Bool)
    (hm : (k, r) ∈ s.peers) (hc : s.connected.contains k = true) : (k, r) ∈ (cleanup cfg s lf).peers := by
  cases lf
  · exact (C28_cleanup_spec cfg s k r).mpr ⟨r, hm, Or.inl hc, by rw [if_pos hc]⟩
  · simpa [cleanup] using hm

/-- … and whatever a sweep removes was expired and not connected (and nothing is removed when the list of
    connected peers cannot be obtained) -/
theorem C28_cleanup_removes_only_expired (cfg : Cfg) (s : St) (k : String) (r0 : PeerRec) (lf : Bool)
    (hm : (k, r0) ∈ s.peers) (hgone : ∀ r, (k, r) ∉ (cleanup cfg s lf).peers) :
    lf = false ∧ s.connected.contains k = false ∧ isExpired cfg s.now r0 = true := by
  cases lf
  · refine ⟨rfl, ?_, ?_⟩
    · cases hc : s.connected.contains k
      · rfl
      · exact absurd ((C28_cleanup_spec cfg s k r0).mpr ⟨r0, hm, Or.inl hc, by rw [if_pos hc]⟩) (hgone r0)
    · cases he : isExpired cfg s.now r0
      · exact absurd ((C28_cleanup_spec cfg s k _).mpr ⟨r0, hm, Or.inr he, rfl⟩) (hgone _)
      · rfl
  · exact absurd (by simpa [cleanup] using hm) (hgone r0)

/-- an expired, disconnected peer is removed by the sweep (keys are unique in the table) -/
theorem C28_cleanup_removes_expired (cfg : Cfg) (s : St) (k : String)
    (hexp : ∀ r0, (k, r0) ∈ s.peers → isExpired cfg s.now r0 = true) (hc : s.connected.contains k = false) :
    ∀ r, (k, r) ∉ (cleanup cfg s false).peers := by
  intro r hr
  obtain ⟨r0, hm, h2, _⟩ := (C28_cleanup_spec cfg s k r).mp hr
  rcases h2 with h | h
  · rw [hc] at h; cases h
  · rw [hexp r0 hm] at h; cases h

/-! ## requests to unknown connected peers -/

def reqTime (lr : List (String × Nat)) (k : String) : Option Nat := (lr.find? (·.1 == k)).map (·.2)

theorem allowRequest_eq (cfg : Cfg) (lr : List (String × Nat)) (now : Nat) (force : Bool) (k : String) :
    allowRequest cfg lr now force k =
      match reqTime lr k with
      | some t => force || !(decide (now - t < cfg.requestInterval))
      | none => true := by
  unfold allowRequest reqTime
  cases h : lr.find? (·.1 == k) with
  | none => rfl
  | some e => obtain ⟨a, t⟩ := e; rfl

theorem find?_congr' {α : Type} (p q : α → Bool) (l : List α) (h : ∀ x ∈ l, p x = q x) : l.find? p = l.find? q := by
  induction l with
  | nil => rfl
  | cons a r ih =>
    simp only [List.find?_cons, h a List.mem_cons_self]
    rw [ih (fun x hx => h x (List.mem_cons_of_mem _ hx))]

theorem mem_dedup (l : List String) (k : String) : k ∈ dedup l ↔ k ∈ l := by
  induction l with
  | nil => simp [dedup]
  | cons a r ih =>
    unfold dedup
    by_cases h : r.contains a = true
    · rw [if_pos h, ih]
      have : a ∈ r := by simpa using h
      constructor
      · exact fun hh => List.mem_cons_of_mem _ hh
      · intro hh; rcases List.mem_cons.mp hh with rfl | hh
        · exact this
        · exact hh
    · rw [if_neg h]; simp [ih]

theorem nodup_dedup (l : List String) : (dedup l).Nodup := by
  induction l with
  | nil => simp [dedup]
  | cons a r ih =>
    unfold dedup
    by_cases h : r.contains a = true
    · rw [if_pos h]; exact ih
    · rw [if_neg h]
      refine List.nodup_cons.mpr ⟨?_, ih⟩
      rw [mem_dedup]
      simpa using h

theorem reqTime_filter (lr : List (String × Nat)) (q : String → Bool) (k : String) (hq : q k = true) :
    reqTime (lr.filter fun e => q e.1) k = reqTime lr k := by
  unfold reqTime
  rw [List.find?_filter]
  congr 1
  apply find?_congr'
  intro x _
  by_cases hx : x.1 = k
  · simp [hx, hq]
  · simp [hx]

theorem reqTime_setReq_same (lr : List (String × Nat)) (k : String) (t : Nat) : reqTime (setReq lr k t) k = some t := by
  simp [reqTime, setReq]

theorem reqTime_setReq_other (lr : List (String × Nat)) (k k' : String) (t : Nat) (h : k ≠ k') :
    reqTime (setReq lr k' t) k = reqTime lr k := by
  unfold setReq
  have h1 : reqTime ((k', t) :: lr.filter (fun e => e.1 != k')) k = reqTime (lr.filter (fun e => e.1 != k')) k := by
    unfold reqTime
    have : (k' == k) = false := by simp; exact fun hh => h hh.symm
    simp [List.find?_cons, this]
  rw [h1]
  exact reqTime_filter lr (fun x => x != k') k (by simp [h])

/-- a request goes only to a connected peer that is neither known nor suspicious and that the rate limiter
    admits on the table as it stood at the start of the round -/
theorem requestUnknown_sent (cfg : Cfg) (now : Nat) (force : Bool) (known susp fails : List String)
    (lr : List (String × Nat)) (conn : List String) (k : String) (hn : conn.Nodup)
    (h : (k, MsgType.requestPoll) ∈ (requestUnknown cfg now force known susp fails lr conn).2) :
    k ∈ conn ∧ known.contains k = false ∧ susp.contains k = false ∧ allowRequest cfg lr now force k = true := by
  induction conn generalizing lr with
  | nil => simp [requestUnknown] at h
  | cons k0 rest ih =>
    have hn' := (List.nodup_cons.mp hn).2
    have hk0 := (List.nodup_cons.mp hn).1
    unfold requestUnknown at h
    by_cases c1 : (known.contains k0 || susp.contains k0) = true
    · rw [if_pos c1] at h
      obtain ⟨a, b, c, d⟩ := ih lr hn' h
      exact ⟨List.mem_cons_of_mem _ a, b, c, d⟩
    · rw [if_neg c1] at h
      by_cases c2 : allowRequest cfg lr now force k0 = true
      · rw [if_pos c2] at h
        simp only at h
        rcases List.mem_append.mp h with h | h
        · have : k = k0 := by
            by_cases hf : fails.contains k0 = true
            · rw [if_pos hf] at h; cases h
            · rw [if_neg hf] at h; simp at h; exact h
          subst this
          simp only [Bool.or_eq_true, not_or, Bool.not_eq_true] at c1
          exact ⟨List.mem_cons_self, c1.1, c1.2, c2⟩
        · obtain ⟨a, b, c, d⟩ := ih _ hn' h
          have hne : k ≠ k0 := fun hh => hk0 (hh ▸ a)
          rw [allowRequest_eq, reqTime_setReq_other _ _ _ _ hne, ← allowRequest_eq] at d
          exact ⟨List.mem_cons_of_mem _ a, b, c, d⟩
      · rw [if_neg c2] at h
        obtain ⟨a, b, c, d⟩ := ih lr hn' h
        exact ⟨List.mem_cons_of_mem _ a, b, c, d⟩

theorem pollKnown_sent_keys (cfg : Cfg) (s : St) (force : Bool) (fails : List String)
    (ps : List (String × PeerRec)) (k : String) (t : MsgType)
    (h : (k, t) ∈ (pollKnown cfg s force fails ps).2) : k ∈ ps.map (·.1) := by
  induction ps with
  | nil => simp [pollKnown] at h
  | cons e rest ih =>
    obtain ⟨k0, r0⟩ := e
    unfold pollKnown at h
    simp only at h
    split at h
    · exact List.mem_cons_of_mem _ (ih h)
    · split at h
      · exact List.mem_cons_of_mem _ (ih h)
      · split at h
        · exact List.mem_cons_of_mem _ (ih h)
        · rcases List.mem_cons.mp h with h | h
          · injection h with h1 _; subst h1; exact List.mem_cons_self
          · exact List.mem_cons_of_mem _ (ih h)

/-- **request rate**: in a poll round that is not forced, a request goes to an unknown peer only if it is
    connected, not suspicious, and either holds no request time (never asked since it was last seen
    disconnected or since the process started) or was last asked at least one request interval ago -/
theorem C28_request_rate (cfg : Cfg) (s : St) (fails : List String) (lf : Bool) (k : String)
    (hunk : k ∉ s.peers.map (·.1))
    (h : (k, MsgType.requestPoll) ∈ (round cfg s false fails lf).2) :
    k ∈ s.connected ∧ s.suspicious.contains k = false ∧
      (reqTime s.lastReq k = none ∨ ∃ t, reqTime s.lastReq k = some t ∧ cfg.requestInterval ≤ s.now - t) := by
  unfold round at h
  cases lf with
  | true =>
    simp only [if_true] at h
    exact absurd (pollKnown_sent_keys _ _ _ _ _ _ _ h) hunk
  | false =>
    simp only [Bool.false_eq_true, if_false] at h
    rcases List.mem_append.mp h with h | h
    · exact absurd (pollKnown_sent_keys _ _ _ _ _ _ _ h) hunk
    · obtain ⟨a, _, c, d⟩ := requestUnknown_sent _ _ _ _ _ _ _ _ _ (nodup_dedup _) h
      have hc : k ∈ s.connected := (mem_dedup _ _).mp a
      refine ⟨hc, c, ?_⟩
      rw [allowRequest_eq, reqTime_filter s.lastReq (fun x => s.connected.contains x) k (by simpa using hc)] at d
      cases hr : reqTime s.lastReq k with
      | none => exact Or.inl rfl
      | some t =>
        rw [hr] at d
        simp only [Bool.false_or, Bool.not_eq_true', decide_eq_false_iff_not, Nat.not_lt] at d
        exact Or.inr ⟨t, rfl, d⟩

/-! ## compatibility -/

/-- a peer counts as peerswap-compatible exactly when its stored capability carries this node's version -/
theorem C28_compatible_iff (cfg : Cfg) (s : St) (k : String) :
    compatible cfg s k = true ↔ ∃ r c, lookup s.peers k = some r ∧ r.cap = some c ∧ c.version = cfg.ourVersion := by
  unfold compatible
  cases h1 : lookup s.peers k with
  | none => simp
  | some r =>
    cases h2 : r.cap with
    | none => simp [h2]
    | some c => simp [h2]

/-- the attempt is recorded: after the round the peer's request time is the round's time -/
theorem requestUnknown_records (cfg : Cfg) (now : Nat) (force : Bool) (known susp fails : List String)
    (lr : List (String × Nat)) (conn : List String) (k : String) (hn : conn.Nodup) (hk : k ∈ conn)
    (h1 : known.contains k = false) (h2 : susp.contains k = false) (h3 : allowRequest cfg lr now force k = true) :
    reqTime (requestUnknown cfg now force known susp fails lr conn).1 k = some now := by
  induction conn generalizing lr with
  | nil => cases hk
  | cons k0 rest ih =>
    have hn' := (List.nodup_cons.mp hn).2
    have hk0 := (List.nodup_cons.mp hn).1
    unfold requestUnknown
    by_cases hkk : k = k0
    · subst hkk
      have c1 : ¬(known.contains k || susp.contains k) = true := by rw [h1, h2]; decide
      rw [if_neg c1, if_pos h3]
      simp only
      -- later entries are other peers
      have : ∀ (lr' : List (String × Nat)) (l : List String), k ∉ l → reqTime lr' k = some now →
          reqTime (requestUnknown cfg now force known susp fails lr' l).1 k = some now := by
        intro lr' l
        induction l generalizing lr' with
        | nil => intro _ h; simpa [requestUnknown] using h
        | cons a r ihr =>
          intro hnot h
          have ha : k ≠ a := fun hh => hnot (hh ▸ List.mem_cons_self)
          have hr : k ∉ r := fun hh => hnot (List.mem_cons_of_mem _ hh)
          unfold requestUnknown
          split
          · exact ihr lr' hr h
          · split
            · simp only
              exact ihr _ hr (by rw [reqTime_setReq_other _ _ _ _ ha]; exact h)
            · exact ihr lr' hr h
      exact this _ rest hk0 (reqTime_setReq_same _ _ _)
    · have hk' : k ∈ rest := by
        rcases List.mem_cons.mp hk with h | h
        · exact absurd h hkk
        · exact h
      by_cases c1 : (known.contains k0 || susp.contains k0) = true
      · rw [if_pos c1]; exact ih lr hn' hk' h3
      · rw [if_neg c1]
        by_cases c2 : allowRequest cfg lr now force k0 = true
        · rw [if_pos c2]
          simp only
          apply ih _ hn' hk'
          rw [allowRequest_eq, reqTime_setReq_other _ _ _ _ hkk, ← allowRequest_eq]
          exact h3
        · rw [if_neg c2]; exact ih lr hn' hk' h3

-- non-vacuity and the shape of the rule, on the real intervals (10 s poll, 30 min timeout, 10 min request)
def cfg0 : Cfg := ⟨10000, 1800000, 600000, 7⟩
def s0 : St := ⟨[], [], 1000000, ["02aa"], []⟩
/-- an unknown connected peer is asked in the first round, not again 9 min 59 s later, again after 10 min -/
example : (round cfg0 s0 false [] false).2 = [("02aa", .requestPoll)] := by decide
example : (round cfg0 { (round cfg0 s0 false [] false).1 with now := 1000000 + 599000 } false [] false).2 = [] := by decide
example : (round cfg0 { (round cfg0 s0 false [] false).1 with now := 1000000 + 600000 } false [] false).2
    = [("02aa", .requestPoll)] := by decide
/-- a forced round asks regardless; a peer seen disconnected at a round loses its request time (by design:
    "a peer that reconnects is requested again immediately") -/
example : (round cfg0 { (round cfg0 s0 false [] false).1 with now := 1000000 + 1000 } true [] false).2
    = [("02aa", .requestPoll)] := by decide
example : (round cfg0 { (round cfg0 { (round cfg0 s0 false [] false).1 with connected := [], now := 1010000 } false [] false).1
    with connected := ["02aa"], now := 1020000 } false [] false).2 = [("02aa", .requestPoll)] := by decide
example : mergeAll none [⟨7, [], true, [0,0,0,0]⟩, ⟨6, [.btc], true, [0,0,0,0]⟩, ⟨7, [.lbtc], false, [1,0,0,0]⟩, ⟨5, [], true, [0,0,0,0]⟩]
    = some ⟨7, [.lbtc], false, [1,0,0,0]⟩ := by decide

end PsVerif.Props.C28
