import PsVerif.Model.PeerSync
/-
C28  Peer-sync keeps an accurate, persistent view of peers.

Model: Model/PeerSync.lean — the bbolt peer table as a key-ordered list, the record round trip (`reload`:
an all-zero capability is stored as "no capability"), `storeCapabilityMessage`/`MergeCapabilities`, the poll
round (`pollPeers`: known peers, stale → request_poll, `requestUnknownConnectedPeers` with `allowRequest`
and `pruneRequestTimes`), `cleanupExpired`, `HasCompatiblePeer`, restart (request table lost).
Tie: slice `peersync`: operation sequences (poll / request_poll with well-formed, all-zero and malformed
payloads, poll rounds with send and ListPeers failures, cleanups, connects/disconnects, clock advances to
both sides of every threshold, restarts) on the REAL PeerSync over a real bbolt store under a virtual clock,
compared after every operation (messages sent) and at dumps (every record, every request time).

"At most once per request interval" is proved for a peer that stays connected: a peer seen disconnected
at a poll round loses its request time (poller.go: "so a peer that reconnects is requested again
immediately") and a restart loses the whole table; both are in the model and shown as examples.
-/
namespace PsVerif.Props.C28
open PsVerif.Model.PeerSync

/-! ## the stored capability: latest poll unless it advertises a lower version -/

theorem C28_latest_unless_lower (old : Option Cap) (c : Cap) :
    merge old c = c ∨ ∃ l, old = some l ∧ c.version < l.version ∧ merge old c = l := by
  unfold merge
  cases old with
  | none => exact Or.inl rfl
  | some l =>
    by_cases h : c.version < l.version
    · exact Or.inr ⟨l, rfl, h, by simp [h]⟩
    · exact Or.inl (by simp [h])

theorem rev_induction {α : Type} {P : List α → Prop} (nil : P []) (snoc : ∀ l a, P l → P (l ++ [a])) :
    ∀ l, P l := by
  intro l
  rw [← List.reverse_reverse l]
  induction l.reverse with
  | nil => exact nil
  | cons a t ih => rw [List.reverse_cons]; exact snoc _ _ ih

/-- the capability stored after a history of polls -/
def mergeAll (init : Option Cap) (h : List Cap) : Option Cap := h.foldl (fun acc c => some (merge acc c)) init

/-- over any non-empty history of accepted polls the stored capability is one of them, has the highest
    version seen, and every poll received after it advertised a strictly lower version -/
theorem C28_merge_history (h : List Cap) (hne : h ≠ []) :
    ∃ s pre post, mergeAll none h = some s ∧ h = pre ++ s :: post ∧
      (∀ c ∈ h, c.version ≤ s.version) ∧ (∀ c ∈ post, c.version < s.version) := by
  revert hne
  refine rev_induction (P := fun h => h ≠ [] → ∃ s pre post, mergeAll none h = some s ∧ h = pre ++ s :: post ∧
      (∀ c ∈ h, c.version ≤ s.version) ∧ (∀ c ∈ post, c.version < s.version)) ?_ ?_ h
  · intro hne; exact absurd rfl hne
  · intro h' c ih _
    by_cases hh : h' = []
    · subst hh
      exact ⟨c, [], [], rfl, rfl, by simp, by simp⟩
    · obtain ⟨s, pre, post, h1, h2, h3, h4⟩ := ih hh
      have hm : mergeAll none (h' ++ [c]) = some (merge (some s) c) := by
        unfold mergeAll at *
        rw [List.foldl_append, h1]; rfl
      by_cases hv : c.version < s.version
      · refine ⟨s, pre, post ++ [c], ?_, ?_, ?_, ?_⟩
        · rw [hm]; simp [merge, hv]
        · rw [h2]; simp
        · intro x hx
          rcases List.mem_append.mp hx with hx | hx
          · exact h3 x hx
          · simp at hx; subst hx; omega
        · intro x hx
          rcases List.mem_append.mp hx with hx | hx
          · exact h4 x hx
          · simp at hx; subst hx; exact hv
      · refine ⟨c, h', [], ?_, rfl, ?_, by simp⟩
        · rw [hm]; simp [merge, hv]
        · intro x hx
          rcases List.mem_append.mp hx with hx | hx
          · have := h3 x hx; omega
          · simp at hx; subst hx; omega

theorem lookup_put_same (ps : List (String × PeerRec)) (k : String) (r : PeerRec) : lookup (put ps k r) k = some r := by
  induction ps with
  | nil => simp [put, lookup]
  | cons e rest ih =>
    obtain ⟨k', r'⟩ := e
    unfold put
    by_cases h1 : k = k'
    · simp [h1, lookup]
    · simp only [h1, if_false]
      by_cases h2 : k < k'
      · simp [h2, lookup]
      · simp only [h2, if_false]
        unfold lookup at *
        have : (k' == k) = false := by simp; exact fun h => h1 h.symm
        simp only [List.find?_cons, this]
        exact ih

theorem lookup_put_other (ps : List (String × PeerRec)) (k k2 : String) (r : PeerRec) (hne : k2 ≠ k) :
    lookup (put ps k r) k2 = lookup ps k2 := by
  induction ps with
  | nil =>
    have : (k == k2) = false := by simp; exact fun h => hne h.symm
    simp [put, lookup, this]
  | cons e rest ih =>
    obtain ⟨k', r'⟩ := e
    have hk : (k == k2) = false := by simp; exact fun h => hne h.symm
    unfold put
    by_cases h1 : k = k'
    · subst h1
      simp [lookup, List.find?_cons, hk]
    · simp only [h1, if_false]
      by_cases h2 : k < k'
      · simp [h2, lookup, List.find?_cons, hk]
      · simp only [h2, if_false]
        unfold lookup at *
        simp only [List.find?_cons]
        cases (k' == k2)
        · exact ih
        · rfl

/-- a poll (or request_poll) with a well-formed payload from a peer that is not suspicious: the stored
    record carries the merge of the stored and the received capability, is marked observed now, and no
    other peer's record changes -/
theorem C28_store_poll (s : St) (src : String) (c : Cap) (hs : s.suspicious.contains src = false) :
    lookup (storeCap s src c).peers src =
      some (reload { ((lookup s.peers src).getD newPeer) with
        cap := some (merge ((lookup s.peers src).getD newPeer).cap c), lastObs := some s.now, status := .active })
    ∧ ∀ k, k ≠ src → lookup (storeCap s src c).peers k = lookup s.peers k := by
  unfold storeCap
  simp only [hs, Bool.false_eq_true, if_false]
  exact ⟨lookup_put_same _ _ _, fun k hk => lookup_put_other _ _ _ _ hk⟩

/-- suspicious peers and malformed payloads never change the table -/
theorem C28_store_ignored (s : St) (t : MsgType) (src : String) :
    (recv s t src none).1 = s ∧ (∀ c, s.suspicious.contains src = true → (recv s t src (some c)).1 = s) := by
  constructor
  · cases t <;> simp [recv]
    split <;> rfl
  · intro c hs
    have hs' : src ∈ s.suspicious := by simpa using hs
    cases t <;> simp [recv, storeCap, hs']

/-! ## stored records reload unchanged -/

theorem C28_reload_idempotent (r : PeerRec) : reload (reload r) = reload r := by
  unfold reload
  cases hc : r.cap with
  | none => simp
  | some c => by_cases h : c.hasData = true <;> simp [h]

/-- a record reloads to itself unless its capability is the all-zero capability, which the record format
    cannot tell from "no capability" … -/
theorem C28_reload_identity (r : PeerRec) (h : ∀ c, r.cap = some c → c.hasData = true) : reload r = r := by
  unfold reload
  cases hc : r.cap with
  | none => cases r; simp_all
  | some c => cases r; simp_all

/-- … and that difference is invisible to every query: the peer is compatible with a non-zero protocol
    version before the reload iff after, and all its rates read 0 either way -/
def capCompatible (v : Nat) (c : Option Cap) : Bool := match c with | some c => c.version == v | none => false
def capRate (c : Option Cap) (i : Nat) : Int := match c with | some c => c.rates.getD i 0 | none => 0

theorem C28_reload_unobservable (r : PeerRec) (v : Nat) (hv : v ≠ 0) (i : Nat) :
    capCompatible v (reload r).cap = capCompatible v r.cap ∧ capRate (reload r).cap i = capRate r.cap i := by
  unfold reload capCompatible capRate
  cases hc : r.cap with
  | none => simp
  | some c =>
    by_cases h : c.hasData = true
    · simp [h]
    · simp only [h, Bool.false_eq_true, if_false]
      unfold Cap.hasData at h
      simp only [Bool.or_eq_true, not_or, Bool.not_eq_true, bne_eq_false_iff_eq, List.any_eq_false, bne_iff_ne, ne_eq,
        Decidable.not_not] at h
      obtain ⟨⟨⟨h1, _⟩, _⟩, h4⟩ := h
      constructor
      · simp [h1]; exact fun h => hv h.symm
      · by_cases hi : i < c.rates.length
        · have := h4 (c.rates[i]) (List.getElem_mem hi)
          simp [List.getD, hi, this]
        · simp [List.getD, hi]

/-! ## cleanup -/

/-- what a cleanup sweep leaves: a record stays iff its peer is connected or not expired; connected peers'
    records are untouched, the others are rewritten as they reload -/
theorem C28_cleanup_spec (cfg : Cfg) (s : St) (k : String) (r : PeerRec) :
    (k, r) ∈ (cleanup cfg s false).peers ↔
      ∃ r0, (k, r0) ∈ s.peers ∧ (s.connected.contains k = true ∨ isExpired cfg s.now r0 = false) ∧
        r = (if s.connected.contains k then r0 else reload r0) := by
  unfold cleanup
  simp only [Bool.false_eq_true, if_false, List.mem_map, List.mem_filter, Bool.or_eq_true, Bool.not_eq_true']
  constructor
  · rintro ⟨⟨k0, r0⟩, ⟨hm, hc⟩, he⟩
    by_cases hk : s.connected.contains k0 = true
    · simp only [hk, if_true] at he
      injection he with h1 h2
      subst h1; subst h2
      exact ⟨r0, hm, hc, by rw [if_pos hk]⟩
    · simp only [hk, Bool.false_eq_true, if_false] at he
      injection he with h1 h2
      subst h1; subst h2
      exact ⟨r0, hm, hc, by rw [if_neg hk]⟩
  · rintro ⟨r0, hm, hc, hr⟩
    refine ⟨(k, r0), ⟨hm, hc⟩, ?_⟩
    by_cases hk : s.connected.contains k = true
    · simp only [hk, if_true] at hr ⊢; rw [hr]
    · simp only [hk, Bool.false_eq_true, if_false] at hr ⊢; rw [hr]

/-- expired peers are removed only while disconnected: a connected peer's record always survives … -/
theorem C28_cleanup_keeps_connected (cfg : Cfg) (s : St) (k : String) (r : PeerRec) (lf : Bool)
    (hm : (k, r) ∈ s.peers) (hc : s.connected.contains k = true) : (k, r) ∈ (cleanup cfg s lf).peers := by
  cases lf
  · exact (C28_cleanup_spec cfg s k r).mpr ⟨r, hm, Or.inl hc, by rw [if_pos hc]⟩
  · simpa [cleanup] using hm

/-- … and whatever a sweep removes was expired and not connected (and nothing is removed when the list of
    connected peers cannot be obtained) -/
theorem C28_cleanup_removes_only_expired (cfg : Cfg) (s : St) (k : String) (r0 : PeerRec) (lf : Bool)
    (hm : (k, r0) ∈ s.peers) (hgone : ∀ r, (k, r) ∉ (cleanup cfg s lf).peers) :
    lf = false ∧ s.connected.contains k = false ∧ isExpired cfg s.now r0 = true := by
  cases lf
  · refine ⟨rfl, ?_, ?_⟩
    · cases hc : s.connected.contains k
      · rfl
      · exact absurd ((C28_cleanup_spec cfg s k r0).mpr ⟨r0, hm, Or.inl hc, by rw [if_pos hc]⟩) (hgone r0)
    · cases he : isExpired cfg s.now r0
      · exact absurd ((C28_cleanup_spec cfg s k _).mpr ⟨r0, hm, Or.inr he, rfl⟩) (hgone _)
      · rfl
  · exact absurd (by simpa [cleanup] using hm) (hgone r0)

/-- an expired, disconnected peer is removed by the sweep (keys are unique in the table) -/
theorem C28_cleanup_removes_expired (cfg : Cfg) (s : St) (k : String)
    (hexp : ∀ r0, (k, r0) ∈ s.peers → isExpired cfg s.now r0 = true) (hc : s.connected.contains k = false) :
    ∀ r, (k, r) ∉ (cleanup cfg s false).peers := by
  intro r hr
  obtain ⟨r0, hm, h2, _⟩ := (C28_cleanup_spec cfg s k r).mp hr
  rcases h2 with h | h
  · rw [hc] at h; cases h
  · rw [hexp r0 hm] at h; cases h

/-! ## requests to unknown connected peers -/

def reqTime (lr : List (String × Nat)) (k : String) : Option Nat := (lr.find? (·.1 == k)).map (·.2)

theorem allowRequest_eq (cfg : Cfg) (lr : List (String × Nat)) (now : Nat) (force : Bool) (k : String) :
    allowRequest cfg lr now force k =
      match reqTime lr k with
      | some t => force || !(decide (now - t < cfg.requestInterval))
      | none => true := by
  unfold allowRequest reqTime
  cases h : lr.find? (·.1 == k) with
  | none => rfl
  | some e => obtain ⟨a, t⟩ := e; rfl

theorem find?_congr' {α : Type} (p q : α → Bool) (l : List α) (h : ∀ x ∈ l, p x = q x) : l.find? p = l.find? q := by
  induction l with
  | nil => rfl
  | cons a r ih =>
    simp only [List.find?_cons, h a List.mem_cons_self]
    rw [ih (fun x hx => h x (List.mem_cons_of_mem _ hx))]

theorem mem_dedup (l : List String) (k : String) : k ∈ dedup l ↔ k ∈ l := by
  induction l with
  | nil => simp [dedup]
  | cons a r ih =>
    unfold dedup
    by_cases h : r.contains a = true
    · rw [if_pos h, ih]
      have : a ∈ r := by simpa using h
      constructor
      · exact fun hh => List.mem_cons_of_mem _ hh
      · intro hh; rcases List.mem_cons.mp hh with rfl | hh
        · exact this
        · exact hh
    · rw [if_neg h]; simp [ih]

theorem nodup_dedup (l : List String) : (dedup l).Nodup := by
  induction l with
  | nil => simp [dedup]
  | cons a r ih =>
    unfold dedup
    by_cases h : r.contains a = true
    · rw [if_pos h]; exact ih
    · rw [if_neg h]
      refine List.nodup_cons.mpr ⟨?_, ih⟩
      rw [mem_dedup]
      simpa using h

theorem reqTime_filter (lr : List (String × Nat)) (q : String → Bool) (k : String) (hq : q k = true) :
    reqTime (lr.filter fun e => q e.1) k = reqTime lr k := by
  unfold reqTime
  rw [List.find?_filter]
  congr 1
  apply find?_congr'
  intro x _
  by_cases hx : x.1 = k
  · simp [hx, hq]
  · simp [hx]

theorem reqTime_setReq_same (lr : List (String × Nat)) (k : String) (t : Nat) : reqTime (setReq lr k t) k = some t := by
  simp [reqTime, setReq]

theorem reqTime_setReq_other (lr : List (String × Nat)) (k k' : String) (t : Nat) (h : k ≠ k') :
    reqTime (setReq lr k' t) k = reqTime lr k := by
  unfold setReq
  have h1 : reqTime ((k', t) :: lr.filter (fun e => e.1 != k')) k = reqTime (lr.filter (fun e => e.1 != k')) k := by
    unfold reqTime
    have : (k' == k) = false := by simp; exact fun hh => h hh.symm
    simp [List.find?_cons, this]
  rw [h1]
  exact reqTime_filter lr (fun x => x != k') k (by simp [h])

/-- a request goes only to a connected peer that is neither known nor suspicious and that the rate limiter
    admits on the table as it stood at the start of the round -/
theorem requestUnknown_sent (cfg : Cfg) (now : Nat) (force : Bool) (known susp fails : List String)
    (lr : List (String × Nat)) (conn : List String) (k : String) (hn : conn.Nodup)
    (h : (k, MsgType.requestPoll) ∈ (requestUnknown cfg now force known susp fails lr conn).2) :
    k ∈ conn ∧ known.contains k = false ∧ susp.contains k = false ∧ allowRequest cfg lr now force k = true := by
  induction conn generalizing lr with
  | nil => simp [requestUnknown] at h
  | cons k0 rest ih =>
    have hn' := (List.nodup_cons.mp hn).2
    have hk0 := (List.nodup_cons.mp hn).1
    unfold requestUnknown at h
    by_cases c1 : (known.contains k0 || susp.contains k0) = true
    · rw [if_pos c1] at h
      obtain ⟨a, b, c, d⟩ := ih lr hn' h
      exact ⟨List.mem_cons_of_mem _ a, b, c, d⟩
    · rw [if_neg c1] at h
      by_cases c2 : allowRequest cfg lr now force k0 = true
      · rw [if_pos c2] at h
        simp only at h
        rcases List.mem_append.mp h with h | h
        · have : k = k0 := by
            by_cases hf : fails.contains k0 = true
            · rw [if_pos hf] at h; cases h
            · rw [if_neg hf] at h; simp at h; exact h
          subst this
          simp only [Bool.or_eq_true, not_or, Bool.not_eq_true] at c1
          exact ⟨List.mem_cons_self, c1.1, c1.2, c2⟩
        · obtain ⟨a, b, c, d⟩ := ih _ hn' h
          have hne : k ≠ k0 := fun hh => hk0 (hh ▸ a)
          rw [allowRequest_eq, reqTime_setReq_other _ _ _ _ hne, ← allowRequest_eq] at d
          exact ⟨List.mem_cons_of_mem _ a, b, c, d⟩
      · rw [if_neg c2] at h
        obtain ⟨a, b, c, d⟩ := ih lr hn' h
        exact ⟨List.mem_cons_of_mem _ a, b, c, d⟩

theorem pollKnown_sent_keys (cfg : Cfg) (s : St) (force : Bool) (fails : List String)
    (ps : List (String × PeerRec)) (k : String) (t : MsgType)
    (h : (k, t) ∈ (pollKnown cfg s force fails ps).2) : k ∈ ps.map (·.1) := by
  induction ps with
  | nil => simp [pollKnown] at h
  | cons e rest ih =>
    obtain ⟨k0, r0⟩ := e
    unfold pollKnown at h
    simp only at h
    split at h
    · exact List.mem_cons_of_mem _ (ih h)
    · split at h
      · exact List.mem_cons_of_mem _ (ih h)
      · split at h
        · exact List.mem_cons_of_mem _ (ih h)
        · rcases List.mem_cons.mp h with h | h
          · injection h with h1 _; subst h1; exact List.mem_cons_self
          · exact List.mem_cons_of_mem _ (ih h)

/-- **request rate**: in a poll round that is not forced, a request goes to an unknown peer only if it is
    connected, not suspicious, and either holds no request time (never asked since it was last seen
    disconnected or since the process started) or was last asked at least one request interval ago -/
theorem C28_request_rate (cfg : Cfg) (s : St) (fails : List String) (lf : Bool) (k : String)
    (hunk : k ∉ s.peers.map (·.1))
    (h : (k, MsgType.requestPoll) ∈ (round cfg s false fails lf).2) :
    k ∈ s.connected ∧ s.suspicious.contains k = false ∧
      (reqTime s.lastReq k = none ∨ ∃ t, reqTime s.lastReq k = some t ∧ cfg.requestInterval ≤ s.now - t) := by
  unfold round at h
  cases lf with
  | true =>
    simp only [if_true] at h
    exact absurd (pollKnown_sent_keys _ _ _ _ _ _ _ h) hunk
  | false =>
    simp only [Bool.false_eq_true, if_false] at h
    rcases List.mem_append.mp h with h | h
    · exact absurd (pollKnown_sent_keys _ _ _ _ _ _ _ h) hunk
    · obtain ⟨a, _, c, d⟩ := requestUnknown_sent _ _ _ _ _ _ _ _ _ (nodup_dedup _) h
      have hc : k ∈ s.connected := (mem_dedup _ _).mp a
      refine ⟨hc, c, ?_⟩
      rw [allowRequest_eq, reqTime_filter s.lastReq (fun x => s.connected.contains x) k (by simpa using hc)] at d
      cases hr : reqTime s.lastReq k with
      | none => exact Or.inl rfl
      | some t =>
        rw [hr] at d
        simp only [Bool.false_or, Bool.not_eq_true', decide_eq_false_iff_not, Nat.not_lt] at d
        exact Or.inr ⟨t, rfl, d⟩

/-! ## compatibility -/

/-- a peer counts as peerswap-compatible exactly when its stored capability carries this node's version -/
theorem C28_compatible_iff (cfg : Cfg) (s : St) (k : String) :
    compatible cfg s k = true ↔ ∃ r c, lookup s.peers k = some r ∧ r.cap = some c ∧ c.version = cfg.ourVersion := by
  unfold compatible
  cases h1 : lookup s.peers k with
  | none => simp
  | some r =>
    cases h2 : r.cap with
    | none => simp [h2]
    | some c => simp [h2]

/-- the attempt is recorded: after the round the peer's request time is the round's time -/
theorem requestUnknown_records (cfg : Cfg) (now : Nat) (force : Bool) (known susp fails : List String)
    (lr : List (String × Nat)) (conn : List String) (k : String) (hn : conn.Nodup) (hk : k ∈ conn)
    (h1 : known.contains k = false) (h2 : susp.contains k = false) (h3 : allowRequest cfg lr now force k = true) :
    reqTime (requestUnknown cfg now force known susp fails lr conn).1 k = some now := by
  induction conn generalizing lr with
  | nil => cases hk
  | cons k0 rest ih =>
    have hn' := (List.nodup_cons.mp hn).2
    have hk0 := (List.nodup_cons.mp hn).1
    unfold requestUnknown
    by_cases hkk : k = k0
    · subst hkk
      have c1 : ¬(known.contains k || susp.contains k) = true := by rw [h1, h2]; decide
      rw [if_neg c1, if_pos h3]
      simp only
      -- later entries are other peers
      have : ∀ (lr' : List (String × Nat)) (l : List String), k ∉ l → reqTime lr' k = some now →
          reqTime (requestUnknown cfg now force known susp fails lr' l).1 k = some now := by
        intro lr' l
        induction l generalizing lr' with
        | nil => intro _ h; simpa [requestUnknown] using h
        | cons a r ihr =>
          intro hnot h
          have ha : k ≠ a := fun hh => hnot (hh ▸ List.mem_cons_self)
          have hr : k ∉ r := fun hh => hnot (List.mem_cons_of_mem _ hh)
          unfold requestUnknown
          split
          · exact ihr lr' hr h
          · split
            · simp only
              exact ihr _ hr (by rw [reqTime_setReq_other _ _ _ _ ha]; exact h)
            · exact ihr lr' hr h
      exact this _ rest hk0 (reqTime_setReq_same _ _ _)
    · have hk' : k ∈ rest := by
        rcases List.mem_cons.mp hk with h | h
        · exact absurd h hkk
        · exact h
      by_cases c1 : (known.contains k0 || susp.contains k0) = true
      · rw [if_pos c1]; exact ih lr hn' hk' h3
      · rw [if_neg c1]
        by_cases c2 : allowRequest cfg lr now force k0 = true
        · rw [if_pos c2]
          simp only
          apply ih _ hn' hk'
          rw [allowRequest_eq, reqTime_setReq_other _ _ _ _ hkk, ← allowRequest_eq]
          exact h3
        · rw [if_neg c2]; exact ih lr hn' hk' h3

/-! ### messages handled while a poll round is under way (fix 55c208f) -/

/-- the capability a reader gets for `k` (a stored capability without data reads as none) -/
def capOf (s : St) (k : String) : Option Cap := (lookup s.peers k).bind fun r => (reload r).cap

def norm (c : Option Cap) : Option Cap :=
  match c with
  | none => none
  | some c => if c.hasData then some c else none

theorem reload_cap (r : PeerRec) : (reload r).cap = norm r.cap := by
  unfold reload norm; cases r.cap <;> rfl

theorem norm_norm (c : Option Cap) : norm (norm c) = norm c := by
  unfold norm
  cases c with
  | none => rfl
  | some c => by_cases h : c.hasData = true <;> simp [h]

/-- merging looks at the stored capability only through what a reader sees of it -/
theorem merge_norm (old : Option Cap) (c : Cap) : merge (norm old) c = merge old c := by
  cases old with
  | none => rfl
  | some l =>
    unfold norm
    by_cases h : l.hasData = true
    · simp [h]
    · have hv : l.version = 0 := by
        unfold Cap.hasData at h
        simp at h
        exact h.1.1.1
      simp [h, merge, hv]

def SameCaps (s s' : St) : Prop :=
  s.now = s'.now ∧ s.suspicious = s'.suspicious ∧ ∀ k, capOf s k = capOf s' k

theorem capOf_markStored (s : St) (k k' : String) : capOf (markStored s k) k' = capOf s k' := by
  unfold markStored
  cases hl : lookup s.peers k with
  | none => rfl
  | some r =>
    simp only
    unfold capOf
    by_cases hk : k' = k
    · subst hk
      rw [lookup_put_same, hl]
      simp [reload_cap, norm_norm]
    · rw [lookup_put_other _ _ _ _ hk]

theorem capOf_storeCap (s : St) (src : String) (c : Cap) (k : String) :
    capOf (storeCap s src c) k =
      if s.suspicious.contains src then capOf s k
      else if k = src then norm (some (merge (capOf s src) c)) else capOf s k := by
  unfold storeCap
  by_cases hs : s.suspicious.contains src = true
  · rw [if_pos hs, if_pos hs]
  · rw [if_neg hs, if_neg hs]
    by_cases hk : k = src
    · subst hk
      simp only [if_true]
      unfold capOf
      rw [lookup_put_same]
      simp only [Option.bind_some, reload_cap, norm_norm]
      congr 2
      cases hl : lookup s.peers k with
      | none => simp [newPeer, merge]
      | some r => simp [reload_cap, merge_norm]
    · rw [if_neg hk]
      unfold capOf
      rw [lookup_put_other _ _ _ _ hk]

theorem sameCaps_storeCap (s s' : St) (src : String) (c : Cap) (h : SameCaps s s') :
    SameCaps (storeCap s src c) (storeCap s' src c) := by
  obtain ⟨h1, h2, h3⟩ := h
  refine ⟨?_, ?_, ?_⟩
  · unfold storeCap; rw [h2]; split <;> simp [h1]
  · unfold storeCap; rw [h2]; split <;> simp [h2]
  · intro k
    rw [capOf_storeCap, capOf_storeCap, h2, h3 k, h3 src]

theorem sameCaps_recv (s s' : St) (t : MsgType) (src : String) (p : Option Cap) (h : SameCaps s s') :
    SameCaps (recv s t src p).1 (recv s' t src p).1 := by
  have h2 := h.2.1
  unfold recv
  cases t with
  | poll => cases p with
    | none => exact h
    | some c => exact sameCaps_storeCap _ _ _ _ h
  | requestPoll =>
    simp only [h2]
    by_cases hs : s'.suspicious.contains src = true
    · rw [if_pos hs, if_pos hs]; exact h
    · rw [if_neg hs, if_neg hs]
      cases p with
      | none => exact h
      | some c => exact sameCaps_storeCap _ _ _ _ h

theorem sameCaps_markStored (s s' : St) (k : String) (h : SameCaps s s') : SameCaps (markStored s k) s' := by
  obtain ⟨h1, h2, h3⟩ := h
  refine ⟨?_, ?_, fun k' => by rw [capOf_markStored]; exact h3 k'⟩
  · unfold markStored; split <;> simp [h1]
  · unfold markStored; split <;> simp [h2]

def IlOp.isRecv : IlOp → Bool
  | .recv _ _ _ => true
  | _ => false

theorem sameCaps_runIl (ops : List IlOp) : ∀ (s s' : St), SameCaps s s' →
    SameCaps (runIl s ops).1 (runIl s' (ops.filter IlOp.isRecv)).1 := by
  induction ops with
  | nil => intro s s' h; exact h
  | cons op rest ih =>
    intro s s' h
    cases op with
    | recv t src p =>
      simp only [List.filter_cons, IlOp.isRecv, if_true, runIl, ilStep]
      exact ih _ _ (sameCaps_recv _ _ _ _ _ h)
    | mark k =>
      simp only [List.filter_cons, IlOp.isRecv, Bool.false_eq_true, if_false, runIl, ilStep]
      exact ih _ _ (sameCaps_markStored _ _ _ h)
    | send k t =>
      simp only [List.filter_cons, IlOp.isRecv, Bool.false_eq_true, if_false, runIl, ilStep]
      exact ih _ _ h

/-- WHATEVER the interleaving of a round's sends and poll-time records with the messages handled meanwhile —
    any number of either, in any order — every peer's stored capability is the one the handled messages
    alone produce, in their order: the round never takes a received capability back.  With
    `C28_merge_history` the stored capability is therefore the most recent poll (unless it advertised a
    lower version) under every schedule. -/
theorem C28_marks_never_change_capabilities (s : St) (ops : List IlOp) (k : String) :
    capOf (runIl s ops).1 k = capOf (runIl s (ops.filter IlOp.isRecv)).1 k :=
  (sameCaps_runIl ops s s ⟨rfl, rfl, fun _ => rfl⟩).2.2 k

/-- the code before fix 55c208f wrote the copy loaded before the send: the peer's version-7 poll handled
    during the send is gone after the round (the schedule the C28 monitor replays on the real code) -/
theorem C28_snapshot_mark_loses_poll :
    let c6 : Cap := ⟨6, [.btc], true, [100, 0, 0, 0]⟩
    let c7 : Cap := ⟨7, [.btc, .lbtc], true, [777, 0, 0, 0]⟩
    let r6 : PeerRec := ⟨some c6, .active, none, some 5⟩
    let s : St := ⟨[("02ab", r6)], [], 10, [], []⟩
    capOf (markSnapshot (recv s .poll "02ab" (some c7)).1 "02ab" r6) "02ab" = some c6
    ∧ capOf (markStored (recv s .poll "02ab" (some c7)).1 "02ab") "02ab" = some c7 := by
  decide

/-- key order of the table (bbolt iterates a bucket in key order) -/
def Sorted (ps : List (String × PeerRec)) : Prop := ps.Pairwise fun a b => a.1 < b.1

theorem put_append_mid (pre rest : List (String × PeerRec)) (k : String) (r r' : PeerRec)
    (h : ∀ a ∈ pre, a.1 < k) : put (pre ++ (k, r) :: rest) k r' = pre ++ (k, r') :: rest := by
  induction pre with
  | nil => simp [put]
  | cons e pre ih =>
    obtain ⟨k', r0⟩ := e
    have hlt : k' < k := h (k', r0) (by simp)
    have h1 : ¬ k = k' := fun e => by subst e; exact String.lt_irrefl _ hlt
    have h2 : ¬ k < k' := fun e => String.lt_irrefl _ (String.lt_trans e hlt)
    simp only [List.cons_append, put, h1, h2, if_false]
    rw [ih (fun a ha => h a (by simp [ha]))]

theorem lookup_append_mid (pre rest : List (String × PeerRec)) (k : String) (r : PeerRec)
    (h : ∀ a ∈ pre, a.1 < k) : lookup (pre ++ (k, r) :: rest) k = some r := by
  induction pre with
  | nil => simp [lookup]
  | cons e pre ih =>
    obtain ⟨k', r0⟩ := e
    have hlt : k' < k := h (k', r0) (by simp)
    have h1 : (k' == k) = false := by
      simp; intro e; subst e; exact String.lt_irrefl _ hlt
    have := ih (fun a ha => h a (by simp [ha]))
    unfold lookup at *
    simp only [List.cons_append, List.find?_cons, h1]
    exact this

theorem pollKnown_congr (cfg : Cfg) (force : Bool) (fails : List String) (ps : List (String × PeerRec)) (s1 s2 : St)
    (hn : s1.now = s2.now) (hsu : s1.suspicious = s2.suspicious) :
    pollKnown cfg s1 force fails ps = pollKnown cfg s2 force fails ps := by
  induction ps with
  | nil => rfl
  | cons e rest ihr => obtain ⟨k0, r0⟩ := e; unfold pollKnown; rw [ihr, hn, hsu]

theorem runIl_known_none (cfg : Cfg) (force : Bool) (fails : List String) (ps : List (String × PeerRec)) :
    ∀ (pre : List (String × PeerRec)) (s : St), s.peers = pre ++ ps → Sorted (pre ++ ps) →
      runIl s (knownSchedule cfg s.now s.suspicious force fails none ps) =
        ({ s with peers := pre ++ (pollKnown cfg s force fails ps).1 }, (pollKnown cfg s force fails ps).2) := by
  induction ps with
  | nil =>
    intro pre s hs _
    simp only [knownSchedule, runIl, pollKnown]
    rw [← hs]
  | cons e rest ih =>
    intro pre s hs hsorted
    obtain ⟨k, r⟩ := e
    have hs' : s.peers = (pre ++ [(k, r)]) ++ rest := by rw [hs]; simp
    have hsorted' : Sorted ((pre ++ [(k, r)]) ++ rest) := by
      have : (pre ++ [(k, r)]) ++ rest = pre ++ (k, r) :: rest := by simp
      rw [this]; exact hsorted
    have hpre : ∀ a ∈ pre, a.1 < k := by
      intro a ha
      have := (List.pairwise_append.mp hsorted).2.2 a ha (k, r) (by simp)
      exact this
    have keep := ih (pre ++ [(k, r)]) s hs' hsorted'
    unfold knownSchedule pollKnown
    rcases hp : pollKnown cfg s force fails rest with ⟨rest', sent⟩
    rw [hp] at keep
    simp only at keep ⊢
    by_cases c1 : (!force && !shouldPoll cfg s.now r) = true
    · rw [if_pos c1, if_pos c1, keep]; simp
    · rw [if_neg c1, if_neg c1]
      by_cases c2 : s.suspicious.contains k = true
      · rw [if_pos c2, if_pos c2, keep]; simp
      · rw [if_neg c2, if_neg c2]
        by_cases c3 : fails.contains k = true
        · rw [if_pos c3, if_pos c3, keep]; simp
        · rw [if_neg c3, if_neg c3]
          simp only [duringOps, List.nil_append, runIl, ilStep, List.nil_append]
          have hm : markStored s k = { s with peers := pre ++ (k, reload { r with lastPoll := some s.now }) :: rest } := by
            unfold markStored
            rw [hs, lookup_append_mid _ _ _ _ hpre]
            simp only
            rw [put_append_mid _ _ _ _ _ hpre]
          rw [hm]
          have hs2 : ({ s with peers := pre ++ (k, reload { r with lastPoll := some s.now }) :: rest } : St).peers
              = (pre ++ [(k, reload { r with lastPoll := some s.now })]) ++ rest := by simp
          have hsorted2 : Sorted ((pre ++ [(k, reload { r with lastPoll := some s.now })]) ++ rest) := by
            have e1 : (pre ++ [(k, reload { r with lastPoll := some s.now })]) ++ rest
                = pre ++ (k, reload { r with lastPoll := some s.now }) :: rest := by simp
            rw [e1]
            unfold Sorted at *
            rw [List.pairwise_append] at *
            refine ⟨hsorted.1, ?_, ?_⟩
            · have := hsorted.2.1
              rw [List.pairwise_cons] at *
              exact ⟨fun a ha => this.1 a ha, this.2⟩
            · intro a ha b hb
              rcases List.mem_cons.mp hb with hb | hb
              · subst hb; exact hpre a ha
              · exact hsorted.2.2 a ha b (by simp [hb])
          have := ih (pre ++ [(k, reload { r with lastPoll := some s.now })])
            { s with peers := pre ++ (k, reload { r with lastPoll := some s.now }) :: rest } hs2 hsorted2
          simp only at this
          rw [pollKnown_congr cfg force fails rest
            { s with peers := pre ++ (k, reload { r with lastPoll := some s.now }) :: rest } s rfl rfl, hp] at this
          rw [this]
          simp

/-- with nothing handled during the round, the round in steps IS the atomic round the other theorems and
    the peersync slice's `sync.round` speak about -/
theorem C28_round_in_steps_refines (cfg : Cfg) (s : St) (force : Bool) (fails : List String) (lf : Bool)
    (h : Sorted s.peers) : roundIl cfg s force fails lf none = round cfg s force fails lf := by
  have := runIl_known_none cfg force fails s.peers [] s (by simp) (by simpa using h)
  unfold roundIl round
  rw [this]
  rcases pollKnown cfg s force fails s.peers with ⟨peers', sent1⟩
  cases lf <;> simp

theorem mem_put (ps : List (String × PeerRec)) (k : String) (r : PeerRec) (a : String × PeerRec)
    (h : a ∈ put ps k r) : a.1 = k ∨ a ∈ ps := by
  induction ps with
  | nil => simp [put] at h; left; rw [h]
  | cons e rest ih =>
    obtain ⟨k', r'⟩ := e
    unfold put at h
    by_cases h1 : k = k'
    · rw [if_pos h1] at h
      rcases List.mem_cons.mp h with h | h
      · left; rw [h]
      · right; simp [h]
    · rw [if_neg h1] at h
      by_cases h2 : k < k'
      · rw [if_pos h2] at h
        rcases List.mem_cons.mp h with h | h
        · left; rw [h]
        · right; exact h
      · rw [if_neg h2] at h
        rcases List.mem_cons.mp h with h | h
        · right; simp [h]
        · rcases ih h with h | h
          · left; exact h
          · right; simp [h]

theorem put_sorted (ps : List (String × PeerRec)) (k : String) (r : PeerRec) (h : Sorted ps) : Sorted (put ps k r) := by
  induction ps with
  | nil => simp [put, Sorted]
  | cons e rest ih =>
    obtain ⟨k', r'⟩ := e
    unfold Sorted at h ih ⊢
    rw [List.pairwise_cons] at h
    unfold put
    by_cases h1 : k = k'
    · rw [if_pos h1]
      rw [List.pairwise_cons]
      exact ⟨fun b hb => by rw [h1]; exact h.1 b hb, h.2⟩
    · rw [if_neg h1]
      by_cases h2 : k < k'
      · rw [if_pos h2]
        rw [List.pairwise_cons, List.pairwise_cons]
        refine ⟨?_, h.1, h.2⟩
        intro b hb
        rcases List.mem_cons.mp hb with hb | hb
        · rw [hb]; exact h2
        · exact String.lt_trans h2 (h.1 b hb)
      · rw [if_neg h2]
        have h3 : k' < k := Decidable.byContradiction fun hn =>
          h1 (String.le_antisymm (String.not_lt.mp hn) (String.not_lt.mp h2))
        rw [List.pairwise_cons]
        refine ⟨?_, ih h.2⟩
        intro b hb
        rcases mem_put _ _ _ _ hb with hb | hb
        · rw [hb]; exact h3
        · exact h.1 b hb

theorem sorted_of_keys (ps qs : List (String × PeerRec)) (hk : qs.map (·.1) = ps.map (·.1)) (h : Sorted ps) : Sorted qs := by
  unfold Sorted at *
  have h1 : (ps.map (·.1)).Pairwise (· < ·) := List.pairwise_map.mpr h
  rw [← hk] at h1
  exact List.pairwise_map.mp h1

theorem pollKnown_keys (cfg : Cfg) (s : St) (force : Bool) (fails : List String) (ps : List (String × PeerRec)) :
    (pollKnown cfg s force fails ps).1.map (·.1) = ps.map (·.1) := by
  induction ps with
  | nil => rfl
  | cons e rest ih =>
    obtain ⟨k, r⟩ := e
    unfold pollKnown
    rcases hp : pollKnown cfg s force fails rest with ⟨rest', sent⟩
    rw [hp] at ih
    simp only at ih ⊢
    split
    · simp [ih]
    · split
      · simp [ih]
      · split <;> simp [ih]

theorem sorted_storeCap (s : St) (src : String) (c : Cap) (h : Sorted s.peers) : Sorted (storeCap s src c).peers := by
  unfold storeCap
  split
  · exact h
  · exact put_sorted _ _ _ h

theorem sorted_recv (s : St) (t : MsgType) (src : String) (p : Option Cap) (h : Sorted s.peers) :
    Sorted (recv s t src p).1.peers := by
  unfold recv
  cases t with
  | poll => cases p with
    | none => exact h
    | some c => exact sorted_storeCap _ _ _ h
  | requestPoll =>
    simp only
    split
    · exact h
    · cases p with
      | none => exact h
      | some c => exact sorted_storeCap _ _ _ h

/-- the table stays in key order under every operation of the model, so `C28_round_in_steps_refines`
    applies in every reachable state -/
theorem C28_sorted_invariant (cfg : Cfg) (s : St) (h : Sorted s.peers) :
    (∀ t src p, Sorted (recv s t src p).1.peers)
    ∧ (∀ force fails lf, Sorted (round cfg s force fails lf).1.peers)
    ∧ (∀ lf, Sorted (cleanup cfg s lf).peers)
    ∧ Sorted (restart s).peers
    ∧ (∀ k, Sorted (markStored s k).peers) := by
  refine ⟨fun t src p => sorted_recv _ _ _ _ h, ?_, ?_, ?_, ?_⟩
  · intro force fails lf
    have hk := pollKnown_keys cfg s force fails s.peers
    unfold round
    rcases hp : pollKnown cfg s force fails s.peers with ⟨peers', sent1⟩
    rw [hp] at hk
    simp only at hk ⊢
    cases lf <;> simp only [if_true, Bool.false_eq_true, if_false] <;> exact sorted_of_keys _ _ hk h
  · intro lf
    unfold cleanup
    cases lf
    · simp only [Bool.false_eq_true, if_false]
      apply sorted_of_keys (s.peers.filter fun e => s.connected.contains e.1 || !isExpired cfg s.now e.2)
      · rw [List.map_map]; congr 1; funext e; simp only [Function.comp]; split <;> rfl
      · exact List.Pairwise.filter _ h
    · exact h
  · unfold restart
    apply sorted_of_keys s.peers _ _ h
    rw [List.map_map]; rfl
  · intro k
    unfold markStored
    split
    · exact h
    · exact put_sorted _ _ _ h

theorem runIl_append (s : St) (a b : List IlOp) : (runIl s (a ++ b)).1 = (runIl (runIl s a).1 b).1 := by
  induction a generalizing s with
  | nil => rfl
  | cons op rest ih => simp only [List.cons_append, runIl]; exact ih _

theorem knownSchedule_recvs (cfg : Cfg) (now : Nat) (susp : List String) (force : Bool) (fails : List String)
    (t : MsgType) (src : String) (p : Option Cap) (ps : List (String × PeerRec)) :
    ∃ n, (knownSchedule cfg now susp force fails (some (t, src, p)) ps).filter IlOp.isRecv
      = List.replicate n (IlOp.recv t src p) := by
  induction ps with
  | nil => exact ⟨0, rfl⟩
  | cons e rest ih =>
    obtain ⟨k, r⟩ := e
    obtain ⟨n, hn⟩ := ih
    unfold knownSchedule
    split
    · exact ⟨n, hn⟩
    · split
      · exact ⟨n, hn⟩
      · split
        · exact ⟨n, hn⟩
        · by_cases hk : src = k
          · refine ⟨n + 1, ?_⟩
            simp only [duringOps, hk, if_true, List.filter_cons, IlOp.isRecv, Bool.false_eq_true, if_false,
              List.cons_append, List.nil_append]
            rw [hk] at hn
            rw [hn, List.replicate_succ]
          · refine ⟨n, ?_⟩
            simp only [duringOps, hk, if_false, List.filter_cons, IlOp.isRecv, Bool.false_eq_true,
              List.nil_append]
            exact hn

/-- the executable round with a message handled during a send to its source (the `sync.roundduring`
    operation of the peersync slice, run against the real poller with the real handler called from inside
    the send): every capability after the round is what handling that message alone — as many times as
    the round sent to its source — leaves -/
theorem C28_round_with_message (cfg : Cfg) (s : St) (force : Bool) (fails : List String) (lf : Bool)
    (t : MsgType) (src : String) (p : Option Cap) :
    ∃ n, ∀ k, capOf (roundIl cfg s force fails lf (some (t, src, p))).1 k
        = capOf (runIl s (List.replicate n (IlOp.recv t src p))).1 k := by
  obtain ⟨n, hn⟩ := knownSchedule_recvs cfg s.now s.suspicious force fails t src p s.peers
  have h1 := sameCaps_runIl (knownSchedule cfg s.now s.suspicious force fails (some (t, src, p)) s.peers) s s
    ⟨rfl, rfl, fun _ => rfl⟩
  rw [hn] at h1
  unfold roundIl
  cases lf
  · simp only [Bool.false_eq_true, if_false]
    split
    · refine ⟨n + 1, fun k => ?_⟩
      rw [List.replicate_succ', runIl_append]
      simp only [runIl, ilStep]
      have h2 : ∀ lr, SameCaps
          { (runIl s (knownSchedule cfg s.now s.suspicious force fails (some (t, src, p)) s.peers)).1 with lastReq := lr }
          (runIl s (List.replicate n (IlOp.recv t src p))).1 := fun _ => ⟨h1.1, h1.2.1, fun k' => h1.2.2 k'⟩
      exact (sameCaps_recv _ _ t src p (h2 _)).2.2 k
    · exact ⟨n, fun k => h1.2.2 k⟩
  · simp only [if_true]
    exact ⟨n, fun k => h1.2.2 k⟩

-- non-vacuity and the shape of the rule, on the real intervals (10 s poll, 30 min timeout, 10 min request)
def cfg0 : Cfg := ⟨10000, 1800000, 600000, 7⟩
def s0 : St := ⟨[], [], 1000000, ["02aa"], []⟩
/-- an unknown connected peer is asked in the first round, not again 9 min 59 s later, again after 10 min -/
example : (round cfg0 s0 false [] false).2 = [("02aa", .requestPoll)] := by decide
example : (round cfg0 { (round cfg0 s0 false [] false).1 with now := 1000000 + 599000 } false [] false).2 = [] := by decide
example : (round cfg0 { (round cfg0 s0 false [] false).1 with now := 1000000 + 600000 } false [] false).2
    = [("02aa", .requestPoll)] := by decide
/-- a forced round asks regardless; a peer seen disconnected at a round loses its request time (by design:
    "a peer that reconnects is requested again immediately") -/
example : (round cfg0 { (round cfg0 s0 false [] false).1 with now := 1000000 + 1000 } true [] false).2
    = [("02aa", .requestPoll)] := by decide
example : (round cfg0 { (round cfg0 { (round cfg0 s0 false [] false).1 with connected := [], now := 1010000 } false [] false).1
    with connected := ["02aa"], now := 1020000 } false [] false).2 = [("02aa", .requestPoll)] := by decide
example : mergeAll none [⟨7, [], true, [0,0,0,0]⟩, ⟨6, [.btc], true, [0,0,0,0]⟩, ⟨7, [.lbtc], false, [1,0,0,0]⟩, ⟨5, [], true, [0,0,0,0]⟩]
    = some ⟨7, [.lbtc], false, [1,0,0,0]⟩ := by decide

/-- the schedule of finding 55c208f in the model of the code as it is now: the version-7 poll handled during
    the send survives the round, and the table used is in key order -/
def s6 : St := ⟨[("02ab", ⟨some ⟨6, [.btc], true, [100, 0, 0, 0]⟩, .active, none, some 5⟩)], [], 20000, ["02ab"], []⟩
example : Sorted s6.peers := by simp [Sorted, s6]
example : capOf (roundIl cfg0 s6 false [] false (some (.poll, "02ab", some ⟨7, [.btc, .lbtc], true, [777, 0, 0, 0]⟩))).1 "02ab"
    = some ⟨7, [.btc, .lbtc], true, [777, 0, 0, 0]⟩ := by decide
example : (roundIl cfg0 s6 false [] false (some (.requestPoll, "02ab", none))).2 = [("02ab", .poll), ("02ab", .poll)] := by decide

end PsVerif.Props.C28
