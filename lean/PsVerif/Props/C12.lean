import PsVerif.Model.Amounts
import PsVerif.Model.Timelock
/-
C12  Neither side pays more than it agreed to.

Model: Model/Amounts.lean.  The statements carry the no-wrap hypotheses the proofs force
(amount < 2^63/1000, fee estimate < 2^51 for the float64 product).  The hypothesis `premium ≥ -amount` that
the proofs forced at first marked a genuine — and exploitable — defect: an agreement premium below −amount
passed CheckPremiumAmount, the claim amount wrapped to 2^64−k, and k can be chosen so that the ×1000 of the
invoice check wraps onto any payable amount (`C12_old_rule_exploit`; replayed on the real machines: 1 000 000
sat paid for a 100 000 sat swap with a 1 % limit).  Repaired in /repo (`checkPremiumLowerBound`); the
hypothesis is now a CONSEQUENCE of the decision (`premium_not_too_low`).
-/
namespace PsVerif.Props.C12
open PsVerif PsVerif.Model

theorem addPremium_exact (amount : Nat) (premium : Int) (ha : amount < 2 ^ 63)
    (hlo : -(amount : Int) ≤ premium) (hhi : (amount : Int) + premium < 2 ^ 63) :
    (addPremium amount premium : Int) = amount + premium := by
  unfold addPremium u64ToI64
  have e1 : wrapI64 (Int.ofNat amount) = (amount : Int) := by
    unfold wrapI64
    have : (Int.ofNat amount) % 18446744073709551616 = (amount : Int) := by
      apply Int.emod_eq_of_lt <;> simp <;> omega
    simp only [this]
    split <;> simp at * <;> omega
  rw [e1]
  have e2 : wrapI64 ((amount : Int) + premium) = (amount : Int) + premium := by
    unfold wrapI64
    have : ((amount : Int) + premium) % 18446744073709551616 = (amount : Int) + premium := by
      apply Int.emod_eq_of_lt <;> omega
    simp only [this]
    split <;> omega
  rw [e2]
  unfold wrapU64i
  have : ((amount : Int) + premium) % 18446744073709551616 = (amount : Int) + premium := by
    apply Int.emod_eq_of_lt <;> omega
  rw [this]
  omega

/-- what `checkPremiumLowerBound` passing gives -/
theorem premium_not_too_low (amount : Nat) (premium : Int) (h : premiumTooLow amount premium = false) :
    amount < 2 ^ 63 ∧ -(amount : Int) < premium := by
  unfold premiumTooLow at h
  simp only [Bool.or_eq_false_iff, decide_eq_false_iff_not] at h
  obtain ⟨h1, h2⟩ := h
  have ha : amount < 2 ^ 63 := by omega
  refine ⟨ha, ?_⟩
  have e1 : u64ToI64 amount = (amount : Int) := by
    unfold u64ToI64 wrapI64
    have : (Int.ofNat amount) % 18446744073709551616 = (amount : Int) := by
      apply Int.emod_eq_of_lt <;> simp <;> omega
    simp only [this]
    split <;> simp at * <;> omega
  rw [e1] at h2
  have e2 : wrapI64 (-(amount : Int)) = -(amount : Int) := by
    unfold wrapI64
    by_cases h0 : amount = 0
    · subst h0; simp
    · have : (-(amount : Int)) % 18446744073709551616 = 18446744073709551616 - (amount : Int) := by
        rw [← Int.add_emod_right]
        have e : -(amount : Int) + 18446744073709551616 = 18446744073709551616 - (amount : Int) := by omega
        rw [e]
        apply Int.emod_eq_of_lt <;> omega
      simp only [this]
      split <;> omega
  rw [e2] at h2
  omega

/-- swap-out initiator: it pays the fee invoice only if the premium is within its limit and does not take
    the whole amount away, the channel can carry amount + fee, and the fee is at most three times its own
    estimate -/
theorem C12_out_initiator_fee (amount : Nat) (premium limit : Int) (feeMsat spendable expectedFee : Nat)
    (ha : amount * 1000 + feeMsat < 2 ^ 64)
    (h : feeDecision amount premium limit feeMsat spendable expectedFee = .pay) :
    premium ≤ limit ∧ -(amount : Int) < premium ∧ amount * 1000 + feeMsat ≤ spendable ∧ feeMsat / 1000 ≤ 3 * expectedFee := by
  unfold feeDecision at h
  split at h
  · cases h
  · split at h
    · cases h
    · split at h
      · cases h
      · split at h
        · cases h
        · rename_i h1 h0 h2 h3
          have e : wrapU64 (wrapU64 (amount * 1000) + feeMsat) = amount * 1000 + feeMsat := by
            unfold wrapU64; omega
          rw [e] at h2
          have hl := premium_not_too_low amount premium (by simpa using h0)
          omega

/-- … and the claim invoice it accepts afterwards is for exactly amount + premium, which is positive and at
    most amount + limit: NO hypothesis on the premium — whatever the peer sends, if the node went on to pay
    the fee, the claim it accepts is within what it agreed to -/
theorem C12_out_initiator_claim (amount : Nat) (premium limit : Int) (feeMsat spendable expectedFee : Nat)
    (msat : Nat) (cltv : Int) (maxFinal : Nat)
    (ha : amount < 9223372036854775) (hhi : (amount : Int) + limit < 9223372036854775)
    (hd : feeDecision amount premium limit feeMsat spendable expectedFee = .pay)
    (hv : validateClaimInvoice msat cltv (claimAmountOut amount premium) maxFinal = .ok) :
    (msat : Int) = ((amount : Int) + premium) * 1000 ∧ 0 < (msat : Int) ∧ (msat : Int) ≤ ((amount : Int) + limit) * 1000 := by
  have hp : premium ≤ limit ∧ -(amount : Int) < premium := by
    unfold feeDecision at hd
    split at hd
    · cases hd
    · split at hd
      · cases hd
      · rename_i h1 h0
        exact ⟨by omega, (premium_not_too_low amount premium (by simpa using h0)).2⟩
  have hx := addPremium_exact amount premium (by omega) (by omega) (by omega)
  unfold validateClaimInvoice at hv
  split at hv
  · cases hv
  · split at hv
    · cases hv
    · rename_i h1 h2
      have hm : msat = wrapU64 (claimAmountOut amount premium * 1000) := by simpa using h2
      unfold claimAmountOut at hm
      have hb : addPremium amount premium < 9223372036854775 := by omega
      have : wrapU64 (addPremium amount premium * 1000) = addPremium amount premium * 1000 := by
        unfold wrapU64; omega
      rw [this] at hm
      have hmi : (msat : Int) = (addPremium amount premium : Int) * 1000 := by rw [hm]; simp
      rw [hx] at hmi
      refine ⟨hmi, by rw [hmi]; omega, by rw [hmi]; omega⟩

/-- swap-in initiator: it locks exactly amount + premium (0 < amount + premium ≤ amount + limit) and asks for
    exactly amount — again with no hypothesis on the premium -/
theorem C12_in_initiator (amount : Nat) (premium limit : Int) (lock ask : Nat)
    (ha : amount < 9223372036854775) (hhi : (amount : Int) + limit < 2 ^ 63)
    (h : inDecision amount premium limit = some (lock, ask)) :
    premium ≤ limit ∧ (lock : Int) = amount + premium ∧ 0 < (lock : Int) ∧ (lock : Int) ≤ amount + limit ∧ ask = amount * 1000 := by
  unfold inDecision at h
  split at h
  · cases h
  · split at h
    · cases h
    · rename_i hp h0
      injection h with h
      injection h with h1 h2
      have hl := premium_not_too_low amount premium (by simpa using h0)
      have hx := addPremium_exact amount premium (by omega) (by omega) (by omega)
      unfold openingAmountIn at h1
      subst h1
      refine ⟨by omega, hx, by omega, by omega, ?_⟩
      rw [← h2]; unfold wrapU64; omega

/-- the responder charges `ppmCompute` of its own rate (C27 says which rate) -/
theorem C12_responder_exact (s : RateStore) (peer : String) (a o amt : Nat) :
    settingCompute s peer a o amt = (getRate s peer a o).map (ppmCompute amt) := rfl

/-- a premium of −(amount+1) — which the code before the repair accepted, making the amount 2^64−1 — is refused -/
theorem C12_premium_below_minus_amount_refused :
    inDecision 1000000 (-1000001) 0 = none ∧ inDecision 1000000 (-1000000) 0 = none
    ∧ feeDecision 100000 (-2305843009212793952) 1000 500000 5000000000 500 = .premiumTooLow := by decide

/-- the arithmetic of the old rule, as exploited: amount 100 000 sat, premium −2305843009212793952 (≤ any
    limit): the claim amount is 2^64 − 2305843009212693952 sat and its ×1000 wraps onto 1 000 000 000 msat — the
    invoice check of the old code accepted a perfectly payable claim invoice of ten times the swap amount -/
theorem C12_old_rule_exploit :
    claimAmountOut 100000 (-2305843009212793952) = 18446744073709551616 - 2305843009212693952
    ∧ wrapU64 (claimAmountOut 100000 (-2305843009212793952) * 1000) = 1000000000 := by decide

example : feeDecision 1000000 1000 50000 500000 5000000000 500 = .pay := by decide
example : feeDecision 1000000 1000 50000 1501000 5000000000 500 = .feeTooHigh := by decide

end PsVerif.Props.C12
