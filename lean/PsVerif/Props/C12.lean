import PsVerif.Model.Amounts
import PsVerif.Model.Timelock
/-
C12  Neither side pays more than it agreed to.

Model: Model/Amounts.lean.  The statements carry the no-wrap hypotheses the proofs force
(amount < 2^63/1000, premium ≥ -amount, fee estimate < 2^51 for the float64 product); outside them the
arithmetic wraps — witness `C12_violated_negative_premium`, replayed on the real code (known finding).
-/
namespace PsVerif.Props.C12
open PsVerif PsVerif.Model

theorem addPremium_exact (amount : Nat) (premium : Int) (ha : amount < 2 ^ 63)
    (hlo : -(amount : Int) ≤ premium) (hhi : (amount : Int) + premium < 2 ^ 63) :
    (addPremium amount premium : Int) = amount + premium := by
  unfold addPremium u64ToI64
  have e1 : wrapI64 (Int.ofNat amount) = (amount : Int) := by
    unfold wrapI64
    have : (Int.ofNat amount) % 18446744073709551616 = (amount : Int) := by
      apply Int.emod_eq_of_lt <;> simp <;> omega
    simp only [this]
    split <;> simp at * <;> omega
  rw [e1]
  have e2 : wrapI64 ((amount : Int) + premium) = (amount : Int) + premium := by
    unfold wrapI64
    have : ((amount : Int) + premium) % 18446744073709551616 = (amount : Int) + premium := by
      apply Int.emod_eq_of_lt <;> omega
    simp only [this]
    split <;> omega
  rw [e2]
  unfold wrapU64i
  have : ((amount : Int) + premium) % 18446744073709551616 = (amount : Int) + premium := by
    apply Int.emod_eq_of_lt <;> omega
  rw [this]
  omega

/-- swap-out initiator: it pays the fee invoice only if the premium is within its limit, the channel can
    carry amount + fee, and the fee is at most three times its own estimate -/
theorem C12_out_initiator_fee (amount : Nat) (premium limit : Int) (feeMsat spendable expectedFee : Nat)
    (ha : amount * 1000 + feeMsat < 2 ^ 64)
    (h : feeDecision amount premium limit feeMsat spendable expectedFee = .pay) :
    premium ≤ limit ∧ amount * 1000 + feeMsat ≤ spendable ∧ feeMsat / 1000 ≤ 3 * expectedFee := by
  unfold feeDecision at h
  split at h
  · cases h
  · split at h
    · cases h
    · split at h
      · cases h
      · rename_i h1 h2 h3
        have e : wrapU64 (wrapU64 (amount * 1000) + feeMsat) = amount * 1000 + feeMsat := by
          unfold wrapU64; omega
        rw [e] at h2
        omega

/-- … and the claim invoice it accepts is for exactly amount + premium (premium ≤ limit) -/
theorem C12_out_initiator_claim (amount : Nat) (premium limit : Int) (msat : Nat) (cltv : Int) (maxFinal : Nat)
    (ha : amount < 9223372036854775) (hlo : -(amount : Int) ≤ premium) (hhi : (amount : Int) + premium < 9223372036854775)
    (hp : premium ≤ limit)
    (hv : validateClaimInvoice msat cltv (claimAmountOut amount premium) maxFinal = .ok) :
    (msat : Int) = ((amount : Int) + premium) * 1000 ∧ (msat : Int) ≤ ((amount : Int) + limit) * 1000 := by
  have hx := addPremium_exact amount premium (by omega) hlo (by omega)
  unfold validateClaimInvoice at hv
  split at hv
  · cases hv
  · split at hv
    · cases hv
    · rename_i h1 h2
      have hm : msat = wrapU64 (claimAmountOut amount premium * 1000) := by simpa using h2
      unfold claimAmountOut at hm
      have hb : addPremium amount premium < 9223372036854775 := by omega
      have : wrapU64 (addPremium amount premium * 1000) = addPremium amount premium * 1000 := by
        unfold wrapU64; omega
      rw [this] at hm
      have hmi : (msat : Int) = (addPremium amount premium : Int) * 1000 := by rw [hm]; simp
      rw [hx] at hmi
      constructor
      · exact hmi
      · rw [hmi]; omega

/-- swap-in initiator: it locks exactly amount + premium (premium ≤ limit) and asks for exactly amount -/
theorem C12_in_initiator (amount : Nat) (premium limit : Int) (lock ask : Nat)
    (ha : amount < 9223372036854775) (hlo : -(amount : Int) ≤ premium) (hhi : (amount : Int) + premium < 2 ^ 63)
    (h : inDecision amount premium limit = some (lock, ask)) :
    premium ≤ limit ∧ (lock : Int) = amount + premium ∧ (lock : Int) ≤ amount + limit ∧ ask = amount * 1000 := by
  unfold inDecision at h
  split at h
  · cases h
  · rename_i hp
    injection h with h
    injection h with h1 h2
    have hx := addPremium_exact amount premium (by omega) hlo hhi
    unfold openingAmountIn at h1
    subst h1
    refine ⟨by omega, hx, by omega, ?_⟩
    rw [← h2]; unfold wrapU64; omega

/-- the responder charges `ppmCompute` of its own rate (C27 says which rate) -/
theorem C12_responder_exact (s : RateStore) (peer : String) (a o amt : Nat) :
    settingCompute s peer a o amt = (getRate s peer a o).map (ppmCompute amt) := rfl

/-- outside the hypotheses the outflow is NOT bounded by the arithmetic alone: an agreement premium of
    −(amount+1) passes the limit check and makes the amount 2^64−1 -/
theorem C12_violated_negative_premium :
    inDecision 1000000 (-1000001) 0 = some (18446744073709551615, 1000000000) := by decide

example : feeDecision 1000000 1000 50000 500000 5000000000 500 = .pay := by decide
example : feeDecision 1000000 1000 50000 1501000 5000000000 500 = .feeTooHigh := by decide

end PsVerif.Props.C12
