import PsVerif.Model.AbsAn
/-
C13  The Liquid payment-window anchor is stored before the pubkey is revealed.

Model: the abstract engine over the GENERATED tables of both taker roles with the flags of
Model/AbsAn.lean (Liquid protocol-7 swaps).  "Durably stored before sent" is the engine's semantics
(fsm.go persists after every action and before the next one runs) — tied to the real code by the trace
inclusion on Liquid scenarios, where every persisted record and every send is observed in order.
"Never changed afterwards" and "no anchor, no payment" are flags the harness computes from the real
run and that no summary of the model ever sets: a real run that sets them breaks the correspondence.
The arithmetic side of "a swap without a stored anchor never pays" is C04_window (set = true is required).
-/
namespace PsVerif.Props.C13
open PsVerif.Gen PsVerif.Model.Abs PsVerif.Model.AbsAn

def sysOut := sys tableSwapOutSender
def sysIn := sys tableSwapInReceiver
def certOut := reachCert sysOut 80
def certIn := reachCert sysIn 80

theorem certOut_ok : (closedCert sysOut certOut && allGood certOut holds) = true := by decide +kernel
theorem certIn_ok : (closedCert sysIn certIn && allGood certIn holds) = true := by decide +kernel

/-- swap-out initiator: in every history (crashes at every persisted point and inside the send, restarts,
    replays of any later event) the request carrying the pubkey has left the node only if the anchor is
    in the durable record -/
theorem C13_order_swap_out_sender : ∀ m, Reach sysOut m → holds m = true := by
  have h := certOut_ok
  simp only [Bool.and_eq_true] at h
  exact invariant_of_cert _ certOut holds h.1 h.2

/-- swap-in responder: same for the agreement -/
theorem C13_order_swap_in_receiver : ∀ m, Reach sysIn m → holds m = true := by
  have h := certIn_ok
  simp only [Bool.and_eq_true] at h
  exact invariant_of_cert _ certIn holds h.1 h.2

/-- the states that set the anchor and the states that send the key are different states of the generated
    tables, with the anchor-setting one strictly before (its only success edge leads to the sending one) -/
theorem C13_distinct_states :
    nextSt tableSwapOutSender .State_SwapOutSender_CreateSwap E_ActionSucceeded = some .State_SwapOutSender_SendRequest ∧
    nextSt tableSwapInReceiver .State_SwapInReceiver_CreateSwap E_ActionSucceeded = some .State_SwapInReceiver_SendAgreement ∧
    actsOf tableSwapOutSender .State_SwapOutSender_SendRequest = [.SendMessageAction] ∧
    actsOf tableSwapInReceiver .State_SwapInReceiver_SendAgreement = [.SendMessageAction] := by decide

theorem C13_nonvacuous :
    (certOut.toList.any fun m => m.f.keySent && m.f.anchorRec) = true ∧
    (certIn.toList.any fun m => m.f.keySent && m.f.anchorRec) = true := by decide +kernel

end PsVerif.Props.C13
