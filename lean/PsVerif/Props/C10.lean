import PsVerif.Model.Service
/-
C10  At most one active swap per channel.

Model: Model/Service.lean (`lockSwap` with the channel id compared in one spelling, `RemoveActiveSwap`,
the request handlers).  Tie: slice `registry` (operation sequences on the real SwapService).
-/
namespace PsVerif.Props.C10
open PsVerif.Model PsVerif.Model.Service

theorem any_false_not_mem {α β : Type} [DecidableEq β] (l : List α) (f : α → β) (b : β)
    (h : l.any (fun a => f a == b) = false) : b ∉ l.map f := by
  intro hm
  obtain ⟨a, ha, hab⟩ := List.mem_map.mp hm
  have := List.any_eq_false.mp h a ha
  simp [hab] at this

theorem lock_inv (r : Reg) (e : Entry) (r' : Reg) (h : RegInv r) (hl : lockSwap r e = .ok r') : RegInv r' := by
  unfold lockSwap at hl
  split at hl
  · cases hl
  · split at hl
    · cases hl
    · rename_i h1 h2
      injection hl with hl
      subst hl
      have h1' : r.active.any (fun a => a.id == e.id) = false := by simpa using h1
      have h2' : r.active.any (fun a => clnStyle a.scid == clnStyle e.scid) = false := by simpa using h2
      constructor
      · simp only [List.map_cons, List.nodup_cons]
        exact ⟨any_false_not_mem r.active (fun a => clnStyle a.scid) _ h2', h.1⟩
      · simp only [List.map_cons, List.nodup_cons]
        exact ⟨any_false_not_mem r.active (·.id) _ h1', h.2⟩

theorem remove_inv (r : Reg) (id : String) (h : RegInv r) : RegInv (removeActive r id) := by
  unfold removeActive RegInv
  exact ⟨(h.1.sublist ((List.filter_sublist).map _)), (h.2.sublist ((List.filter_sublist).map _))⟩

theorem apply_inv (r : Reg) (op : Op) (h : RegInv r) : RegInv (apply r op) := by
  cases op with
  | lock e =>
    simp only [apply]
    cases hl : lockSwap r e with
    | error _ => exact h
    | ok r' => exact lock_inv r e r' h hl
  | remove id => exact remove_inv r id h
  | request e =>
    simp only [apply, onRequest]
    split
    · exact h
    · cases hl : lockSwap r e with
      | error _ => exact h
      | ok r' =>
        have := lock_inv r e r' h hl
        exact this

/-- in every registry reachable by any sequence of local initiations, incoming requests, recoveries and
    removals, the active swaps have pairwise different channel ids AFTER normalising the separator, and
    pairwise different swap ids -/
theorem C10_invariant (ops : List Op) : RegInv (ops.foldl apply ⟨[], []⟩) := by
  have : ∀ (r : Reg), RegInv r → RegInv (ops.foldl apply r) := by
    induction ops with
    | nil => intro r h; exact h
    | cons op rest ih => intro r h; exact ih _ (apply_inv r op h)
  exact this _ ⟨List.nodup_nil, List.nodup_nil⟩

/-- a request for a channel that already has an active swap (in either spelling) is not registered and is
    answered with cancel -/
theorem C10_busy_channel_cancelled (r : Reg) (e a : Entry) (ha : a ∈ r.active)
    (hs : clnStyle a.scid = clnStyle e.scid) (hk : known r e.id = false) :
    onRequest r e = (r, .cancelBusy) := by
  unfold onRequest
  simp only [hk]
  have hid : r.active.any (fun x => x.id == e.id) = false := by
    unfold known at hk
    simp only [Bool.or_eq_false_iff] at hk
    exact hk.1
  have hbusy : r.active.any (fun x => clnStyle x.scid == clnStyle e.scid) = true :=
    List.any_eq_true.mpr ⟨a, ha, by simp [hs]⟩
  simp [lockSwap, hid, hbusy]

/-- both spellings of a channel id normalise to the same string -/
theorem C10_spellings (s : String) : clnStyle (lndStyle s) = clnStyle s := by
  unfold clnStyle lndStyle
  simp only [String.toList_ofList, List.map_map]
  congr 1
  apply List.map_congr_left
  intro c _
  by_cases h : c = 'x'
  · subst h; decide
  · simp [h]

end PsVerif.Props.C10
