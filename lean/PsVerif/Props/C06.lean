import PsVerif.Model.AbsC06
/-
C06  A taker never reveals its swap key once its claim payment may have gone out.

Model: the abstract engine (Model/Abs.lean) over the GENERATED tables of both taker roles with the
flag summaries of Model/AbsC06.lean.  `Reach` quantifies over every history: external events of every
kind in every order, crashes at every persisted point and inside every action, restarts, and a pending
HTLC resolving either way at any time.

Full statement (`C06_statement`): for the unrestricted environment.  It does NOT hold on this tree
(see Findings/C06.lean and known_findings.json: a pay attempt that errors while its HTLC is pending,
and a crash between the start of the payment and the next persist on a back-end that refuses to pay
a hash twice).  What is proved here (`C06_partial_*`): it holds for every history in which every pay
error is definitive and no crash falls between the start of a payment and the persist that follows.
-/
namespace PsVerif.Props.C06
open PsVerif.Gen PsVerif.Model.Abs PsVerif.Model.AbsC06

def benign : Backend := { errorWhilePending := false, crashInPay := false }
def hostile : Backend := { errorWhilePending := true, crashInPay := true }

def sysOut (b : Backend) := sys .SwapOutSender tableSwapOutSender b
def sysIn (b : Backend) := sys .SwapInReceiver tableSwapInReceiver b

/-- the property, per configuration -/
def holds (m : MC F) : Bool := good m && keepsClaiming m

/-- C06 at full strength: in every reachable configuration of both taker roles, for the hostile
    environment as well -/
def C06_statement : Prop :=
  (∀ m, Reach (sysOut hostile) m → holds m = true) ∧ (∀ m, Reach (sysIn hostile) m → holds m = true)

def certOut := reachCert (sysOut benign) 64
def certIn := reachCert (sysIn benign) 64

theorem certOut_closed : closedCert (sysOut benign) certOut = true := by decide +kernel
theorem certIn_closed : closedCert (sysIn benign) certIn = true := by decide +kernel
theorem certOut_good : allGood certOut holds = true := by decide +kernel
theorem certIn_good : allGood certIn holds = true := by decide +kernel

/-- swap-out initiator: for every history (any length, any order of events, crashes and restarts) the
    key is never out while the claim payment succeeded or is still outstanding, and once it succeeded the
    swap only ever tries to claim with the preimage -/
theorem C06_partial_swap_out_sender : ∀ m, Reach (sysOut benign) m → holds m = true :=
  invariant_of_cert _ certOut holds certOut_closed certOut_good

/-- swap-in responder: same -/
theorem C06_partial_swap_in_receiver : ∀ m, Reach (sysIn benign) m → holds m = true :=
  invariant_of_cert _ certIn holds certIn_closed certIn_good

/-- non-vacuity: the certificates contain configurations in which the payment succeeded, and ones in
    which the key was revealed -/
theorem C06_nonvacuous :
    (certOut.toList.any fun m => m.f.paid) = true ∧ (certOut.toList.any fun m => m.f.revealed) = true ∧
    (certIn.toList.any fun m => m.f.paid) = true ∧ (certIn.toList.any fun m => m.f.revealed) = true := by
  decide +kernel

end PsVerif.Props.C06
