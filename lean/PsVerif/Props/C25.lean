import PsVerif.Proofs.PolicySpec
/-
C25  Policy changes apply immediately and survive a reload.

Model: `Model/PolicyFile.lean` — the policy file as lines, the go-flags ini reader as `policy.create`
uses it (`classify`/`applyAct`: comments, blank lines, [section] headers, key = value with trimming and
simple quoting, options matched by `long` name or Go field name, list options cleared on first
assignment, bool/uint conversions), and the six runtime operations + `ReloadFile` of policy/policy.go,
each a textual edit of the file (`addLine`, `removeLine`/`sameOption`) followed by a reload.
`Proofs/PolicySpec.lean` gives the reader in closed form (`parse_meaning`).
Tie: slice `policy` (operation sequences on the real policy.Policy over a real file from generated
pre-existing contents, compared after every operation: answer class, every setting, the file bytes, and
whether a fresh CreateFromFile equals memory) and monitor C25 (judges the real code alone).

The theorems hold for states that are `Good`: a path is set, file and memory agree, and the file is in
the documented format (`Plain`: no [section] header; lists named `allowlisted_peers`/`suspicious_peers`
rather than by Go field name).  Hand-written spacing, quoting, comments, unknown keys, CR LF line ends,
a missing final newline and other options are all inside `Good`.  Outside `Plain` the property is
violated by the code: witnesses in Findings/C25.lean (known findings).
-/
namespace PsVerif.Props.C25
open PsVerif.Model.PolicyFile PsVerif.Proofs.PolicyLemmas PsVerif.Proofs.PolicySpec

/-- file and memory agree: a fresh load of the file (a restart, `ReloadFile`) yields the policy in memory -/
def Sync (s : St) : Prop := parse s.file = some s.mem

/-- the documented file format: no [section] header, and the two lists named by their option names
    (`allowlisted_peers`, `suspicious_peers`), not by the Go field names go-flags also accepts -/
def Plain (lines : List Str) : Prop :=
  ∀ as, classifyAll lines = some as →
    hasHeader as = false ∧ ∀ kv ∈ effKV as, kv.1 ≠ kAllowF ∧ kv.1 ≠ kSuspF

theorem opkey_not_alias (k : Str) (hk : OpKey k) : k ≠ kAllowF ∧ k ≠ kSuspF := by
  rcases hk with rfl | rfl | rfl <;> exact ⟨by decide, by decide⟩

theorem keyField_allow (k : Str) : keyField k = .allow ↔ (k = kAllow ∨ k = kAllowF) := by
  unfold keyField
  by_cases h : k = kAllow ∨ k = kAllowF
  · simp [h]
  · simp only [h, if_false, iff_false]
    repeat' split
    all_goals simp

theorem keyField_susp (k : Str) : keyField k = .susp → (k = kSusp ∨ k = kSuspF) := by
  unfold keyField
  intro h
  by_cases h1 : k = kAllow ∨ k = kAllowF
  · simp [h1] at h
  · simp only [h1, if_false] at h
    by_cases h2 : k = kSusp ∨ k = kSuspF
    · exact h2
    · simp only [h2, if_false] at h
      repeat' (split at h)
      all_goals simp at h

theorem meaning_some (lines : List Str) (p : Policy) (h : meaning lines = some p) :
    ∃ as, classifyAll lines = some as ∧ (effKV as).all okKV = true ∧ p = (effKV as).foldl specStep Policy.default := by
  unfold meaning at h
  cases hc : classifyAll lines with
  | none => simp [hc] at h
  | some as =>
    simp only [hc] at h
    cases hok : (effKV as).all okKV
    · simp [hok] at h
    · simp only [hok, if_true, Option.some.injEq] at h
      exact ⟨as, rfl, hok, h.symm⟩

/-- appending the line an operation writes -/
theorem meaning_add (lines : List Str) (k v : Str) (p : Policy) (hk : OpKey k) (hv : Clean v)
    (hok : okKV (k, v) = true) (hm : meaning lines = some p) (hp : Plain lines) :
    meaning (lines ++ [k ++ '=' :: v]) = some (specStep p (k, v)) ∧ Plain (lines ++ [k ++ '=' :: v]) := by
  obtain ⟨as, hc, hall, hpe⟩ := meaning_some lines p hm
  have hcl := classifyAll_append lines _ as _ hc (classify_canon k v hk hv)
  have hh := (hp as hc).1
  constructor
  · unfold meaning
    rw [hcl]
    simp only [effKV_append_kv as k v hh, List.all_append, hall, List.all_cons, hok, List.all_nil,
      Bool.and_self, if_true, List.foldl_append, List.foldl_cons, List.foldl_nil, hpe]
  · intro as' has'
    rw [hcl] at has'
    injection has' with has'
    subst has'
    rw [hasHeader_append_kv, effKV_append_kv as k v hh]
    refine ⟨hh, ?_⟩
    intro kv hkv
    rcases List.mem_append.mp hkv with h | h
    · exact (hp as hc).2 kv h
    · simp at h
      subst h
      exact opkey_not_alias k hk

/-- removing an option the way `removeLineFromFile` does -/
theorem meaning_remove (lines : List Str) (k v : Str) (p : Policy) (hk : OpKey k) (hv : Clean v)
    (hm : meaning lines = some p) (hp : Plain lines) :
    ∃ as, classifyAll lines = some as ∧ p = (effKV as).foldl specStep Policy.default ∧
      meaning ((lines.map stripCR).filter (fun l => !sameOption l k v))
        = some (((effKV as).filter (fun kv => !decide (kv = (k, v)))).foldl specStep Policy.default) ∧
      Plain ((lines.map stripCR).filter (fun l => !sameOption l k v)) := by
  obtain ⟨as, hc, hall, hpe⟩ := meaning_some lines p hm
  have hcl := classifyAll_remove lines k v as hk hv hc
  refine ⟨as, hc, hpe, ?_, ?_⟩
  · unfold meaning
    rw [hcl]
    simp only [effKV_remove]
    have : ((effKV as).filter (fun kv => !decide (kv = (k, v)))).all okKV = true := by
      rw [List.all_eq_true] at *
      intro x hx
      exact hall x (List.mem_filter.mp hx).1
    simp [this]
  · intro as' has'
    rw [hcl] at has'
    injection has' with has'
    subst has'
    rw [hasHeader_remove, effKV_remove]
    refine ⟨(hp as hc).1, ?_⟩
    intro kv hkv
    exact (hp as hc).2 kv (List.mem_filter.mp hkv).1

/-! ## the operations -/

/-- the policy an operator expects after an operation (the specification) -/
def specOp (m : Policy) : Op → Policy × R
  | .addAllow pk => if m.allow.contains pk then (m, .errDup) else if !validPubkey pk then (m, .errInvalid)
      else ({ m with allow := m.allow ++ [pk] }, .ok)
  | .addSusp pk => if m.susp.contains pk then (m, .errDup) else if !validPubkey pk then (m, .errInvalid)
      else ({ m with susp := m.susp ++ [pk] }, .ok)
  | .removeAllow pk => if !validPubkey pk then (m, .errInvalid) else if !m.allow.contains pk then (m, .errAbsent)
      else ({ m with allow := m.allow.filter (· ≠ pk) }, .ok)
  | .removeSusp pk => if !validPubkey pk then (m, .errInvalid) else if !m.susp.contains pk then (m, .errAbsent)
      else ({ m with susp := m.susp.filter (· ≠ pk) }, .ok)
  | .setNew b => ({ m with allowNew := b }, .ok)
  | .reload => (m, .ok)

/-- what holds between operations: a path is set, file and memory agree, the file is in the documented format -/
structure Good (s : St) : Prop where
  path : s.hasPath = true
  sync : Sync s
  plain : Plain s.file.lines

theorem kf_allow : keyField kAllow = .allow := by decide
theorem kf_susp : keyField kSusp = .susp := by decide
theorem kf_new : keyField kNew = .new := by decide

theorem parse_eq (f : File) : parse f = meaning f.lines := parse_meaning f

theorem add_list (s : St) (k pk : Str) (hk : OpKey k) (hkf : keyField k = .allow ∨ keyField k = .susp)
    (hg : Good s) (hv : validPubkey pk = true) :
    ∃ s', reload { s with file := addLine s.file (k ++ '=' :: pk) } = (s', .ok) ∧
      s'.mem = specStep s.mem (k, pk) ∧ Good s' := by
  have hok : okKV (k, pk) = true := by
    unfold okKV; rcases hkf with h | h <;> simp [h]
  have hm : meaning s.file.lines = some s.mem := by rw [← parse_eq]; exact hg.sync
  obtain ⟨h1, h2⟩ := meaning_add s.file.lines k pk s.mem hk (clean_of_valid pk hv) hok hm hg.plain
  refine ⟨{ s with file := addLine s.file (k ++ '=' :: pk), mem := specStep s.mem (k, pk) }, ?_, rfl, ⟨hg.path, ?_, h2⟩⟩
  · unfold reload
    simp only [hg.path, Bool.not_true, Bool.false_eq_true, if_false, parse_eq, addLine, h1]
  · unfold Sync; simp only [parse_eq, addLine, h1]

theorem C25_addAllow (s : St) (pk : Str) (hg : Good s) :
    (step s (.addAllow pk)).2 = (specOp s.mem (.addAllow pk)).2 ∧
    (step s (.addAllow pk)).1.mem = (specOp s.mem (.addAllow pk)).1 ∧
    ((step s (.addAllow pk)).2 ≠ .ok → (step s (.addAllow pk)).1 = s) ∧ Good (step s (.addAllow pk)).1 := by
  by_cases h1 : s.mem.allow.contains pk = true
  · have e1 : step s (.addAllow pk) = (s, .errDup) := by simp only [step, addAllow, h1, if_true]
    have e2 : specOp s.mem (.addAllow pk) = (s.mem, .errDup) := by simp only [specOp, h1, if_true]
    rw [e1, e2]; exact ⟨rfl, rfl, fun _ => rfl, hg⟩
  · by_cases h2 : validPubkey pk = true
    · obtain ⟨s', r1, r2, r3⟩ := add_list s kAllow pk (Or.inl rfl) (Or.inl kf_allow) hg h2
      have e1 : step s (.addAllow pk) = (s', .ok) := by
        simp only [step, addAllow, h1, hg.path, h2, Bool.not_true, Bool.false_eq_true, if_false, allowLine]
        rw [hg.path] at r1
        exact r1
      have e2 : specOp s.mem (.addAllow pk) = ({ s.mem with allow := s.mem.allow ++ [pk] }, .ok) := by
        simp only [specOp, h1, h2, Bool.not_true, Bool.false_eq_true, if_false]
      rw [e1, e2]
      refine ⟨rfl, ?_, fun h => absurd rfl h, r3⟩
      simp [r2, specStep, kf_allow]
    · have e1 : step s (.addAllow pk) = (s, .errInvalid) := by
        simp only [step, addAllow, h1, hg.path, h2, Bool.not_true, Bool.not_false, Bool.false_eq_true, if_false, if_true]
      have e2 : specOp s.mem (.addAllow pk) = (s.mem, .errInvalid) := by
        simp only [specOp, h1, h2, Bool.not_false, Bool.false_eq_true, if_false, if_true]
      rw [e1, e2]; exact ⟨rfl, rfl, fun _ => rfl, hg⟩

theorem C25_addSusp (s : St) (pk : Str) (hg : Good s) :
    (step s (.addSusp pk)).2 = (specOp s.mem (.addSusp pk)).2 ∧
    (step s (.addSusp pk)).1.mem = (specOp s.mem (.addSusp pk)).1 ∧
    ((step s (.addSusp pk)).2 ≠ .ok → (step s (.addSusp pk)).1 = s) ∧ Good (step s (.addSusp pk)).1 := by
  by_cases h1 : s.mem.susp.contains pk = true
  · have e1 : step s (.addSusp pk) = (s, .errDup) := by simp only [step, addSusp, h1, if_true]
    have e2 : specOp s.mem (.addSusp pk) = (s.mem, .errDup) := by simp only [specOp, h1, if_true]
    rw [e1, e2]; exact ⟨rfl, rfl, fun _ => rfl, hg⟩
  · by_cases h2 : validPubkey pk = true
    · obtain ⟨s', r1, r2, r3⟩ := add_list s kSusp pk (Or.inr (Or.inl rfl)) (Or.inr kf_susp) hg h2
      have e1 : step s (.addSusp pk) = (s', .ok) := by
        simp only [step, addSusp, h1, hg.path, h2, Bool.not_true, Bool.false_eq_true, if_false, suspLine]
        rw [hg.path] at r1
        exact r1
      have e2 : specOp s.mem (.addSusp pk) = ({ s.mem with susp := s.mem.susp ++ [pk] }, .ok) := by
        simp only [specOp, h1, h2, Bool.not_true, Bool.false_eq_true, if_false]
      rw [e1, e2]
      refine ⟨rfl, ?_, fun h => absurd rfl h, r3⟩
      simp [r2, specStep, kf_susp]
    · have e1 : step s (.addSusp pk) = (s, .errInvalid) := by
        simp only [step, addSusp, h1, hg.path, h2, Bool.not_true, Bool.not_false, Bool.false_eq_true, if_false, if_true]
      have e2 : specOp s.mem (.addSusp pk) = (s.mem, .errInvalid) := by
        simp only [specOp, h1, h2, Bool.not_false, Bool.false_eq_true, if_false, if_true]
      rw [e1, e2]; exact ⟨rfl, rfl, fun _ => rfl, hg⟩

theorem default_fields (E : List (Str × Str)) :
    E.foldl specStep Policy.default =
      ⟨vals .allow E, vals .susp E, lastBool .acc false E, lastUint .min 100000000 E, lastUint .res 0 E, lastBool .new true E⟩ := by
  rw [spec_fields]; simp [Policy.default]

theorem remove_allow (s : St) (pk : Str) (hg : Good s) (hv : validPubkey pk = true) :
    ∃ s', reload { s with file := removeLine s.file kAllow pk } = (s', .ok) ∧
      s'.mem = { s.mem with allow := s.mem.allow.filter (· ≠ pk) } ∧ Good s' := by
  have hm : meaning s.file.lines = some s.mem := by rw [← parse_eq]; exact hg.sync
  obtain ⟨as, hc, hpe, h1, h2⟩ := meaning_remove s.file.lines kAllow pk s.mem (Or.inl rfl) (clean_of_valid pk hv) hm hg.plain
  have hone : ∀ kv ∈ effKV as, keyField kv.1 = keyField kAllow → kv.1 = kAllow := by
    intro kv hkv hf
    rw [kf_allow] at hf
    rcases (keyField_allow kv.1).mp hf with h | h
    · exact h
    · exact absurd h ((hg.plain as hc).2 kv hkv).1
  have hmem : ((effKV as).filter (fun kv => !decide (kv = (kAllow, pk)))).foldl specStep Policy.default
      = { s.mem with allow := s.mem.allow.filter (· ≠ pk) } := by
    rw [hpe, default_fields, default_fields]
    have := vals_filter_same kAllow pk (effKV as) hone
    rw [kf_allow] at this
    rw [this, vals_filter_other .susp kAllow pk _ (by rw [kf_allow]; decide),
      lastBool_filter_other .acc _ kAllow pk _ (by rw [kf_allow]; decide),
      lastBool_filter_other .new _ kAllow pk _ (by rw [kf_allow]; decide),
      lastUint_filter_other .min _ kAllow pk _ (by rw [kf_allow]; decide),
      lastUint_filter_other .res _ kAllow pk _ (by rw [kf_allow]; decide)]
  rw [hmem] at h1
  refine ⟨{ s with file := removeLine s.file kAllow pk, mem := { s.mem with allow := s.mem.allow.filter (· ≠ pk) } }, ?_, rfl, ⟨hg.path, ?_, h2⟩⟩
  · unfold reload
    simp only [hg.path, Bool.not_true, Bool.false_eq_true, if_false, parse_eq, removeLine, h1]
  · unfold Sync; simp only [parse_eq, removeLine, h1]

theorem remove_susp (s : St) (pk : Str) (hg : Good s) (hv : validPubkey pk = true) :
    ∃ s', reload { s with file := removeLine s.file kSusp pk } = (s', .ok) ∧
      s'.mem = { s.mem with susp := s.mem.susp.filter (· ≠ pk) } ∧ Good s' := by
  have hm : meaning s.file.lines = some s.mem := by rw [← parse_eq]; exact hg.sync
  obtain ⟨as, hc, hpe, h1, h2⟩ := meaning_remove s.file.lines kSusp pk s.mem (Or.inr (Or.inl rfl)) (clean_of_valid pk hv) hm hg.plain
  have hone : ∀ kv ∈ effKV as, keyField kv.1 = keyField kSusp → kv.1 = kSusp := by
    intro kv hkv hf
    rw [kf_susp] at hf
    rcases keyField_susp kv.1 hf with h | h
    · exact h
    · exact absurd h ((hg.plain as hc).2 kv hkv).2
  have hmem : ((effKV as).filter (fun kv => !decide (kv = (kSusp, pk)))).foldl specStep Policy.default
      = { s.mem with susp := s.mem.susp.filter (· ≠ pk) } := by
    rw [hpe, default_fields, default_fields]
    have := vals_filter_same kSusp pk (effKV as) hone
    rw [kf_susp] at this
    rw [this, vals_filter_other .allow kSusp pk _ (by rw [kf_susp]; decide),
      lastBool_filter_other .acc _ kSusp pk _ (by rw [kf_susp]; decide),
      lastBool_filter_other .new _ kSusp pk _ (by rw [kf_susp]; decide),
      lastUint_filter_other .min _ kSusp pk _ (by rw [kf_susp]; decide),
      lastUint_filter_other .res _ kSusp pk _ (by rw [kf_susp]; decide)]
  rw [hmem] at h1
  refine ⟨{ s with file := removeLine s.file kSusp pk, mem := { s.mem with susp := s.mem.susp.filter (· ≠ pk) } }, ?_, rfl, ⟨hg.path, ?_, h2⟩⟩
  · unfold reload
    simp only [hg.path, Bool.not_true, Bool.false_eq_true, if_false, parse_eq, removeLine, h1]
  · unfold Sync; simp only [parse_eq, removeLine, h1]

theorem parseBool_boolStr (b : Bool) : parseBool (boolStr b) = some b := by cases b <;> decide

theorem set_new (s : St) (b : Bool) (hg : Good s) :
    ∃ s', reload { s with file := addLine (removeLine s.file kNew (boolStr (!b))) (newLine b) } = (s', .ok) ∧
      s'.mem = { s.mem with allowNew := b } ∧ Good s' := by
  have hm : meaning s.file.lines = some s.mem := by rw [← parse_eq]; exact hg.sync
  obtain ⟨as, hc, hpe, h1, h2⟩ := meaning_remove s.file.lines kNew (boolStr (!b)) s.mem (Or.inr (Or.inr rfl)) (clean_bool _) hm hg.plain
  have hok : okKV (kNew, boolStr b) = true := by simp [okKV, kf_new, parseBool_boolStr]
  obtain ⟨h3, h4⟩ := meaning_add _ kNew (boolStr b) _ (Or.inr (Or.inr rfl)) (clean_bool b) hok h1 h2
  have hmem : specStep (((effKV as).filter (fun kv => !decide (kv = (kNew, boolStr (!b))))).foldl specStep Policy.default) (kNew, boolStr b)
      = { s.mem with allowNew := b } := by
    rw [hpe, default_fields, default_fields]
    rw [vals_filter_other .allow kNew _ _ (by rw [kf_new]; decide),
      vals_filter_other .susp kNew _ _ (by rw [kf_new]; decide),
      lastBool_filter_other .acc _ kNew _ _ (by rw [kf_new]; decide),
      lastUint_filter_other .min _ kNew _ _ (by rw [kf_new]; decide),
      lastUint_filter_other .res _ kNew _ _ (by rw [kf_new]; decide)]
    simp [specStep, kf_new, parseBool_boolStr]
  rw [hmem] at h3
  refine ⟨{ s with file := addLine (removeLine s.file kNew (boolStr (!b))) (newLine b), mem := { s.mem with allowNew := b } }, ?_, rfl, ⟨hg.path, ?_, h4⟩⟩
  · unfold reload
    simp only [hg.path, Bool.not_true, Bool.false_eq_true, if_false, parse_eq, addLine, removeLine, newLine, h3]
  · unfold Sync; simp only [parse_eq, addLine, removeLine, newLine, h3]

theorem C25_removeAllow (s : St) (pk : Str) (hg : Good s) :
    (step s (.removeAllow pk)).2 = (specOp s.mem (.removeAllow pk)).2 ∧
    (step s (.removeAllow pk)).1.mem = (specOp s.mem (.removeAllow pk)).1 ∧
    ((step s (.removeAllow pk)).2 ≠ .ok → (step s (.removeAllow pk)).1 = s) ∧ Good (step s (.removeAllow pk)).1 := by
  by_cases h2 : validPubkey pk = true
  · by_cases h1 : s.mem.allow.contains pk = true
    · obtain ⟨s', r1, r2, r3⟩ := remove_allow s pk hg h2
      have e1 : step s (.removeAllow pk) = (s', .ok) := by
        simp only [step, removeAllow, h1, hg.path, h2, Bool.not_true, Bool.false_eq_true, if_false]
        rw [hg.path] at r1
        exact r1
      have e2 : specOp s.mem (.removeAllow pk) = ({ s.mem with allow := s.mem.allow.filter (· ≠ pk) }, .ok) := by
        simp only [specOp, h1, h2, Bool.not_true, Bool.false_eq_true, if_false]
      rw [e1, e2]
      exact ⟨rfl, r2, fun h => absurd rfl h, r3⟩
    · have e1 : step s (.removeAllow pk) = (s, .errAbsent) := by
        simp only [step, removeAllow, h1, h2, Bool.not_true, Bool.not_false, Bool.false_eq_true, if_false, if_true]
      have e2 : specOp s.mem (.removeAllow pk) = (s.mem, .errAbsent) := by
        simp only [specOp, h1, h2, Bool.not_true, Bool.not_false, Bool.false_eq_true, if_false, if_true]
      rw [e1, e2]; exact ⟨rfl, rfl, fun _ => rfl, hg⟩
  · have e1 : step s (.removeAllow pk) = (s, .errInvalid) := by
      simp only [step, removeAllow, h2, Bool.not_false, if_true]
    have e2 : specOp s.mem (.removeAllow pk) = (s.mem, .errInvalid) := by
      simp only [specOp, h2, Bool.not_false, if_true]
    rw [e1, e2]; exact ⟨rfl, rfl, fun _ => rfl, hg⟩

theorem C25_removeSusp (s : St) (pk : Str) (hg : Good s) :
    (step s (.removeSusp pk)).2 = (specOp s.mem (.removeSusp pk)).2 ∧
    (step s (.removeSusp pk)).1.mem = (specOp s.mem (.removeSusp pk)).1 ∧
    ((step s (.removeSusp pk)).2 ≠ .ok → (step s (.removeSusp pk)).1 = s) ∧ Good (step s (.removeSusp pk)).1 := by
  by_cases h2 : validPubkey pk = true
  · by_cases h1 : s.mem.susp.contains pk = true
    · obtain ⟨s', r1, r2, r3⟩ := remove_susp s pk hg h2
      have e1 : step s (.removeSusp pk) = (s', .ok) := by
        simp only [step, removeSusp, h1, hg.path, h2, Bool.not_true, Bool.false_eq_true, if_false]
        rw [hg.path] at r1
        exact r1
      have e2 : specOp s.mem (.removeSusp pk) = ({ s.mem with susp := s.mem.susp.filter (· ≠ pk) }, .ok) := by
        simp only [specOp, h1, h2, Bool.not_true, Bool.false_eq_true, if_false]
      rw [e1, e2]
      exact ⟨rfl, r2, fun h => absurd rfl h, r3⟩
    · have e1 : step s (.removeSusp pk) = (s, .errAbsent) := by
        simp only [step, removeSusp, h1, h2, Bool.not_true, Bool.not_false, Bool.false_eq_true, if_false, if_true]
      have e2 : specOp s.mem (.removeSusp pk) = (s.mem, .errAbsent) := by
        simp only [specOp, h1, h2, Bool.not_true, Bool.not_false, Bool.false_eq_true, if_false, if_true]
      rw [e1, e2]; exact ⟨rfl, rfl, fun _ => rfl, hg⟩
  · have e1 : step s (.removeSusp pk) = (s, .errInvalid) := by
      simp only [step, removeSusp, h2, Bool.not_false, if_true]
    have e2 : specOp s.mem (.removeSusp pk) = (s.mem, .errInvalid) := by
      simp only [specOp, h2, Bool.not_false, if_true]
    rw [e1, e2]; exact ⟨rfl, rfl, fun _ => rfl, hg⟩

theorem C25_setNew (s : St) (b : Bool) (hg : Good s) :
    (step s (.setNew b)).2 = (specOp s.mem (.setNew b)).2 ∧
    (step s (.setNew b)).1.mem = (specOp s.mem (.setNew b)).1 ∧
    ((step s (.setNew b)).2 ≠ .ok → (step s (.setNew b)).1 = s) ∧ Good (step s (.setNew b)).1 := by
  by_cases h1 : s.mem.allowNew = b
  · have e1 : step s (.setNew b) = (s, .ok) := by simp only [step, setNew, h1, if_true]
    rw [e1]
    refine ⟨rfl, ?_, fun h => absurd rfl h, hg⟩
    simp only [specOp]
    rw [← h1]
  · obtain ⟨s', r1, r2, r3⟩ := set_new s b hg
    have e1 : step s (.setNew b) = (s', .ok) := by
      simp only [step, setNew, h1, hg.path, Bool.not_true, Bool.false_eq_true, if_false]
      rw [hg.path] at r1
      exact r1
    rw [e1]
    exact ⟨rfl, r2, fun h => absurd rfl h, r3⟩

theorem C25_reload (s : St) (hg : Good s) : step s .reload = (s, .ok) := by
  have h1 : parse s.file = some s.mem := hg.sync
  have h2 := hg.path
  obtain ⟨f, m, hp⟩ := s
  simp only at h1 h2
  subst h2
  simp only [step, reload, Bool.not_true, Bool.false_eq_true, if_false, h1]

/-- **C25, one operation**: from a good state every operation answers and changes the policy in memory
    exactly as the specification says, a rejected operation changes nothing (memory or file), and the
    resulting state is good again (in particular file and memory agree: a reload or restart yields the
    same effective policy) -/
theorem C25_step (s : St) (op : Op) (hg : Good s) :
    (step s op).2 = (specOp s.mem op).2 ∧ (step s op).1.mem = (specOp s.mem op).1 ∧
    ((step s op).2 ≠ .ok → (step s op).1 = s) ∧ Good (step s op).1 := by
  cases op with
  | addAllow pk => exact C25_addAllow s pk hg
  | addSusp pk => exact C25_addSusp s pk hg
  | removeAllow pk => exact C25_removeAllow s pk hg
  | removeSusp pk => exact C25_removeSusp s pk hg
  | setNew b => exact C25_setNew s b hg
  | reload => rw [C25_reload s hg]; exact ⟨rfl, rfl, fun _ => rfl, hg⟩

/-- running operation sequences: the implementation model and the specification side by side -/
def run (s : St) : List Op → St × List R
  | [] => (s, [])
  | op :: r => ((run (step s op).1 r).1, (step s op).2 :: (run (step s op).1 r).2)
def specRun (m : Policy) : List Op → Policy × List R
  | [] => (m, [])
  | op :: r => ((specRun (specOp m op).1 r).1, (specOp m op).2 :: (specRun (specOp m op).1 r).2)

/-- **C25, every history**: for all sequences of operations (including reloads, invalid pubkeys,
    duplicates) from a good state, every answer and the final policy in memory are the specification's,
    and file and memory agree at the end (hence after every prefix) -/
theorem C25_run (s : St) (ops : List Op) (hg : Good s) :
    (run s ops).2 = (specRun s.mem ops).2 ∧ (run s ops).1.mem = (specRun s.mem ops).1 ∧ Good (run s ops).1 := by
  induction ops generalizing s with
  | nil => exact ⟨rfl, rfl, hg⟩
  | cons op r ih =>
    obtain ⟨h1, h2, _, h4⟩ := C25_step s op hg
    obtain ⟨i1, i2, i3⟩ := ih (step s op).1 h4
    simp only [run, specRun]
    rw [← h2]
    exact ⟨by rw [h1, i1], i2, i3⟩

/-- the next request sees the effect -/
theorem C25_next_request_add (s : St) (pk : Str) (hg : Good s) (h : (step s (.addAllow pk)).2 = .ok) :
    isPeerAllowed (step s (.addAllow pk)).1.mem pk = true := by
  obtain ⟨h1, h2, _, _⟩ := C25_step s (.addAllow pk) hg
  rw [h1] at h
  rw [h2]
  by_cases c1 : pk ∈ s.mem.allow
  · simp [specOp, c1] at h
  · by_cases c2 : validPubkey pk = true
    · simp [specOp, c1, c2, isPeerAllowed]
    · simp [specOp, c1, c2] at h

theorem C25_next_request_remove (s : St) (pk : Str) (hg : Good s) (h : (step s (.removeAllow pk)).2 = .ok) :
    isPeerAllowed (step s (.removeAllow pk)).1.mem pk = (step s (.removeAllow pk)).1.mem.acceptAll := by
  obtain ⟨h1, h2, _, _⟩ := C25_step s (.removeAllow pk) hg
  rw [h1] at h
  rw [h2]
  by_cases c2 : validPubkey pk = true
  · by_cases c1 : pk ∈ s.mem.allow
    · simp [specOp, c1, c2, isPeerAllowed]
    · simp [specOp, c1, c2] at h
  · simp [specOp, c2] at h

theorem C25_next_request_new (s : St) (b : Bool) (hg : Good s) :
    (step s (.setNew b)).2 = .ok ∧ (step s (.setNew b)).1.mem.allowNew = b := by
  obtain ⟨h1, h2, _, _⟩ := C25_step s (.setNew b) hg
  rw [h1, h2]
  exact ⟨rfl, rfl⟩

/-- without a policy file nothing is ever changed -/
theorem C25_nopath (s : St) (op : Op) (h : s.hasPath = false) : (step s op).1 = s := by
  cases op <;> simp only [step, addAllow, addSusp, removeAllow, removeSusp, setNew, reload, h,
    Bool.not_false, if_true] <;> repeat' split
  all_goals rfl

/-- a decidable form of `Plain` and of `Good`, for concrete files -/
def plainB (lines : List Str) : Bool :=
  match classifyAll lines with
  | none => true
  | some as => !hasHeader as && (effKV as).all (fun kv => decide (kv.1 ≠ kAllowF) && decide (kv.1 ≠ kSuspF))

theorem plain_of_plainB (lines : List Str) (h : plainB lines = true) : Plain lines := by
  intro as has
  unfold plainB at h
  rw [has] at h
  simp only [Bool.and_eq_true, Bool.not_eq_true', List.all_eq_true, decide_eq_true_eq] at h
  exact ⟨h.1, fun kv hkv => h.2 kv hkv⟩

def goodB (s : St) : Bool := s.hasPath && decide (parse s.file = some s.mem) && plainB s.file.lines

theorem good_of_goodB (s : St) (h : goodB s = true) : Good s := by
  unfold goodB at h
  simp only [Bool.and_eq_true, decide_eq_true_eq] at h
  exact ⟨h.1.1, h.1.2, plain_of_plainB _ h.2⟩

/-- a freshly created (empty) policy file is a good state -/
theorem C25_fresh_good : Good ⟨⟨[], false⟩, Policy.default, true⟩ := good_of_goodB _ (by decide)

-- non-vacuity: a hand-written file (comment, spaces around '=', CR at a line end) is a good state, and a
-- history on it behaves as specified
def pkA : Str := '0' :: '2' :: List.replicate 64 '1'
def pkB : Str := '0' :: '3' :: List.replicate 64 '2'
def demo : St :=
  ⟨⟨[['#', ' ', 'p'], allowLine pkA, kAcc ++ [' ', '=', ' '] ++ vFalse ++ ['\r'], [' '] ++ kSusp ++ [' ', '=', ' ', ' '] ++ pkB], false⟩,
   ⟨[pkA], [pkB], false, 100000000, 0, true⟩, true⟩
example : Good demo := good_of_goodB _ (by decide +kernel)
example : (run demo [.addAllow pkB, .addAllow pkB, .removeAllow pkA, .setNew false, .removeSusp pkB, .addSusp ['x'], .reload]).2
    = [.ok, .errDup, .ok, .ok, .ok, .errInvalid, .ok] := by decide +kernel
example : (run demo [.addAllow pkB, .removeAllow pkA, .setNew false, .removeSusp pkB]).1.mem
    = ⟨[pkB], [], false, 100000000, 0, false⟩ := by decide +kernel

end PsVerif.Props.C25
