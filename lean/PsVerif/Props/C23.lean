import PsVerif.Gen.Tables
import PsVerif.Gen.Msgs
/-
C23  Secrets leave the node only as the taker's per-swap key in coop_close.

Model: the GENERATED source facts `Gen.msgFields` / `Gen.sendPayloads` (go/ast over swap/*.go on every
run): every message literal the package builds, field by field, with the source expression and the verdict
of the extractor's taint analysis (secret sources: PrivkeyBytes, GetPrivkey() not followed by .PubKey(),
anything named *preimage* / *privkey*, GetPreimage(); local variables assigned from tainted expressions
are tainted, to a fixpoint), and the generated state tables `Gen.table`.
The theorems are the expectations about those facts; the dynamic side is monitor C23, which scans every
byte the real machines hand to the messenger, in every scenario family, for every secret the node holds.
What the technique cannot carry: the taint rules are syntactic (soundness of the extractor is trusted, not
proved), and the contents of invoices are produced by the Lightning node (a BOLT11 invoice carries the
payment hash, not the preimage — outside the model).
-/
namespace PsVerif.Props.C23
open PsVerif.Gen

/-- the only message fields fed from secret material: the two invoice strings (built by the Lightning node
    from a preimage: they carry its hash) and the private key in the coop_close built by
    TakerSendPrivkeyAction -/
theorem C23_secret_fields :
    (msgFields.filter (·.secret)).map (fun f => (f.fn, f.msg, f.field)) =
      [("CreateAndBroadcastOpeningTransaction.Execute", "OpeningTxBroadcastedMessage", "Payreq"),
       ("CreateSwapOutFromRequestAction.Execute", "SwapOutAgreementMessage", "Payreq"),
       ("TakerSendPrivkeyAction.Execute", "CoopCloseMessage", "Privkey")] := by decide

/-- no message other than coop_close has a key-carrying field at all, and coop_close is built in exactly
    one place -/
theorem C23_privkey_only_in_coop_close :
    (msgFields.filter (fun f => f.field == "Privkey" || f.msg == "CoopCloseMessage")).all
      (fun f => f.fn == "TakerSendPrivkeyAction.Execute" && f.msg == "CoopCloseMessage") = true := by decide

/-- every pubkey field is the public half of the swap key -/
theorem C23_pubkeys_are_public :
    (msgFields.filter (·.field == "Pubkey")).all
      (fun f => !f.secret && (f.expr == "hex.EncodeToString(swap.GetPrivkey().PubKey().SerializeCompressed())"
        || f.expr == "hex.EncodeToString(swap.Data.GetPrivkey().PubKey().SerializeCompressed())")) = true := by decide

/-- whatever reaches the messenger is a marshalled message literal (`msgBytes`) or the stored next message -/
theorem C23_payloads :
    sendPayloads.all (fun p => p.2 == "msgBytes" || p.2 == "swap.NextMessage") = true := by decide

/-- only the two taker machines ever run TakerSendPrivkeyAction, each in exactly one state, reached … -/
theorem C23_only_takers_reveal :
    ∀ r : Role, (table r).any (fun row => row.acts.contains .TakerSendPrivkeyAction) = true →
      r = .SwapOutSender ∨ r = .SwapInReceiver := by
  intro r; cases r <;> decide

theorem C23_reveal_states :
    ((table .SwapOutSender).filter (fun row => row.acts.contains .TakerSendPrivkeyAction)).map (·.st) = [.State_SwapOutSender_SendPrivkey]
    ∧ ((table .SwapInReceiver).filter (fun row => row.acts.contains .TakerSendPrivkeyAction)).map (·.st) = [.State_SwapInReceiver_SendPrivkey] := by
  decide

/-- … only from the states before the claim payment succeeded (waiting for the opening transaction, its
    confirmation, and the validate-and-pay state): never from ClaimSwap, i.e. never after the preimage was
    obtained (C06) -/
theorem C23_edges_into_reveal :
    ((table .SwapOutSender).filter (fun row => row.evs.any (·.2 == .State_SwapOutSender_SendPrivkey))).map (·.st)
      = [.State_SwapOutSender_AwaitTxBroadcastedMessage, .State_SwapOutSender_AwaitTxConfirmation,
         .State_SwapOutSender_ValidateTxAndPayClaimInvoice]
    ∧ ((table .SwapInReceiver).filter (fun row => row.evs.any (·.2 == .State_SwapInReceiver_SendPrivkey))).map (·.st)
      = [.State_SwapInReceiver_AwaitTxBroadcastedMessage, .State_SwapInReceiver_AwaitTxConfirmation,
         .State_SwapInReceiver_ValidateTxAndPayClaimInvoice] := by
  decide

end PsVerif.Props.C23
