import PsVerif.Model.Version
/-
C30  Fee rates respect the node's floor; version gates are ordered.

Model: `feeRate` (rate selection of onchain.(*BitcoinOnChain).GetFee), `feeFloor`
(onchain.DetermineFeeFloor), `compareVersions` (version.CompareVersionStrings).
Tie: differential slices `fee`, `version`; floors come from Gen/Consts.
-/
namespace PsVerif.Props.C30
open PsVerif PsVerif.Model

/-- the rate used is never below the floor, whatever the estimator answers -/
theorem C30_rate_ge_floor (est : Option Int) (fb fl : Int) : feeRate est fb fl ≥ fl := by
  unfold feeRate
  split <;> omega

/-- estimator error or a zero estimate: the configured fallback (raised to the floor) is used -/
theorem C30_rate_fallback (est : Option Int) (fb fl : Int) (h : est = none ∨ est = some 0) :
    feeRate est fb fl = max fb fl := by
  have : feeEstimate est fb = fb := by rcases h with h | h <;> subst h <;> simp [feeEstimate]
  unfold feeRate
  rw [this]
  split <;> omega

/-- a non-zero estimate is used as is, raised to the floor -/
theorem C30_rate_estimate (e fb fl : Int) (h : e ≠ 0) : feeRate (some e) fb fl = max e fl := by
  have : feeEstimate (some e) fb = e := by simp [feeEstimate, h]
  unfold feeRate
  rw [this]
  split <;> omega

/-- the floor is one of the two generated constants … -/
theorem C30_floor_two_values (s : String) :
    feeFloor s = Gen.modernFeeFloor ∨ feeFloor s = Gen.legacyFeeFloor := by
  unfold feeFloor
  split
  · right; rfl
  · split <;> simp

/-- … namely 25 exactly when the parsed (major, minor) is at least (29, 2), otherwise 253;
    strings without a version use the legacy floor -/
theorem C30_floor_gate (s : String) :
    feeFloor s = 25 ↔ ∃ major minor, bitcoinVersion s = some (major, minor) ∧
      (major > 29 ∨ (major = 29 ∧ minor ≥ 2)) := by
  unfold feeFloor
  split
  · rename_i h; simp [h, Gen.legacyFeeFloor]
  · rename_i major minor h
    by_cases hc : major > 29 ∨ (major = 29 ∧ minor ≥ 2)
    · simp only [hc, if_true, Gen.modernFeeFloor, true_iff]
      exact ⟨major, minor, h, hc⟩
    · simp only [hc, if_false, Gen.legacyFeeFloor]
      constructor
      · intro h'; cases h'
      · rintro ⟨a, b, hab, hh⟩
        rw [h] at hab
        injection hab with hab
        injection hab with h1 h2
        subst h1; subst h2
        exact absurd hh hc

theorem C30_floor_values : Gen.modernFeeFloor = 25 ∧ Gen.legacyFeeFloor = 253 := by decide

/-! ### version comparison -/

theorem geLex_refl (l : List Nat) : geLex l l = true := by
  induction l with
  | nil => rfl
  | cons a as ih => simp [geLex, ih]

theorem convertBoth_self (l : List (List Char)) (xs ys : List Nat)
    (h : convertBoth l l = some (xs, ys)) : xs = ys := by
  induction l generalizing xs ys with
  | nil => simp [convertBoth] at h; rw [h.1, h.2]
  | cons a as ih =>
    simp only [convertBoth] at h
    split at h
    · cases h
    · simp only [*] at h
      cases hc : convertBoth as as with
      | none => simp [hc] at h
      | some p =>
        obtain ⟨x1, y1⟩ := p
        simp [hc] at h
        have := ih x1 y1 hc
        rw [← h.1, ← h.2, this]

/-- reflexive: a version is at least itself whenever it converts at all -/
theorem C30_version_refl (a : String) (r : Bool) (h : compareVersions a a = some r) : r = true := by
  unfold compareVersions at h
  simp only [Option.map_eq_some_iff] at h
  obtain ⟨⟨xs, ys⟩, hc, hr⟩ := h
  have := convertBoth_self _ xs ys hc
  subst this
  simp [geLex_refl] at hr
  exact hr

theorem geLex_total (xs ys : List Nat) : geLex xs ys = true ∨ geLex ys xs = true := by
  induction xs generalizing ys with
  | nil => left; simp [geLex]
  | cons a as ih =>
    cases ys with
    | nil => left; simp [geLex]
    | cons b bs =>
      simp only [geLex]
      by_cases h1 : b > a
      · right; simp [h1]; omega
      · by_cases h2 : a > b
        · left; simp [h1, h2]
        · have : a = b := by omega
          subst this
          simp
          exact ih bs

/-- transitive on component lists of equal length (the Go code pads both operands to the same
    length before comparing); lifted to strings with any numbers of components by `C30_version_trans` -/
theorem C30_geLex_trans_partial (xs ys zs : List Nat) (h1 : xs.length = ys.length) (h2 : ys.length = zs.length)
    (hxy : geLex xs ys = true) (hyz : geLex ys zs = true) : geLex xs zs = true := by
  induction xs generalizing ys zs with
  | nil => simp [geLex]
  | cons a as ih =>
    cases ys with
    | nil => simp at h1
    | cons b bs =>
      cases zs with
      | nil => simp at h2
      | cons c cs =>
        simp only [geLex] at hxy hyz ⊢
        simp only [List.length_cons, Nat.add_right_cancel_iff] at h1 h2
        by_cases hba : b > a
        · simp [hba] at hxy
        · by_cases hab : a > b
          · by_cases hcb : c > b
            · simp [hcb] at hyz
            · have : ¬ c > a := by omega
              have : a > c := by omega
              simp [*]
          · have hab' : a = b := by omega
            subst hab'
            simp at hxy
            by_cases hcb : c > a
            · simp [hcb] at hyz
            · by_cases hbc : a > c
              · simp [hcb, hbc]
              · have : a = c := by omega
                subst this
                simp at hyz ⊢
                exact ih bs cs h1 h2 hxy hyz

-- non-vacuity / sanity on concrete strings
example : compareVersions "v0.1.2" "v0.1" = some true := by decide
example : compareVersions "v0.1" "v0.1.2" = some false := by decide
example : compareVersions "v22.11rc1" "22.11.1" = some true := by decide
example : feeFloor "/Satoshi:29.2.0/" = 25 := by decide
example : feeFloor "/Satoshi:29.1.99/" = 253 := by decide

/-! ### the order on version STRINGS (any numbers of components; missing components count as zero) -/

def vals (p : List (List Char)) : Option (List Nat) := p.mapM atoi
def padNat (n : Nat) (xs : List Nat) : List Nat := xs ++ List.replicate (n - xs.length) 0

theorem atoi_zero : atoi ['0'] = some 0 := by decide

theorem vals_cons (a : List Char) (as : List (List Char)) :
    vals (a :: as) = (atoi a).bind fun x => (vals as).map fun xs => x :: xs := by
  unfold vals
  simp only [List.mapM_cons]
  cases atoi a <;> simp [Option.bind, Option.map]
  cases List.mapM atoi as <;> rfl

theorem convertBoth_iff (p q : List (List Char)) (hl : p.length = q.length) (xs ys : List Nat) :
    convertBoth p q = some (xs, ys) ↔ vals p = some xs ∧ vals q = some ys := by
  induction p generalizing q xs ys with
  | nil =>
    cases q with
    | nil => simp [convertBoth, vals]
    | cons b bs => simp at hl
  | cons a as ih =>
    cases q with
    | nil => simp at hl
    | cons b bs =>
      simp only [List.length_cons, Nat.add_right_cancel_iff] at hl
      rw [vals_cons, vals_cons]
      simp only [convertBoth]
      cases ha : atoi a with
      | none => simp
      | some x =>
        cases hb : atoi b with
        | none => simp
        | some y =>
          simp only [Option.bind_some]
          cases hc : convertBoth as bs with
          | none =>
            simp only [Option.map_none]
            constructor
            · intro h; cases h
            · intro ⟨h1, h2⟩
              cases hva : vals as with
              | none => simp [hva] at h1
              | some xs' =>
                cases hvb : vals bs with
                | none => simp [hvb] at h2
                | some ys' =>
                  have := (ih bs hl xs' ys').mpr ⟨hva, hvb⟩
                  rw [hc] at this; cases this
          | some pr =>
            obtain ⟨xs', ys'⟩ := pr
            have := (ih bs hl xs' ys').mp hc
            simp only [Option.map_some, this.1, this.2]
            constructor
            · intro h; injection h with h; injection h with h1 h2; exact ⟨by rw [h1], by rw [h2]⟩
            · intro ⟨h1, h2⟩; injection h1 with h1; injection h2 with h2; rw [h1, h2]

theorem vals_append (p q : List (List Char)) :
    vals (p ++ q) = (vals p).bind fun xs => (vals q).map fun ys => xs ++ ys := by
  induction p with
  | nil => simp [vals]
  | cons a as ih =>
    rw [List.cons_append, vals_cons, vals_cons, ih]
    cases atoi a with
    | none => rfl
    | some x =>
      simp only [Option.bind_some]
      cases vals as with
      | none => rfl
      | some xs => simp only [Option.bind_some, Option.map_some]; cases vals q <;> rfl

theorem vals_zeros (k : Nat) : vals (List.replicate k ['0']) = some (List.replicate k 0) := by
  induction k with
  | zero => rfl
  | succ k ih => rw [List.replicate_succ, vals_cons, atoi_zero, ih]; rfl

theorem vals_length (p : List (List Char)) (xs : List Nat) (h : vals p = some xs) : xs.length = p.length := by
  induction p generalizing xs with
  | nil => simp [vals] at h; rw [h]; rfl
  | cons a as ih =>
    rw [vals_cons] at h
    cases ha : atoi a with
    | none => simp [ha] at h
    | some x =>
      cases hv : vals as with
      | none => simp [ha, hv] at h
      | some xs' =>
        simp [ha, hv] at h
        rw [← h]; simp [ih xs' hv]

theorem vals_padTo (n : Nat) (p : List (List Char)) (xs : List Nat) (h : vals p = some xs) :
    vals (padTo n p) = some (padNat n xs) := by
  unfold padTo padNat
  rw [vals_append, h, vals_zeros, vals_length p xs h]
  rfl

theorem vals_of_padTo (n : Nat) (p : List (List Char)) (zs : List Nat) (h : vals (padTo n p) = some zs) :
    ∃ xs, vals p = some xs := by
  unfold padTo at h
  rw [vals_append] at h
  cases hv : vals p with
  | none => simp [hv] at h
  | some xs => exact ⟨xs, rfl⟩

/-- `CompareVersionStrings` in terms of the numeric components -/
theorem compareVersions_iff (a b : String) (r : Bool) :
    compareVersions a b = some r ↔
      ∃ xs ys, vals (digitRuns a.toList) = some xs ∧ vals (digitRuns b.toList) = some ys ∧
        r = geLex (padNat (max xs.length ys.length) xs) (padNat (max xs.length ys.length) ys) := by
  unfold compareVersions
  simp only [Option.map_eq_some_iff]
  have hlen : (padTo (max (digitRuns a.toList).length (digitRuns b.toList).length) (digitRuns a.toList)).length
      = (padTo (max (digitRuns a.toList).length (digitRuns b.toList).length) (digitRuns b.toList)).length := by
    unfold padTo; simp only [List.length_append, List.length_replicate]; omega
  constructor
  · intro ⟨⟨xs, ys⟩, hc, hr⟩
    have h := (convertBoth_iff _ _ hlen xs ys).mp hc
    obtain ⟨xa, hxa⟩ := vals_of_padTo _ _ _ h.1
    obtain ⟨xb, hxb⟩ := vals_of_padTo _ _ _ h.2
    refine ⟨xa, xb, hxa, hxb, ?_⟩
    have e1 := vals_padTo (max (digitRuns a.toList).length (digitRuns b.toList).length) _ _ hxa
    have e2 := vals_padTo (max (digitRuns a.toList).length (digitRuns b.toList).length) _ _ hxb
    rw [h.1] at e1; rw [h.2] at e2
    injection e1 with e1; injection e2 with e2
    rw [vals_length _ _ hxa, vals_length _ _ hxb, ← e1, ← e2]
    exact hr.symm
  · intro ⟨xs, ys, hxa, hxb, hr⟩
    refine ⟨(padNat (max xs.length ys.length) xs, padNat (max xs.length ys.length) ys), ?_, hr.symm⟩
    rw [convertBoth_iff _ _ hlen]
    rw [vals_length _ _ hxa, vals_length _ _ hxb]
    exact ⟨vals_padTo _ _ _ hxa, vals_padTo _ _ _ hxb⟩

theorem geLex_append_zeros (xs ys : List Nat) (k : Nat) (h : xs.length = ys.length) :
    geLex (xs ++ List.replicate k 0) (ys ++ List.replicate k 0) = geLex xs ys := by
  induction xs generalizing ys with
  | nil =>
    cases ys with
    | nil => simp only [List.nil_append]; rw [geLex_refl]; rfl
    | cons b bs => simp at h
  | cons a as ih =>
    cases ys with
    | nil => simp at h
    | cons b bs =>
      simp only [List.length_cons, Nat.add_right_cancel_iff] at h
      simp only [List.cons_append, geLex, ih bs h]

theorem padNat_more (n N : Nat) (xs : List Nat) (h1 : xs.length ≤ n) (h2 : n ≤ N) :
    padNat N xs = padNat n xs ++ List.replicate (N - n) 0 := by
  unfold padNat
  rw [List.append_assoc, List.replicate_append_replicate]
  congr 2; omega

theorem padNat_length (n : Nat) (xs : List Nat) (h : xs.length ≤ n) : (padNat n xs).length = n := by
  unfold padNat; simp; omega

/-- comparing after padding to ANY common length gives the comparison the code makes -/
theorem geLex_pad_any (xs ys : List Nat) (N : Nat) (h : max xs.length ys.length ≤ N) :
    geLex (padNat N xs) (padNat N ys) = geLex (padNat (max xs.length ys.length) xs) (padNat (max xs.length ys.length) ys) := by
  rw [padNat_more (max xs.length ys.length) N xs (by omega) h, padNat_more (max xs.length ys.length) N ys (by omega) h]
  apply geLex_append_zeros
  rw [padNat_length _ _ (by omega), padNat_length _ _ (by omega)]

/-- **transitive** on version strings with ANY numbers of components: a ≥ b and b ≥ c give a ≥ c (and the
    third comparison does not fail) -/
theorem C30_version_trans (a b c : String) (hab : compareVersions a b = some true) (hbc : compareVersions b c = some true) :
    compareVersions a c = some true := by
  obtain ⟨xs, ys, hxa, hyb, h1⟩ := (compareVersions_iff a b true).mp hab
  obtain ⟨ys', zs, hyb', hzc, h2⟩ := (compareVersions_iff b c true).mp hbc
  rw [hyb] at hyb'; injection hyb' with e; subst e
  rw [compareVersions_iff]
  refine ⟨xs, zs, hxa, hzc, ?_⟩
  let N := max xs.length (max ys.length zs.length)
  rw [← geLex_pad_any xs ys N (by omega)] at h1
  rw [← geLex_pad_any ys zs N (by omega)] at h2
  rw [← geLex_pad_any xs zs N (by omega)]
  exact (C30_geLex_trans_partial _ _ _ (by rw [padNat_length _ _ (by omega), padNat_length _ _ (by omega)])
    (by rw [padNat_length _ _ (by omega), padNat_length _ _ (by omega)]) h1.symm h2.symm).symm

/-- **total** on version strings: whenever both comparisons are defined, one of them holds -/
theorem C30_version_total (a b : String) (r1 r2 : Bool) (h1 : compareVersions a b = some r1) (h2 : compareVersions b a = some r2) :
    r1 = true ∨ r2 = true := by
  obtain ⟨xs, ys, hxa, hyb, e1⟩ := (compareVersions_iff a b r1).mp h1
  obtain ⟨ys', xs', hyb', hxa', e2⟩ := (compareVersions_iff b a r2).mp h2
  rw [hyb] at hyb'; injection hyb' with e; subst e
  rw [hxa] at hxa'; injection hxa' with e; subst e
  rw [e1, e2, Nat.max_comm ys.length xs.length]
  exact geLex_total _ _

/-- non-vacuity: comparisons across different numbers of components -/
example : compareVersions "v24.11" "24.2.1" = some true ∧ compareVersions "24.2.1" "v24.2" = some true
    ∧ compareVersions "v24.11" "v24.2" = some true ∧ compareVersions "24" "24.0.0" = some true
    ∧ compareVersions "24.0.0" "24" = some true ∧ compareVersions "24" "24.0.1" = some false := by decide

end PsVerif.Props.C30
