import PsVerif.Model.Version
/-
C30  Fee rates respect the node's floor; version gates are ordered.

Model: `feeRate` (rate selection of onchain.(*BitcoinOnChain).GetFee), `feeFloor`
(onchain.DetermineFeeFloor), `compareVersions` (version.CompareVersionStrings).
Tie: differential slices `fee`, `version`; floors come from Gen/Consts.
-/
namespace PsVerif.Props.C30
open PsVerif PsVerif.Model

/-- the rate used is never below the floor, whatever the estimator answers -/
theorem C30_rate_ge_floor (est : Option Int) (fb fl : Int) : feeRate est fb fl ≥ fl := by
  unfold feeRate
  split <;> omega

/-- estimator error or a zero estimate: the configured fallback (raised to the floor) is used -/
theorem C30_rate_fallback (est : Option Int) (fb fl : Int) (h : est = none ∨ est = some 0) :
    feeRate est fb fl = max fb fl := by
  have : feeEstimate est fb = fb := by rcases h with h | h <;> subst h <;> simp [feeEstimate]
  unfold feeRate
  rw [this]
  split <;> omega

/-- a non-zero estimate is used as is, raised to the floor -/
theorem C30_rate_estimate (e fb fl : Int) (h : e ≠ 0) : feeRate (some e) fb fl = max e fl := by
  have : feeEstimate (some e) fb = e := by simp [feeEstimate, h]
  unfold feeRate
  rw [this]
  split <;> omega

/-- the floor is one of the two generated constants … -/
theorem C30_floor_two_values (s : String) :
    feeFloor s = Gen.modernFeeFloor ∨ feeFloor s = Gen.legacyFeeFloor := by
  unfold feeFloor
  split
  · right; rfl
  · split <;> simp

/-- … namely 25 exactly when the parsed (major, minor) is at least (29, 2), otherwise 253;
    strings without a version use the legacy floor -/
theorem C30_floor_gate (s : String) :
    feeFloor s = 25 ↔ ∃ major minor, bitcoinVersion s = some (major, minor) ∧
      (major > 29 ∨ (major = 29 ∧ minor ≥ 2)) := by
  unfold feeFloor
  split
  · rename_i h; simp [h, Gen.legacyFeeFloor]
  · rename_i major minor h
    by_cases hc : major > 29 ∨ (major = 29 ∧ minor ≥ 2)
    · simp only [hc, if_true, Gen.modernFeeFloor, true_iff]
      exact ⟨major, minor, h, hc⟩
    · simp only [hc, if_false, Gen.legacyFeeFloor]
      constructor
      · intro h'; cases h'
      · rintro ⟨a, b, hab, hh⟩
        rw [h] at hab
        injection hab with hab
        injection hab with h1 h2
        subst h1; subst h2
        exact absurd hh hc

theorem C30_floor_values : Gen.modernFeeFloor = 25 ∧ Gen.legacyFeeFloor = 253 := by decide

/-! ### version comparison -/

theorem geLex_refl (l : List Nat) : geLex l l = true := by
  induction l with
  | nil => rfl
  | cons a as ih => simp [geLex, ih]

theorem convertBoth_self (l : List (List Char)) (xs ys : List Nat)
    (h : convertBoth l l = some (xs, ys)) : xs = ys := by
  induction l generalizing xs ys with
  | nil => simp [convertBoth] at h; rw [h.1, h.2]
  | cons a as ih =>
    simp only [convertBoth] at h
    split at h
    · cases h
    · simp only [*] at h
      cases hc : convertBoth as as with
      | none => simp [hc] at h
      | some p =>
        obtain ⟨x1, y1⟩ := p
        simp [hc] at h
        have := ih x1 y1 hc
        rw [← h.1, ← h.2, this]

/-- reflexive: a version is at least itself whenever it converts at all -/
theorem C30_version_refl (a : String) (r : Bool) (h : compareVersions a a = some r) : r = true := by
  unfold compareVersions at h
  simp only [Option.map_eq_some_iff] at h
  obtain ⟨⟨xs, ys⟩, hc, hr⟩ := h
  have := convertBoth_self _ xs ys hc
  subst this
  simp [geLex_refl] at hr
  exact hr

theorem geLex_total (xs ys : List Nat) : geLex xs ys = true ∨ geLex ys xs = true := by
  induction xs generalizing ys with
  | nil => left; simp [geLex]
  | cons a as ih =>
    cases ys with
    | nil => left; simp [geLex]
    | cons b bs =>
      simp only [geLex]
      by_cases h1 : b > a
      · right; simp [h1]; omega
      · by_cases h2 : a > b
        · left; simp [h1, h2]
        · have : a = b := by omega
          subst this
          simp
          exact ih bs

/-- transitive on component lists of equal length (the Go code pads both operands to the same
    length before comparing).  PARTIAL: transitivity across three strings with different numbers of
    components additionally needs that zero-padding commutes with the comparison; that lemma is not
    proved here, the three-string case is covered by the differential slice only. -/
theorem C30_geLex_trans_partial (xs ys zs : List Nat) (h1 : xs.length = ys.length) (h2 : ys.length = zs.length)
    (hxy : geLex xs ys = true) (hyz : geLex ys zs = true) : geLex xs zs = true := by
  induction xs generalizing ys zs with
  | nil => simp [geLex]
  | cons a as ih =>
    cases ys with
    | nil => simp at h1
    | cons b bs =>
      cases zs with
      | nil => simp at h2
      | cons c cs =>
        simp only [geLex] at hxy hyz ⊢
        simp only [List.length_cons, Nat.add_right_cancel_iff] at h1 h2
        by_cases hba : b > a
        · simp [hba] at hxy
        · by_cases hab : a > b
          · by_cases hcb : c > b
            · simp [hcb] at hyz
            · have : ¬ c > a := by omega
              have : a > c := by omega
              simp [*]
          · have hab' : a = b := by omega
            subst hab'
            simp at hxy
            by_cases hcb : c > a
            · simp [hcb] at hyz
            · by_cases hbc : a > c
              · simp [hcb, hbc]
              · have : a = c := by omega
                subst this
                simp at hyz ⊢
                exact ih bs cs h1 h2 hxy hyz

-- non-vacuity / sanity on concrete strings
example : compareVersions "v0.1.2" "v0.1" = some true := by decide
example : compareVersions "v0.1" "v0.1.2" = some false := by decide
example : compareVersions "v22.11rc1" "22.11.1" = some true := by decide
example : feeFloor "/Satoshi:29.2.0/" = 25 := by decide
example : feeFloor "/Satoshi:29.1.99/" = 253 := by decide

end PsVerif.Props.C30
