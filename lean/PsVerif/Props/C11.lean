import PsVerif.Model.Admit
/-
C11  Incoming requests are admitted only when every policy condition holds.

Model: `admission` (the pre-checks of OnSwap{In,Out}RequestReceived, message validation, lockSwap,
CheckRequestWrapperAction, the balance check of CreateSwapOutFromRequestAction) as one decision function.
Tie: differential slice `admission` (requests × configurations through the real service with the real
premium.Setting; the answer sent to the peer is compared).
-/
namespace PsVerif.Props.C11
open PsVerif PsVerif.Model PsVerif.Gen

/-- soundness: an agreement is produced only if every condition holds (the two amount conditions are
    on `amount*1000` as the code computes it, i.e. modulo 2^64 — see `C11_partial_no_wrap`) -/
theorem C11_sound (c : NodeCfg) (r : Request) (p : Int) (h : admission c r = .agreement p) :
    c.allowNew = true ∧ validRequest r = true ∧
    (reqChain r = .lbtc → c.lbtcEnabled = true) ∧ (reqChain r = .btc → c.btcEnabled = true) ∧
    (r.asset ≠ "" → r.asset = c.walletAsset) ∧ (r.network ≠ "" → r.network = c.walletNetwork) ∧
    r.version = protocolVersion ∧ c.minMsat ≤ reqMsat r ∧
    (r.swapOut = false → reqMsat r ≤ c.spendable ∧ c.probeOk = true) ∧
    (r.swapOut = true → reqMsat r ≤ c.receivable ∧ wrapU64 (r.amount + c.openingFee) ≤ c.balance) ∧
    (c.acceptAll = true ∨ c.allowlisted = true) ∧ c.suspicious = false ∧ c.channelBusy = false ∧
    p = reqPremium c r ∧ p ≤ r.premiumLimit := by
  unfold admission at h
  split at h
  · cases h
  · rename_i hn
    injection h with h
    have hall : ∀ x ∈ refusals c r, x.1 = false := by
      intro x hx
      have := List.find?_eq_none.mp hn x hx
      simpa using this
    simp only [refusals, List.mem_cons, List.mem_nil_iff, or_false, forall_eq_or_imp, forall_eq] at hall
    obtain ⟨h1, h2, h3, h4, h5, h6, h7, h8, h9, h10, h11, h12, h13, h14, h15, h16⟩ := hall
    simp only [decide_eq_false_iff_not, Bool.and_eq_false_iff, Bool.not_eq_false', Bool.not_eq_eq_eq_not,
      Bool.not_true, Bool.not_false, Int.not_lt, Nat.not_lt, ne_eq, Decidable.not_not, Bool.or_eq_true,
      Bool.not_eq_false] at h1 h2 h3 h4 h5 h6 h7 h8 h9 h10 h11 h12 h13 h14 h15 h16
    refine ⟨h7, h6, ?_, ?_, ?_, ?_, h10, h11, ?_, ?_, ?_, h15, h5, h.symm, h ▸ h1⟩
    · intro hc; rcases h8 with h8 | h8
      · exact absurd hc h8
      · exact h8
    · intro hc; rcases h9 with h9 | h9
      · exact absurd hc h9
      · exact h9
    · intro ha; rcases h12 with h12 | h12
      · exact absurd h12 ha
      · exact h12
    · intro hn'; rcases h13 with h13 | h13
      · exact absurd h13 hn'
      · exact h13
    · intro hs
      refine ⟨?_, ?_⟩
      · rcases h2 with h2 | h2
        · simp [hs] at h2
        · exact h2
      · rcases h3 with h3 | h3
        · simp [hs] at h3
        · exact h3
    · intro hs
      refine ⟨?_, ?_⟩
      · rcases h4 with h4 | h4
        · simp [hs] at h4
        · exact h4
      · rcases h16 with h16 | h16
        · simp [hs] at h16
        · exact h16
    · exact h14

/-- completeness: when some condition fails the verdict is a cancel (never an agreement), with the reason
    of the FIRST failing check in source order -/
theorem C11_complete_cancel (c : NodeCfg) (r : Request) (x : Bool × String)
    (h : (refusals c r).find? (·.1) = some x) : admission c r = .cancel x.2 := by
  unfold admission; rw [h]

/-- inside the no-wrap range the two amount conditions are about the real amount -/
theorem C11_partial_no_wrap (r : Request) (h : r.amount < 18446744073709552) : reqMsat r = r.amount * 1000 := by
  unfold reqMsat wrapU64; omega

/-- outside it they are not: an amount whose product wraps passes "fits the channel" and "minimum"
    although it is larger than any channel (latent: no wallet can fund it) -/
theorem C11_violated_wrapping_amount :
    reqMsat { swapOut := false, version := 7, asset := "", network := "regtest", scidOk := true, pubkeyOk := true,
              assetOk := true, networkOk := true, amount := 18446744073709652, premiumLimit := 0 } = 100384 := by
  decide

end PsVerif.Props.C11
