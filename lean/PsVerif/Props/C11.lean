import PsVerif.Model.Admit
import PsVerif.Model.ChanCap
/-
C11  Incoming requests are admitted only when every policy condition holds.

Model: `admission` (the pre-checks of OnSwap{In,Out}RequestReceived, message validation, lockSwap,
CheckRequestWrapperAction, the balance check of CreateSwapOutFromRequestAction) as one decision function.
Tie: differential slice `admission` (requests × configurations through the real service with the real
premium.Setting; the answer sent to the peer is compared).
-/
namespace PsVerif.Props.C11
open PsVerif PsVerif.Model PsVerif.Gen

/-- soundness: an agreement is produced only if every condition holds (the two amount conditions are
    on `amount*1000` as the code computes it, i.e. modulo 2^64 — see `C11_partial_no_wrap`) -/
theorem C11_sound (c : NodeCfg) (r : Request) (p : Int) (h : admission c r = .agreement p) :
    c.allowNew = true ∧ validRequest r = true ∧
    (reqChain r = .lbtc → c.lbtcEnabled = true) ∧ (reqChain r = .btc → c.btcEnabled = true) ∧
    (r.asset ≠ "" → r.asset = c.walletAsset) ∧ (r.network ≠ "" → r.network = c.walletNetwork) ∧
    r.version = protocolVersion ∧ c.minMsat ≤ reqMsat r ∧
    (r.swapOut = false → reqMsat r ≤ c.spendable ∧ c.probeOk = true) ∧
    (r.swapOut = true → reqMsat r ≤ c.receivable ∧ wrapU64 (r.amount + c.openingFee) ≤ c.balance) ∧
    (c.acceptAll = true ∨ c.allowlisted = true) ∧ c.suspicious = false ∧ c.channelBusy = false ∧
    p = reqPremium c r ∧ p ≤ r.premiumLimit := by
  unfold admission at h
  split at h
  · cases h
  · rename_i hn
    injection h with h
    have hall : ∀ x ∈ refusals c r, x.1 = false := by
      intro x hx
      have := List.find?_eq_none.mp hn x hx
      simpa using this
    simp only [refusals, List.mem_cons, List.mem_nil_iff, or_false, forall_eq_or_imp, forall_eq] at hall
    obtain ⟨h1, h2, h3, h4, h5, h6, h7, h8, h9, h10, h11, h12, h13, h14, h15, h16⟩ := hall
    simp only [decide_eq_false_iff_not, Bool.and_eq_false_iff, Bool.not_eq_false', Bool.not_eq_eq_eq_not,
      Bool.not_true, Bool.not_false, Int.not_lt, Nat.not_lt, ne_eq, Decidable.not_not, Bool.or_eq_true,
      Bool.not_eq_false] at h1 h2 h3 h4 h5 h6 h7 h8 h9 h10 h11 h12 h13 h14 h15 h16
    refine ⟨h7, h6, ?_, ?_, ?_, ?_, h10, h11, ?_, ?_, ?_, h15, h5, h.symm, h ▸ h1⟩
    · intro hc; rcases h8 with h8 | h8
      · exact absurd hc h8
      · exact h8
    · intro hc; rcases h9 with h9 | h9
      · exact absurd hc h9
      · exact h9
    · intro ha; rcases h12 with h12 | h12
      · exact absurd h12 ha
      · exact h12
    · intro hn'; rcases h13 with h13 | h13
      · exact absurd h13 hn'
      · exact h13
    · intro hs
      refine ⟨?_, ?_⟩
      · rcases h2 with h2 | h2
        · simp [hs] at h2
        · exact h2
      · rcases h3 with h3 | h3
        · simp [hs] at h3
        · exact h3
    · intro hs
      refine ⟨?_, ?_⟩
      · rcases h4 with h4 | h4
        · simp [hs] at h4
        · exact h4
      · rcases h16 with h16 | h16
        · simp [hs] at h16
        · exact h16
    · exact h14

/-- completeness: when some condition fails the verdict is a cancel (never an agreement), with the reason
    of the FIRST failing check in source order -/
theorem C11_complete_cancel (c : NodeCfg) (r : Request) (x : Bool × String)
    (h : (refusals c r).find? (·.1) = some x) : admission c r = .cancel x.2 := by
  unfold admission; rw [h]

/-- inside the no-wrap range the two amount conditions are about the real amount -/
theorem C11_partial_no_wrap (r : Request) (h : r.amount < 18446744073709552) : reqMsat r = r.amount * 1000 := by
  unfold reqMsat wrapU64; omega

/-- outside it they are not: an amount whose product wraps passes "fits the channel" and "minimum"
    although it is larger than any channel (latent: no wallet can fund it) -/
theorem C11_violated_wrapping_amount :
    reqMsat { swapOut := false, version := 7, asset := "", network := "regtest", scidOk := true, pubkeyOk := true,
              assetOk := true, networkOk := true, amount := 18446744073709652, premiumLimit := 0 } = 100384 := by
  decide

/-! ### what the adapters report as the channel's capacity (the `spendable` / `receivable` of `NodeCfg`)

`C11_sound` says "amount ≤ spendable/receivable"; these say that the figure itself is at most what the channel
side holds above its reserve — the link that was missing when both adapters wrapped around below the reserve
(/repo fix 112d7d5, found by a reviewing sub-agent; slice `chancap` runs the REAL LND adapter over a fake gRPC
node and the CLN channel arithmetic on the same inputs). -/

/-- lnd: never more than balance − reserve, and nothing at or below the reserve (balances up to 2^53 sat) -/
theorem C11_lnd_capacity (bal : Int) (res : Nat) (hb : bal < 9007199254740992) :
    (lndAboveReserveMsat bal res : Int) = (if bal ≤ (res : Int) then 0 else (bal - res) * 1000)
    ∧ (bal ≤ (res : Int) → lndAboveReserveMsat bal res = 0) := by
  unfold lndAboveReserveMsat wrapU64
  by_cases h0 : bal ≤ 0
  · rw [if_pos h0]
    have h2 : bal ≤ (res : Int) := by omega
    rw [if_pos h2]
    exact ⟨rfl, fun _ => rfl⟩
  · rw [if_neg h0]
    by_cases h1 : bal.toNat ≤ res
    · rw [if_pos h1]
      have h2 : bal ≤ (res : Int) := by omega
      rw [if_pos h2]
      exact ⟨rfl, fun _ => rfl⟩
    · rw [if_neg h1]
      have hlt : ¬ bal ≤ (res : Int) := by omega
      have hm : (bal.toNat - res) * 1000 % 18446744073709551616 = (bal.toNat - res) * 1000 := by
        apply Nat.mod_eq_of_lt; omega
      rw [hm, if_neg hlt]
      refine ⟨?_, fun h => absurd h hlt⟩
      have : ((bal.toNat - res : Nat) : Int) = bal - res := by omega
      rw [Int.natCast_mul, this]
      rfl

/-- CLN: lightningd's figure when it is positive, otherwise at most what the side holds above its reserve -/
theorem C11_cln_capacity (rep total toUs res : Nat) :
    (rep > 0 → clnSpendableMsat rep toUs res = rep ∧ clnReceivableMsat rep total toUs res = rep)
    ∧ (rep = 0 → clnSpendableMsat rep toUs res = toUs - res ∧ clnReceivableMsat rep total toUs res = total - toUs - res) := by
  unfold clnSpendableMsat clnReceivableMsat
  constructor
  · intro h; simp [h]
  · intro h; subst h
    simp only [Nat.lt_irrefl, if_false, gt_iff_lt]
    constructor
    · split <;> omega
    · split
      · omega
      · split <;> omega

/-- the rule before the fix, at the point that matters: remote balance 0, reserve 10 000 sat — "receivable"
    18 446 744 073 699 551 616 msat -/
theorem C11_old_capacity_wraps :
    lndAboveReserveMsatOld 0 10000 = 18446744073699551616 ∧ lndAboveReserveMsat 0 10000 = 0 := by decide

end PsVerif.Props.C11
