import PsVerif.Model.Premium
/-
C27  Premiums follow the configured rate and match what peer-sync advertises.

Model: `ppmCompute` ((*PPM).Compute), `getRate`/`settingCompute` (premium.Setting),
`storePut/Get/Del` (the bbolt bucket keyed "<peer>.<asset>.<op>").
Tie: differential slices `premium` (pure) and `premiumstore` (operation sequences on the real
Setting over a real bbolt file with reopen, plus the rates the real peersync sends).
-/
namespace PsVerif.Props.C27
open PsVerif PsVerif.Model

/-- inside the no-overflow range the premium is amount × rate / 10^6 truncated toward zero -/
theorem C27_compute (amt : Nat) (ppm : Int) (h1 : amt < 2 ^ 63)
    (h2 : -(2 ^ 63) ≤ (amt : Int) * ppm) (h3 : (amt : Int) * ppm < 2 ^ 63) :
    ppmCompute amt ppm = Int.tdiv ((amt : Int) * ppm) 1000000 := by
  unfold ppmCompute u64ToI64
  have e1 : wrapI64 (Int.ofNat amt) = (amt : Int) := by
    unfold wrapI64
    have : (Int.ofNat amt) % 18446744073709551616 = (amt : Int) := by
      apply Int.emod_eq_of_lt <;> simp <;> omega
    simp only [this]
    split <;> simp at * <;> omega
  rw [e1]
  have e2 : wrapI64 ((amt : Int) * ppm) = (amt : Int) * ppm := by
    unfold wrapI64
    generalize (amt : Int) * ppm = x at *
    by_cases hx : 0 ≤ x
    · have : x % 18446744073709551616 = x := Int.emod_eq_of_lt hx (by omega)
      simp only [this]; split <;> omega
    · have : x % 18446744073709551616 = x + 18446744073709551616 := by
        have := Int.emod_emod_of_dvd x (by decide : (18446744073709551616 : Int) ∣ 18446744073709551616)
        omega
      simp only [this]; split <;> omega
  rw [e2]

/-- in particular for every amount up to 2^43 sat (far above 21e14) and every rate within ±10^6 ppm -/
theorem C27_compute_in_range (amt : Nat) (ppm : Int) (h1 : amt ≤ 2 ^ 43)
    (h2 : -1000000 ≤ ppm) (h3 : ppm ≤ 1000000) :
    ppmCompute amt ppm = Int.tdiv ((amt : Int) * ppm) 1000000 := by
  have ha : (amt : Int) ≤ 2 ^ 43 := by exact_mod_cast h1
  have ha0 : (0 : Int) ≤ amt := Int.natCast_nonneg amt
  have up : (amt : Int) * ppm ≤ (amt : Int) * 1000000 := Int.mul_le_mul_of_nonneg_left h3 ha0
  have lo : (amt : Int) * (-1000000) ≤ (amt : Int) * ppm := Int.mul_le_mul_of_nonneg_left h2 ha0
  have cap : (amt : Int) * 1000000 ≤ 2 ^ 43 * 1000000 := Int.mul_le_mul_of_nonneg_right ha (by decide)
  have neg : (amt : Int) * (-1000000) = -((amt : Int) * 1000000) := by rw [Int.mul_neg]
  apply C27_compute
  · calc amt ≤ 2 ^ 43 := h1
      _ < 2 ^ 63 := by decide
  · omega
  · omega

/-- the full statement ("for all amounts and rates") is FALSE of the code: outside the range the int64
    product wraps.  Witness replayed on the real code (known finding C27/compute-overflow). -/
theorem C27_violated_overflow :
    ppmCompute 2100000000000000 (-385701) ≠ Int.tdiv ((2100000000000000 : Int) * (-385701)) 1000000 := by
  decide

/-! ### rate selection: peer rate, else stored default, else built-in default -/

theorem C27_rate_peer (s : RateStore) (peer : String) (a o : Nat) (r : Int)
    (h : storeGet s (rateKey peer a o) = some r) : getRate s peer a o = some r := by
  simp [getRate, h]

theorem C27_rate_default (s : RateStore) (peer : String) (a o : Nat) (r : Int)
    (h1 : storeGet s (rateKey peer a o) = none)
    (h2 : storeGet s (rateKey defaultPeer a o) = some r) : getRate s peer a o = some r := by
  simp [getRate, h1, h2]

theorem C27_rate_builtin (s : RateStore) (peer : String) (a o : Nat)
    (h1 : storeGet s (rateKey peer a o) = none)
    (h2 : storeGet s (rateKey defaultPeer a o) = none) : getRate s peer a o = builtinRate a o := by
  simp [getRate, h1, h2]

/-- the built-in defaults are the generated table (BTC in 0 / out 2000, LBTC in 0 / out 1000 on this tree) -/
theorem C27_builtin_total : ∀ a ∈ [1, 2], ∀ o ∈ [1, 2], (builtinRate a o).isSome = true := by decide

/-- the premium charged is `ppmCompute` of exactly that rate -/
theorem C27_compute_uses_rate (s : RateStore) (peer : String) (a o amt : Nat) :
    settingCompute s peer a o amt = (getRate s peer a o).map (ppmCompute amt) := rfl

/-! ### set / get / delete refine a finite map from keys to rates -/

theorem storeGet_del (s : RateStore) (k k' : String) :
    storeGet (storeDel s k) k' = if k' = k then none else storeGet s k' := by
  induction s with
  | nil => simp [storeGet, storeDel]
  | cons e es ih =>
    obtain ⟨ek, ev⟩ := e
    by_cases h1 : ek = k
    · subst h1
      by_cases h2 : k' = ek
      · subst h2; simpa [storeGet, storeDel] using ih
      · have h3 : ¬ ek = k' := fun h => h2 h.symm
        simpa [storeGet, storeDel, h2, h3] using ih
    · by_cases h3 : ek = k'
      · subst h3; simp [storeGet, storeDel, h1]
      · simpa [storeGet, storeDel, h1, h3] using ih

theorem C27_map_set (s : RateStore) (k k' : String) (v : Int) :
    storeGet (storePut s k v) k' = if k' = k then some v else storeGet s k' := by
  unfold storePut
  by_cases h : k' = k
  · subst h; simp [storeGet]
  · have h3 : ¬ k = k' := fun e => h e.symm
    simp [storeGet, h, h3, storeGet_del]

theorem C27_map_delete (s : RateStore) (k k' : String) :
    storeGet (storeDel s k) k' = if k' = k then none else storeGet s k' := storeGet_del s k k'

/-- keys of different (peer, asset, operation) triples never collide, for the single-digit asset and
    operation codes the code uses (1, 2) and any peer id -/
theorem C27_key_injective (p p' : String) (a o a' o' : Nat)
    (ha : a = 1 ∨ a = 2) (ho : o = 1 ∨ o = 2) (ha' : a' = 1 ∨ a' = 2) (ho' : o' = 1 ∨ o' = 2)
    (h : rateKey p a o = rateKey p' a' o') : p = p' ∧ a = a' ∧ o = o' := by
  unfold rateKey at h
  have hl := congrArg String.toList h
  simp only [String.toList_append] at hl
  rcases ha with rfl | rfl <;> rcases ho with rfl | rfl <;> rcases ha' with rfl | rfl <;>
    rcases ho' with rfl | rfl <;>
    simp only [show (toString (1 : Nat)) = "1" from rfl, show (toString (2 : Nat)) = "2" from rfl,
      show ".".toList = ['.'] from rfl, show "1".toList = ['1'] from rfl,
      show "2".toList = ['2'] from rfl, List.append_assoc, List.cons_append, List.nil_append] at hl <;>
    have := List.append_inj' hl rfl <;>
    simp at this <;>
    exact ⟨String.toList_injective this, rfl, rfl⟩

end PsVerif.Props.C27
