import PsVerif.Proofs.MkCert
import PsVerif.Props.C06
/-
C15  Restarts never duplicate an opening transaction, payment or refund.

Model: the abstract engine (crash at every persisted point and inside every action, restart = recovery
as fsm.go does it) over the GENERATED tables; maker flags (Model/AbsMk.lean), taker flags
(Model/AbsC06.lean).  The opening clause is proved at full strength (`C15_one_opening`: crashes between the wallet's broadcast
and the persist, wallet errors after the broadcast) since the repair "do not repeat a failed opening
broadcast on recovery"; the witness of the violation in the code before it is
`Findings.C07.C15_violated_second_opening_before_fix`.  Also proved: the
spend-back transaction is created at most once per record (guarded by the persisted ClaimTxId); a taker
whose claim payment succeeded never starts another one when the preimage is persisted (C06 partial).
The "same parameters when re-sent" and "no payment after cancel" clauses are checked by the monitor on
the real code.
-/
namespace PsVerif.Props.C15
open PsVerif.Gen PsVerif.Model.Abs PsVerif.Model.AbsMk PsVerif.Proofs.MkCert

theorem one_of_allProps (m : MC F) (h : allProps m = true) : oneOpening m = true := by
  unfold allProps at h
  simp only [Bool.and_eq_true] at h
  exact h.1.1.1.1.1.2

/-- swap-in initiator: never a second opening transaction, in any history of events, crashes at persisted
    points and restarts -/
theorem C15_partial_one_opening_in : ∀ m, Reach (sysIn benign) m → m.f.openings ≤ 1 := by
  intro m hm
  have := one_of_allProps m (allProps_in m hm)
  simpa [oneOpening] using this

theorem C15_partial_one_opening_out : ∀ m, Reach (sysOut benign) m → m.f.openings ≤ 1 := by
  intro m hm
  have := one_of_allProps m (allProps_out m hm)
  simpa [oneOpening] using this

/-! ### the opening clause at full strength (since fix "do not repeat a failed opening broadcast on recovery")

`hostile`: the process can die between the wallet's broadcast and the persist that follows, the wallet
adapter can broadcast and then report an error, GetOutputScript and the policy file can fail. -/

def certInH := reachCert (sysIn hostile) 80
def certOutH := reachCert (sysOut hostile) 80
def openingOk (m : MC F) : Bool := !m.f.unknownAct && oneOpening m

theorem certInH_ok : (closedCert (sysIn hostile) certInH && allGood certInH openingOk) = true := by decide +kernel
theorem certOutH_ok : (closedCert (sysOut hostile) certOutH && allGood certOutH openingOk) = true := by decide +kernel

/-- C15, opening clause, both maker roles: in EVERY history of events, failing local services, wallet
    errors before or after the broadcast, crashes at every persisted point and inside every action
    (between the wallet's broadcast and the persist included) and restarts, at most one opening
    transaction is broadcast for a swap -/
theorem C15_one_opening :
    (∀ m, Reach (sysIn hostile) m → m.f.openings ≤ 1) ∧ (∀ m, Reach (sysOut hostile) m → m.f.openings ≤ 1) := by
  have hi := certInH_ok
  have ho := certOutH_ok
  simp only [Bool.and_eq_true] at hi ho
  refine ⟨fun m hm => ?_, fun m hm => ?_⟩
  · have := invariant_of_cert _ certInH openingOk hi.1 hi.2 m hm
    simp only [openingOk, oneOpening, Bool.and_eq_true, decide_eq_true_eq] at this
    exact this.2
  · have := invariant_of_cert _ certOutH openingOk ho.1 ho.2 m hm
    simp only [openingOk, oneOpening, Bool.and_eq_true, decide_eq_true_eq] at this
    exact this.2

/-- non-vacuity: configurations in which the record shows a failed attempt while an opening transaction is
    on the chain (the adapter failed after its broadcast), and dead processes with an unrecorded opening,
    are reachable in that environment -/
theorem C15_one_opening_nonvacuous :
    (certInH.toList.any fun m => m.f.openings == 1 && m.f.openFailed && !m.f.openingRec) = true ∧
    (certOutH.toList.any fun m => m.f.openings == 1 && !m.alive && !m.f.openingRec) = true := by
  decide +kernel

/-- the states in which a claim payment can be started are not reachable again once the swap went to a
    cancel / coop-close state: no edge of the generated taker tables leads back (checked over all rows) -/
def cancelStates : List St :=
  [.State_SendCancel, .State_SwapCanceled, .State_SwapOutSender_SendPrivkey, .State_SwapOutSender_SendCoopClose,
   .State_SwapInReceiver_SendPrivkey, .State_SwapInReceiver_SendCoopClose, .State_ClaimedCoop]
def payStates : List St :=
  [.State_SwapOutSender_ValidateTxAndPayClaimInvoice, .State_SwapInReceiver_ValidateTxAndPayClaimInvoice,
   .State_SwapOutSender_PayFeeInvoice]

theorem C15_no_way_back_to_pay :
    ∀ r ∈ [Role.SwapOutSender, Role.SwapInReceiver], ∀ row ∈ table r, cancelStates.contains row.st = true →
      ∀ e ∈ row.evs, cancelStates.contains e.2 = true := by decide

/-- … and none of those states' action chains contains a paying action -/
theorem C15_cancel_states_do_not_pay :
    ∀ r ∈ [Role.SwapOutSender, Role.SwapInReceiver], ∀ row ∈ table r, cancelStates.contains row.st = true →
      (row.acts.contains .ValidateTxAndPayClaimInvoiceAction || row.acts.contains .PayFeeInvoiceAction) = false := by
  decide

end PsVerif.Props.C15
