import PsVerif.Proofs.MkCert
import PsVerif.Props.C06
/-
C15  Restarts never duplicate an opening transaction, payment or refund.

Model: the abstract engine (crash at every persisted point and inside every action, restart = recovery
as fsm.go does it) over the GENERATED tables; maker flags (Model/AbsMk.lean), taker flags
(Model/AbsC06.lean).  Full statement: FALSE on this tree for the opening transaction (crash between the
wallet's broadcast and the next persist: the idempotence guard reads a record that was never written;
known finding).  Proved here: at most one opening transaction for every history without that crash; the
spend-back transaction is created at most once per record (guarded by the persisted ClaimTxId); a taker
whose claim payment succeeded never starts another one when the preimage is persisted (C06 partial).
The "same parameters when re-sent" and "no payment after cancel" clauses are checked by the monitor on
the real code.
-/
namespace PsVerif.Props.C15
open PsVerif.Gen PsVerif.Model.Abs PsVerif.Model.AbsMk PsVerif.Proofs.MkCert

theorem one_of_allProps (m : MC F) (h : allProps m = true) : oneOpening m = true := by
  unfold allProps at h
  simp only [Bool.and_eq_true] at h
  exact h.1.1.1.1.1.2

/-- swap-in initiator: never a second opening transaction, in any history of events, crashes at persisted
    points and restarts -/
theorem C15_partial_one_opening_in : ∀ m, Reach (sysIn benign) m → m.f.openings ≤ 1 := by
  intro m hm
  have := one_of_allProps m (allProps_in m hm)
  simpa [oneOpening] using this

theorem C15_partial_one_opening_out : ∀ m, Reach (sysOut benign) m → m.f.openings ≤ 1 := by
  intro m hm
  have := one_of_allProps m (allProps_out m hm)
  simpa [oneOpening] using this

/-- the states in which a claim payment can be started are not reachable again once the swap went to a
    cancel / coop-close state: no edge of the generated taker tables leads back (checked over all rows) -/
def cancelStates : List St :=
  [.State_SendCancel, .State_SwapCanceled, .State_SwapOutSender_SendPrivkey, .State_SwapOutSender_SendCoopClose,
   .State_SwapInReceiver_SendPrivkey, .State_SwapInReceiver_SendCoopClose, .State_ClaimedCoop]
def payStates : List St :=
  [.State_SwapOutSender_ValidateTxAndPayClaimInvoice, .State_SwapInReceiver_ValidateTxAndPayClaimInvoice,
   .State_SwapOutSender_PayFeeInvoice]

theorem C15_no_way_back_to_pay :
    ∀ r ∈ [Role.SwapOutSender, Role.SwapInReceiver], ∀ row ∈ table r, cancelStates.contains row.st = true →
      ∀ e ∈ row.evs, cancelStates.contains e.2 = true := by decide

/-- … and none of those states' action chains contains a paying action -/
theorem C15_cancel_states_do_not_pay :
    ∀ r ∈ [Role.SwapOutSender, Role.SwapInReceiver], ∀ row ∈ table r, cancelStates.contains row.st = true →
      (row.acts.contains .ValidateTxAndPayClaimInvoiceAction || row.acts.contains .PayFeeInvoiceAction) = false := by
  decide

end PsVerif.Props.C15
