import PsVerif.Model.Timelock
import PsVerif.Model.Route
/-
C04  Liquid claim payments happen only inside the anchored window with bounded CLTV.

Model: `checkPaymentWindow`, `validateClaimInvoice`, `awaitTxConfLbtc`, `payIterationLbtc`
(swap/actions.go, swap/timelock.go), `clnRoute`, `lndRequest` (route builders), and the GENERATED policy
table `Gen.timelockPolicy` (every chain × every uint8 version, evaluated in the running code).
Tie: slices `timelock`, `route`, `paygate` (real taker machines driven to the pay decision).
-/
namespace PsVerif.Props.C04
open PsVerif PsVerif.Model PsVerif.Gen

/-- the Liquid protocol-7 policy as the code evaluates it -/
def lbtc7 : TimelockPolicy := { csv := 10080, window := 60, finalCltv := 29, maxTotal := 32, allowNew := true }

theorem C04_policy_lbtc7 : timelockPolicy .lbtc protocolVersion = some lbtc7 := by decide

/-- a claim payment call is made in a pay-loop iteration only when the anchor is stored and
    anchor ≤ tip < anchor + window; no wrap for any uint32 anchor/tip -/
theorem C04_window (p : TimelockPolicy) (set : Bool) (start now : Nat)
    (h : payIterationLbtc p set start now = true) :
    set = true ∧ start ≤ now ∧ now < start + p.window := by
  unfold payIterationLbtc checkPaymentWindow at h
  cases set <;> simp at h
  split at h
  · simp at h
  · split at h
    · simp at h
    · exact ⟨rfl, by omega, by omega⟩

/-- … and the same guard runs before the confirmation watch is registered and on recovery
    (`AwaitTxConfirmationAction`, `SetStartingBlockHeightAction` use `checkPaymentWindow`) -/
theorem C04_await_window (p : TimelockPolicy) (cltv : Int) (msat claim : Nat) (set : Bool) (start h : Nat)
    (hok : awaitTxConfLbtc p cltv msat claim set start h = .ok) :
    set = true ∧ start ≤ h ∧ h < start + p.window ∧ 0 ≤ cltv ∧ cltv.toNat ≤ p.finalCltv
      ∧ msat = wrapU64 (claim * 1000) := by
  unfold awaitTxConfLbtc at hok
  split at hok
  · cases hok
  · rename_i hv
    unfold validateClaimInvoice at hv
    unfold checkPaymentWindow at hok
    split at hv
    · cases hv
    · split at hv
      · cases hv
      · cases set <;> simp at hok
        split at hok
        · cases hok
        · split at hok
          · cases hok
          · rename_i h1 h2 h3 h4
            have hm : msat = wrapU64 (claim * 1000) := by simpa using h2
            exact ⟨rfl, by omega, by omega, by omega, by omega, hm⟩

/-- accepted invoices have a final CLTV of at most 29 (generated constant) -/
theorem C04_invoice (cltv : Int) (msat claim : Nat) (set : Bool) (start h : Nat)
    (hok : awaitTxConfLbtc lbtc7 cltv msat claim set start h = .ok) : 0 ≤ cltv ∧ cltv ≤ 29 := by
  have := C04_await_window lbtc7 cltv msat claim set start h hok
  simp only [lbtc7] at this
  omega

theorem validateTotal_ok (r l : Nat) : validateTotalCLTVDelta r l = .ok ↔ (l = 0 ∨ r ≤ l) := by
  unfold validateTotalCLTVDelta
  split
  · rename_i h
    constructor
    · intro hh; cases hh
    · intro hh; omega
  · rename_i h
    constructor
    · intro _; omega
    · intro _; rfl

/-- CLN, any non-zero limit: a route is built only for 0 ≤ final < 2^32−1 and delay = final+1 ≤ limit -/
theorem clnRoute_limited (payee : String) (amt : Nat) (cltv : Int) (scid : String) (limit : Nat)
    (hl : limit ≠ 0) (r : List ClnHop) (h : clnRoute payee amt cltv scid limit = .ok r) :
    0 ≤ cltv ∧ clnDelay cltv = (cltv + 1).toNat ∧ clnDelay cltv ≤ limit ∧
      r = [⟨payee, clnStyle scid, amt, clnDelay cltv, 0⟩] := by
  unfold clnRoute at h
  simp only [hl, ne_eq, not_false_eq_true, if_true] at h
  by_cases hc : cltv < 0 ∨ cltv.toNat ≥ 4294967295
  · simp [hc] at h
  · simp only [hc, if_false] at h
    by_cases hv : validateTotalCLTVDelta (clnDelay cltv) limit ≠ .ok
    · simp [hv] at h
    · simp only [hv, if_false] at h
      have hv' : validateTotalCLTVDelta (clnDelay cltv) limit = .ok := by simpa using hv
      have := (validateTotal_ok _ _).mp hv'
      injection h with h
      have hd : clnDelay cltv = (cltv + 1).toNat := by
        simp only [clnDelay, wrapU32i]
        have : (cltv + 1) % 4294967296 = cltv + 1 := by apply Int.emod_eq_of_lt <;> omega
        rw [this]
      refine ⟨by omega, hd, by omega, h.symm⟩

/-- CLN: with the policy's limit the single hop's delay is final+1 ≤ 32 -/
theorem C04_route_cln (payee : String) (amt : Nat) (cltv : Int) (scid : String) (r : List ClnHop)
    (h : clnRoute payee amt cltv scid lbtc7.maxTotal = .ok r) :
    ∃ hop, r = [hop] ∧ hop.delay = (cltv + 1).toNat ∧ hop.delay ≤ 32 ∧ 0 ≤ cltv := by
  have := clnRoute_limited payee amt cltv scid lbtc7.maxTotal (by decide) r h
  refine ⟨_, this.2.2.2, ?_, ?_, this.1⟩
  · exact this.2.1
  · have h3 := this.2.2.1
    simp only [lbtc7] at h3
    exact h3

/-- LND, any non-zero limit: a request is built only for 0 ≤ final, final + pad ≤ limit < 2^31−1, and
    then carries CltvLimit = limit + 1 -/
theorem lndRequest_limited (payreq dest remote : String) (chanId : Nat) (cltv : Int) (pad limit : Nat)
    (hl : limit ≠ 0) (q : LndReq) (h : lndRequest payreq dest remote chanId cltv pad limit = .ok q) :
    0 ≤ cltv ∧ cltv.toNat + pad ≤ limit ∧ q.cltvLimit = Int.ofNat (limit + 1) ∧ q.maxParts = 1 := by
  unfold lndRequest at h
  by_cases hd : dest ≠ remote
  · simp [hd] at h
  · simp only [hd, if_false, hl, ne_eq, not_false_eq_true, if_true] at h
    by_cases hc : cltv < 0
    · simp [hc] at h
    · simp only [hc, if_false] at h
      by_cases h2 : cltv.toNat + pad > 4294967295
      · simp [h2] at h
      · simp only [h2, if_false] at h
        by_cases hv : validateTotalCLTVDelta (cltv.toNat + pad) limit ≠ .ok
        · simp [hv] at h
        · simp only [hv, if_false] at h
          by_cases h3 : limit ≥ 2147483647
          · simp [h3] at h
          · simp only [h3, if_false] at h
            have hv' : validateTotalCLTVDelta (cltv.toNat + pad) limit = .ok := by simpa using hv
            have := (validateTotal_ok _ _).mp hv'
            injection h with h
            subst h
            refine ⟨by omega, by omega, rfl, rfl⟩

/-- LND: with the policy's limit the payment requires final + BlockPadding ≤ 32 and carries CltvLimit 33 -/
theorem C04_route_lnd (payreq dest remote : String) (chanId : Nat) (cltv : Int) (pad : Nat) (q : LndReq)
    (h : lndRequest payreq dest remote chanId cltv pad lbtc7.maxTotal = .ok q) :
    0 ≤ cltv ∧ cltv.toNat + pad ≤ 32 ∧ q.cltvLimit = 33 ∧ q.maxParts = 1 := by
  have := lndRequest_limited payreq dest remote chanId cltv pad lbtc7.maxTotal (by decide) q h
  simp only [lbtc7] at this
  exact ⟨this.1, this.2.1, by rw [this.2.2.1]; rfl, this.2.2.2⟩

/-- timing: a payment made at Liquid tip `t` inside the window of anchor `a` carries an HTLC that the
    Lightning network resolves within the time of 32 Bitcoin blocks; with one-minute Liquid blocks and at
    least 32 Bitcoin blocks in any 10021 minutes this is before the maker's refund matures at
    `conf + csv`, for any confirmation height `conf > a` (the maker learns the taker's key only after
    the anchor is stored: C13).  The constants are the generated ones; the margin is exactly one minute. -/
theorem C04_resolves_before_refund (a t conf : Nat) (hw : a ≤ t ∧ t < a + lbtc7.window) (hc : a < conf) :
    (conf + lbtc7.csv) - t > 10021 ∧ lbtc7.maxTotal ≤ 32 := by
  simp only [lbtc7] at *
  omega

/-- legacy Liquid swaps (protocol 6) may never create a claim payment: the generated policy says so -/
theorem C04_legacy_never_pays :
    (timelockPolicy .lbtc 6).map (·.allowNew) = some false := by decide

-- non-vacuity
example : payIterationLbtc lbtc7 true 2000000 2000059 = true := by decide
example : payIterationLbtc lbtc7 true 2000000 2000060 = false := by decide
example : payIterationLbtc lbtc7 true 4294967290 4294967295 = true := by decide
example : awaitTxConfLbtc lbtc7 29 1000000000 1000000 true 100 120 = .ok := by decide

end PsVerif.Props.C04
