import PsVerif.Proofs.MkCert
import PsVerif.Model.Admit
/-
C26  Peers that forced a CSV refund are quarantined.

Model: `suspicious` flag of Model/AbsMk.lean (set by AddSuspiciousPeerAction, the first action of the
generated State_ClaimedCsv rows) and the admission model (Model/Admit.lean).  The peer-sync clauses
(request_poll from the peer is not answered, its poll is not stored, it is not polled) and the refusal
of local initiations are checked by the monitor on the real peersync handler/poller and SwapService
with the REAL policy file.
-/
namespace PsVerif.Props.C26
open PsVerif.Gen PsVerif.Model PsVerif.Model.Abs PsVerif.Model.AbsMk PsVerif.Proofs.MkCert

theorem q_of_allProps (m : MC F) (h : allProps m = true) : quarantined m = true := by
  unfold allProps at h
  simp only [Bool.and_eq_true] at h
  exact h.2

/-- every swap that ended in State_ClaimedCsv has the peer on the suspicious list (when the policy file is
    configured, i.e. AddToSuspiciousPeerList does not fail), in every history -/
theorem C26_recorded_in : ∀ m, Reach (sysIn benign) m → quarantined m = true :=
  fun m hm => q_of_allProps m (allProps_in m hm)
theorem C26_recorded_out : ∀ m, Reach (sysOut benign) m → quarantined m = true :=
  fun m hm => q_of_allProps m (allProps_out m hm)

/-- the generated tables run AddSuspiciousPeerAction in State_ClaimedCsv for both maker roles -/
theorem C26_action_in_table :
    ∀ r ∈ [Role.SwapInSender, Role.SwapOutReceiver], ∀ row ∈ table r, row.st = .State_ClaimedCsv →
      row.acts = [.AddSuspiciousPeerAction, .NoOpDoneAction] := by decide

/-- a request from a suspicious peer is never answered with an agreement, whatever else holds -/
theorem C26_blocks_requests (c : NodeCfg) (r : Request) (h : c.suspicious = true) :
    ∃ reason, admission c r = .cancel reason := by
  unfold admission
  cases hf : (refusals c r).find? (·.1) with
  | some x => exact ⟨x.2, rfl⟩
  | none =>
    exfalso
    have := List.find?_eq_none.mp hf (c.suspicious, "suspicious") (by simp [refusals])
    simp [h] at this

end PsVerif.Props.C26
