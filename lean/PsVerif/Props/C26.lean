import PsVerif.Proofs.MkCert
import PsVerif.Model.Admit
import PsVerif.Model.PeerSync
/-
C26  Peers that forced a CSV refund are quarantined.

Model: `suspicious` flag of Model/AbsMk.lean (set by AddSuspiciousPeerAction, the first action of the
generated State_ClaimedCsv rows), the admission model (Model/Admit.lean) and the peer-sync model
(Model/PeerSync.lean, tied by slice `peersync`): a suspicious peer's request_poll is not answered and
its poll is not stored whatever the payload, and no poll round sends to it.  The refusal of local
initiations is checked by the monitor on the real SwapService with the REAL policy file.
-/
namespace PsVerif.Props.C26
open PsVerif.Gen PsVerif.Model PsVerif.Model.Abs PsVerif.Model.AbsMk PsVerif.Proofs.MkCert

theorem q_of_allProps (m : MC F) (h : allProps m = true) : quarantined m = true := by
  unfold allProps at h
  simp only [Bool.and_eq_true] at h
  exact h.2

/-- every swap that ended in State_ClaimedCsv has the peer on the suspicious list (when the policy file is
    configured, i.e. AddToSuspiciousPeerList does not fail), in every history -/
theorem C26_recorded_in : ∀ m, Reach (sysIn benign) m → quarantined m = true :=
  fun m hm => q_of_allProps m (allProps_in m hm)
theorem C26_recorded_out : ∀ m, Reach (sysOut benign) m → quarantined m = true :=
  fun m hm => q_of_allProps m (allProps_out m hm)

/-- the generated tables run AddSuspiciousPeerAction in State_ClaimedCsv for both maker roles -/
theorem C26_action_in_table :
    ∀ r ∈ [Role.SwapInSender, Role.SwapOutReceiver], ∀ row ∈ table r, row.st = .State_ClaimedCsv →
      row.acts = [.AddSuspiciousPeerAction, .NoOpDoneAction] := by decide

/-- a request from a suspicious peer is never answered with an agreement, whatever else holds -/
theorem C26_blocks_requests (c : NodeCfg) (r : Request) (h : c.suspicious = true) :
    ∃ reason, admission c r = .cancel reason := by
  unfold admission
  cases hf : (refusals c r).find? (·.1) with
  | some x => exact ⟨x.2, rfl⟩
  | none =>
    exfalso
    have := List.find?_eq_none.mp hf (c.suspicious, "suspicious") (by simp [refusals])
    simp [h] at this

/-- peer-sync neither answers a suspicious peer nor stores anything from it, for every message type and
    every payload (well-formed or not) -/
theorem C26_peersync_silent (s : PeerSync.St) (t : PeerSync.MsgType) (src : String) (payload : Option PeerSync.Cap)
    (hs : s.suspicious.contains src = true) : PeerSync.recv s t src payload = (s, []) := by
  have hs' : src ∈ s.suspicious := by simpa using hs
  cases t <;> cases payload <;> simp [PeerSync.recv, PeerSync.storeCap, hs']

theorem pollKnown_skips_suspicious (cfg : PeerSync.Cfg) (s : PeerSync.St) (force : Bool) (fails : List String) (k : String)
    (hs : s.suspicious.contains k = true) (ty : PeerSync.MsgType) :
    ∀ ps : List (String × PeerSync.PeerRec), (k, ty) ∉ (PeerSync.pollKnown cfg s force fails ps).2
  | [] => by simp [PeerSync.pollKnown]
  | (k0, r0) :: rest => by
    have ih := pollKnown_skips_suspicious cfg s force fails k hs ty rest
    unfold PeerSync.pollKnown
    simp only
    split
    · exact ih
    · split
      · exact ih
      · split
        · exact ih
        · rename_i _ h2 _
          intro hmem
          rcases List.mem_cons.mp hmem with h | h
          · injection h with h1 _
            subst h1
            exact h2 hs
          · exact ih h

theorem requestUnknown_skips_suspicious (cfg : PeerSync.Cfg) (now : Nat) (force : Bool) (known susp fails : List String)
    (k : String) (hs : susp.contains k = true) (ty : PeerSync.MsgType) :
    ∀ (conn : List String) (lr : List (String × Nat)), (k, ty) ∉ (PeerSync.requestUnknown cfg now force known susp fails lr conn).2
  | [], lr => by simp [PeerSync.requestUnknown]
  | k0 :: rest, lr => by
    unfold PeerSync.requestUnknown
    split
    · exact requestUnknown_skips_suspicious cfg now force known susp fails k hs ty rest lr
    · rename_i h1
      split
      · simp only
        intro hmem
        rcases List.mem_append.mp hmem with h | h
        · split at h
          · cases h
          · simp at h
            have : k0 = k := h.1.symm
            subst this
            have hs' : k0 ∈ susp := by simpa using hs
            simp [hs'] at h1
        · exact requestUnknown_skips_suspicious cfg now force known susp fails k hs ty rest _ h
      · exact requestUnknown_skips_suspicious cfg now force known susp fails k hs ty rest lr

/-- no poll round, forced or not, sends anything to a suspicious peer -/
theorem C26_peersync_never_polls (cfg : PeerSync.Cfg) (s : PeerSync.St) (force : Bool) (fails : List String) (lf : Bool)
    (k : String) (hs : s.suspicious.contains k = true) (ty : PeerSync.MsgType) :
    (k, ty) ∉ (PeerSync.round cfg s force fails lf).2 := by
  unfold PeerSync.round
  simp only
  split
  · exact pollKnown_skips_suspicious cfg s force fails k hs ty _
  · intro h
    rcases List.mem_append.mp h with h | h
    · exact pollKnown_skips_suspicious cfg s force fails k hs ty _ h
    · exact requestUnknown_skips_suspicious cfg s.now force _ s.suspicious fails k hs ty _ _ h

end PsVerif.Props.C26
