import PsVerif.Gen.LockOrder
import PsVerif.Gen.ChanSends
/-
C18  Event handling never deadlocks.

Two parts.
(1) A general theorem about mutual exclusion locks: if every thread only ever waits for a lock whose rank is
    strictly above the ranks of all locks it holds, no set of threads can be deadlocked.
(2) The lock nesting of the program, REGENERATED from the source on every run (Gen/LockOrder.lean:
    go/ast lock regions combined with the x/tools call graph of both daemons, VTA, so that interface calls
    and the watcher callbacks are followed): every "B is acquired while A is held" edge, with a call chain.
    The expectations: every lock expression was named, and every edge goes up in the rank order below —
    in particular nothing is acquired while a watcher lock is held (callbacks run outside), and the per-swap
    mutex is never re-acquired below itself.
(3) Channel sends (Gen/ChanSends.lean, go/ast): the complete list of send statements of the program with the way
    each can block; the block dispatcher's sends to the observers are each the business of their own goroutine.
What this does not cover: blocking on channel receives and condition variables, and locks inside dependencies
(bbolt, gRPC, the Lightning clients); monitor C18 runs the real watchers and service concurrently with
watchdogs for that.
-/
namespace PsVerif.Props.C18
open PsVerif.Gen

/-! ### (1) ordered locking excludes deadlock -/

/-- a lock instance: (rank of its class, which instance) -/
abbrev LockId := Nat × Nat

structure Thread where
  held : List LockId
  want : Option LockId
  deriving Repr

/-- the thread waits only for locks ranked strictly above everything it holds -/
def Ordered (t : Thread) : Prop := ∀ w, t.want = some w → ∀ h ∈ t.held, h.1 < w.1

/-- the thread waits for a lock that some thread of the system holds -/
def Blocked (ts : List Thread) (t : Thread) : Prop := ∃ w, t.want = some w ∧ ∃ u ∈ ts, w ∈ u.held

/-- every thread is blocked -/
def Deadlock (ts : List Thread) : Prop := ts ≠ [] ∧ ∀ t ∈ ts, Blocked ts t

def wantRank (t : Thread) : Nat := match t.want with | some w => w.1 | none => 0

theorem exists_max (ts : List Thread) (h : ts ≠ []) : ∃ t0 ∈ ts, ∀ t ∈ ts, wantRank t ≤ wantRank t0 := by
  induction ts with
  | nil => exact absurd rfl h
  | cons a r ih =>
    by_cases hr : r = []
    · subst hr
      exact ⟨a, List.mem_cons_self, fun t ht => by simp at ht; subst ht; exact Nat.le_refl _⟩
    · obtain ⟨m, hm, hmax⟩ := ih hr
      by_cases hc : wantRank m ≤ wantRank a
      · refine ⟨a, List.mem_cons_self, fun t ht => ?_⟩
        rcases List.mem_cons.mp ht with rfl | ht
        · exact Nat.le_refl _
        · exact Nat.le_trans (hmax t ht) hc
      · refine ⟨m, List.mem_cons_of_mem _ hm, fun t ht => ?_⟩
        rcases List.mem_cons.mp ht with rfl | ht
        · omega
        · exact hmax t ht

/-- **no deadlock under ordered locking** -/
theorem no_deadlock (ts : List Thread) (ho : ∀ t ∈ ts, Ordered t) : ¬ Deadlock ts := by
  intro ⟨hne, hall⟩
  obtain ⟨t0, ht0, hmax⟩ := exists_max ts hne
  obtain ⟨w0, hw0, u, hu, hheld⟩ := hall t0 ht0
  obtain ⟨w', hw', _⟩ := hall u hu
  have h1 : w0.1 < w'.1 := ho u hu w' hw' w0 hheld
  have h2 : wantRank u ≤ wantRank t0 := hmax u hu
  simp only [wantRank, hw0, hw'] at h2
  omega

/-! ### (2) the program's lock nesting respects one order -/

/-- rank of the lock classes: the LND message listener runs the handlers under its mutex (top of the order);
    the per-swap mutex comes next; every other lock is a leaf (nothing is acquired while it is held) -/
def rank (c : String) : Nat :=
  if c = "lnd.MessageListener" then 0
  else if c = "swap.SwapStateMachine.mutex" then 1
  else 2

/-- every lock expression in the source was resolved to a class -/
theorem C18_all_locks_named : lockUnresolved = [] := by decide

/-- every nesting the extractor finds goes strictly up in `rank` -/
theorem C18_edges_ranked : lockEdges.all (fun e => decide (rank e.1 < rank e.2.1)) = true := by decide

/-- in particular: nothing is acquired while a watcher / subscriber lock or the service registry lock is held
    (the callbacks into the swaps run outside these locks), and the per-swap mutex is not acquired below itself -/
theorem C18_no_callback_under_watcher_lock :
    lockEdges.all (fun e =>
      e.1 != "txwatcher.BlockchainRpcTxWatcher" && e.1 != "electrum.liquidBlockHeaderSubscriber.mu" &&
      e.1 != "lwk.electrumTxWatcher.mu" && e.1 != "lnd.TxWatcher" && e.1 != "swap.SwapService" &&
      !(e.1 == "swap.SwapStateMachine.mutex" && e.2.1 == "swap.SwapStateMachine.mutex")) = true := by decide

/-- a thread of the program: what it holds and what it waits for are lock classes with instance numbers, and
    each (held, wanted) pair is one of the extracted nestings -/
structure PThread where
  held : List (String × Nat)
  want : Option (String × Nat)

def FollowsEdges (t : PThread) : Prop :=
  ∀ w, t.want = some w → ∀ h ∈ t.held, ∃ e ∈ lockEdges, e.1 = h.1 ∧ e.2.1 = w.1

def toThread (t : PThread) : Thread :=
  ⟨t.held.map fun h => (rank h.1, h.2), t.want.map fun w => (rank w.1, w.2)⟩

theorem ordered_of_follows (t : PThread) (h : FollowsEdges t) : Ordered (toThread t) := by
  intro w hw hh hmem
  unfold toThread at hw hmem
  simp only at hw hmem
  cases hwant : t.want with
  | none => simp [hwant] at hw
  | some pw =>
    simp only [hwant, Option.map_some, Option.some.injEq] at hw
    subst hw
    obtain ⟨ph, hph, rfl⟩ := List.mem_map.mp hmem
    obtain ⟨e, he, h1, h2⟩ := h pw hwant ph hph
    have := C18_edges_ranked
    simp only [List.all_eq_true, decide_eq_true_eq] at this
    have hr := this e he
    simp only
    rw [← h1, ← h2]
    exact hr

/-- **C18 (locks)**: threads whose nested acquisitions are among the nestings extracted from the program can
    never all wait for each other -/
theorem C18_no_lock_deadlock (ts : List PThread) (h : ∀ t ∈ ts, FollowsEdges t) :
    ¬ Deadlock (ts.map toThread) := by
  apply no_deadlock
  intro t ht
  obtain ⟨p, hp, rfl⟩ := List.mem_map.mp ht
  exact ordered_of_follows p (h p hp)

-- non-vacuity: the message handler (swap mutex held, registering a CSV watch) and the block handler
example : FollowsEdges ⟨[("swap.SwapStateMachine.mutex", 7)], some ("txwatcher.BlockchainRpcTxWatcher", 0)⟩ := by
  intro w hw h hh
  simp at hw hh
  subst hw; subst hh
  have : lockEdges.any (fun e => e.1 == "swap.SwapStateMachine.mutex" && e.2.1 == "txwatcher.BlockchainRpcTxWatcher") = true := by decide
  obtain ⟨e, he, hp⟩ := List.any_eq_true.mp this
  simp only [Bool.and_eq_true, beq_iff_eq] at hp
  exact ⟨e, he, hp.1, hp.2⟩
example : lockEdges.length > 10 := by decide

/-! ### (3) channel sends -/

/-- every channel send of the program, and how it can block its goroutine -/
theorem C18_channel_sends : chanSends = [
    ("clightning/clightning.go", "onInit", "cl.initChan", "plain"),
    ("cmd/peerswaplnd/peerswapd/main.go", "run", "shutdown", "plain"),
    ("lnd/txwatcher.go", "addTxWatcher", "confChan", "plain"),
    ("lnd/txwatcher.go", "addTxWatcher", "errChan", "plain"),
    ("lnd/txwatcher.go", "addTxWatcher", "errChan", "plain"),
    ("lwk/electrumtxwatcher.go", "StartWatchingTxs", "notify", "select-default"),
    ("peerswaprpc/server.go", "Stop", "p.sigchan", "plain"),
    ("peersync/message_bus.go", "publish", "ch", "select-default"),
    ("txwatcher/rpctxwatcher.go", "AddWaitForConfirmationTx", "newBlock", "plain"),
    ("txwatcher/rpctxwatcher.go", "StartBlockWatcher", "s.newBlockChan", "plain"),
    ("txwatcher/rpctxwatcher.go", "StartWatchingTxs", "obs.blockChan", "go")] := by decide

/-- the loop that hands a new block to every confirmation observer never waits for one of them: each hand-over is
    a goroutine of its own (an observer that is busy in its callback, or gone, cannot stop block handling and with
    it the CSV reports of other swaps); the publisher of the peer-sync bus never waits for a subscriber -/
theorem C18_dispatchers_do_not_wait :
    (chanSends.filter (fun s => s.2.1 == "StartWatchingTxs" || s.2.1 == "publish")).all (fun s => s.2.2.2 == "go" || s.2.2.2 == "select-default") = true := by
  decide

end PsVerif.Props.C18
