import PsVerif.Model.AbsLv
import PsVerif.Gen.ActionEvents
/-
C16  Every swap eventually terminates when restarts happen from time to time.

Model: the abstract engine over the GENERATED state tables with the flags of Model/AbsLv.lean (the three
in-memory triggers a waiting swap can hold: negotiation timer, confirmation watch, CSV watch).
`AbsLv.sys` is the full behaviour (every peer message, timer, chain and payment event at every rest point,
every service result, crashes anywhere, restarts); `AbsLv.qsuccs` is what can still happen once the peer has
gone silent: a dead process is restarted, an event in flight is handled with the local services answering,
a swap at rest receives one of its ARMED triggers (timers fire, watchers report), with no trigger armed
the chain advances past the swap's payment window (`late`), and after that the node is restarted (from time
to time).
Tie: slice `absLv` (trace inclusion of the real machines' persisted configurations, flags read from the
simulated timeout service and chain watchers) and monitor C16 (silence after every prefix on the real code).
-/
namespace PsVerif.Props.C16
open PsVerif.Gen PsVerif.Model.Abs PsVerif.Model.AbsLv

/-- number of quiet steps within which every continuation has finished -/
def bound : Nat := 10

def cert (r : Role) : Cert F := reachCert (sys (table r)) 200

theorem cert_ok_outSender : (closedCert (sys (table .SwapOutSender)) (cert .SwapOutSender) &&
    allGood (cert .SwapOutSender) (fun m => terminates (table .SwapOutSender) bound m && !m.f.unknownAct)) = true := by decide +kernel
theorem cert_ok_outReceiver : (closedCert (sys (table .SwapOutReceiver)) (cert .SwapOutReceiver) &&
    allGood (cert .SwapOutReceiver) (fun m => terminates (table .SwapOutReceiver) bound m && !m.f.unknownAct)) = true := by decide +kernel
theorem cert_ok_inSender : (closedCert (sys (table .SwapInSender)) (cert .SwapInSender) &&
    allGood (cert .SwapInSender) (fun m => terminates (table .SwapInSender) bound m && !m.f.unknownAct)) = true := by decide +kernel
theorem cert_ok_inReceiver : (closedCert (sys (table .SwapInReceiver)) (cert .SwapInReceiver) &&
    allGood (cert .SwapInReceiver) (fun m => terminates (table .SwapInReceiver) bound m && !m.f.unknownAct)) = true := by decide +kernel

theorem cert_ok (r : Role) : closedCert (sys (table r)) (cert r) = true ∧
    allGood (cert r) (fun m => terminates (table r) bound m && !m.f.unknownAct) = true := by
  cases r
  · have := cert_ok_outSender; simp only [Bool.and_eq_true] at this; exact this
  · have := cert_ok_outReceiver; simp only [Bool.and_eq_true] at this; exact this
  · have := cert_ok_inSender; simp only [Bool.and_eq_true] at this; exact this
  · have := cert_ok_inReceiver; simp only [Bool.and_eq_true] at this; exact this

/-- **C16**: in every role, after every history — any peer behaviour, any order of events, any service
    failures, crashes at any point, any number of restarts — the configuration reached is such that once the
    peer is silent every continuation (restarts, armed timers, chain events, local actions with the services
    answering) reaches a terminal state, with the swap out of the active map (its channel released), within
    `bound` steps; and every action chain the generated tables contain has a summary in the model -/
theorem C16_terminates (r : Role) (m : MC F) (h : Reach (sys (table r)) m) :
    terminates (table r) bound m = true ∧ m.f.unknownAct = false := by
  have := invariant_of_cert (sys (table r)) (cert r) _ (cert_ok r).1 (cert_ok r).2 m h
  simpa using this

/-- a quiet run: each configuration is a quiet successor of the one before -/
def QRun (tb : List Row) : MC F → List (MC F) → Prop
  | _, [] => True
  | m, m' :: rest => m' ∈ qsuccs tb m ∧ QRun tb m' rest

/-- what `terminates` means: every quiet run of `n` steps passes through a terminal configuration, and a
    non-terminal configuration always has a quiet successor (nothing waits for the peer) -/
theorem terminates_sound (tb : List Row) : ∀ (n : Nat) (m : MC F), terminates tb n m = true →
    ∀ run : List (MC F), QRun tb m run → run.length = n → ∃ x ∈ m :: run, terminal x = true
  | 0, m, h, run, _, hl => by
    have : run = [] := List.eq_nil_of_length_eq_zero hl
    subst this
    exact ⟨m, List.mem_cons_self, by simpa [terminates] using h⟩
  | n + 1, m, h, run, hr, hl => by
    unfold terminates at h
    by_cases ht : terminal m = true
    · exact ⟨m, List.mem_cons_self, ht⟩
    · simp only [ht, Bool.false_or, Bool.and_eq_true, Bool.not_eq_true', List.all_eq_true] at h
      cases run with
      | nil => simp at hl
      | cons m' rest =>
        obtain ⟨hm', hrest⟩ := hr
        have hlen : rest.length = n := by simpa using hl
        obtain ⟨x, hx, hxt⟩ := terminates_sound tb n m' (h.2 m' hm') rest hrest hlen
        exact ⟨x, List.mem_cons_of_mem _ hx, hxt⟩

theorem terminates_progress (tb : List Row) (n : Nat) (m : MC F) (h : terminates tb (n + 1) m = true)
    (ht : terminal m = false) : qsuccs tb m ≠ [] := by
  unfold terminates at h
  simp only [ht, Bool.false_or, Bool.and_eq_true, Bool.not_eq_true'] at h
  intro he
  rw [he] at h
  simp at h

/-- corollary in words: from every reachable configuration, every run of `bound` quiet steps ends the swap -/
theorem C16_every_quiet_run_ends (r : Role) (m : MC F) (h : Reach (sys (table r)) m)
    (run : List (MC F)) (hr : QRun (table r) m run) (hl : run.length = bound) :
    ∃ x ∈ m :: run, terminal x = true :=
  terminates_sound (table r) bound m (C16_terminates r m h).1 run hr hl

-- non-vacuity: the waits that need a trigger are reachable, e.g. a maker resting with its CSV watch armed
example : (cert .SwapInSender).mem ⟨.State_SwapInSender_AwaitClaimPayment, (F.init.setCsvWatch true), none, true, true⟩ = true := by
  decide +kernel
example : (cert .SwapOutSender).mem ⟨.State_SwapOutSender_AwaitTxBroadcastedMessage, F.init, none, false, true⟩ = true := by
  decide +kernel


/-! ### results of actions the state table does not handle (generated go/ast facts) -/

def resultEvents (a : Act) : List Ev :=
  match actionReturns.find? (fun r => r.1 == a.name) with
  | some r => r.2.1
  | none => []

/-- (role, state, action, event): the action chain of the state can return the event, the event is neither `NoOp`
    nor `Event_Done` (which end the handling), and the state has no edge for it: `SendEvent` answers
    ErrEventRejected and the swap stays where it is until something else moves it -/
def unhandledResults : List (Role × St × Act × Ev) :=
  Role.all.flatMap fun r => (table r).flatMap fun row => row.acts.flatMap fun a =>
    ((resultEvents a).filter fun e => e != .NoOp && e != .Event_Done && (Model.Abs.nextSt (table r) row.st e).isNone).map fun e => (r, row.st, a, e)

/-- every action of the tables was found in the source, and every return statement was classified -/
theorem C16_action_facts_complete :
    (Act.all.filter fun a => (actionReturns.find? (fun r => r.1 == a.name)).isNone) = [] ∧
    (actionReturns.filter fun r => !r.2.2.2.isEmpty) = [] := by decide

/-- the complete list of action results no edge exists for.  All six are `Event_ActionFailed` from branches that
    need a chain to be disabled or the output script of already validated parameters to be uncomputable
    (`getOnChainServices`, `GetOutputScript` errors); a failing WALLET call in the claim states must come back as
    `Event_OnRetry` (next theorem).  A new entry here is a new way for a swap to get stuck. -/
theorem C16_unhandled_results : unhandledResults = [
    (.SwapOutSender, .State_SwapOutSender_ClaimSwap, .ClaimSwapTransactionWithPreimageAction, .Event_ActionFailed),
    (.SwapOutReceiver, .State_SwapOutReceiver_AwaitClaimInvoicePayment, .AwaitPaymentOrCsvAction, .Event_ActionFailed),
    (.SwapOutReceiver, .State_WaitCsv, .AwaitCsvAction, .Event_ActionFailed),
    (.SwapInSender, .State_SwapInSender_AwaitClaimPayment, .AwaitPaymentOrCsvAction, .Event_ActionFailed),
    (.SwapInSender, .State_WaitCsv, .AwaitCsvAction, .Event_ActionFailed),
    (.SwapInReceiver, .State_SwapInReceiver_ClaimSwap, .ClaimSwapTransactionWithPreimageAction, .Event_ActionFailed)] := by decide

/-- the actions that broadcast a claim keep the swap in its claim state and ask to be run again: exactly the
    preimage claim and the CSV claim can return `Event_OnRetry`, and every state they run in has the retry edge -/
theorem C16_claims_retry :
    (Act.all.filter fun a => (resultEvents a).contains .Event_OnRetry) = [.ClaimSwapTransactionWithCsv, .ClaimSwapTransactionWithPreimageAction] ∧
    (Role.all.all fun r => (table r).all fun row =>
      !(row.acts.any fun a => (resultEvents a).contains .Event_OnRetry) || Model.Abs.nextSt (table r) row.st .Event_OnRetry == some row.st) = true := by
  decide

end PsVerif.Props.C16
