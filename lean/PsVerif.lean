import PsVerif.Base
import PsVerif.Props.C06
import PsVerif.Props.C24
import PsVerif.Props.C27
import PsVerif.Props.C30
import PsVerif.Findings.C06
