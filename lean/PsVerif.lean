import PsVerif.Base
import PsVerif.Props.C24
