import PsVerif.Driver.Pure
/-
psdriver: one request per line on stdin, one reply per line on stdout.
The replies are computed by the SAME definitions the theorems in PsVerif/Props are about.
-/
open PsVerif.Driver

def handlers : List (List String → Option String) := [handlePure]

def handleLine (line : String) : String :=
  let ws := (line.splitOn " ").filter (· ≠ "")
  match handlers.findSome? (fun h => h ws) with
  | some r => r
  | none => "bad-op"

partial def loop (hin hout : IO.FS.Stream) : IO Unit := do
  let line ← hin.getLine
  if line.isEmpty then return ()
  let l := String.ofList (line.toList.filter (fun c => c != '\n' && c != '\r'))
  hout.putStrLn (handleLine l)
  loop hin hout

def main : IO Unit := do
  let hin ← IO.getStdin
  let hout ← IO.getStdout
  loop hin hout
