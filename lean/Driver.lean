import PsVerif.Driver.Pure
import PsVerif.Driver.Stateful
import PsVerif.Driver.Abs
import PsVerif.Driver.ScriptD
import PsVerif.Driver.Registry
import PsVerif.Driver.PolicyD
import PsVerif.Driver.SyncD
import PsVerif.Driver.RecordD
import PsVerif.Driver.WatchD
import PsVerif.Driver.OpenD
import PsVerif.Driver.SpendD
/-
psdriver: one request per line on stdin, one reply per line on stdout.
The replies are computed by the SAME definitions the theorems in PsVerif/Props are about.
-/
open PsVerif.Driver PsVerif.Model

structure DState where
  rates : RateStore := []
  abs : AbsState := .none
  reg : PsVerif.Model.Service.Reg := ⟨[], []⟩
  regPending : Option PsVerif.Model.Service.Entry := none   -- a request whose first half has run
  pol : Option PsVerif.Model.PolicyFile.St := none
  sync : Option SyncState := none

def step (st : DState) (ws : List String) : DState × String :=
  match handlePure ws with
  | some r => (st, r)
  | none =>
  match handleRecord ws with
  | some r => (st, r)
  | none =>
  match handleWatch ws with
  | some r => (st, r)
  | none =>
  match handleOpen ws with
  | some r => (st, r)
  | none =>
  match handleSpend ws with
  | some r => (st, r)
  | none =>
  match handleScript ws with
  | some r => (st, r)
  | none =>
  match handlePremium st.rates ws with
  | some (s, r) => ({ st with rates := s }, r)
  | none =>
  match handleAbs st.abs ws with
  | some (a, r) => ({ st with abs := a }, r)
  | none =>
  match handleRegistry st.reg ws with
  | some (g, r) => ({ st with reg := g }, r)
  | none =>
  match handleInflight st.reg st.regPending ws with
  | some (g, p, r) => ({ st with reg := g, regPending := p }, r)
  | none =>
  match handlePolicy st.pol ws with
  | some (p, r) => ({ st with pol := p }, r)
  | none =>
  match handleSync st.sync ws with
  | some (y, r) => ({ st with sync := y }, r)
  | none => (st, "bad-op")

partial def loop (hin hout : IO.FS.Stream) (st : DState) : IO Unit := do
  let line ← hin.getLine
  if line.isEmpty then return ()
  let l := String.ofList (line.toList.filter (fun c => c != '\n' && c != '\r'))
  let (st', out) := step st ((l.splitOn " ").filter (· ≠ ""))
  hout.putStrLn out
  loop hin hout st'

def main : IO Unit := do
  let hin ← IO.getStdin
  let hout ← IO.getStdout
  loop hin hout {}
