package main

import (
	"context"
	"encoding/hex"
	"encoding/json"
	"fmt"
	"strings"

	"github.com/elementsproject/peerswap/messages"
	"github.com/elementsproject/peerswap/premium"
	"github.com/elementsproject/peerswap/swap"
)

type admitCase struct {
	// node
	allowNew, btcOn, lbtcOn, acceptAll, allowlisted, suspicious, probeOk, busy bool
	minMsat, spendable, receivable, balance, fee                               uint64
	rateBtc, rateLbtc                                                          int64
	// request
	swapOut                   bool
	version                   uint8
	asset, network, scid, pub string
	amount                    uint64
	limit                     int64
}

const otherAsset = "02" + "1111111111111111111111111111111111111111111111111111111111111111"

func genAdmit(r *rng) admitCase {
	c := admitCase{allowNew: true, btcOn: true, lbtcOn: true, acceptAll: true, probeOk: true,
		minMsat: 100000000, spendable: 5000000000, receivable: 5000000000, balance: 100000000, fee: 500,
		rateBtc: 1000, rateLbtc: 2000,
		swapOut: r.bool(), version: 7, scid: "100x1x0", pub: hex.EncodeToString(detKey("req").PubKey().SerializeCompressed()),
		amount: 1000000, limit: 1000000}
	if r.bool() {
		c.asset = lbtcAsset
	} else {
		c.network = "regtest"
	}
	// perturb up to three dimensions
	for k := r.intn(4); k > 0; k-- {
		switch r.intn(20) {
		case 0:
			c.allowNew = false
		case 1:
			c.btcOn = false
		case 2:
			c.lbtcOn = false
		case 3:
			c.acceptAll = false
			c.allowlisted = r.bool()
		case 4:
			c.suspicious = true
		case 5:
			c.probeOk = false
		case 6:
			c.busy = true
		case 7:
			c.minMsat = r.pickU64([]uint64{0, 999999999, 1000000000, 1000000001, 1 << 62})
		case 8:
			c.spendable = r.pickU64([]uint64{0, 999999999, 1000000000, 1000000001})
			c.receivable = r.pickU64([]uint64{0, 999999999, 1000000000, 1000000001})
		case 9:
			c.balance = r.pickU64([]uint64{0, 1000499, 1000500, 1000501})
		case 10:
			c.rateBtc = r.pickI64([]int64{0, -1000, 1000000, 999999, 1000001})
			c.rateLbtc = r.pickI64([]int64{0, -1000, 1000000, 5})
		case 11:
			c.version = uint8(r.pickU64([]uint64{6, 8, 0, 255}))
		case 12:
			c.asset = r.pickStr([]string{"", lbtcAsset, otherAsset, "zz", lbtcAsset[2:], "00"})
		case 13:
			c.network = r.pickStr([]string{"", "regtest", "mainnet", "testnet", "signet", "bogus", "Regtest"})
		case 14:
			c.scid = r.pickStr([]string{"100x1x0", "100:1:0", "1x2", "axbxc", "", "1x2x3x4", "100x1:0", "1xx2", "ax1x2"})
		case 15:
			good := hex.EncodeToString(detKey("req").PubKey().SerializeCompressed())
			c.pub = r.pickStr([]string{"", "zz", good[:64], good + "00", strings.ToUpper(good)})
		case 16:
			c.amount = r.pickU64([]uint64{0, 1, 99999, 100000, 4999999, 5000000, 5000001, 18446744073709652, 1 << 63, 18446744073709551})
		case 17:
			c.limit = r.pickI64([]int64{0, 999, 1000, 1001, 1999, 2000, 2001, -1, -1 << 63, 1<<63 - 1})
		case 18:
			c.fee = r.pickU64([]uint64{0, 1, 1 << 63, 1<<64 - 1})
		case 19:
			c.swapOut = !c.swapOut
		}
	}
	return c
}

func b2(b bool) string {
	if b {
		return "1"
	}
	return "0"
}

func (c admitCase) op() string {
	return fmt.Sprintf("admission %s %s %s %d %s %s %s %s %s %d %d %d %s %s %d %d %s %d %s %s %s %s %d %d",
		b2(c.allowNew), b2(c.btcOn), b2(c.lbtcOn), c.minMsat, b2(c.acceptAll), b2(c.allowlisted), b2(c.suspicious),
		hexs(lbtcAsset), hexs("regtest"), c.rateBtc, c.rateLbtc, c.spendable, b2(c.probeOk), b2(c.busy), c.balance, c.fee,
		b2(c.swapOut), c.version, hexs(c.asset), hexs(c.network), hexs(c.scid), hexs(c.pub), c.amount, c.limit) +
		fmt.Sprintf(" %d", c.receivable)
}

func cancelClass(msg string) string {
	switch {
	case strings.Contains(msg, "unacceptable premium"):
		return "premium"
	case strings.Contains(msg, "exceeding spendable"):
		return "spendable"
	case strings.Contains(msg, "prepayment probe was unsuccessful"):
		return "probe"
	case strings.Contains(msg, "exceeding receivable"):
		return "receivable"
	case strings.Contains(msg, "already has an active swap"):
		return "active-swap"
	case strings.Contains(msg, "swaps are disabled"):
		return "disabled"
	case strings.Contains(msg, "lbtc swaps are not supported"):
		return "lbtc-disabled"
	case strings.Contains(msg, "btc swaps are not supported"):
		return "btc-disabled"
	case strings.Contains(msg, "incompatible peerswap version"):
		return "version"
	case strings.Contains(msg, "minimum swap amount"):
		return "minimum"
	case strings.Contains(msg, "invalid liquid asset"):
		return "asset"
	case strings.Contains(msg, "invalid bitcoin network"):
		return "network"
	case strings.Contains(msg, "not allowed to request swaps"):
		return "not-allowed"
	case strings.Contains(msg, "insufficient walletbalance"):
		return "balance"
	case msg == "":
		return "invalid"
	}
	return "other:" + hexs(msg)
}

// runAdmit sends the request to a fresh REAL service configured as the case says and returns what the
// peer gets back: "agreement <premium>" or "cancel <class>", plus the number of agreements and cancels.
func runAdmit(c admitCase) string {
	cfg := defaultCfg()
	cfg.AcceptAll, cfg.MinSwapMsat, cfg.BtcEnabled, cfg.LbtcEnabled = c.acceptAll, c.minMsat, c.btcOn, c.lbtcOn
	cfg.SpendableMsat, cfg.ReceivableMsat, cfg.WalletSat, cfg.OpeningFee = c.spendable, c.receivable, c.balance, c.fee
	if c.allowlisted {
		cfg.Allowlist = []string{peerNode}
	}
	w := newWorld(cfg)
	defer w.close()
	w.pol.allowNew = c.allowNew
	if c.suspicious {
		w.pol.susp[peerNode] = true
	}
	if !c.probeOk {
		w.faults["probe"] = []string{"unsuccessful"}
	}
	op := premium.SwapIn
	if c.swapOut {
		op = premium.SwapOut
	}
	for _, x := range []struct {
		a premium.AssetType
		v int64
	}{{premium.BTC, c.rateBtc}, {premium.LBTC, c.rateLbtc}} {
		pr, _ := premium.NewPremiumRate(x.a, op, premium.NewPPM(x.v))
		w.ps.SetRate(context.Background(), peerNode, pr)
	}
	if c.busy {
		// another swap of this node already uses the channel
		if err := w.svc.VerifLockSwap(strings.Repeat("ab", 32), c.scid); err != nil {
			return "setup-error"
		}
	}
	id := swap.NewSwapId()
	ctx := newCtx(w)
	var out string
	if c.swapOut {
		out = ctx.deliver(peerNode, &swap.SwapOutRequestMessage{ProtocolVersion: c.version, SwapId: id, Asset: c.asset, Network: c.network, Scid: c.scid, Amount: c.amount, Pubkey: c.pub, PremiumLimit: c.limit})
	} else {
		out = ctx.deliver(peerNode, &swap.SwapInRequestMessage{ProtocolVersion: c.version, SwapId: id, Asset: c.asset, Network: c.network, Scid: c.scid, Amount: c.amount, Pubkey: c.pub, PremiumLimit: c.limit})
	}
	if out == "PANIC" {
		return "panic"
	}
	var res []string
	for _, m := range w.msgr.sent {
		switch m.typ {
		case messages.MESSAGETYPE_SWAPINAGREEMENT:
			var a swap.SwapInAgreementMessage
			json.Unmarshal(m.payload, &a)
			res = append(res, fmt.Sprintf("agreement %d", a.Premium))
		case messages.MESSAGETYPE_SWAPOUTAGREEMENT:
			var a swap.SwapOutAgreementMessage
			json.Unmarshal(m.payload, &a)
			res = append(res, fmt.Sprintf("agreement %d", a.Premium))
		case messages.MESSAGETYPE_CANCELED:
			var cm swap.CancelMessage
			json.Unmarshal(m.payload, &cm)
			res = append(res, "cancel "+cancelClass(cm.Message))
		default:
			res = append(res, "other-"+msgTypeName(int(m.typ)))
		}
	}
	if len(res) == 0 {
		return "none"
	}
	return strings.Join(res, " + ")
}

func init() {
	slices["admit"] = func(r *rng, n int, emit func(op, res string)) {
		for i := 0; i < n; i++ {
			c := genAdmit(r)
			emit(c.op(), runAdmit(c))
		}
	}
}
