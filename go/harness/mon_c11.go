package main

import (
	"fmt"
	"math/big"
	"strings"
)

func init() {
	monitors["C11"] = func(r *rng, n int, res *MonitorResult) {
		res.Rule = "request × node-configuration cases (valid base, up to three perturbed dimensions incl. wrapping amounts) through the real SwapService with simulated Lightning/wallet and the real premium.Setting; judged: exactly one answer; an agreement only if every stated condition holds on the REAL (unwrapped) amounts; distinct = distinct cases"
		seen := map[string]bool{}
		cases := []admitCase{}
		// deterministic witness of the known finding: amount*1000 wraps below the channel capacity
		w := genAdmit(newRng(0))
		w = admitCase{allowNew: true, btcOn: true, lbtcOn: true, acceptAll: true, probeOk: true, minMsat: 100000, spendable: 5000000000, receivable: 5000000000,
			balance: 100000000, fee: 500, rateBtc: 0, rateLbtc: 0, swapOut: false, version: 7, network: "regtest", scid: "100x1x0", pub: w.pub, amount: 18446744073709652, limit: 0}
		if len(w.pub) != 66 {
			w.pub = "02" + strings.Repeat("ab", 32)
		}
		cases = append(cases, w)
		for i := 0; i < n; i++ {
			cases = append(cases, genAdmit(r))
		}
		for _, c := range cases {
			out := runAdmit(c)
			res.Evaluations++
			if !seen[c.op()] {
				seen[c.op()] = true
				res.Distinct++
			}
			kind := strings.Fields(out + " x")[0]
			res.Histogram[kind]++
			if strings.Contains(out, "+") {
				res.addFinding("C11/more-than-one-answer", "request answered with "+out, c.op())
				continue
			}
			if out == "none" || out == "panic" || strings.HasPrefix(out, "other") {
				res.addFinding("C11/no-answer/"+out, "request got no agreement and no cancel: "+out, c.op())
				continue
			}
			if kind != "agreement" {
				continue
			}
			res.sample(c.op() + " => " + out)
			msat := new(big.Int).Mul(new(big.Int).SetUint64(c.amount), big.NewInt(1000))
			chainOK := (c.asset != "" && c.network == "" && c.lbtcOn && c.asset == lbtcAsset) || (c.asset == "" && c.network == "regtest" && c.btcOn)
			fits := msat.Cmp(new(big.Int).SetUint64(c.spendable)) <= 0
			if c.swapOut {
				fits = msat.Cmp(new(big.Int).SetUint64(c.receivable)) <= 0
			}
			var why string
			var prem int64
			fmt.Sscanf(out, "agreement %d", &prem)
			switch {
			case prem > c.limit:
				why = "premium-above-limit"
			case !c.allowNew:
				why = "swaps-disabled"
			case !chainOK:
				why = "chain-or-asset"
			case c.version != 7:
				why = "version"
			case msat.Cmp(new(big.Int).SetUint64(c.minMsat)) < 0:
				why = "below-minimum"
			case !fits:
				why = "does-not-fit-channel"
			case !(c.acceptAll || c.allowlisted):
				why = "not-allowlisted"
			case c.suspicious:
				why = "suspicious"
			case c.busy:
				why = "channel-busy"
			case c.swapOut && new(big.Int).Add(new(big.Int).SetUint64(c.amount), new(big.Int).SetUint64(c.fee)).Cmp(new(big.Int).SetUint64(c.balance)) > 0:
				why = "balance"
			}
			if why != "" {
				sig := "C11/agreement-although/" + why
				if new(big.Int).Rsh(msat, 64).Sign() > 0 {
					sig += "/amount-times-1000-wraps"
				}
				if why == "balance" && new(big.Int).Rsh(new(big.Int).Add(new(big.Int).SetUint64(c.amount), new(big.Int).SetUint64(c.fee)), 64).Sign() > 0 {
					sig += "/amount-plus-fee-wraps"
				}
				res.addFinding(sig, fmt.Sprintf("agreement sent although condition '%s' fails", why), c.op())
			}
		}
	}
}
