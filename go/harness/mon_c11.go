package main

import (
	"fmt"
	"math/big"
	"strings"

	"github.com/elementsproject/glightning/glightning"
	"github.com/elementsproject/peerswap/clightning"
	"github.com/lightningnetwork/lnd/lnrpc"
)

func init() {
	monitors["C11"] = func(r *rng, n int, res *MonitorResult) {
		res.Rule = "request × node-configuration cases (valid base, up to three perturbed dimensions incl. wrapping amounts) through the real SwapService with simulated Lightning/wallet and the real premium.Setting; judged: exactly one answer; an agreement only if every stated condition holds on the REAL (unwrapped) amounts; distinct = distinct cases"
		// "fits the channel" starts with what the Lightning adapters report as sendable / receivable: the REAL LND
		// adapter over a fake gRPC node and the CLN adapter's channel arithmetic, on channels whose balance is below,
		// at and above the channel reserve (a channel funded by one side alone has the other side below its reserve)
		for _, bal := range []int64{0, 1, 5000, 9999, 10000, 10001, 2000000} {
			for _, reserve := range []uint64{0, 10000} {
				rig := newLndWalletRig(rateEstimator{})
				ch := &lnrpc.Channel{Active: true, RemotePubkey: "02" + strings.Repeat("cd", 32), ChanId: (100 << 40) | (1 << 16),
					Capacity: 4000000, LocalBalance: bal, RemoteBalance: bal,
					LocalConstraints: &lnrpc.ChannelConstraints{ChanReserveSat: reserve}, RemoteConstraints: &lnrpc.ChannelConstraints{ChanReserveSat: reserve}}
				rig.ln.chans = []*lnrpc.Channel{ch}
				truth := uint64(0)
				if uint64(bal) > reserve {
					truth = (uint64(bal) - reserve) * 1000
				}
				for _, dir := range []string{"receivable", "spendable"} {
					var got uint64
					var err error
					if dir == "receivable" {
						got, err = rig.client.ReceivableMsat("100x1x0")
					} else {
						got, err = rig.client.SpendableMsat("100x1x0")
					}
					res.Evaluations++
					res.Distinct++
					res.Histogram["adapter lnd "+dir]++
					if err == nil && got > truth {
						res.addFinding("C11/adapter/lnd/"+dir+"-above-balance-minus-reserve", fmt.Sprintf("LND adapter reports %d msat %s on a channel side with balance %d sat and reserve %d sat (at most %d msat can move): every amount 'fits the channel'", got, dir, bal, reserve, truth),
							map[string]interface{}{"balance_sat": bal, "reserve_sat": reserve, "direction": dir})
					}
				}
				// CLN: lightningd reports 0 when the side is below its reserve; the adapter then falls back to its own
				// subtraction
				pc := clightning.PeerChannel{TotalMsat: glightning.AmountFromMSat(4000000000), ToUsMsat: glightning.AmountFromMSat(4000000000 - uint64(bal)*1000),
					TheirReserveMsat: glightning.AmountFromMSat(reserve * 1000), OurReserveMsat: glightning.AmountFromMSat(reserve * 1000)}
				if truth > 0 {
					pc.ReceivableMsat = glightning.AmountFromMSat(truth)
				}
				res.Evaluations++
				res.Histogram["adapter cln receivable"]++
				if got := pc.GetReceivableMsat(); got > truth {
					res.addFinding("C11/adapter/cln/receivable-above-balance-minus-reserve", fmt.Sprintf("CLN adapter reports %d msat receivable on a channel whose peer holds %d sat with a reserve of %d sat (lightningd: receivable_msat 0)", got, bal, reserve),
						map[string]interface{}{"peer_balance_sat": bal, "reserve_sat": reserve})
				}
				ps := clightning.PeerChannel{TotalMsat: glightning.AmountFromMSat(4000000000), ToUsMsat: glightning.AmountFromMSat(uint64(bal) * 1000),
					TheirReserveMsat: glightning.AmountFromMSat(reserve * 1000), OurReserveMsat: glightning.AmountFromMSat(reserve * 1000)}
				if truth > 0 {
					ps.SpendableMsat = glightning.AmountFromMSat(truth)
				}
				res.Evaluations++
				res.Histogram["adapter cln spendable"]++
				if got := ps.GetSpendableMsat(); got > truth {
					res.addFinding("C11/adapter/cln/spendable-above-balance-minus-reserve", fmt.Sprintf("CLN adapter reports %d msat spendable on a channel where the node holds %d sat with a reserve of %d sat (lightningd: spendable_msat 0)", got, bal, reserve),
						map[string]interface{}{"balance_sat": bal, "reserve_sat": reserve})
				}
			}
		}
		seen := map[string]bool{}
		cases := []admitCase{}
		// deterministic witness of the known finding: amount*1000 wraps below the channel capacity
		w := genAdmit(newRng(0))
		w = admitCase{allowNew: true, btcOn: true, lbtcOn: true, acceptAll: true, probeOk: true, minMsat: 100000, spendable: 5000000000, receivable: 5000000000,
			balance: 100000000, fee: 500, rateBtc: 0, rateLbtc: 0, swapOut: false, version: 7, network: "regtest", scid: "100x1x0", pub: w.pub, amount: 18446744073709652, limit: 0}
		if len(w.pub) != 66 {
			w.pub = "02" + strings.Repeat("ab", 32)
		}
		cases = append(cases, w)
		for i := 0; i < n; i++ {
			cases = append(cases, genAdmit(r))
		}
		for _, c := range cases {
			out := runAdmit(c)
			res.Evaluations++
			if !seen[c.op()] {
				seen[c.op()] = true
				res.Distinct++
			}
			kind := strings.Fields(out + " x")[0]
			res.Histogram[kind]++
			if strings.Contains(out, "+") {
				res.addFinding("C11/more-than-one-answer", "request answered with "+out, c.op())
				continue
			}
			if out == "none" || out == "panic" || strings.HasPrefix(out, "other") {
				res.addFinding("C11/no-answer/"+out, "request got no agreement and no cancel: "+out, c.op())
				continue
			}
			if kind != "agreement" {
				continue
			}
			res.sample(c.op() + " => " + out)
			msat := new(big.Int).Mul(new(big.Int).SetUint64(c.amount), big.NewInt(1000))
			chainOK := (c.asset != "" && c.network == "" && c.lbtcOn && c.asset == lbtcAsset) || (c.asset == "" && c.network == "regtest" && c.btcOn)
			fits := msat.Cmp(new(big.Int).SetUint64(c.spendable)) <= 0
			if c.swapOut {
				fits = msat.Cmp(new(big.Int).SetUint64(c.receivable)) <= 0
			}
			var why string
			var prem int64
			fmt.Sscanf(out, "agreement %d", &prem)
			switch {
			case prem > c.limit:
				why = "premium-above-limit"
			case !c.allowNew:
				why = "swaps-disabled"
			case !chainOK:
				why = "chain-or-asset"
			case c.version != 7:
				why = "version"
			case msat.Cmp(new(big.Int).SetUint64(c.minMsat)) < 0:
				why = "below-minimum"
			case !fits:
				why = "does-not-fit-channel"
			case !(c.acceptAll || c.allowlisted):
				why = "not-allowlisted"
			case c.suspicious:
				why = "suspicious"
			case c.busy:
				why = "channel-busy"
			case c.swapOut && new(big.Int).Add(new(big.Int).SetUint64(c.amount), new(big.Int).SetUint64(c.fee)).Cmp(new(big.Int).SetUint64(c.balance)) > 0:
				why = "balance"
			}
			if why != "" {
				sig := "C11/agreement-although/" + why
				if new(big.Int).Rsh(msat, 64).Sign() > 0 {
					sig += "/amount-times-1000-wraps"
				}
				if why == "balance" && new(big.Int).Rsh(new(big.Int).Add(new(big.Int).SetUint64(c.amount), new(big.Int).SetUint64(c.fee)), 64).Sign() > 0 {
					sig += "/amount-plus-fee-wraps"
				}
				res.addFinding(sig, fmt.Sprintf("agreement sent although condition '%s' fails", why), c.op())
			}
		}
	}
}
