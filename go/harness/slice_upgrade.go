package main

import (
	"bytes"
	"fmt"
	"os"
	"path/filepath"
	"sort"
	"strings"

	"github.com/elementsproject/peerswap/swap"
	"github.com/elementsproject/peerswap/version"
	"go.etcd.io/bbolt"
)

type roleStates struct {
	typ    swap.SwapType
	role   swap.SwapRole
	states []string
}

func allRoleStates() []roleStates {
	var out []roleStates
	for _, t := range swap.VerifTables() {
		rs := roleStates{}
		switch t.Role {
		case "SwapOutSender":
			rs.typ, rs.role = swap.SWAPTYPE_OUT, swap.SWAPROLE_SENDER
		case "SwapOutReceiver":
			rs.typ, rs.role = swap.SWAPTYPE_OUT, swap.SWAPROLE_RECEIVER
		case "SwapInSender":
			rs.typ, rs.role = swap.SWAPTYPE_IN, swap.SWAPROLE_SENDER
		case "SwapInReceiver":
			rs.typ, rs.role = swap.SWAPTYPE_IN, swap.SWAPROLE_RECEIVER
		}
		for _, s := range t.States {
			rs.states = append(rs.states, s.State)
		}
		out = append(out, rs)
	}
	return out
}

func dumpBucket(db *bbolt.DB, name string) string {
	var b strings.Builder
	db.View(func(tx *bbolt.Tx) error {
		bk := tx.Bucket([]byte(name))
		if bk == nil {
			return nil
		}
		return bk.ForEach(func(k, v []byte) error {
			fmt.Fprintf(&b, "%x=%x;", k, v)
			return nil
		})
	})
	return b.String()
}

// runUpgrade builds a database with the given stored version and swaps in the given states, runs the real
// SafeUpgrade and returns (line-protocol result, swaps bucket unchanged?).
func runUpgrade(dir string, n int, stored *string, states []struct {
	rs int
	st string
}) (string, bool) {
	path := filepath.Join(dir, fmt.Sprintf("u%d.db", n))
	db, err := bbolt.Open(path, 0o600, nil)
	if err != nil {
		panic(err)
	}
	defer func() { db.Close(); os.Remove(path) }()
	st, _ := swap.NewBboltStore(db)
	all := allRoleStates()
	for _, s := range states {
		if s.st == "corrupt" {
			// a record that does not decode (written by another release, or damaged): ListAll fails on it
			id := swap.NewSwapId()
			db.Update(func(tx *bbolt.Tx) error {
				b := tx.Bucket([]byte("swaps"))
				if b == nil {
					return nil
				}
				return b.Put([]byte(id.String()), []byte(`{"swap_id":"not-hex","data":{}}`))
			})
			continue
		}
		id := swap.NewSwapId()
		sm := &swap.SwapStateMachine{SwapId: id, Type: all[s.rs].typ, Role: all[s.rs].role, Current: swap.StateType(s.st),
			Data: swap.NewSwapData(id, selfNode, peerNode)}
		if err := st.UpdateData(sm); err != nil {
			panic(err)
		}
	}
	vs, err := version.NewVersionService(db)
	if err != nil {
		panic(err)
	}
	if stored != nil {
		vst, _ := version.NewVersionStore(db)
		vst.SetVersion(*stored)
	}
	rs, _ := swap.NewRequestedSwapsStore(db)
	services := swap.NewSwapServices(st, rs, nil, nil, nil, nil, false, nil, nil, nil, false, nil, nil, nil, nil)
	svc := swap.NewSwapService(services)
	before := dumpBucket(db, "swaps")
	uerr := vs.SafeUpgrade(svc)
	after := dumpBucket(db, "swaps")
	vst, _ := version.NewVersionStore(db)
	got, gerr := vst.GetVersion()
	res := ""
	switch {
	case uerr != nil:
		res = "err activeSwaps"
		if !strings.Contains(uerr.Error(), "active swaps") {
			res = "err other"
		}
		// the stored version must be what it was
		if stored == nil && gerr == nil {
			res += " version-written"
		}
		if stored != nil && got != *stored {
			res += " version-changed"
		}
	case gerr != nil:
		res = "ok absent"
	default:
		res = "ok " + hexs(got)
	}
	return res, bytes.Equal([]byte(before), []byte(after))
}

func genUpgrade(r *rng) (*string, []struct {
	rs int
	st string
}) {
	var stored *string
	switch r.intn(5) {
	case 0:
	case 1, 2:
		s := version.GetCurrentVersion()
		stored = &s
	case 3:
		s := "v0.1"
		stored = &s
	case 4:
		s := r.pickStr([]string{"junk", "v0.20", "V0.2", "v0.2 "})
		stored = &s
	}
	all := allRoleStates()
	n := r.intn(5)
	var sts []struct {
		rs int
		st string
	}
	finished := []string{"State_ClaimedCoop", "State_ClaimedCsv", "State_ClaimedPreimage", "State_SwapCanceled"}
	allFinished := r.intn(2) == 0
	for i := 0; i < n; i++ {
		k := r.intn(len(all))
		s := all[k].states[r.intn(len(all[k].states))]
		if allFinished {
			s = r.pickStr(finished)
		}
		sts = append(sts, struct {
			rs int
			st string
		}{k, s})
	}
	if r.intn(5) == 0 {
		sts = append(sts, struct {
			rs int
			st string
		}{0, "corrupt"})
	}
	return stored, sts
}

func upgradeOp(stored *string, sts []struct {
	rs int
	st string
}) string {
	s := "absent"
	if stored != nil {
		s = hexs(*stored)
	}
	var names []string
	for _, x := range sts {
		n := x.st
		if n == "" {
			n = "-"
		}
		names = append(names, n)
	}
	sort.Strings(names)
	return strings.TrimSpace("upgrade " + s + " " + strings.Join(names, " "))
}

func init() {
	slices["upgrade"] = func(r *rng, n int, emit func(op, res string)) {
		dir, _ := os.MkdirTemp("", "psverif-upgrade")
		defer os.RemoveAll(dir)
		k := 0
		// exhaustive over single swaps in every state of every role × stored version kinds
		cur, old := version.GetCurrentVersion(), "v0.1"
		for ri, rs := range allRoleStates() {
			for _, st := range rs.states {
				for _, sv := range []*string{nil, &cur, &old} {
					k++
					one := []struct {
						rs int
						st string
					}{{ri, st}}
					res, same := runUpgrade(dir, k, sv, one)
					if !same {
						res += " swaps-bucket-changed"
					}
					emit(upgradeOp(sv, one), res)
				}
			}
		}
		for i := 0; i < n; i++ {
			k++
			sv, sts := genUpgrade(r)
			res, same := runUpgrade(dir, k, sv, sts)
			if !same {
				res += " swaps-bucket-changed"
			}
			emit(upgradeOp(sv, sts), res)
		}
	}
	monitors["C29"] = func(r *rng, n int, res *MonitorResult) {
		res.Rule = "databases with 0-4 swaps in states of every role (all single-swap × stored-version combinations exhaustively, then random) through the real SafeUpgrade; judged: version replaced only when every swap is terminal (canceled / claimed by preimage, coop, csv), otherwise error with version and swaps bucket untouched; distinct = distinct (stored version, state multiset)"
		dir, _ := os.MkdirTemp("", "psverif-c29")
		defer os.RemoveAll(dir)
		seen := map[string]bool{}
		terminal := map[string]bool{"State_ClaimedCoop": true, "State_ClaimedCsv": true, "State_ClaimedPreimage": true, "State_SwapCanceled": true}
		judge := func(k int, sv *string, sts []struct {
			rs int
			st string
		}) {
			out, same := runUpgrade(dir, k, sv, sts)
			res.Evaluations++
			op := upgradeOp(sv, sts)
			if !seen[op] {
				seen[op] = true
				res.Distinct++
			}
			res.sample(op + " => " + out)
			allTerm, corrupt := true, false
			for _, s := range sts {
				if s.st == "corrupt" {
					corrupt = true
					continue
				}
				if !terminal[s.st] {
					allTerm = false
				}
			}
			cur := version.GetCurrentVersion()
			isCur := sv != nil && *sv == cur
			res.Histogram[strings.Fields(out)[0]]++
			switch {
			case !same:
				res.addFinding("C29/swaps-bucket-written", "SafeUpgrade changed the swaps bucket", op)
			case !isCur && corrupt && !strings.HasPrefix(out, "err") || !isCur && corrupt && strings.Contains(out, "version-"):
				res.addFinding("C29/upgrade-although-active-swaps-unknown", "a record of the swaps bucket does not decode (whether a swap is active cannot be told) but result "+out, op)
			case !isCur && corrupt:
				res.Histogram["undecodable record: refused"]++
			case isCur && out != "ok "+hexs(cur):
				res.addFinding("C29/same-version-not-accepted", "same version but result "+out, op)
			case !isCur && allTerm && out != "ok "+hexs(cur):
				res.addFinding("C29/idle-upgrade-refused", "all swaps terminal but result "+out, op)
			case !isCur && !allTerm && out != "err activeSwaps":
				res.addFinding("C29/upgrade-with-active-swap", "a non-terminal swap exists but result "+out, op)
			}
		}
		k := 0
		cur, old := version.GetCurrentVersion(), "v0.1"
		for ri, rs := range allRoleStates() {
			for _, st := range rs.states {
				for _, sv := range []*string{nil, &cur, &old} {
					k++
					judge(k, sv, []struct {
						rs int
						st string
					}{{ri, st}})
				}
			}
		}
		for i := 0; i < n; i++ {
			k++
			sv, sts := genUpgrade(r)
			judge(k, sv, sts)
		}
	}
}
