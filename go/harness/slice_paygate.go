package main

import (
	"fmt"
	"strings"
)

// paygate: the REAL swap-in responder is driven to its pay decision at chosen heights / invoice
// parameters; the outcome (announcement rejected, no payment, payment) is compared with the model.
func paygateScn(chain string, h0 uint32, cltv int64, dmsat int64, d1, d2 uint32) scn {
	cfg := defaultCfg()
	if chain == "btc" {
		cfg.BtcHeight = h0
	} else {
		cfg.LbtcHeight = h0
	}
	steps := []string{
		"new inReceiver " + chain,
		fmt.Sprintf("blocks %s %d", chain, d1),
		fmt.Sprintf("txmsg cltv=%d dmsat=%d", cltv, dmsat),
		fmt.Sprintf("blocks %s %d", chain, d2),
		"confirm",
	}
	return scn{role: "inReceiver", steps: steps, cfg: &cfg, tag: fmt.Sprintf("paygate %s %d %d %d %d %d", chain, h0, cltv, dmsat, d1, d2)}
}

func paygateOutcome(w *World) string {
	watched, paid := false, false
	for _, o := range w.obs {
		if o.Kind == "watchconf" {
			watched = true
		}
		if o.Kind == "pay" && o.A["kind"] == "claim" {
			paid = true
		}
	}
	switch {
	case paid:
		return "pay"
	case watched:
		return "nopay"
	}
	return "rejected"
}

// genPaygate: start from a valid run and perturb at most two dimensions (mostly-valid inputs).
func genPaygate(r *rng) (string, uint32, int64, int64, uint32, uint32) {
	chain := r.pickStr([]string{"btc", "lbtc"})
	win := uint32(504)
	cltv := int64(503)
	h0 := uint32(800000)
	if chain == "lbtc" {
		win, cltv, h0 = 60, 29, 2000000
	}
	dmsat := int64(0)
	d1, d2 := uint32(r.intn(3)), uint32(r.intn(int(win)-3))
	for k := r.intn(3); k > 0; k-- {
		switch r.intn(5) {
		case 0:
			h0 = uint32(r.pickU64([]uint64{1, 0, 1<<32 - uint64(win) - 1, 1<<32 - uint64(win), 1<<32 - uint64(win) + 1, 1<<32 - 2, 1 << 31}))
		case 1:
			cltv = r.pickI64([]int64{int64(win) - 1, int64(win), int64(win) + 1, 0, -1, 1 << 31, cltv + 1, cltv - 1, 30, 31})
		case 2:
			dmsat = r.pickI64([]int64{1, -1, 1000, -1000000000})
		case 3:
			d1 = uint32(r.pickU64([]uint64{0, uint64(win) - 1, uint64(win), uint64(win) + 1}))
			d2 = 0
		case 4:
			d2 = uint32(r.pickU64([]uint64{0, uint64(win) - 1 - uint64(d1), uint64(win) - uint64(d1), uint64(win) + 1 - uint64(d1), uint64(win)}))
		}
	}
	return chain, h0, cltv, dmsat, d1, d2
}

// payloopScn: the pay loop is entered d2 blocks after the start with every attempt failing and k blocks
// arriving after each attempt; observed: the heights at which payment calls were made.
func payloopScn(chain string, h0 uint32, d2, k uint32) scn {
	cfg := defaultCfg()
	if chain == "btc" {
		cfg.BtcHeight = h0
	} else {
		cfg.LbtcHeight = h0
	}
	steps := []string{
		"new inReceiver " + chain,
		"txmsg",
		fmt.Sprintf("blocks %s %d", chain, d2),
		"payout fail",
		fmt.Sprintf("payblocks %s %d", chain, k),
		"confirm",
	}
	return scn{role: "inReceiver", steps: steps, cfg: &cfg, tag: fmt.Sprintf("payloop %s %d %d %d", chain, h0, d2, k)}
}

func payloopOutcome(w *World, chain string) string {
	var hs []string
	for _, o := range w.obs {
		if o.Kind == "pay" && o.A["kind"] == "claim" {
			hs = append(hs, o.A[chain])
		}
	}
	if len(hs) == 0 {
		return "none"
	}
	return strings.Join(hs, ",")
}

func init() {
	slices["payloop"] = func(r *rng, n int, emit func(op, res string)) {
		var all []scn
		for i := 0; i < n; i++ {
			chain := r.pickStr([]string{"btc", "lbtc"})
			win, h0 := uint32(504), uint32(800000)
			if chain == "lbtc" {
				win, h0 = 60, 2000000
			}
			if r.intn(6) == 0 {
				h0 = uint32(1<<32 - uint64(win) - uint64(r.intn(4)))
			}
			k := uint32(1 + r.intn(3))
			d2 := win - uint32(r.intn(8)) + uint32(r.intn(3)) - 1
			all = append(all, payloopScn(chain, h0, d2, k))
		}
		runMany(defaultCfg(), all, func(x scnResult) {
			emit(x.sc.tag, payloopOutcome(x.w, strings.Fields(x.sc.tag)[1]))
		})
	}
	slices["paygate"] = func(r *rng, n int, emit func(op, res string)) {
		var all []scn
		for i := 0; i < n; i++ {
			all = append(all, paygateScn(genPaygate(r)))
		}
		runMany(defaultCfg(), all, func(x scnResult) {
			emit(x.sc.tag, paygateOutcome(x.w))
		})
	}
}
