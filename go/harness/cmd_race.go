package main

import (
	"context"
	"fmt"
	"os"
	"path/filepath"
	"strings"
	"sync"
	"time"

	"github.com/btcsuite/btcd/chaincfg/chainhash"
	goelectrum "github.com/checksum0/go-electrum/electrum"
	"github.com/elementsproject/peerswap/electrum"
	"github.com/elementsproject/peerswap/messages"
	"github.com/elementsproject/peerswap/peerswaprpc"
	"github.com/elementsproject/peerswap/peersync"
	"github.com/elementsproject/peerswap/policy"
	"github.com/elementsproject/peerswap/swap"
	"github.com/elementsproject/peerswap/txwatcher"
)

// C19: concurrent entry points of the real code, to be run from a binary built with -race.
// The race detector writes its reports to GORACE=log_path; the check parses them.

func raceGo(wg *sync.WaitGroup, r *rng, f func()) {
	d := time.Duration(r.intn(400)) * time.Microsecond
	wg.Add(1)
	go func() {
		defer wg.Done()
		time.Sleep(d)
		defer func() { recover() }()
		f()
	}()
}

func cmdRace(seed uint64, n int) {
	r := newRng(seed)
	counts := map[string]int{}
	// (1) one swap, several handlers at once
	stimuli := []string{"cancel", "timeout", "confirm", "confirm err", "csv", "claimpaid", "feepaid", "coop", "coop badkey", "txmsg", "agree", "cancel from=third", "txmsg from=third"}
	for i := 0; i < n; i++ {
		role := roles[r.intn(4)]
		chain := []string{"btc", "lbtc"}[r.intn(2)]
		pre := restPrefixes(role, chain)
		var names []string
		for k := range pre {
			names = append(names, k)
		}
		sortStrings(names)
		st := names[r.intn(len(names))]
		w := newWorld(defaultCfg())
		c := newCtx(w)
		for _, s := range pre[st] {
			c.Step(s)
		}
		var wg sync.WaitGroup
		k := 2 + r.intn(4)
		for j := 0; j < k; j++ {
			switch r.intn(6) {
			case 0:
				raceGo(&wg, r, func() { w.svc.ListActiveSwaps(); w.svc.GetSwap(c.id) })
			case 1:
				raceGo(&wg, r, func() { w.svc.ResendLastMessage(c.id) })
				// what the RPC commands do with the swap SwapOut / SwapIn returned: wait for a state with a timeout
				raceGo(&wg, r, func() {
					if live, err := w.svc.GetActiveSwap(c.id); err == nil {
						for q := 0; q < 50; q++ {
							live.WaitForStateChange(func(swap.StateType) bool { return false }, time.Duration(q%4)*time.Microsecond)
						}
					}
				})
			case 2:
				raceGo(&wg, r, func() {
					if live, err := w.svc.GetActiveSwap(c.id); err == nil {
						_ = peerswaprpc.PrettyprintFromServiceSwap(live)
					}
				})
			default:
				// a second context on the same swap: the step functions only carry the swap's id and keys
				c2 := *c
				s := stimuli[r.intn(len(stimuli))]
				raceGo(&wg, r, func() { c2.Step(s) })
			}
		}
		done := make(chan struct{})
		go func() { wg.Wait(); close(done) }()
		select {
		case <-done:
			w.close()
		case <-time.After(6 * time.Second):
			counts["swap: blocked"]++
		}
		counts["swap"]++
	}
	// (1a) the confirmation callback against other events of the same swap
	for i := 0; i < n/2+1; i++ {
		role := []string{"outSender", "inReceiver"}[r.intn(2)]
		chain := []string{"btc", "lbtc"}[r.intn(2)]
		w := newWorld(defaultCfg())
		c := newCtx(w)
		for _, s := range restPrefixes(role, chain)["AwaitTxConfirmation"] {
			c.Step(s)
		}
		var wg sync.WaitGroup
		for _, s := range []string{"timeout", "confirm", "cancel", "timeout"} {
			c2 := *c
			s := s
			raceGo(&wg, r, func() { c2.Step(s) })
		}
		raceGo(&wg, r, func() {
			if live, err := w.svc.GetActiveSwap(c.id); err == nil {
				_ = peerswaprpc.PrettyprintFromServiceSwap(live) // what the RPC layer does with the object SwapOut/SwapIn returned
			}
		})
		done := make(chan struct{})
		go func() { wg.Wait(); close(done) }()
		select {
		case <-done:
			w.close()
		case <-time.After(6 * time.Second):
			counts["confirm: blocked"]++
		}
		counts["confirm"]++
	}
	// (1b) messages arriving while the node recovers its swaps
	for i := 0; i < n+1; i++ {
		role := roles[r.intn(4)]
		chain := []string{"btc", "lbtc"}[r.intn(2)]
		pre := restPrefixes(role, chain)
		var names []string
		for k := range pre {
			if !strings.HasPrefix(k, "Claimed") && k != "Canceled" {
				names = append(names, k)
			}
		}
		sortStrings(names)
		w := newWorld(defaultCfg())
		c := newCtx(w)
		for _, s := range pre[names[r.intn(len(names))]] {
			c.Step(s)
		}
		w.mgr.stopAll()
		w.btc.confWatch, w.btc.csvWatch, w.lbtc.confWatch, w.lbtc.csvWatch = nil, nil, nil, nil
		w.boot(true, true)
		var wg sync.WaitGroup
		raceGo(&wg, r, func() { w.svc.RecoverSwaps() })
		for j := 0; j < 2; j++ {
			c2 := *c
			s := stimuli[r.intn(len(stimuli))]
			raceGo(&wg, r, func() { c2.Step(s) })
		}
		done := make(chan struct{})
		go func() { wg.Wait(); close(done) }()
		select {
		case <-done:
			w.close()
		case <-time.After(6 * time.Second):
			counts["recover: blocked"]++
		}
		counts["recover"]++
	}
	// (2) policy
	for i := 0; i < n/4+2; i++ {
		dir, _ := os.MkdirTemp("", "psverif-race")
		pp := filepath.Join(dir, "policy.conf")
		os.WriteFile(pp, []byte("allowlisted_peers="+polKeys[0]+"\n"), 0o644)
		p, err := policy.CreateFromFile(pp)
		if err != nil {
			panic(err)
		}
		var wg sync.WaitGroup
		for j := 0; j < 8; j++ {
			pk := polKeys[r.intn(len(polKeys))]
			switch r.intn(10) {
			case 0:
				raceGo(&wg, r, func() { p.AddToAllowlist(pk) })
			case 1:
				raceGo(&wg, r, func() { p.RemoveFromAllowlist(pk) })
			case 2:
				raceGo(&wg, r, func() { p.AddToSuspiciousPeerList(pk) })
			case 3:
				raceGo(&wg, r, func() { p.DisableSwaps() })
			case 4:
				raceGo(&wg, r, func() { p.EnableSwaps() })
			case 5:
				raceGo(&wg, r, func() { p.ReloadFile() })
			case 6:
				raceGo(&wg, r, func() { _ = p.NewSwapsAllowed() })
			case 7:
				raceGo(&wg, r, func() { _ = p.IsPeerAllowed(pk); _ = p.IsPeerSuspicious(pk) })
			case 8:
				raceGo(&wg, r, func() { _ = p.GetMinSwapAmountMsat(); _ = p.GetReserveOnchainMsat() })
			default:
				raceGo(&wg, r, func() { _ = p.Get(); _ = p.String() })
			}
		}
		wg.Wait()
		os.RemoveAll(dir)
		counts["policy"]++
	}
	// (3) the RPC watcher's own goroutines against registrations
	for i := 0; i < n/8+2; i++ {
		rpc := &fakeRpc{}
		rpc.set(rpcView{rpcHeight: 1000, rng: "nf"})
		ctx, cancel := context.WithCancel(context.Background())
		rw := txwatcher.NewBlockchainRpcTxWatcher(ctx, rpc, 3)
		rw.AddConfirmationCallback(func(string, string, error) error { return nil })
		rw.AddCsvCallback(func(string) error { return nil })
		rw.StartWatchingTxs()
		var wg sync.WaitGroup
		for round := 0; round < 4; round++ {
			rpc.mu.Lock()
			rpc.v.rpcHeight = uint64(1001 + round)
			rpc.mu.Unlock()
			time.Sleep(650 * time.Millisecond) // the block watcher polls, notifies, the dispatcher walks its list
			for j := 0; j < 2; j++ {
				id := fmt.Sprintf("swap%d-%d", round, j)
				raceGo(&wg, r, func() { rw.AddWaitForConfirmationTx(id, "txid", 0, 1000, 504, nil) })
				raceGo(&wg, r, func() { rw.AddWaitForCsvTx(id, "txid", 0, 1000, 1008, nil) })
			}
			raceGo(&wg, r, func() { rw.TxClaimed([]string{"swap0-0"}) })
			time.Sleep(20 * time.Millisecond)
		}
		wg.Wait()
		rpc.mu.Lock()
		rpc.v.rpcHeight = 4000000
		rpc.mu.Unlock()
		time.Sleep(800 * time.Millisecond)
		cancel()
		counts["rpc watcher"]++
	}
	// (4) peersync
	for i := 0; i < n/4+2; i++ {
		w := newSyncWorld([]string{syncPeers[0]})
		w.ln.connected = syncPeers
		var wg sync.WaitGroup
		ctx := context.Background()
		for j := 0; j < 8; j++ {
			src := syncPeers[r.intn(len(syncPeers))]
			id, _ := peersync.NewPeerID(src)
			p := genSyncPayload(r, map[string]int{})
			switch r.intn(6) {
			case 0, 1:
				raceGo(&wg, r, func() {
					w.ps.VerifHandle(ctx, peersync.CustomMessage{From: id, Type: messages.MESSAGETYPE_POLL, Payload: p.json()})
				})
			case 2:
				raceGo(&wg, r, func() {
					w.ps.VerifHandle(ctx, peersync.CustomMessage{From: id, Type: messages.MESSAGETYPE_REQUEST_POLL, Payload: p.json()})
				})
			case 3:
				raceGo(&wg, r, func() { w.ps.VerifPollPeers(ctx, r.bool()) })
			case 4:
				raceGo(&wg, r, func() { w.ps.VerifCleanup(ctx) })
			default:
				raceGo(&wg, r, func() { w.ps.HasCompatiblePeer(src); w.ps.CompatiblePeers() })
			}
		}
		wg.Wait()
		w.close()
		counts["peersync"]++
	}
	// (5) the Electrum subscriber
	for i := 0; i < n/4+2; i++ {
		sub := electrum.NewLiquidBlockHeaderSubscriber()
		fe := &fakeElectrum{}
		txid, _ := chainhash.NewHashFromStr(elTxid)
		spk, _ := electrum.NewScriptPubKey(append([]byte{0x00, 0x20}, make([]byte, 32)...))
		fe.hist = []*goelectrum.GetMempoolResult{{Hash: elTxid, Height: 2000001}}
		var wg sync.WaitGroup
		for j := 0; j < 6; j++ {
			ob := electrum.NewobserveCSVTX(*swap.NewSwapId(), txid, spk, fe, func(string) error { return nil }, 3)
			oo := electrum.NewObserveOpeningTX(*swap.NewSwapId(), txid, spk, fe, func(string, string, error) error { return nil }, 2000000, 60)
			h := int64(2000001 + r.intn(5))
			switch r.intn(3) {
			case 0:
				raceGo(&wg, r, func() { sub.Register(&ob); sub.Register(&oo) })
			case 1:
				raceGo(&wg, r, func() { sub.Update(context.Background(), electrum.BlockHeight(h)) })
			default:
				raceGo(&wg, r, func() { sub.Register(&ob); sub.Deregister(&ob); _ = sub.Count() })
			}
		}
		wg.Wait()
		counts["electrum subscriber"]++
	}
	var parts []string
	for k, v := range counts {
		parts = append(parts, fmt.Sprintf("%s=%d", k, v))
	}
	sortStrings(parts)
	fmt.Println("race-stress done:", strings.Join(parts, " "))
}
