package main

// splitmix64: every random choice of the harness derives from one state seeded
// by VERIF_SEED, so that a disagreement replays exactly.
type rng struct{ s uint64 }

// The seed is hashed into the start state: with a start state linear in the seed, the streams of two seeds are
// shifts of one another and the generators (which restart at every scenario) fall into step after a few draws.
func newRng(seed uint64) *rng {
	z := seed*0x9E3779B97F4A7C15 + 0x1234567
	z = (z ^ (z >> 30)) * 0xBF58476D1CE4E5B9
	z = (z ^ (z >> 27)) * 0x94D049BB133111EB
	return &rng{s: z ^ (z >> 31)}
}

func (r *rng) u64() uint64 {
	r.s += 0x9E3779B97F4A7C15
	z := r.s
	z = (z ^ (z >> 30)) * 0xBF58476D1CE4E5B9
	z = (z ^ (z >> 27)) * 0x94D049BB133111EB
	return z ^ (z >> 31)
}

func (r *rng) intn(n int) int {
	if n <= 0 {
		return 0
	}
	return int(r.u64() % uint64(n))
}

func (r *rng) bool() bool { return r.u64()&1 == 1 }

func (r *rng) pickU64(xs []uint64) uint64 { return xs[r.intn(len(xs))] }
func (r *rng) pickI64(xs []int64) int64   { return xs[r.intn(len(xs))] }
func (r *rng) pickStr(xs []string) string { return xs[r.intn(len(xs))] }

// near returns a value close to one of the anchors (anchor + small delta), wrapping in uint64.
func (r *rng) near(anchors []uint64, spread int) uint64 {
	a := r.pickU64(anchors)
	d := int64(r.intn(2*spread+1) - spread)
	return a + uint64(d)
}

// mix returns a boundary-biased uint64: half of the time near an anchor, else uniform in [0, max].
func (r *rng) mix(anchors []uint64, spread int, max uint64) uint64 {
	if r.intn(2) == 0 {
		v := r.near(anchors, spread)
		if max != ^uint64(0) && v > max {
			return v % (max + 1)
		}
		return v
	}
	if max == ^uint64(0) {
		return r.u64()
	}
	return r.u64() % (max + 1)
}

func sortStrings(xs []string) {
	for i := 1; i < len(xs); i++ {
		for j := i; j > 0 && xs[j] < xs[j-1]; j-- {
			xs[j], xs[j-1] = xs[j-1], xs[j]
		}
	}
}
