package main

import (
	"bytes"
	"context"
	"encoding/hex"
	"errors"
	"fmt"
	"sync"

	"github.com/btcsuite/btcd/btcec/v2"
	btecdsa "github.com/btcsuite/btcd/btcec/v2/ecdsa"
	"github.com/btcsuite/btcd/btcutil"
	"github.com/btcsuite/btcd/btcutil/psbt"
	"github.com/btcsuite/btcd/chaincfg"
	"github.com/btcsuite/btcd/chaincfg/chainhash"
	"github.com/btcsuite/btcd/txscript"
	"github.com/btcsuite/btcd/wire"
	"github.com/elementsproject/peerswap/lnd"
	"github.com/elementsproject/peerswap/onchain"
	"github.com/elementsproject/peerswap/swap"
	"github.com/lightningnetwork/lnd/lnrpc"
	"github.com/lightningnetwork/lnd/lnrpc/walletrpc"
	"github.com/vulpemventures/go-elements/address"
	"github.com/vulpemventures/go-elements/network"
	"github.com/vulpemventures/go-elements/payment"
	"github.com/vulpemventures/go-elements/transaction"
	"google.golang.org/grpc"
)

// Fake back-ends under the REAL wallet adapters: lnd.Client (lnd_wallet.go) over fake gRPC clients, and
// onchain.LiquidOnChain over a fake wallet.Wallet.  The fakes decide what a wallet legitimately may decide: which
// inputs fund the transaction, where change and other outputs go, which fee rate applies, which address is next.

type keySigner struct{ k *btcec.PrivateKey }

func (s *keySigner) Sign(h []byte) (*btecdsa.Signature, error) { return btecdsa.Sign(s.k, h), nil }

// fundPlan: where the wallet puts the swap output among its own outputs
type fundPlan struct {
	nested bool // the wallet funds from nested-segwit coins: finalising adds a scriptSig, the txid changes
	nIn    int
	before []planOut // outputs placed before the swap output
	after  []planOut
}

// planOut: a wallet-side output; sameScript: it pays to the swap address too (a wallet never does that itself, a
// user sending to the same address can), value 0 = "the swap amount"
type planOut struct {
	value      int64
	sameScript bool
	sameValue  bool
}

func changeScript(i int) []byte {
	k := detKey(fmt.Sprint("wallet-change", i))
	return append([]byte{0x00, 0x14}, btcutil.Hash160(k.PubKey().SerializeCompressed())...)
}

// ---------------------------------------------------------------------------
// LND

type fakeLndLightning struct {
	lnrpc.LightningClient
	mu    sync.Mutex
	addrs []string
	chans []*lnrpc.Channel // what ListChannels answers (C11: the adapters' channel-capacity arithmetic)
}

func (f *fakeLndLightning) ListChannels(ctx context.Context, in *lnrpc.ListChannelsRequest, opts ...grpc.CallOption) (*lnrpc.ListChannelsResponse, error) {
	f.mu.Lock()
	defer f.mu.Unlock()
	return &lnrpc.ListChannelsResponse{Channels: f.chans}, nil
}

func (f *fakeLndLightning) ListPeers(ctx context.Context, in *lnrpc.ListPeersRequest, opts ...grpc.CallOption) (*lnrpc.ListPeersResponse, error) {
	f.mu.Lock()
	defer f.mu.Unlock()
	r := &lnrpc.ListPeersResponse{}
	for _, c := range f.chans {
		r.Peers = append(r.Peers, &lnrpc.Peer{PubKey: c.RemotePubkey})
	}
	return r, nil
}

func (f *fakeLndLightning) GetChanInfo(ctx context.Context, in *lnrpc.ChanInfoRequest, opts ...grpc.CallOption) (*lnrpc.ChannelEdge, error) {
	return nil, fmt.Errorf("edge not found") // the adapters ignore this error (graph information is optional)
}

func (f *fakeLndLightning) NewAddress(ctx context.Context, in *lnrpc.NewAddressRequest, opts ...grpc.CallOption) (*lnrpc.NewAddressResponse, error) {
	f.mu.Lock()
	defer f.mu.Unlock()
	k := detKey(fmt.Sprint("lnd-wallet-addr", len(f.addrs)))
	a, err := btcutil.NewAddressWitnessPubKeyHash(btcutil.Hash160(k.PubKey().SerializeCompressed()), &chaincfg.RegressionNetParams)
	if err != nil {
		return nil, err
	}
	f.addrs = append(f.addrs, a.EncodeAddress())
	return &lnrpc.NewAddressResponse{Address: a.EncodeAddress()}, nil
}

func (f *fakeLndLightning) WalletBalance(ctx context.Context, in *lnrpc.WalletBalanceRequest, opts ...grpc.CallOption) (*lnrpc.WalletBalanceResponse, error) {
	return &lnrpc.WalletBalanceResponse{TotalBalance: 1 << 40, ConfirmedBalance: 1 << 40}, nil
}

type fakeWalletKit struct {
	walletrpc.WalletKitClient
	mu         sync.Mutex
	plan       fundPlan
	published  [][]byte
	funded     *wire.MsgTx
	fundedFee  int64
	swapIndex  int // where the fake put the output it was asked for
	publishErr bool
}

func (f *fakeWalletKit) FundPsbt(ctx context.Context, in *walletrpc.FundPsbtRequest, opts ...grpc.CallOption) (*walletrpc.FundPsbtResponse, error) {
	f.mu.Lock()
	defer f.mu.Unlock()
	raw := in.GetRaw()
	if raw == nil || len(raw.Outputs) != 1 {
		return nil, errors.New("fake walletkit: expected a raw template with one output")
	}
	var swapScript []byte
	var amount int64
	for a, v := range raw.Outputs {
		ad, err := btcutil.DecodeAddress(a, &chaincfg.RegressionNetParams)
		if err != nil {
			return nil, err
		}
		swapScript, err = txscript.PayToAddrScript(ad)
		if err != nil {
			return nil, err
		}
		amount = int64(v)
	}
	tx := wire.NewMsgTx(2)
	nIn := f.plan.nIn
	if nIn == 0 {
		nIn = 1
	}
	for i := 0; i < nIn; i++ {
		var prev chainhash.Hash
		prev[0], prev[1] = byte(i+1), 0x77
		tx.AddTxIn(wire.NewTxIn(wire.NewOutPoint(&prev, uint32(i)), nil, nil))
	}
	add := func(o planOut, i int) {
		s := changeScript(i)
		if o.sameScript {
			s = swapScript
		}
		v := o.value
		if o.sameValue {
			v = amount
		}
		tx.AddTxOut(wire.NewTxOut(v, s))
	}
	for i, o := range f.plan.before {
		add(o, i)
	}
	f.swapIndex = len(tx.TxOut)
	tx.AddTxOut(wire.NewTxOut(amount, swapScript))
	for i, o := range f.plan.after {
		add(o, 100+i)
	}
	total := int64(0)
	for _, o := range tx.TxOut {
		total += o.Value
	}
	f.fundedFee = 1234
	p, err := psbt.NewFromUnsignedTx(tx)
	if err != nil {
		return nil, err
	}
	per := (total + f.fundedFee) / int64(nIn)
	for i := range p.Inputs {
		v := per
		if i == 0 {
			v = total + f.fundedFee - per*int64(nIn-1)
		}
		p.Inputs[i].WitnessUtxo = wire.NewTxOut(v, changeScript(900+i))
	}
	var b bytes.Buffer
	if err := p.Serialize(&b); err != nil {
		return nil, err
	}
	f.funded = tx
	return &walletrpc.FundPsbtResponse{FundedPsbt: b.Bytes(), ChangeOutputIndex: -1}, nil
}

func (f *fakeWalletKit) FinalizePsbt(ctx context.Context, in *walletrpc.FinalizePsbtRequest, opts ...grpc.CallOption) (*walletrpc.FinalizePsbtResponse, error) {
	p, err := psbt.NewFromRawBytes(bytes.NewReader(in.FundedPsbt), false)
	if err != nil {
		return nil, err
	}
	tx := p.UnsignedTx.Copy()
	f.mu.Lock()
	nested := f.plan.nested
	f.mu.Unlock()
	for i := range tx.TxIn {
		tx.TxIn[i].Witness = wire.TxWitness{bytes.Repeat([]byte{0x30}, 71), bytes.Repeat([]byte{0x02}, 33)}
		if nested {
			tx.TxIn[i].SignatureScript = append([]byte{0x16, 0x00, 0x14}, bytes.Repeat([]byte{byte(0x50 + i)}, 20)...)
		}
	}
	var raw bytes.Buffer
	if err := tx.Serialize(&raw); err != nil {
		return nil, err
	}
	return &walletrpc.FinalizePsbtResponse{SignedPsbt: in.FundedPsbt, RawFinalTx: raw.Bytes()}, nil
}

func (f *fakeWalletKit) PublishTransaction(ctx context.Context, in *walletrpc.Transaction, opts ...grpc.CallOption) (*walletrpc.PublishResponse, error) {
	f.mu.Lock()
	defer f.mu.Unlock()
	if f.publishErr {
		return nil, errors.New("fake walletkit: publish refused")
	}
	f.published = append(f.published, append([]byte{}, in.TxHex...))
	return &walletrpc.PublishResponse{}, nil
}

func (f *fakeWalletKit) LabelTransaction(ctx context.Context, in *walletrpc.LabelTransactionRequest, opts ...grpc.CallOption) (*walletrpc.LabelTransactionResponse, error) {
	return &walletrpc.LabelTransactionResponse{}, nil
}

type rateEstimator struct {
	v   btcutil.Amount
	err bool
}

func (e rateEstimator) EstimateFeePerKW(uint32) (btcutil.Amount, error) {
	if e.err {
		return 0, errors.New("estimator down")
	}
	return e.v, nil
}
func (e rateEstimator) Start() error { return nil }

type lndWalletRig struct {
	ln     *fakeLndLightning
	wk     *fakeWalletKit
	chain  *onchain.BitcoinOnChain
	client *lnd.Client
}

func newLndWalletRig(rate rateEstimator) *lndWalletRig {
	r := &lndWalletRig{ln: &fakeLndLightning{}, wk: &fakeWalletKit{}}
	r.chain = onchain.NewBitcoinOnChain(rate, btcutil.Amount(1000), btcutil.Amount(253), &chaincfg.RegressionNetParams)
	r.client = lnd.VerifNewWalletClient(context.Background(), r.ln, r.wk, r.chain)
	return r
}

// ---------------------------------------------------------------------------
// Liquid

type fakeLiquidWallet struct {
	mu        sync.Mutex
	plan      []lqOutSpec // outputs around the swap output; script -1 marks where the swap output goes
	fee       uint64
	feeErr    bool
	sent      []string
	addrs     []string
	blindKeys []*btcec.PrivateKey
	opened    string
	swapIndex int
}

func (f *fakeLiquidWallet) GetAddress() (string, error) {
	f.mu.Lock()
	defer f.mu.Unlock()
	n := len(f.addrs)
	k, bk := detKey(fmt.Sprint("lq-wallet-addr", n)), detKey(fmt.Sprint("lq-wallet-blind", n))
	p := payment.FromPublicKey(k.PubKey(), &network.Regtest, bk.PubKey())
	a, err := p.ConfidentialWitnessPubKeyHash()
	if err != nil {
		return "", err
	}
	f.addrs = append(f.addrs, a)
	f.blindKeys = append(f.blindKeys, bk)
	return a, nil
}
func (f *fakeLiquidWallet) SendToAddress(string, uint64) (string, error) {
	return "", errors.New("not used")
}
func (f *fakeLiquidWallet) GetBalance() (uint64, error)                { return 1 << 40, nil }
func (f *fakeLiquidWallet) SetLabel(txID, address, label string) error { return nil }
func (f *fakeLiquidWallet) Ping() (bool, error)                        { return true, nil }
func (f *fakeLiquidWallet) GetFee(txSize int64) (uint64, error) {
	if f.feeErr {
		return 0, errors.New("fake liquid wallet: no fee estimate")
	}
	return f.fee, nil
}
func (f *fakeLiquidWallet) SendRawTx(rawTx string) (string, error) {
	f.mu.Lock()
	defer f.mu.Unlock()
	tx, err := transaction.NewTxFromHex(rawTx)
	if err != nil {
		return "", err
	}
	f.sent = append(f.sent, rawTx)
	return tx.TxHash().String(), nil
}

// CreateAndBroadcastTransaction funds a transaction paying swapParams.Amount of `asset` to
// swapParams.OpeningAddress (blinded to the address's blinding key) at the planned position.
func (f *fakeLiquidWallet) CreateAndBroadcastTransaction(p *swap.OpeningParams, asset []byte) (string, string, uint64, error) {
	f.mu.Lock()
	defer f.mu.Unlock()
	script, err := address.ToOutputScript(p.OpeningAddress)
	if err != nil {
		return "", "", 0, err
	}
	e := &openEnv{params: *p, scripts: [][]byte{script}}
	for i := 1; i < 8; i++ {
		e.scripts = append(e.scripts, changeScript(200+i))
	}
	tx := transaction.NewTx(2)
	tx.AddInput(transaction.NewTxInput(bytes.Repeat([]byte{9}, 32), 0))
	plan := f.plan
	if len(plan) == 0 {
		plan = []lqOutSpec{{script: -1}}
	}
	for i, s := range plan {
		if s.script == -1 {
			f.swapIndex = i
			s = lqOutSpec{script: 0, kind: "C", policy: true, value: p.Amount}
		}
		if s.value == 0 {
			s.value = p.Amount // "an output of the same value"
		}
		tx.AddOutput(e.lqOutput(s, i))
	}
	hx, err := tx.ToHex()
	if err != nil {
		return "", "", 0, err
	}
	f.opened = hx
	return tx.TxHash().String(), hx, 321, nil
}

func h2b32(s string) []byte {
	b, _ := hex.DecodeString(s)
	return b
}

// realWallets: the adapters a World runs on when cfg.RealWallets is set
type realWallets struct {
	lnd *lndWalletRig
	lqw *fakeLiquidWallet
	lq  *onchain.LiquidOnChain
}

func newRealWallets(cfg WorldCfg) *realWallets {
	r := &realWallets{lnd: newLndWalletRig(rateEstimator{v: 1000}), lqw: &fakeLiquidWallet{fee: 500, plan: cfg.LqPlan}}
	r.lnd.wk.plan = cfg.FundPlan
	r.lq = onchain.NewLiquidOnChain(r.lqw, &network.Regtest)
	return r
}

// buildOpeningLq: an Elements opening transaction as a peer's wallet would broadcast it: `pos` foreign outputs, the
// swap output (kind: C blinded to the swap's blinding key, E explicit, W blinded to another key, L lying rangeproof;
// policy: in the policy asset), one more foreign output.
func buildOpeningLq(p *swap.OpeningParams, csv uint32, pos int, amount uint64, kind string, policy bool) (string, string, error) {
	redeem, err := onchain.ParamsToTxScript(p, csv)
	if err != nil {
		return "", "", err
	}
	e := &openEnv{params: *p, scripts: [][]byte{p2wsh(redeem), changeScript(301), changeScript(302)}}
	var specs []lqOutSpec
	for i := 0; i < pos; i++ {
		specs = append(specs, lqOutSpec{script: 1, kind: "C", policy: true, value: uint64(7777 + i)})
	}
	specs = append(specs, lqOutSpec{script: 0, kind: kind, policy: policy, value: amount}, lqOutSpec{script: 2, kind: "E", policy: true, value: 123456})
	hx := e.lqTx(specs)
	tx, err := transaction.NewTxFromHex(hx)
	if err != nil {
		return "", "", err
	}
	return hx, tx.TxHash().String(), nil
}
