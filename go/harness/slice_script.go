package main

import (
	"bytes"
	"crypto/sha256"
	"encoding/hex"
	"fmt"
	"strings"

	"github.com/btcsuite/btcd/btcec/v2"
	"github.com/btcsuite/btcd/btcec/v2/ecdsa"
	"github.com/btcsuite/btcd/chaincfg/chainhash"
	"github.com/btcsuite/btcd/txscript"
	"github.com/btcsuite/btcd/wire"
	"github.com/elementsproject/peerswap/onchain"
	"github.com/elementsproject/peerswap/swap"
)

func hexb(b []byte) string {
	if len(b) == 0 {
		return "-"
	}
	return hex.EncodeToString(b)
}

type witItem struct {
	b      []byte
	vm, vt string // verdict under maker / taker key: v valid, i invalid, a abort
	isHash bool
}

// scriptEnv: a real P2WSH output locked by the real opening script and a spending transaction
type scriptEnv struct {
	maker, taker, other *btcec.PrivateKey
	hash                []byte
	preimage            []byte
	script              []byte
	pkScript            []byte
	amount              int64
}

func newScriptEnv(csv uint32, salt string) *scriptEnv {
	e := &scriptEnv{maker: detKey("maker" + salt), taker: detKey("taker" + salt), other: detKey("other" + salt), amount: 1000000}
	p := sha256.Sum256([]byte("preimage" + salt))
	e.preimage = p[:]
	h := sha256.Sum256(p[:])
	e.hash = h[:]
	s, err := onchain.GetOpeningTxScript(e.taker.PubKey().SerializeCompressed(), e.maker.PubKey().SerializeCompressed(), e.hash, csv)
	if err != nil {
		panic(err)
	}
	e.script = s
	wp := sha256.Sum256(s)
	e.pkScript = append([]byte{0x00, 0x20}, wp[:]...)
	return e
}

func (e *scriptEnv) spendTx(seq uint32, ver int32) *wire.MsgTx {
	tx := wire.NewMsgTx(ver)
	var prev chainhash.Hash
	prev[0] = 7
	in := wire.NewTxIn(wire.NewOutPoint(&prev, 0), nil, nil)
	in.Sequence = seq
	tx.AddTxIn(in)
	tx.AddTxOut(wire.NewTxOut(e.amount-500, []byte{0x00, 0x14, 1, 2, 3, 4, 5, 6, 7, 8, 9, 10, 11, 12, 13, 14, 15, 16, 17, 18, 19, 20}))
	return tx
}

func (e *scriptEnv) sign(tx *wire.MsgTx, key *btcec.PrivateKey, amount int64) []byte {
	fetcher := txscript.NewCannedPrevOutputFetcher(e.pkScript, e.amount)
	sh := txscript.NewTxSigHashes(tx, fetcher)
	h, err := txscript.CalcWitnessSigHash(e.script, sh, txscript.SigHashAll, tx, 0, amount)
	if err != nil {
		panic(err)
	}
	return append(ecdsa.Sign(key, h).Serialize(), byte(txscript.SigHashAll))
}

func (e *scriptEnv) run(tx *wire.MsgTx, items [][]byte) bool {
	wit := append(append([][]byte{}, items...), e.script)
	tx.TxIn[0].Witness = wit
	fetcher := txscript.NewCannedPrevOutputFetcher(e.pkScript, e.amount)
	sh := txscript.NewTxSigHashes(tx, fetcher)
	flags := txscript.ScriptBip16 | txscript.ScriptVerifyWitness | txscript.ScriptVerifyDERSignatures |
		txscript.ScriptVerifyCheckLockTimeVerify | txscript.ScriptVerifyCheckSequenceVerify
	vm, err := txscript.NewEngine(e.pkScript, tx, 0, flags, nil, sh, e.amount, fetcher)
	if err != nil {
		return false
	}
	return vm.Execute() == nil
}

// item kinds
func (e *scriptEnv) genItem(r *rng, tx *wire.MsgTx) witItem {
	switch r.intn(12) {
	case 0:
		return witItem{b: e.sign(tx, e.maker, e.amount), vm: "v", vt: "i"}
	case 1:
		return witItem{b: e.sign(tx, e.taker, e.amount), vm: "i", vt: "v"}
	case 2:
		return witItem{b: e.sign(tx, e.other, e.amount), vm: "i", vt: "i"}
	case 3: // right key, wrong sighash (other amount)
		return witItem{b: e.sign(tx, e.maker, e.amount+1), vm: "i", vt: "i"}
	case 4:
		return witItem{b: []byte{}, vm: "i", vt: "i"}
	case 5:
		return witItem{b: e.preimage, vm: "a", vt: "a", isHash: true}
	case 6:
		p := append([]byte{}, e.preimage...)
		p[0] ^= 1
		return witItem{b: p, vm: "a", vt: "a"}
	case 7:
		return witItem{b: e.preimage[:31], vm: "a", vt: "a"}
	case 8:
		return witItem{b: append(append([]byte{}, e.preimage...), 0), vm: "a", vt: "a"}
	case 9:
		return witItem{b: []byte{1}, vm: "a", vt: "a"}
	case 10:
		s := e.sign(tx, e.taker, e.amount+7)
		return witItem{b: s, vm: "i", vt: "i"}
	}
	return witItem{b: []byte{0x30, 0x01, 0x02}, vm: "a", vt: "a"}
}

func init() {
	slices["script"] = func(r *rng, n int, emit func(op, res string)) {
		csvs := []uint32{1008, 10080, 60, 17, 127, 128, 255, 256, 32767, 32768, 65535}
		// (i) bytes of the script
		for i := 0; i < n/10+len(csvs); i++ {
			csv := csvs[i%len(csvs)]
			e := newScriptEnv(csv, fmt.Sprint(i))
			emit(fmt.Sprintf("script.build %s %s %s %d", hexb(e.maker.PubKey().SerializeCompressed()), hexb(e.taker.PubKey().SerializeCompressed()), hexb(e.hash), csv), hexb(e.script))
		}
		// (i') the entry point the wallets and validators use (ParamsToTxScript over swap.OpeningParams), with keys
		// and payment hashes drawn from small pools so that one process sees the same hash under different keys,
		// the same keys under different hashes and repeats: the script must be a function of its four arguments
		{
			var pks, hashes []string
			for i := 0; i < 4; i++ {
				pks = append(pks, hexb(detKey(fmt.Sprint("pool", i)).PubKey().SerializeCompressed()))
				h := sha256.Sum256([]byte(fmt.Sprint("poolhash", i)))
				hashes = append(hashes, hexb(h[:]))
			}
			for i := 0; i < n/5+20; i++ {
				mk, tk, h, csv := r.pickStr(pks), r.pickStr(pks), r.pickStr(hashes[:2]), csvs[r.intn(3)]
				sc, err := onchain.ParamsToTxScript(&swap.OpeningParams{TakerPubkey: tk, MakerPubkey: mk, ClaimPaymentHash: h, Amount: 1000000, CSV: csv}, csv)
				res := "err"
				if err == nil {
					res = hexb(sc)
				}
				emit(fmt.Sprintf("script.build %s %s %s %d", mk, tk, h, csv), res)
			}
		}
		// (ii) evaluation
		for i := 0; i < n; i++ {
			csv := csvs[r.intn(3)]
			e := newScriptEnv(csv, fmt.Sprint(r.intn(5)))
			seq := uint32(r.pickU64([]uint64{0, uint64(csv) - 1, uint64(csv), uint64(csv) + 1, 1 << 31, 1<<31 | uint64(csv), 1<<22 | uint64(csv), 0xffffffff, 0xfffffffe, 1 << 16, 1<<16 | uint64(csv) - 1}))
			ver := int32(1 + r.intn(2))
			tx := e.spendTx(seq, ver)
			var items []witItem
			switch r.intn(10) {
			case 0, 1: // preimage path shape with perturbation
				items = []witItem{{b: e.sign(tx, e.taker, e.amount), vm: "i", vt: "v"}, {b: e.preimage, vm: "a", vt: "a", isHash: true}, {b: []byte{}, vm: "i", vt: "i"}, {b: []byte{}, vm: "i", vt: "i"}}
			case 2: // coop shape
				items = []witItem{{b: e.sign(tx, e.taker, e.amount), vm: "i", vt: "v"}, {b: e.sign(tx, e.maker, e.amount), vm: "v", vt: "i"}, {b: []byte{}, vm: "i", vt: "i"}}
			case 3, 4: // csv shape
				items = []witItem{{b: e.sign(tx, e.maker, e.amount), vm: "v", vt: "i"}}
			default:
				for k := r.intn(6); k > 0; k-- {
					items = append(items, e.genItem(r, tx))
				}
			}
			if r.intn(3) == 0 && len(items) > 0 {
				items[r.intn(len(items))] = e.genItem(r, tx)
			}
			// identical byte strings must carry identical tags (the model looks items up by content)
			for a := range items {
				for b := 0; b < a; b++ {
					if bytes.Equal(items[a].b, items[b].b) {
						items[a] = items[b]
					}
				}
			}
			var raw [][]byte
			var parts []string
			for _, it := range items {
				raw = append(raw, it.b)
				parts = append(parts, hexb(it.b), it.vm, it.vt, b01(it.isHash))
			}
			ok := e.run(tx, raw)
			emit(strings.TrimSpace(fmt.Sprintf("script.eval %d %d %d %s %s", csv, seq, ver, hexb(e.hash), strings.Join(parts, " "))), fmt.Sprint(ok))
		}
	}
}
