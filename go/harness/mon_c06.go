package main

import (
	"fmt"
	"strings"
)

// C06 monitor: a coop_close (which carries the taker's key) must never leave the node while the
// swap's claim payment has succeeded or is still outstanding.
func judgeC06(role string, steps []string, w *World, res *MonitorResult) {
	crashInPay := false
	pendingErr := false
	lastErr := "-"
	var trail []string
	// the scenario step during which each observation was made (the "step" observation follows its effects)
	stepOf := make([]string, len(w.obs))
	cur := "end"
	for i := len(w.obs) - 1; i >= 0; i-- {
		if w.obs[i].Kind == "step" {
			f := strings.Fields(w.obs[i].A["s"])
			cur = "?"
			if len(f) > 0 {
				cur = f[0]
				if len(f) > 1 && (f[0] == "confirm" || f[0] == "blocks" || f[0] == "coop" || f[0] == "cancel") {
					cur += "-" + f[1]
				}
			}
		}
		stepOf[i] = cur
	}
	for oi, o := range w.obs {
		switch o.Kind {
		case "crash":
			if o.A["in"] == "pay" {
				crashInPay = true
			}
		case "pay":
			if o.A["kind"] == "claim" && o.A["out"] == "pending" {
				pendingErr = true
			}
		case "persist":
			if o.A["lasterr"] != "" {
				lastErr = o.A["lasterr"]
			}
			if n := len(trail); n == 0 || trail[n-1] != o.A["state"] {
				trail = append(trail, o.A["state"])
			}
		case "send":
			if o.A["type"] != "coop_close" {
				continue
			}
			res.Histogram["coop_close pay="+o.A["pay"]]++
			if o.A["pay"] == "succeeded" || o.A["pay"] == "pending" {
				cause := "other"
				switch {
				case crashInPay:
					cause = "crash-in-pay"
				case pendingErr:
					cause = "error-while-pending"
				default:
					t := trail
					if len(t) > 4 {
						t = t[len(t)-4:]
					}
					cause = "other:" + strings.Join(t, ">")
				}
				// the reason the node gave up is part of the signature: a new reason is a new violation
				sig := fmt.Sprintf("C06/%s/reveal-with-payment/%s/%s", role, cause, lastErr)
				if cause == "crash-in-pay" {
					// the payment is unknown to the record after such a crash: what later makes the taker give up
					// (timeout, window, watcher error, peer cancel) reveals the key.  That reason is part of the
					// signature: a NEW reason to give up after such a crash is a new violation.
					sig = fmt.Sprintf("C06/%s/reveal-with-payment/%s", role, cause)
					// ... but a restart ALONE must not be such a reason: in a run that consists of the honest steps, one
					// crash and the restart (no fault, no message, no block in between) nothing gives the taker cause
					// to give up; the payment "started before a crash or restart" is still out
					if stepOf[oi] == "restart" && plainCrashRun(steps) {
						sig = fmt.Sprintf("C06/%s/reveal-with-payment/restart-alone-after-crash-in-pay", role)
					}
				}
				res.addFinding(sig,
					fmt.Sprintf("%s sent coop_close (key revealed) while its claim payment is %s", role, o.A["pay"]),
					map[string]interface{}{"scenario": scenarioKey(steps)})
			}
		}
	}
	// "... and keeps trying to claim the output with the preimage until it succeeds": a process that is alive, has
	// paid, and met at most a few failures of its wallet (each injected fault fails ONE call) must have claimed
	nFaults, paid, last := 0, false, ""
	for _, st := range steps {
		if strings.HasPrefix(st, "fault preimage") {
			nFaults++
		}
	}
	crashed, claimedOnChain := false, false
	for _, o := range w.obs {
		switch o.Kind {
		case "pay":
			if o.A["kind"] == "claim" && (o.A["out"] == "success" || o.A["out"] == "existing-succeeded") {
				paid = true
			}
		case "persist":
			last = o.A["state"]
		case "crash":
			crashed = true
		case "restart":
			crashed = false
		case "spend-unrecorded":
			claimedOnChain = true // the claim IS on the chain; the node just does not know (a C16 matter, not C06)
		}
	}
	if paid && !w.dead && !crashed && !claimedOnChain && nFaults > 21 && strings.HasSuffix(last, "_ClaimSwap") {
		// the state machine retries 21 times (with back-off: a few minutes) and then returns; nothing sends it
		// another event until the process is restarted
		res.Histogram["paid, wallet failed more than 21 times, gave up"]++
		res.addFinding(fmt.Sprintf("C06/%s/gave-up-claiming-after-21-retries", role),
			"the taker paid, its wallet failed to build the preimage claim "+fmt.Sprint(nFaults)+" times in a row, and it stopped trying for good although the wallet works again (rests in "+last+" with the process alive; only a restart resumes the claim)",
			map[string]interface{}{"scenario": scenarioKey(steps)})
	}
	if paid && !w.dead && !crashed && !claimedOnChain && nFaults > 0 && nFaults <= 21 && strings.HasSuffix(last, "_ClaimSwap") {
		res.Histogram["paid, wallet failed once, still claiming?"]++
		res.addFinding(fmt.Sprintf("C06/%s/stopped-claiming-after-wallet-failure", role),
			"the taker paid, its wallet failed to build the preimage claim "+fmt.Sprint(nFaults)+" time(s), and it stopped trying (rests in "+last+" with the process alive)",
			map[string]interface{}{"scenario": scenarioKey(steps)})
	}
	if paid && nFaults > 0 && strings.HasSuffix(last, "ClaimedPreimage") {
		res.Histogram["paid, wallet failed, claimed on retry"]++
	}
}

// plainCrashRun: the scenario is an honest run with crash / restart / confirm steps only
func plainCrashRun(steps []string) bool {
	for _, st := range steps {
		f := strings.Fields(st)
		switch f[0] {
		case "new", "agree", "txmsg", "confirm", "crash", "restart":
			if len(f) > 1 && f[0] == "confirm" {
				return false
			}
		default:
			return false
		}
	}
	return true
}

var c06Known = [][2]string{
	{"outSender", "new outSender btc;agree;txmsg;payout pending;confirm"},
	{"inReceiver", "new inReceiver lbtc;txmsg;payout pending;confirm"},
	{"outSender", "new outSender btc;agree;txmsg;crash 2;confirm;restart;confirm"},
	{"inReceiver", "new inReceiver btc;txmsg;crash 2;confirm;restart;confirm"},
}

func init() {
	monitors["C06"] = func(r *rng, n int, res *MonitorResult) {
		res.Rule = "taker scenarios (both roles, both chains) with payment outcomes success/fail/pending, faults, foreign and late messages, timeouts, crashes at random effect indices and restarts, run on the real state machines; every coop_close sent is judged against the Lightning payment table at that moment; non-trivial = scenario in which a claim payment was attempted or a key was revealed; distinct = distinct scenarios"
		seen := map[string]bool{}
		var all []scn
		for _, k := range c06Known {
			all = append(all, scn{role: k[0], steps: strings.Split(k[1], ";")})
		}
		all = append(all, sweepScenarios([]string{"outSender", "inReceiver"})...)
		// a crash at every effect of the confirmation handling (the claim payment is one of them), then nothing but
		// the restart
		for _, chain := range []string{"btc", "lbtc"} {
			for k := 1; k <= 9; k++ {
				all = append(all, scn{role: "outSender", steps: []string{"new outSender " + chain, "agree", "txmsg", fmt.Sprintf("crash %d", k), "confirm", "restart"}})
				all = append(all, scn{role: "inReceiver", steps: []string{"new inReceiver " + chain, "txmsg", fmt.Sprintf("crash %d", k), "confirm", "restart"}})
			}
		}
		// the wallet fails to build the preimage claim once / twice after the payment went out
		for _, chain := range []string{"btc", "lbtc"} {
			for _, k := range []int{1, 2, 20, 22} {
				f := rep("fault preimage down", k)
				all = append(all, scn{role: "outSender", steps: cat([]string{"new outSender " + chain, "agree", "txmsg"}, f, []string{"confirm"})})
				all = append(all, scn{role: "inReceiver", steps: cat([]string{"new inReceiver " + chain, "txmsg"}, f, []string{"confirm"})})
			}
		}
		// back-end that returns the existing payment instead of refusing, with a channel balance that only
		// just covers the claim: an attempt that errors while its HTLC is in flight is followed by a retry
		tight := defaultCfg()
		tight.IdempotentRepay = true
		tight.SpendableMsat = 1200000000
		for _, chain := range []string{"btc", "lbtc"} {
			for _, res := range []string{"success", "fail"} {
				all = append(all, scn{role: "outSender", cfg: &tight, steps: []string{"new outSender " + chain, "agree", "txmsg", "payout pending", "settle " + res + " later", "confirm", "restart", "confirm"}})
				all = append(all, scn{role: "inReceiver", cfg: &tight, steps: []string{"new inReceiver " + chain, "txmsg", "payout pending", "settle " + res + " later", "confirm", "restart", "confirm"}})
			}
		}
		for i := 0; i < n; i++ {
			role := []string{"outSender", "inReceiver"}[r.intn(2)]
			sc := scn{role: role, steps: genScenario(r, role, r.intn(3) > 0)}
			if r.intn(3) == 0 {
				c := defaultCfg()
				c.IdempotentRepay = r.bool()
				if r.bool() {
					c.SpendableMsat = 1200000000
				}
				sc.cfg = &c
			}
			all = append(all, sc)
		}
		runMany(defaultCfg(), all, func(x scnResult) {
			res.Evaluations++
			nontrivial := false
			for _, o := range x.w.obs {
				if (o.Kind == "pay" && o.A["kind"] == "claim") || (o.Kind == "send" && o.A["type"] == "coop_close") {
					nontrivial = true
				}
			}
			k := scenarioKey(x.sc.steps)
			if nontrivial && !seen[k] {
				seen[k] = true
				res.Distinct++
				res.sample(k)
			}
			judgeC06(x.sc.role, x.sc.steps, x.w, res)
		})
	}
}
