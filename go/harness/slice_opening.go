package main

import (
	"bytes"
	"crypto/sha256"
	"encoding/hex"
	"fmt"
	"strings"

	"github.com/btcsuite/btcd/btcec/v2"
	"github.com/btcsuite/btcd/btcutil"
	"github.com/btcsuite/btcd/chaincfg"
	"github.com/btcsuite/btcd/chaincfg/chainhash"
	"github.com/btcsuite/btcd/wire"
	"github.com/elementsproject/peerswap/onchain"
	"github.com/elementsproject/peerswap/swap"
	"github.com/vulpemventures/go-elements/confidential"
	"github.com/vulpemventures/go-elements/elementsutil"
	"github.com/vulpemventures/go-elements/network"
	"github.com/vulpemventures/go-elements/transaction"
	secp256k1 "github.com/vulpemventures/go-secp256k1-zkp"
)

// C01: the REAL validators of the opening transaction (BitcoinOnChain.ValidateTx, LiquidOnChain.ValidateTx) on real
// serialised transactions.  The op line carries what the transaction contains BY CONSTRUCTION (script ids, values,
// how each Elements output was blinded); the model decides from that view, the code from the bytes.

type openEnv struct {
	params  swap.OpeningParams
	scripts [][]byte // id 0: the script the taker expects; others: near misses
}

func p2wsh(redeem []byte) []byte {
	h := sha256.Sum256(redeem)
	return append([]byte{0x00, 0x20}, h[:]...)
}

// newOpenEnv builds the wanted script and near misses (other hash, swapped keys, other CSV, a foreign maker,
// a P2WPKH, the bare redeem script).
func newOpenEnv(salt string, csv uint32, amount uint64) *openEnv {
	taker, maker, other := detKey("ot"+salt), detKey("om"+salt), detKey("oo"+salt)
	pre := sha256.Sum256([]byte("opre" + salt))
	h := sha256.Sum256(pre[:])
	pk := func(k *btcec.PrivateKey) string { return hex.EncodeToString(k.PubKey().SerializeCompressed()) }
	e := &openEnv{params: swap.OpeningParams{TakerPubkey: pk(taker), MakerPubkey: pk(maker), ClaimPaymentHash: hex.EncodeToString(h[:]), Amount: amount, CSV: csv, BlindingKey: detKey("ob" + salt)}}
	mk := func(p swap.OpeningParams, c uint32) []byte {
		s, err := onchain.ParamsToTxScript(&p, c)
		if err != nil {
			panic(err)
		}
		return s
	}
	want := mk(e.params, csv)
	p1 := e.params
	p1.ClaimPaymentHash = hex.EncodeToString(pre[:])
	p2 := e.params
	p2.TakerPubkey, p2.MakerPubkey = e.params.MakerPubkey, e.params.TakerPubkey
	p4 := e.params
	p4.MakerPubkey = pk(other)
	e.scripts = [][]byte{p2wsh(want), p2wsh(mk(p1, csv)), p2wsh(mk(p2, csv)), p2wsh(mk(e.params, csv+1)), p2wsh(mk(p4, csv)),
		append([]byte{0x00, 0x14}, btcutil.Hash160(taker.PubKey().SerializeCompressed())...), want}
	for i := range e.scripts {
		for j := 0; j < i; j++ {
			if bytes.Equal(e.scripts[i], e.scripts[j]) {
				panic("opening slice: script variants collide")
			}
		}
	}
	return e
}

func (e *openEnv) btcTx(outs [][2]int64) string {
	tx := wire.NewMsgTx(2)
	var prev chainhash.Hash
	prev[0] = 7
	tx.AddTxIn(wire.NewTxIn(wire.NewOutPoint(&prev, 0), nil, nil))
	for _, o := range outs {
		tx.AddTxOut(wire.NewTxOut(o[0], e.scripts[o[1]]))
	}
	var b bytes.Buffer
	if err := tx.Serialize(&b); err != nil {
		panic(err)
	}
	return hex.EncodeToString(b.Bytes())
}

// lqOutSpec: how an Elements output is built
type lqOutSpec struct {
	script int
	kind   string // E explicit | C blinded to the swap's blinding key | W blinded to another key | L blinded, rangeproof message names another asset than the commitment
	policy bool   // asset (for L: the asset the message CLAIMS is the policy asset, the commitment is to the other one)
	value  uint64
}

var lqOther = bytes.Repeat([]byte{0x42}, 32)

func lqPolicy() []byte { return elementsutil.ReverseBytes(h2bytes(network.Regtest.AssetID)) }

func (e *openEnv) lqOutput(s lqOutSpec, n int) *transaction.TxOutput {
	asset := lqPolicy()
	if !s.policy {
		asset = lqOther
	}
	script := e.scripts[s.script]
	if s.kind == "E" {
		val, _ := elementsutil.ValueToBytes(s.value)
		return transaction.NewTxOutput(append([]byte{0x01}, asset...), val, script)
	}
	abf := sha256.Sum256([]byte(fmt.Sprint("abf", n)))
	vbf := sha256.Sum256([]byte(fmt.Sprint("vbf", n)))
	eph := detKey(fmt.Sprint("eph", n))
	blindPub := e.params.BlindingKey.PubKey().SerializeCompressed()
	if s.kind == "W" {
		blindPub = detKey("someone-else").PubKey().SerializeCompressed()
	}
	commitAsset, msgAsset := asset, asset
	if s.kind == "L" {
		// the commitment is to the OTHER asset of what the message says
		if s.policy {
			commitAsset = lqOther
		} else {
			commitAsset = lqPolicy()
		}
	}
	ac, err := confidential.AssetCommitment(commitAsset, abf[:])
	if err != nil {
		panic(err)
	}
	vc, err := confidential.ValueCommitment(s.value, ac, vbf[:])
	if err != nil {
		panic(err)
	}
	nonce, err := confidential.NonceHash(blindPub, eph.Serialize())
	if err != nil {
		panic(err)
	}
	ctx, _ := secp256k1.ContextCreate(secp256k1.ContextBoth)
	defer secp256k1.ContextDestroy(ctx)
	gen, err := secp256k1.GeneratorParse(ctx, ac)
	if err != nil {
		panic(err)
	}
	commit, err := secp256k1.CommitmentParse(ctx, vc)
	if err != nil {
		panic(err)
	}
	minv := uint64(1)
	if s.value == 0 {
		minv = 0
	}
	msg := append(append([]byte{}, msgAsset...), abf[:]...)
	proof, err := secp256k1.RangeProofSign(ctx, minv, commit, vbf, nonce, 0, 52, s.value, msg, script, gen)
	if err != nil {
		panic(err)
	}
	out := transaction.NewTxOutput(ac, vc, script)
	out.Nonce = eph.PubKey().SerializeCompressed()
	out.RangeProof = proof
	out.SurjectionProof = []byte{0}
	return out
}

func (e *openEnv) lqTx(specs []lqOutSpec) string {
	tx := transaction.NewTx(2)
	tx.AddInput(transaction.NewTxInput(bytes.Repeat([]byte{9}, 32), 0))
	for i, s := range specs {
		tx.AddOutput(e.lqOutput(s, i))
	}
	hx, err := tx.ToHex()
	if err != nil {
		panic(err)
	}
	return hx
}

// view of an Elements output for the model, from its construction
func (s lqOutSpec) view() string {
	unb := "none"
	conf, expl, cm := "0", "0", "0"
	switch s.kind {
	case "E":
		unb = fmt.Sprintf("%s:%d", b01(s.policy), s.value)
		expl = b01(s.policy)
	case "C":
		unb = fmt.Sprintf("%s:%d", b01(s.policy), s.value)
		conf, cm = "1", "1"
	case "W":
		conf = "1"
	case "L":
		unb = fmt.Sprintf("%s:%d", b01(s.policy), s.value)
		conf = "1"
	}
	return fmt.Sprintf("%d/%s/%s/%s/%s", s.script, unb, conf, expl, cm)
}

func verdict(ok bool, err error) string {
	if ok {
		return "true"
	}
	return "false"
}

func init() {
	slices["opening"] = func(r *rng, n int, emit func(op, res string)) {
		hist := map[string]int{}
		btc := onchain.NewBitcoinOnChain(fakeEstimator{v: 1000}, btcutil.Amount(1000), btcutil.Amount(253), &chaincfg.RegressionNetParams)
		lq := onchain.NewLiquidOnChain(nil, &network.Regtest)
		for i := 0; i < n; i++ {
			amount := r.pickU64([]uint64{1000, 100000, 100000, 1000000, 2100000000000000, 1<<63 - 1, 1 << 63, 1<<64 - 1, 0})
			if r.intn(4) == 0 {
				amount = r.u64b()
			}
			if r.intn(3) > 0 {
				// Bitcoin
				e := newOpenEnv(fmt.Sprint("b", r.intn(3)), onchain.BitcoinCsv, amount)
				k := r.intn(5)
				var outs [][2]int64
				var line []string
				for j := 0; j < k; j++ {
					v := int64(amount)
					switch r.intn(8) {
					case 0:
						v = int64(amount) - 1
					case 1:
						v = int64(amount) + 1
					case 2:
						v = r.pickI64([]int64{0, 546, 7777, -1})
					case 3:
						v = int64(amount / 2)
					}
					s := 0
					if r.intn(3) == 0 {
						s = 1 + r.intn(len(e.scripts)-1)
					}
					outs = append(outs, [2]int64{v, int64(s)})
					line = append(line, fmt.Sprintf("%d/%d", v, s))
					if v == int64(amount) && s == 0 {
						hist["btc out: amount+script"]++
					} else if v == int64(amount) {
						hist["btc out: amount, other script"]++
					} else if s == 0 {
						hist["btc out: script, other amount"]++
					}
				}
				ok, err := btc.ValidateTx(&e.params, e.btcTx(outs))
				res := verdict(ok, err)
				hist["btc "+res]++
				emit(fmt.Sprintf("open.btc %d %s", amount, strings.Join(append([]string{"-"}, line...), " ")), res)
				continue
			}
			// Liquid (amounts an Elements value can carry in a rangeproof of 52 bits)
			amount = r.pickU64([]uint64{1000, 100000, 100000, 1000000, 2099999997690000})
			csv := uint32(r.pickU64([]uint64{60, 1008}))
			e := newOpenEnv(fmt.Sprint("l", r.intn(3)), csv, amount)
			k := 1 + r.intn(3)
			var specs []lqOutSpec
			var line []string
			for j := 0; j < k; j++ {
				s := lqOutSpec{script: 0, kind: r.pickStr([]string{"E", "E", "C", "C", "C", "W", "L"}), policy: r.intn(4) > 0, value: amount}
				if r.intn(3) == 0 {
					s.script = 1 + r.intn(len(e.scripts)-1)
				}
				switch r.intn(8) {
				case 0:
					s.value = amount - 1
				case 1:
					s.value = amount + 1
				case 2:
					s.value = r.pickU64([]uint64{0, 1, 546})
				}
				specs = append(specs, s)
				line = append(line, s.view())
				hist[fmt.Sprintf("lq out kind=%s policy=%v script=%v amount=%v", s.kind, s.policy, s.script == 0, s.value == amount)]++
			}
			ok, err := lq.ValidateTx(&e.params, e.lqTx(specs))
			res := verdict(ok, err)
			hist["lq "+res]++
			if err != nil {
				m := err.Error()
				for _, k := range []string{"invalid asset commitment", "failed to unblind", "invalid asset id", "invalid explicit asset", "tx value is not equal", "vout not found"} {
					if strings.Contains(m, k) {
						hist["lq rejected: "+k]++
					}
				}
			}
			emit(fmt.Sprintf("open.lq %d %s", amount, strings.Join(line, " ")), res)
		}
		// what is not a transaction at all is never accepted
		e := newOpenEnv("m", onchain.BitcoinCsv, 1000)
		good := e.btcTx([][2]int64{{1000, 0}})
		for _, bad := range []string{"", "00", "zz", good[:len(good)-2], good[2:], strings.Repeat("ff", 40)} {
			ok, err := btc.ValidateTx(&e.params, bad)
			// (go-elements allocates whatever length prefix it reads: only non-hex input goes to the Liquid parser)
			ok2, err2 := false, error(nil)
			if _, herr := hex.DecodeString(bad); herr != nil || bad == "" {
				ok2, err2 = lq.ValidateTx(&e.params, bad)
			}
			hist["malformed"]++
			emit("open.malformed", verdict(ok || ok2, nil))
			_, _ = err, err2
		}
		sliceStats["opening"] = hist
	}
}
