package main

import (
	"context"
	"encoding/json"
	"fmt"
	"os"
	"path/filepath"

	"github.com/elementsproject/peerswap/messages"
	"github.com/elementsproject/peerswap/peersync"
	"github.com/elementsproject/peerswap/premium"
	"go.etcd.io/bbolt"
)

// captureLightning is a peersync.Lightning that records what is sent.
type captureLightning struct {
	sent      []sentMsg
	connected []peersync.PeerID
	failSend  bool
}

type sentMsg struct {
	to      string
	typ     messages.MessageType
	payload []byte
}

func (c *captureLightning) SendCustomMessage(_ context.Context, to peersync.PeerID, t messages.MessageType, p []byte) error {
	if c.failSend {
		return fmt.Errorf("send failed")
	}
	c.sent = append(c.sent, sentMsg{to.String(), t, append([]byte{}, p...)})
	return nil
}
func (c *captureLightning) SubscribeCustomMessages(context.Context) (<-chan peersync.CustomMessage, error) {
	return make(chan peersync.CustomMessage), nil
}
func (c *captureLightning) Stop() error { return nil }
func (c *captureLightning) ListPeers(context.Context) ([]peersync.PeerID, error) {
	return c.connected, nil
}

var premiumPeers = []string{
	"02aaaaaaaaaaaaaaaaaaaaaaaaaaaaaaaaaaaaaaaaaaaaaaaaaaaaaaaaaaaaaaaa",
	"03bbbbbbbbbbbbbbbbbbbbbbbbbbbbbbbbbbbbbbbbbbbbbbbbbbbbbbbbbbbbbbbb",
	"02cccccccccccccccccccccccccccccccccccccccccccccccccccccccccccccccc",
	"03dddddddddddddddddddddddddddddddddddddddddddddddddddddddddddddddd",
}

func optI(v int64, err error) string {
	if err != nil {
		return "none"
	}
	return fmt.Sprintf("%d", v)
}

func init() {
	// premiumstore: operation sequences on the REAL premium.Setting (bbolt file, closed and reopened at
	// random points) and the rates the REAL peersync advertises to a peer.
	slices["premiumstore"] = func(r *rng, n int, emit func(op, res string)) {
		dir, err := os.MkdirTemp("", "psverif-premium")
		if err != nil {
			panic(err)
		}
		defer os.RemoveAll(dir)
		seq := 0
		for done := 0; done < n; {
			seq++
			path := filepath.Join(dir, fmt.Sprintf("p%d.db", seq))
			db, err := bbolt.Open(path, 0o600, nil)
			if err != nil {
				panic(err)
			}
			ps, err := premium.NewSetting(db)
			if err != nil {
				panic(err)
			}
			emit("ps.reset", "ok")
			done++
			length := 5 + r.intn(40)
			for k := 0; k < length && done < n; k++ {
				done++
				peer := r.pickStr(premiumPeers)
				a := premium.AssetType(1 + r.intn(2))
				o := premium.OperationType(1 + r.intn(2))
				rate := int64(r.intn(2000003)) - 1000001
				if r.intn(8) == 0 {
					rate = r.i64b()
				}
				switch r.intn(9) {
				case 0, 1:
					pr, _ := premium.NewPremiumRate(a, o, premium.NewPPM(rate))
					res := "ok"
					if err := ps.SetRate(context.Background(), peer, pr); err != nil {
						res = "err"
					}
					emit(fmt.Sprintf("ps.set %s %d %d %d", hexs(peer), a, o, rate), res)
				case 2:
					pr, _ := premium.NewPremiumRate(a, o, premium.NewPPM(rate))
					res := "ok"
					if err := ps.SetDefaultRate(context.Background(), pr); err != nil {
						res = "err"
					}
					emit(fmt.Sprintf("ps.setdefault %d %d %d", a, o, rate), res)
				case 3:
					res := "ok"
					if err := ps.DeleteRate(context.Background(), peer, a, o); err != nil {
						res = "err"
					}
					emit(fmt.Sprintf("ps.del %s %d %d", hexs(peer), a, o), res)
				case 4, 5:
					pr, err := ps.GetRate(peer, a, o)
					var v int64
					if err == nil {
						v = pr.PremiumRatePPM().Value()
					}
					emit(fmt.Sprintf("ps.get %s %d %d", hexs(peer), a, o), optI(v, err))
				case 6:
					amt := r.u64b()
					v, err := ps.Compute(peer, a, o, amt)
					emit(fmt.Sprintf("ps.compute %s %d %d %d", hexs(peer), a, o, amt), optI(v, err))
				case 7:
					cl := &captureLightning{}
					id, _ := peersync.NewPeerID("02ffffffffffffffffffffffffffffffffffffffffffffffffffffffffffffffff")
					sync := peersync.NewPeerSync(id, nil, cl, nil, nil, ps)
					pid, _ := peersync.NewPeerID(peer)
					res := "none none none none"
					if err := sync.RequestPoll(context.Background(), pid); err == nil && len(cl.sent) == 1 {
						var snap peersync.PeerCapabilitySnapshot
						if json.Unmarshal(cl.sent[0].payload, &snap) == nil {
							res = fmt.Sprintf("%d %d %d %d", snap.BTCSwapInPremiumRatePPM, snap.BTCSwapOutPremiumRatePPM, snap.LBTCSwapInPremiumRatePPM, snap.LBTCSwapOutPremiumRatePPM)
						}
					}
					emit("ps.advertised "+hexs(peer), res)
				case 8:
					db.Close()
					db, err = bbolt.Open(path, 0o600, nil)
					if err != nil {
						panic(err)
					}
					ps, err = premium.NewSetting(db)
					if err != nil {
						panic(err)
					}
					emit("ps.reopen", "ok")
				}
			}
			db.Close()
		}
	}
}
