package main

import (
	"io"
	stdlog "log"

	pslog "github.com/elementsproject/peerswap/log"
)

type nullLogger struct{}

func (nullLogger) Infof(string, ...any)  {}
func (nullLogger) Debugf(string, ...any) {}

func init() {
	pslog.SetLogger(nullLogger{})
	stdlog.SetOutput(io.Discard)
}
