package main

import (
	"context"
	"encoding/json"
	"errors"
	"fmt"
	"math/big"
	"os"
	"path/filepath"
	"regexp"
	"strconv"

	"github.com/btcsuite/btcd/btcutil"
	"github.com/btcsuite/btcd/chaincfg"
	"github.com/elementsproject/peerswap/onchain"
	"github.com/elementsproject/peerswap/peersync"
	"github.com/elementsproject/peerswap/premium"
	"github.com/elementsproject/peerswap/version"
	"go.etcd.io/bbolt"
)

func init() {
	monitors["C27"] = func(r *rng, n int, res *MonitorResult) {
		res.Rule = "operation sequences (set/setdefault/delete/get/compute/advertise/reopen) on the real premium.Setting against a Go map reference and exact big-integer arithmetic; non-trivial = a read after at least one write; distinct = distinct (op kind, key, expected) tuples"
		// deterministic replay of the recorded witness (known finding C27/compute-overflow)
		if got := premium.NewPPM(-385701).Compute(2100000000000000); got != -809972100000000 {
			res.addFinding("C27/compute-overflow", fmt.Sprintf("amount × rate outside int64 wraps: Compute(2100000000000000) at rate -385701 gives %d, exact value -809972100000000", got), "premium.NewPPM(-385701).Compute(2100000000000000)")
		}
		dir, _ := os.MkdirTemp("", "psverif-c27")
		defer os.RemoveAll(dir)
		seen := map[string]bool{}
		type key struct {
			peer string
			a, o int
		}
		builtin := func(a, o int) int64 {
			return premium.DefaultPremiumRate[premium.AssetType(a)][premium.OperationType(o)]
		}
		seq := 0
		for done := 0; done < n; {
			seq++
			path := filepath.Join(dir, fmt.Sprintf("m%d.db", seq))
			db, _ := bbolt.Open(path, 0o600, nil)
			ps, _ := premium.NewSetting(db)
			ref := map[key]int64{}
			var hist []string
			expect := func(k key) int64 {
				if v, ok := ref[k]; ok {
					return v
				}
				if v, ok := ref[key{"default", k.a, k.o}]; ok {
					return v
				}
				return builtin(k.a, k.o)
			}
			for k := 0; k < 5+r.intn(30) && done < n; k++ {
				done++
				res.Evaluations++
				kk := key{r.pickStr(premiumPeers), 1 + r.intn(2), 1 + r.intn(2)}
				rate := int64(r.intn(2000001)) - 1000000
				if r.intn(3) == 0 {
					// boundary rates: zero (a configured "no premium" is a rate, not a missing one), the built-in defaults
					rate = r.pickI64([]int64{0, 0, 0, 1, -1, 2000, 1000})
				}
				a, o := premium.AssetType(kk.a), premium.OperationType(kk.o)
				switch r.intn(8) {
				case 0, 1:
					pr, _ := premium.NewPremiumRate(a, o, premium.NewPPM(rate))
					ps.SetRate(context.Background(), kk.peer, pr)
					ref[kk] = rate
					hist = append(hist, fmt.Sprintf("set %s %d %d %d", kk.peer[:4], kk.a, kk.o, rate))
				case 2:
					pr, _ := premium.NewPremiumRate(a, o, premium.NewPPM(rate))
					ps.SetDefaultRate(context.Background(), pr)
					ref[key{"default", kk.a, kk.o}] = rate
					hist = append(hist, fmt.Sprintf("setdefault %d %d %d", kk.a, kk.o, rate))
				case 3:
					ps.DeleteRate(context.Background(), kk.peer, a, o)
					delete(ref, kk)
					hist = append(hist, fmt.Sprintf("del %s %d %d", kk.peer[:4], kk.a, kk.o))
				case 4:
					db.Close()
					db, _ = bbolt.Open(path, 0o600, nil)
					ps, _ = premium.NewSetting(db)
					hist = append(hist, "reopen")
				case 5:
					got, err := ps.GetRate(kk.peer, a, o)
					want := expect(kk)
					res.Histogram["get"]++
					sk := fmt.Sprintf("get|%v|%d", kk, want)
					if !seen[sk] {
						seen[sk] = true
						res.Distinct++
					}
					if err != nil || got.PremiumRatePPM().Value() != want {
						res.addFinding("C27/rate-selection", fmt.Sprintf("GetRate differs from peer→default→builtin selection (want %d)", want), append(append([]string{}, hist...), fmt.Sprintf("get %v", kk)))
					}
				case 6:
					amt := r.pickU64([]uint64{0, 1, 999999, 1000000, 2100000000000000, 123456789, 50000000}) + uint64(r.intn(3))
					got, err := ps.Compute(kk.peer, a, o, amt)
					want := new(big.Int).Quo(new(big.Int).Mul(new(big.Int).SetUint64(amt), big.NewInt(expect(kk))), big.NewInt(1000000)) // Quo truncates toward zero
					res.Histogram["compute"]++
					res.sample(map[string]interface{}{"history": append([]string{}, hist...), "compute": fmt.Sprintf("%v %d", kk, amt), "premium": got})
					sk := fmt.Sprintf("compute|%d|%d", amt, expect(kk))
					if !seen[sk] {
						seen[sk] = true
						res.Distinct++
					}
					prod := new(big.Int).Mul(new(big.Int).SetUint64(amt), big.NewInt(expect(kk)))
					if prod.CmpAbs(new(big.Int).Lsh(big.NewInt(1), 63)) >= 0 {
						// amount × rate does not fit int64: the Go product wraps
						res.Histogram["compute-overflow-range"]++
						if err != nil || want.Cmp(big.NewInt(got)) != 0 {
							res.addFinding("C27/compute-overflow", fmt.Sprintf("amount × rate outside int64 wraps: Compute(%d) at rate %d gives %d, exact value %s", amt, expect(kk), got, want), append(append([]string{}, hist...), fmt.Sprintf("compute %v %d", kk, amt)))
						}
					} else if err != nil || want.Cmp(big.NewInt(got)) != 0 {
						res.addFinding("C27/compute", fmt.Sprintf("Compute(%d) at rate %d gives %d, expected %s", amt, expect(kk), got, want), append(append([]string{}, hist...), fmt.Sprintf("compute %v %d", kk, amt)))
					}
				case 7:
					cl := &captureLightning{}
					id, _ := peersync.NewPeerID("02ff")
					sync := peersync.NewPeerSync(id, nil, cl, nil, nil, ps)
					pid, _ := peersync.NewPeerID(kk.peer)
					sync.RequestPoll(context.Background(), pid)
					res.Histogram["advertised"]++
					if len(cl.sent) != 1 {
						res.addFinding("C27/advertise-missing", "no capability message sent", hist)
						continue
					}
					var snap peersync.PeerCapabilitySnapshot
					json.Unmarshal(cl.sent[0].payload, &snap)
					got := [4]int64{snap.BTCSwapInPremiumRatePPM, snap.BTCSwapOutPremiumRatePPM, snap.LBTCSwapInPremiumRatePPM, snap.LBTCSwapOutPremiumRatePPM}
					want := [4]int64{expect(key{kk.peer, 1, 1}), expect(key{kk.peer, 1, 2}), expect(key{kk.peer, 2, 1}), expect(key{kk.peer, 2, 2})}
					if got != want {
						res.addFinding("C27/advertised-differs", fmt.Sprintf("advertised %v, charged %v", got, want), append(append([]string{}, hist...), "advertise "+kk.peer[:4]))
					}
				}
			}
			db.Close()
		}
	}

	monitors["C30"] = func(r *rng, n int, res *MonitorResult) {
		res.Rule = "estimator answers × fallback × floor through the real GetFee; version strings through the real DetermineFeeFloor (vs. an independent parse) and CompareVersionStrings (reflexive/total/transitive/antisymmetric-up-to-padding on random triples); distinct = distinct inputs"
		seen := map[string]bool{}
		verRe := regexp.MustCompile(`[0-9]+`)
		comps := func(s string) ([]int, bool) {
			var out []int
			for _, p := range verRe.FindAllString(s, -1) {
				v, err := strconv.Atoi(p)
				if err != nil {
					return nil, false
				}
				out = append(out, v)
			}
			return out, true
		}
		for i := 0; i < n; i++ {
			res.Evaluations++
			switch r.intn(3) {
			case 0:
				fb := int64(r.pickU64([]uint64{253, 1000, 1, 25, 300}))
				fl := int64(r.pickU64([]uint64{253, 25}))
				est := fakeEstimator{}
				if r.intn(4) == 0 {
					est.err = errors.New("down")
				} else {
					est.v = int64(r.pickU64([]uint64{0, 1, 24, 25, 26, 252, 253, 254, 1000, 12345})) + int64(r.intn(3)) - 1
					if est.v < 0 {
						est.v = 0
					}
				}
				oc := onchain.NewBitcoinOnChain(est, btcutil.Amount(fb), btcutil.Amount(fl), &chaincfg.RegressionNetParams)
				fee, err := oc.GetFee(250000)
				rate := int64((fee + 500) / 1000)
				in := map[string]interface{}{"estimate": est.v, "estimator_error": est.err != nil, "fallback": fb, "floor": fl}
				k := fmt.Sprintf("fee|%v", in)
				if !seen[k] {
					seen[k] = true
					res.Distinct++
				}
				res.Histogram["getfee"]++
				want := est.v
				if est.err != nil || est.v == 0 {
					want = fb
				}
				if want < fl {
					want = fl
				}
				if err != nil || rate < fl {
					res.addFinding("C30/rate-below-floor", fmt.Sprintf("rate %d below floor %d", rate, fl), in)
				} else if rate != want {
					res.addFinding("C30/rate-selection", fmt.Sprintf("rate %d, expected %d", rate, want), in)
				}
			case 1:
				s := genVersion(r)
				fl, _ := onchain.DetermineFeeFloor(s)
				res.Histogram["floor"]++
				if !seen["fl|"+s] {
					seen["fl|"+s] = true
					res.Distinct++
				}
				// independent parse: first digit run = major, directly following ".digits" = minor
				m := regexp.MustCompile(`([0-9]+)(\.([0-9]+))?`).FindStringSubmatch(s)
				want := int64(253)
				if m != nil {
					maj, e1 := strconv.Atoi(m[1])
					min := 0
					if m[3] != "" {
						min, _ = strconv.Atoi(m[3])
					}
					if e1 == nil && (maj > 29 || (maj == 29 && min >= 2)) {
						want = 25
					}
				}
				res.sample(map[string]interface{}{"version": s, "floor": int64(fl)})
				if int64(fl) != want {
					res.addFinding("C30/floor-gate", fmt.Sprintf("floor for %q is %d, expected %d", s, int64(fl), want), s)
				}
			case 2:
				a, b, c := genVersion(r), genVersion(r), genVersion(r)
				ca, oka := comps(a)
				cb, okb := comps(b)
				cc, okc := comps(c)
				if !oka || !okb || !okc {
					continue
				}
				_ = ca
				_ = cb
				_ = cc
				ab, e1 := version.CompareVersionStrings(a, b)
				ba, e2 := version.CompareVersionStrings(b, a)
				bc, e3 := version.CompareVersionStrings(b, c)
				ac, e4 := version.CompareVersionStrings(a, c)
				aa, e5 := version.CompareVersionStrings(a, a)
				res.Histogram["compare"]++
				k := a + "|" + b + "|" + c
				if !seen[k] {
					seen[k] = true
					res.Distinct++
				}
				in := []string{a, b, c}
				switch {
				case e1 != nil || e2 != nil || e3 != nil || e4 != nil || e5 != nil:
					res.addFinding("C30/compare-error", "comparison of in-range versions failed", in)
				case !aa:
					res.addFinding("C30/not-reflexive", "a >= a is false", in)
				case !ab && !ba:
					res.addFinding("C30/not-total", "neither a >= b nor b >= a", in)
				case ab && bc && !ac:
					res.addFinding("C30/not-transitive", "a >= b, b >= c but not a >= c", in)
				}
			}
		}
	}
}
