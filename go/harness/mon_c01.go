package main

import (
	"fmt"
	"strings"
)

// judgeC01: every claim payment call of a taker is for the invoice of an announcement whose invoice has exactly
// the claim amount, after the watcher reported (without error) a transaction that really contains an output of the
// agreed amount to the script of both keys, THAT invoice's hash and the chain's CSV.
func judgeC01(x scnResult, res *MonitorResult) {
	type ann struct{ msatok, txok bool }
	anns := map[string]ann{}
	confirmed := map[string]bool{} // hash -> a confirmation callback without error delivered a paying transaction
	confirmedAny := map[string]bool{}
	sawBadAnnounce, sawConfirm := false, false
	for _, o := range x.w.obs {
		switch o.Kind {
		case "announce":
			a := ann{o.A["msatok"] == "true", o.A["txok"] == "true"}
			anns[o.A["hash"]+"/"+o.A["msat"]] = a // several announcements may carry the same hash with different invoices
			if !a.msatok || !a.txok {
				sawBadAnnounce = true
			}
		case "confirmcb":
			if o.A["err"] == "false" {
				sawConfirm = true
				confirmedAny[o.A["hash"]] = true
				if o.A["txok"] == "true" {
					confirmed[o.A["hash"]] = true
				}
			}
		case "pay":
			if o.A["kind"] != "claim" || strings.HasPrefix(o.A["out"], "refused") {
				continue
			}
			h := o.A["hash"]
			in := map[string]interface{}{"scenario": scenarioKey(x.sc.steps), "role": x.sc.role}
			res.Histogram["claim pay"]++
			if x.w.rw != nil {
				res.Histogram["claim pay under the real validators ("+scnChain(x.sc.steps)+")"]++
			}
			a, known := anns[h+"/"+o.A["msat"]]
			switch {
			case !known:
				res.addFinding("C01/pay-for-unannounced-invoice", "claim payment for an invoice no opening_tx_broadcasted message carried", in)
			case !a.msatok:
				res.addFinding("C01/pay-wrong-invoice-amount", "claim payment for an invoice whose amount is not the agreed claim amount", in)
			case !confirmedAny[h]:
				res.addFinding("C01/pay-before-confirmation", "claim payment before the watcher reported the opening transaction confirmed", in)
			case !confirmed[h]:
				res.addFinding("C01/pay-for-nonpaying-tx", "claim payment although the confirmed transaction has no output of the agreed amount to the script of both keys, this invoice's hash and the CSV", in)
			}
		}
	}
	if sawBadAnnounce && sawConfirm {
		res.Histogram["bad announcement reached a confirmation callback"]++
	}
}

// c01Scenarios: taker runs in which the announcement or the transaction is wrong in one way, with the confirmation
// delivered anyway, plus the generic taker scenarios (crashes, restarts, repeated messages).
func c01Scenarios(r *rng, n int) []scn {
	var all []scn
	variants := []string{"", "tx=wrongamount", "tx=wrongcsv", "tx=wronghash", "tx=wrongtaker", "tx=wrongmaker", "tx=junk", "pos=1", "pos=2 vout=0", "pos=1 tx=wronghash", "dmsat=1", "dmsat=-1", "dmsat=1000", "cltv=505", "cltv=30"}
	for _, role := range []string{"outSender", "inReceiver"} {
		for _, chain := range []string{"btc", "lbtc"} {
			for _, v := range variants {
				base := baseScript(role, chain)
				var steps []string
				for _, s := range base {
					if s == "txmsg" {
						s = strings.TrimSpace("txmsg " + v)
					}
					steps = append(steps, s)
				}
				all = append(all, scn{role: role, steps: steps})
				// the same with a restart between announcement and confirmation, and a second confirmation
				var st2 []string
				for _, s := range steps {
					if s == "confirm" {
						st2 = append(st2, "restart")
					}
					st2 = append(st2, s)
				}
				all = append(all, scn{role: role, steps: append(st2, "confirm", "restart", "confirm")})
				// a good announcement after a bad one (the second must not make the first one payable)
				var st3 []string
				for _, s := range steps {
					if strings.HasPrefix(s, "txmsg") {
						st3 = append(st3, s, "txmsg salt=second")
						continue
					}
					st3 = append(st3, s)
				}
				all = append(all, scn{role: role, steps: st3})
			}
		}
	}
	// the same with the REAL validators under the machine (lnd.Client's BitcoinOnChain, LiquidOnChain) and real
	// Elements transactions: explicit / foreign-asset / wrongly blinded / lying-rangeproof swap outputs
	rw := defaultCfg()
	rw.RealWallets = true
	for _, role := range []string{"outSender", "inReceiver"} {
		for _, v := range []string{"", "tx=wrongamount", "tx=wronghash", "tx=wrongcsv", "tx=wrongmaker", "pos=1", "pos=2 vout=0", "dmsat=1"} {
			for _, lq := range []string{"", "lq=explicit", "lq=otherasset", "lq=explicit-otherasset", "lq=wrongblind", "lq=lying"} {
				var steps []string
				for _, s := range baseScript(role, "lbtc") {
					if s == "txmsg" {
						s = strings.TrimSpace("txmsg " + v + " " + lq)
					}
					steps = append(steps, s)
				}
				cfg := rw
				all = append(all, scn{role: role, steps: append(steps, "restart", "confirm"), cfg: &cfg})
			}
			var steps []string
			for _, s := range baseScript(role, "btc") {
				if s == "txmsg" {
					s = strings.TrimSpace("txmsg " + v)
				}
				steps = append(steps, s)
			}
			cfg := rw
			all = append(all, scn{role: role, steps: steps, cfg: &cfg})
		}
	}
	for i := 0; i < n; i++ {
		role := []string{"outSender", "inReceiver"}[r.intn(2)]
		steps := genScenario(r, role, r.intn(3) == 0)
		if r.intn(2) == 0 {
			for j, s := range steps {
				if s == "txmsg" {
					steps[j] = txmsgVariant(r)
				}
			}
		}
		all = append(all, scn{role: role, steps: steps})
	}
	return all
}

func init() {
	monitors["C01"] = func(r *rng, n int, res *MonitorResult) {
		res.Rule = "taker scenarios on the real machines (every wrong-announcement variant × role × chain, each also with restarts / repeated confirmations / a second announcement; random disturbed and crashing runs): every claim payment call judged: it is for an announced invoice of exactly the claim amount, after an error-free confirmation callback delivered a transaction that (checked by the harness itself, not the node) has an output of the agreed amount to the script of both keys, that invoice's hash and the CSV; non-trivial = a claim payment call was made; distinct = distinct scenarios"
		seen := map[string]bool{}
		runMany(defaultCfg(), c01Scenarios(r, n), func(x scnResult) {
			res.Evaluations++
			judgeC01(x, res)
			k := scenarioKey(x.sc.steps)
			if !seen[k] {
				seen[k] = true
				res.Distinct++
				if res.Distinct%97 == 0 {
					res.sample(k)
				}
			}
		})
		if res.Histogram["claim pay"] == 0 {
			res.addFinding("C01/vacuous", "no scenario reached a claim payment", nil)
		}
		_ = fmt.Sprint
	}
}
