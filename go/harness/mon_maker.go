package main

import (
	"context"
	"fmt"
	"github.com/elementsproject/peerswap/txwatcher"
	"os"
	"strings"
	"sync"
	"time"

	"github.com/elementsproject/peerswap/messages"
	"github.com/elementsproject/peerswap/peersync"
)

func finishedState(s string) bool {
	return s == "State_ClaimedCoop" || s == "State_ClaimedCsv" || s == "State_ClaimedPreimage" || s == "State_SwapCanceled"
}

// judgeC07: maker's locked funds. Walks the observations of one maker scenario.
func judgeC07(x scnResult, res *MonitorResult) {
	openings, recorded, paid, spentBack := 0, false, false, false
	crashedInBroadcast := false
	walletErrAfter := false
	final := ""
	lastCrashIn := ""
	for _, o := range x.w.obs {
		switch o.Kind {
		case "walleterr-after-broadcast":
			walletErrAfter = true
		case "broadcast":
			switch o.A["tx"] {
			case "opening":
				openings++
				res.Histogram["opening broadcast"]++
			case "csv", "coop":
				spentBack = true
			}
		case "crash":
			lastCrashIn = o.A["in"]
			if lastCrashIn == "broadcast.opening" {
				crashedInBroadcast = true
			}
		case "persist":
			if o.Swap != "s1" {
				continue
			}
			recorded = o.A["opening"] == "1"
			final = o.A["state"]
			if o.A["invpaid"] == "1" {
				paid = true
			}
		case "step":
			// at every rest point: a broadcast opening transaction must be in the stored record
			if openings > 0 && !recorded {
				cause := "no-record"
				if crashedInBroadcast {
					cause = "crash-between-broadcast-and-persist"
				} else if walletErrAfter {
					cause = "wallet-error-after-broadcast"
				}
				res.addFinding("C07/"+x.sc.role+"/opening-without-record/"+cause,
					"an opening transaction was broadcast but the stored swap record does not contain it", map[string]interface{}{"scenario": scenarioKey(x.sc.steps)})
			}
		}
	}
	// the CSV matured (callback delivered) while the invoice was unpaid: by the end of the scenario — which
	// always ends with a restart and a redelivery of pending chain notifications, all scripted faults
	// consumed — the refund (or a coop spend) must have been broadcast
	csvDelivered := false
	for _, o := range x.w.obs {
		if o.Kind == "step" && strings.HasPrefix(o.A["s"], "csv") && o.A["r"] == "ok" {
			csvDelivered = true
		}
	}
	faultsLeft := 0
	for _, q := range x.w.faults {
		faultsLeft += len(q)
	}
	if openings > 0 && csvDelivered && !paid && !spentBack && faultsLeft == 0 && !x.w.dead && !crashedInBroadcast {
		res.addFinding("C07/"+x.sc.role+"/csv-matured-no-refund/"+final,
			"the CSV matured while the claim invoice was unpaid but no refund was broadcast (final state "+final+")", map[string]interface{}{"scenario": scenarioKey(x.sc.steps)})
	}
	// … and a swap that still has funds locked at the end must be able to notice the CSV maturing: a CSV
	// watch is registered (or it is in the CSV claim state, which the next restart re-executes)
	hasWatch := false
	for _, ch := range []*simChain{x.w.btc, x.w.lbtc} {
		for _, wt := range ch.csvWatch {
			if wt.swapId == x.ctx.id {
				hasWatch = true
			}
		}
	}
	// GetOutputScript is a pure function of the persisted, already validated opening parameters: an injected
	// one-off failure of it while re-registering the watch on recovery cannot happen in the real back ends
	// (false alarm seen with seeds 4 and 8; DESIGN.md §7)
	scriptFault := false
	for _, st := range x.sc.steps {
		if strings.HasPrefix(st, "fault outputscript") {
			scriptFault = true
		}
	}
	if openings > 0 && recorded && !finishedState(final) && !paid && !spentBack && !hasWatch && faultsLeft == 0 && !x.w.dead &&
		!crashedInBroadcast && !scriptFault && !strings.HasSuffix(final, "ClaimSwapCsv") {
		res.addFinding("C07/"+x.sc.role+"/locked-funds-without-csv-watch/"+final,
			"funds are locked, unpaid and unspent, the swap rests in "+final+" and no CSV watch is registered: the refund can never be triggered", map[string]interface{}{"scenario": scenarioKey(x.sc.steps)})
	}
	if openings > 0 && finishedState(final) && !paid && !spentBack {
		cause := "other"
		if crashedInBroadcast {
			cause = "crash-between-broadcast-and-persist"
		} else if walletErrAfter && !recorded {
			cause = "wallet-error-after-broadcast"
		}
		res.addFinding("C07/"+x.sc.role+"/finished-with-locked-funds/"+final+"/"+cause,
			"swap finished in "+final+" although its opening transaction was neither paid for nor spent back", map[string]interface{}{"scenario": scenarioKey(x.sc.steps)})
	}
}

// judgeC15: duplicates across restarts.
func judgeC15(x scnResult, res *MonitorResult) {
	openings := 0
	crashedInBroadcast := false
	crashedInPay := false
	paySuccess := map[string]int{}
	cancelled := false
	sha := map[string]string{}
	stored, storedAtCrash, failedFirst := "", "", false
	errAfterBroadcast, storedAtErrCrash := false, ""
	for _, o := range x.w.obs {
		switch o.Kind {
		case "walleterr-after-broadcast":
			errAfterBroadcast = true
		case "crash":
			if o.A["in"] == "broadcast.opening" {
				crashedInBroadcast = true
				storedAtCrash = stored // the state the store holds while the broadcast goes unrecorded
			}
			if errAfterBroadcast && openings == 1 && storedAtErrCrash == "" {
				storedAtErrCrash = stored
			}
			if o.A["in"] == "pay" {
				crashedInPay = true
			}
		case "broadcast":
			if o.A["tx"] == "opening" {
				openings++
				if openings == 2 {
					cause := "other"
					if !crashedInBroadcast && storedAtErrCrash != "" {
						// the wallet adapter broadcast the first one and then reported an error; the process died
						// before the resulting cancel was stored
						cause = "wallet-error-after-broadcast-then-crash/stored=" + strings.TrimPrefix(strings.TrimPrefix(storedAtErrCrash, "State_SwapInSender_"), "State_SwapOutReceiver_")
					}
					if crashedInBroadcast {
						// the history is part of the signature: which state was stored when the process died with
						// the broadcast unrecorded, and whether an earlier attempt had failed
						cause = "crash-between-broadcast-and-persist/stored=" + strings.TrimPrefix(strings.TrimPrefix(storedAtCrash, "State_SwapInSender_"), "State_SwapOutReceiver_")
						if failedFirst {
							cause += "/after-a-failed-attempt"
						}
					}
					res.addFinding("C15/"+x.sc.role+"/second-opening/"+cause, "a second opening transaction was broadcast for the same swap", map[string]interface{}{"scenario": scenarioKey(x.sc.steps)})
				}
			}
		case "persist":
			if o.Swap == "s1" {
				stored = o.A["state"]
			}
			if o.Swap == "s1" && (o.A["state"] == "State_SwapCanceled" || o.A["state"] == "State_SendCancel" || o.A["cancel"] == "1" && strings.Contains(o.A["state"], "Canceled")) {
				cancelled = true
			}
		case "step":
			if strings.HasPrefix(o.A["s"], "fault opening") {
				failedFirst = true
			}
		case "pay":
			res.Histogram["pay "+o.A["kind"]+" "+o.A["out"]]++
			if o.A["out"] == "success" {
				paySuccess[o.A["hash"]]++
				if paySuccess[o.A["hash"]] == 2 {
					res.addFinding("C15/"+x.sc.role+"/second-payment", "the same invoice was paid twice", map[string]interface{}{"scenario": scenarioKey(x.sc.steps)})
				}
			}
			if o.A["kind"] == "claim" && paySuccess[o.A["hash"]] >= 1 && o.A["out"] != "success" {
				cause := "other"
				if crashedInPay {
					cause = "crash-in-pay"
				}
				res.addFinding("C15/"+x.sc.role+"/pay-attempt-after-success/"+cause, "a new payment attempt was started for an invoice whose payment had already succeeded", map[string]interface{}{"scenario": scenarioKey(x.sc.steps)})
			}
			if cancelled && !strings.HasPrefix(o.A["out"], "refused") {
				res.addFinding("C15/"+x.sc.role+"/pay-after-cancel/"+o.A["kind"], "a payment attempt was made after the swap was cancelled", map[string]interface{}{"scenario": scenarioKey(x.sc.steps)})
			}
		case "send":
			t := o.A["type"]
			if (t == "swap_out_request" || t == "swap_in_request" || t == "swap_in_agreement" || t == "swap_out_agreement") && o.Swap == "s1" {
				if prev, ok := sha[t]; ok && prev != o.A["sha"] {
					res.addFinding("C15/"+x.sc.role+"/resent-with-other-parameters/"+t, t+" was re-sent with different content", map[string]interface{}{"scenario": scenarioKey(x.sc.steps)})
				}
				sha[t] = o.A["sha"]
			}
		}
	}
}

var waitingForTaker = map[string]bool{
	"State_SwapInSender_SendTxBroadcastedMessage": true, "State_SwapInSender_AwaitClaimPayment": true,
	"State_SwapOutReceiver_SendTxBroadcastedMessage": true, "State_SwapOutReceiver_AwaitClaimInvoicePayment": true,
}

// judgeC22: at every persisted point a retransmitter exists only in the waiting states; never two.
func judgeC22(x scnResult, res *MonitorResult) {
	active := 0
	for _, o := range x.w.obs {
		switch o.Kind {
		case "addsender":
			if o.A["err"] == "<nil>" {
				active++
				res.Histogram["addsender"]++
				if active > 1 {
					res.addFinding("C22/"+x.sc.role+"/two-retransmitters", "two retransmitters active for one swap", map[string]interface{}{"scenario": scenarioKey(x.sc.steps)})
				}
			}
		case "removesender":
			active = 0
		case "restart":
			active = 0
		case "persist":
			if o.Swap == "s1" && o.A["resend"] == "1" && !waitingForTaker[o.A["state"]] {
				res.addFinding("C22/"+x.sc.role+"/retransmitting-in/"+o.A["state"], "opening_tx_broadcasted is still retransmitted in state "+o.A["state"], map[string]interface{}{"scenario": scenarioKey(x.sc.steps)})
			}
		}
	}
}

// realResendAfterStop: the REAL RedundantMessenger with a 2 ms interval: copies sent after Stop returned.
type countingMessenger struct {
	sync.Mutex
	n int
}

func (c *countingMessenger) SendMessage(string, []byte, int) error {
	c.Lock()
	c.n++
	c.Unlock()
	return nil
}

// slowMessenger: every send takes longer than the retry interval (a Lightning node that answers slowly: lnd's
// client retries Unavailable for 30 s, sendcustommsg has no deadline), so a tick is pending whenever a send returns
type slowMessenger struct {
	sync.Mutex
	started []time.Time
	ended   []time.Time
	d       time.Duration
}

func (c *slowMessenger) SendMessage(string, []byte, int) error {
	c.Lock()
	c.started = append(c.started, time.Now())
	c.Unlock()
	time.Sleep(c.d)
	c.Lock()
	c.ended = append(c.ended, time.Now())
	c.Unlock()
	return nil
}

// realSlowResendAfterStop: copies whose sending STARTED after RemoveSender had returned (the one in flight at that
// moment is not counted)
func realSlowResendAfterStop() (startedAfter, finishedAfter int) {
	sm := &slowMessenger{d: 3 * time.Millisecond}
	rm := messages.NewRedundantMessenger(sm, time.Millisecond)
	mgr := messages.NewManager()
	mgr.AddSender("x", rm)
	rm.SendMessage("peer", []byte("m"), 1)
	time.Sleep(8 * time.Millisecond)
	mgr.RemoveSender("x")
	stopped := time.Now()
	time.Sleep(40 * time.Millisecond)
	sm.Lock()
	defer sm.Unlock()
	for _, t := range sm.started {
		if t.After(stopped) {
			startedAfter++
		}
	}
	for _, t := range sm.ended {
		if t.After(stopped) {
			finishedAfter++
		}
	}
	return
}

func realResendAfterStop(waitBefore time.Duration) (before, after int) {
	cm := &countingMessenger{}
	rm := messages.NewRedundantMessenger(cm, 2*time.Millisecond)
	mgr := messages.NewManager()
	mgr.AddSender("x", rm)
	rm.SendMessage("peer", []byte("m"), 1)
	time.Sleep(waitBefore)
	mgr.RemoveSender("x")
	cm.Lock()
	before = cm.n
	cm.Unlock()
	time.Sleep(25 * time.Millisecond)
	cm.Lock()
	after = cm.n - before
	cm.Unlock()
	return
}

func makerScenarios(r *rng, n int) []scn {
	all := sweepScenarios([]string{"inSender", "outReceiver"})
	for i := 0; i < n; i++ {
		role := []string{"inSender", "outReceiver"}[r.intn(2)]
		all = append(all, scn{role: role, steps: genScenario(r, role, r.intn(3) > 0)})
	}
	return all
}

// exhaustive single-crash placement on the honest maker runs (every effect index of every step)
func crashPlacements(rolesWanted []string) []scn {
	var out []scn
	for _, role := range rolesWanted {
		for _, chain := range []string{"btc", "lbtc"} {
			base := baseScript(role, chain)
			for i := range base {
				for k := 1; k <= 9; k++ {
					steps := cat(base[:i], []string{fmt.Sprintf("crash %d", k), base[i], "restart"}, base[i+1:])
					if isTaker(role) {
						steps = append(steps, "confirm")
					} else {
						steps = append(steps, "claimpaid", "csv")
					}
					out = append(out, scn{role: role, steps: steps})
					// the same crash, and a local service that fails ONCE while the node recovers
					if !isTaker(role) {
						for _, f := range []string{"height." + chain, "label", "send", "balance", "getpayreq"} {
							blocks := "blocks btc 1008"
							if chain == "lbtc" {
								blocks = "blocks lbtc 10080"
							}
							rest := base[i+1:]
							if len(rest) > 0 {
								rest = rest[:len(rest)-1] // not the honest ending (the peer paying): the refund path
							}
							st := cat(base[:i], []string{fmt.Sprintf("crash %d", k), base[i], "fault " + f + " down", "restart", "clearfaults"}, rest, []string{blocks, "csv", "restart", "csv"})
							out = append(out, scn{role: role, steps: st})
						}
					}
				}
			}
		}
	}
	return out
}

func init() {
	mk := func(prop string, judge func(scnResult, *MonitorResult), rule string, rolesWanted []string) {
		monitors[prop] = func(r *rng, n int, res *MonitorResult) {
			res.Rule = rule
			seen := map[string]bool{}
			all := crashPlacements(rolesWanted)
			// a failed broadcast attempt, a crash right after its state was persisted, and a crash inside
			// the broadcast that recovery repeats: the witness of the known double-opening finding
			for _, role := range rolesWanted {
				switch role {
				case "inSender":
					all = append(all, scn{role: role, steps: strings.Split("new inSender btc;fault opening down;crash 4;agree;crash 2;restart;restart;csv", ";")})
				case "outReceiver":
					all = append(all, scn{role: role, steps: strings.Split("new outReceiver btc;fault opening down;crash 4;feepaid;crash 2;restart;restart;csv", ";")})
				}
			}
			// the wallet adapter broadcasts and then reports an error (lwk fetches the raw transaction from the
			// Electrum server after the broadcast)
			for _, role := range rolesWanted {
				if isTaker(role) {
					continue
				}
				for _, chain := range []string{"btc", "lbtc"} {
					base := baseScript(role, chain)
					blocks := "blocks btc 1008"
					if chain == "lbtc" {
						blocks = "blocks lbtc 10080"
					}
					all = append(all, scn{role: role, steps: cat(base[:len(base)-2], []string{"fault opening-after down", base[len(base)-2], blocks, "csv", "restart", "csv"})})
					// ... and the process dies while it handles that error (the cancel not stored yet)
					for k := 1; k <= 9; k++ {
						all = append(all, scn{role: role, steps: cat(base[:len(base)-2], []string{"fault opening-after down", fmt.Sprintf("crash %d", k), base[len(base)-2], "restart", blocks, "csv", "restart", "csv"})})
					}
				}
			}
			all = append(all, sweepScenarios(rolesWanted)...)
			for i := 0; i < n; i++ {
				role := rolesWanted[r.intn(len(rolesWanted))]
				all = append(all, scn{role: role, steps: genScenario(r, role, r.intn(3) > 0)})
			}
			if prop == "C07" {
				// the REAL RPC watcher under the maker, the wallet put its change at index 0 and the swap output at
				// index 1, and the change is spent before the CSV matures: the refund must still be triggered
				for _, role := range rolesWanted {
					for _, msg := range []string{"", "cancel"} {
						st := c07RealWatcherRefund(role, msg)
						res.Evaluations++
						res.Histogram["real RPC watcher, swap output at index 1: final "+st]++
						if st != "State_ClaimedCsv" {
							res.addFinding("C07/"+role+"/csv-matured-no-refund/real-rpc-watcher/swap-output-not-first", "the CSV of the swap output (index 1, index 0 spent) matured on the real RPC watcher but no refund followed: final "+st,
								map[string]interface{}{"role": role, "schedule": "maker at rest with its CSV watch on the real BlockchainRpcTxWatcher; gettxout answers only for output 1; 1010 confirmations; HandleCsvTx; message: " + msg})
						}
					}
				}
			}
			runMany(defaultCfg(), all, func(x scnResult) {
				res.Evaluations++
				k := scenarioKey(x.sc.steps)
				nontrivial := false
				for _, o := range x.w.obs {
					if o.Kind == "broadcast" || o.Kind == "pay" || o.Kind == "addsender" {
						nontrivial = true
					}
				}
				if nontrivial && !seen[k] {
					seen[k] = true
					res.Distinct++
					res.sample(k)
				}
				judge(x, res)
			})
		}
	}
	mk("C07", judgeC07, "maker scenarios (both roles, both chains): every single-crash placement (effect index 1-9 of every step) of the honest runs, the rest-state × stimulus sweep, random disturbed runs with faults/crashes/restarts, on the real machines; judged at every rest point: broadcast opening tx is in the stored record; a finished swap with locked funds was paid or spent back; non-trivial = something was broadcast or paid", []string{"inSender", "outReceiver"})
	mk("C15", judgeC15, "all four roles: every single-crash placement of the honest runs, sweep, random runs; judged: at most one opening broadcast per swap, at most one successful payment per invoice, no payment attempt after a cancel state was persisted, re-sent request/agreement byte-identical", roles)
	mk("C22", judgeC22, "maker scenarios as for C07; judged at every persisted point: retransmitter active only in the states waiting for the taker, never two; plus the REAL RedundantMessenger at a 2 ms interval: copies after RemoveSender returned", []string{"inSender", "outReceiver"})
	base22 := monitors["C22"]
	monitors["C22"] = func(r *rng, n int, res *MonitorResult) {
		base22(r, n, res)
		for i := 0; i < 12; i++ {
			_, after := realResendAfterStop(time.Duration(1+i) * time.Millisecond)
			res.Evaluations++
			res.Histogram[fmt.Sprintf("copies after stop = %d", after)]++
			if after > 1 {
				res.addFinding("C22/real-messenger/copies-after-stop", fmt.Sprintf("%d copies were sent after RemoveSender returned", after), fmt.Sprintf("interval 2ms, stop after %d ms", 1+i))
			}
		}
		// sends slower than the interval: after the stop no NEW copy may be started (the copy in flight finishes)
		worst, worstFin := 0, 0
		for i := 0; i < 40; i++ {
			k, fin := realSlowResendAfterStop()
			res.Evaluations++
			res.Histogram[fmt.Sprintf("slow sends: copies started after stop = %d", k)]++
			res.Histogram[fmt.Sprintf("slow sends: copies completed after stop = %d", fin)]++
			if k > worst {
				worst = k
			}
			if fin > worstFin {
				worstFin = fin
			}
		}
		if worstFin > 1 {
			res.addFinding("C22/real-messenger/several-copies-in-flight-at-stop/slow-sends", fmt.Sprintf("with sends slower than the retry interval %d copies completed after RemoveSender had returned: more than the one copy that may be in flight", worstFin), "interval 1 ms, each send 3 ms, stop after 8 ms, 40 trials")
		}
		if worst > 0 {
			res.addFinding("C22/real-messenger/new-copies-started-after-stop/slow-sends", fmt.Sprintf("with sends slower than the retry interval up to %d NEW copies were started after RemoveSender had returned (a pending tick and the stop are both ready and select picks at random)", worst), "interval 1 ms, each send 3 ms, stop after 8 ms, 40 trials")
		}
	}

	// C26: quarantine after a CSV refund, with the REAL policy file and the real peersync handler/poller
	monitors["C26"] = func(r *rng, n int, res *MonitorResult) {
		res.Rule = "maker swaps driven to a CSV refund (silence, cancel, bad coop key; both roles/chains) on the real machines with the REAL policy.Policy on a file, then requests, local initiations, poll / request_poll messages and poll rounds involving that peer; judged: peer recorded in file and memory, requests cancelled, initiations refused, no peersync answer/store/poll for it; distinct = distinct (path to refund, follow-up) pairs"
		paths := [][]string{{"csv"}, {"cancel", "csv"}, {"coop badkey", "csv"}, {"timeout", "csv"}, {"restart", "csv"}}
		k := 0
		for _, role := range []string{"inSender", "outReceiver"} {
			for _, chain := range []string{"btc", "lbtc"} {
				for pi, path := range paths {
					k++
					if k > n+8 {
						return
					}
					cfg := defaultCfg()
					cfg.PolicyFile = true
					// other peers quarantined earlier: the list in the file is in the order of the quarantines, not sorted
					var earlier []string
					switch (pi + k) % 4 {
					case 1:
						earlier = []string{"03" + strings.Repeat("ff", 32)}
					case 2:
						earlier = []string{"02" + strings.Repeat("00", 31) + "01"}
					case 3:
						earlier = []string{"03" + strings.Repeat("ff", 32), "02" + strings.Repeat("00", 31) + "01", "03" + strings.Repeat("ee", 32)}
					}
					cfg.PolicyContent = "accept_all_peers=true\n"
					for _, e := range earlier {
						cfg.PolicyContent += "suspicious_peers=" + e + "\n"
					}
					steps := cat(restPrefixes(role, chain)[map[string]string{"inSender": "AwaitClaimPayment", "outReceiver": "AwaitClaimInvoicePayment"}[role]], path)
					w, c, _ := runScenario(cfg, steps)
					res.Evaluations++
					res.Distinct++
					in := map[string]interface{}{"scenario": scenarioKey(steps)}
					res.sample(scenarioKey(steps))
					if c.state() != "State_ClaimedCsv" {
						res.Histogram["not refunded: "+c.state()]++
						w.close()
						continue
					}
					res.Histogram["refunded"]++
					file, _ := os.ReadFile(w.policyPath)
					if !w.pol.IsPeerSuspicious(peerNode) || !strings.Contains(string(file), "suspicious_peers="+peerNode) {
						res.addFinding("C26/not-recorded", "peer not recorded as suspicious after a CSV refund", in)
					}
					in["quarantined_earlier"] = earlier
					for _, e := range earlier {
						res.Histogram["earlier quarantine checked"]++
						if !w.pol.IsPeerSuspicious(e) {
							res.addFinding("C26/earlier-quarantine-forgotten", "a peer quarantined earlier is no longer treated as suspicious after another peer was added", in)
						}
					}
					// later requests
					sentBefore := len(w.msgr.sent)
					c2 := newCtx(w)
					c2.scid = "200x1x0"
					c2.Step("new outReceiver " + chain)
					c3 := newCtx(w)
					c3.scid = "300x1x0"
					c3.Step("new inReceiver " + chain)
					for _, m := range w.msgr.sent[sentBefore:] {
						if m.typ == messages.MESSAGETYPE_SWAPINAGREEMENT || m.typ == messages.MESSAGETYPE_SWAPOUTAGREEMENT {
							res.addFinding("C26/request-admitted", "a request of the quarantined peer was answered with an agreement", in)
						}
					}
					if _, err := w.svc.SwapOut(peerNode, chain, "400x1x0", selfNode, 1000000, 10000); err == nil || !strings.Contains(err.Error(), "suspicious") {
						res.addFinding("C26/initiation-not-refused/swap-out", fmt.Sprintf("SwapOut towards the quarantined peer: %v", err), in)
					}
					if _, err := w.svc.SwapIn(peerNode, chain, "500x1x0", selfNode, 1000000, 10000); err == nil || !strings.Contains(err.Error(), "suspicious") {
						res.addFinding("C26/initiation-not-refused/swap-in", fmt.Sprintf("SwapIn towards the quarantined peer: %v", err), in)
					}
					// peersync
					cl := &captureLightning{}
					store, _ := peersync.NewStore(w.dir + "/peersync.db")
					self, _ := peersync.NewPeerID(selfNode)
					pid, _ := peersync.NewPeerID(peerNode)
					cl.connected = []peersync.PeerID{pid}
					ps := peersync.NewPeerSync(self, store, cl, w.pol.real, nil, w.ps)
					// well-formed and malformed payloads alike: the quarantine does not depend on what the peer sends
					for _, payload := range [][]byte{[]byte(`{"version":7,"assets":["BTC","LBTC"],"peer_allowed":true}`), nil, []byte("{not json"), []byte(`{"version":7,"assets":["BT`), []byte(`{"version":7,"assets":["DOGE"]}`), []byte(`{"version":"x"}`), []byte(`{"btc_swap_in_premium_rate_ppm":99999999}`), []byte(`{}`)} {
						ps.VerifHandle(context.Background(), peersync.CustomMessage{From: pid, Type: messages.MESSAGETYPE_REQUEST_POLL, Payload: payload})
						ps.VerifHandle(context.Background(), peersync.CustomMessage{From: pid, Type: messages.MESSAGETYPE_POLL, Payload: payload})
					}
					ps.VerifPollPeers(context.Background(), true)
					ps.RequestPoll(context.Background(), pid)
					if len(cl.sent) != 0 {
						res.addFinding("C26/peersync-talks-to-quarantined-peer", fmt.Sprintf("%d peersync messages sent to the quarantined peer", len(cl.sent)), in)
					}
					if p, err := store.GetPeerState(pid); err == nil && p != nil {
						res.addFinding("C26/peersync-stores-quarantined-peer", "capability of the quarantined peer was stored", in)
					}
					store.Close()
					w.close()
				}
			}
		}
	}
}

// c07RealWatcherRefund: a maker on the REAL RPC watcher whose swap output is output 1 of the opening transaction;
// output 0 (change) is spent, so gettxout answers for index 1 only.  Returns the final state.
func c07RealWatcherRefund(role, msg string) string {
	w := newWorld(defaultCfg())
	defer w.close()
	one := uint32(1)
	rpc := &fakeRpc{wantVout: &one}
	rpc.set(rpcView{rpcHeight: 800000, txout: &txwatcher.TxOutResp{BestBlockHash: "match", Confirmations: 1}})
	rw := txwatcher.NewBlockchainRpcTxWatcher(context.Background(), rpc, 3)
	w.realBtcWatcher = rw
	w.boot(true, true)
	w.btc.voutShift = 1
	a := newCtx(w)
	for _, s := range restPrefixes(role, "btc")[map[string]string{"inSender": "AwaitClaimPayment", "outReceiver": "AwaitClaimInvoicePayment"}[role]] {
		a.Step(s)
	}
	if msg != "" {
		a.Step(msg)
	}
	rpc.set(rpcView{rpcHeight: 801010, txout: &txwatcher.TxOutResp{BestBlockHash: "match", Confirmations: 1010}})
	for k := 0; k < 3; k++ {
		rw.HandleCsvTx(801010 + uint64(k))
		for i := 0; i < 100 && a.state() != "State_ClaimedCsv"; i++ {
			time.Sleep(5 * time.Millisecond)
		}
	}
	return a.state()
}
