package main

import (
	"fmt"
	"sort"
	"strings"

	"github.com/elementsproject/peerswap/messages"
)

var scidSpellings = []string{"100x1x0", "100:1:0", "200x2x1", "200:2:1", "300x3x2", "100x1:0", "1x2x3", "1:2:3"}

func lockErrClass(err error) string {
	if err == nil {
		return "ok"
	}
	switch {
	case strings.Contains(err.Error(), "swap id is already in use"):
		return "err idInUse"
	case strings.Contains(err.Error(), "already has an active swap on channel"):
		return "err channelBusy"
	}
	return "err other:" + hexs(err.Error())
}

func init() {
	slices["registry"] = func(r *rng, n int, emit func(op, res string)) {
		for done := 0; done < n; {
			w := newWorld(defaultCfg())
			emit("reg.reset", "ok")
			done++
			ids := []string{}
			for i := 0; i < 6; i++ {
				ids = append(ids, fmt.Sprintf("%064x", i+1))
			}
			for k := 0; k < 10+r.intn(30) && done < n; k++ {
				done++
				id := ids[r.intn(len(ids))]
				switch r.intn(5) {
				case 0, 1, 2:
					scid := r.pickStr(scidSpellings)
					emit(fmt.Sprintf("reg.lock %s %s", id, hexs(scid)), lockErrClass(w.svc.VerifLockSwap(id, scid)))
				case 3:
					w.svc.RemoveActiveSwap(id)
					emit("reg.remove "+id, "ok")
				case 4:
					var xs []string
					for aid, v := range w.svc.VerifActiveSwaps() {
						xs = append(xs, aid+":"+hexs(v[1]))
					}
					sort.Strings(xs)
					emit("reg.active", strings.Join(xs, " "))
				}
			}
			w.close()
		}
	}

	monitors["C10"] = func(r *rng, n int, res *MonitorResult) {
		res.Rule = "several swaps driven concurrently in one node (local SwapIn/SwapOut and incoming requests in all four roles, channel ids drawn from both spellings of three channels, cancels/timeouts/restarts in between) on the real service; after every step: no two non-terminal active swaps share a channel after normalising the separator; a request on a busy channel got a cancel and no agreement; distinct = distinct step sequences"
		seen := map[string]bool{}
		for i := 0; i < n; i++ {
			w := newWorld(defaultCfg())
			var ctxs []*Ctx
			var hist []string
			steps := 3 + r.intn(8)
			for k := 0; k < steps; k++ {
				var step string
				var c *Ctx
				if len(ctxs) == 0 || r.intn(3) > 0 {
					c = newCtx(w)
					c.peerKey = detKey(fmt.Sprint("peer", len(ctxs)))
					role := roles[r.intn(4)]
					scid := r.pickStr(scidSpellings[:6])
					step = fmt.Sprintf("new %s %s scid=%s", role, r.pickStr([]string{"btc", "lbtc"}), scid)
					ctxs = append(ctxs, c)
				} else {
					c = ctxs[r.intn(len(ctxs))]
					step = r.pickStr([]string{"cancel", "timeout", "restart", "agree", "feepaid", "txmsg"})
				}
				sentBefore := len(w.msgr.sent)
				busyBefore := map[string]bool{}
				for _, v := range w.svc.VerifActiveSwaps() {
					if !finishedState(v[0]) {
						busyBefore[strings.ReplaceAll(v[1], ":", "x")] = true
					}
				}
				out := c.Step(step)
				hist = append(hist, step+" -> "+out)
				res.Evaluations++
				// judge
				chans := map[string]string{}
				for id, v := range w.svc.VerifActiveSwaps() {
					if finishedState(v[0]) || v[1] == "" {
						continue
					}
					norm := strings.ReplaceAll(v[1], ":", "x")
					if other, ok := chans[norm]; ok && other != id {
						res.addFinding("C10/two-active-swaps-on-one-channel", "two non-terminal swaps are active on channel "+norm, append([]string{}, hist...))
					}
					chans[norm] = id
				}
				if strings.HasPrefix(step, "new ") && strings.Contains(step, "Receiver") {
					norm := strings.ReplaceAll(c.scid, ":", "x")
					if busyBefore[norm] {
						res.Histogram["request on busy channel"]++
						gotCancel, gotAgreement := false, false
						for _, m := range w.msgr.sent[sentBefore:] {
							if m.typ == messages.MESSAGETYPE_CANCELED {
								gotCancel = true
							}
							if m.typ == messages.MESSAGETYPE_SWAPINAGREEMENT || m.typ == messages.MESSAGETYPE_SWAPOUTAGREEMENT {
								gotAgreement = true
							}
						}
						if gotAgreement || !gotCancel {
							res.addFinding("C10/busy-channel-request-not-cancelled", "a request for a channel with an active swap was not answered with cancel", append([]string{}, hist...))
						}
					}
				}
			}
			k := strings.Join(hist, ";")
			if !seen[k] {
				seen[k] = true
				res.Distinct++
			}
			if i < 3 {
				res.sample(hist)
			}
			w.close()
		}
	}

	monitors["C09"] = func(r *rng, n int, res *MonitorResult) {
		res.Rule = "a swap in every rest state of every role, terminal states included, in three modes (live; stored but not yet recovered after a restart; after a full restart with RecoverSwaps) receives: every message type from a third party, every message type with an unknown id, every message type from the counterparty (acceptable or not in that state), and requests reusing its id on the same and on another channel; judged on the real service: unless the message is from the counterparty AND accepted by the state, the stored record bytes, the active entry and the sent messages are unchanged; id reuse is refused; the handler never panics; distinct = distinct (role, state, stimulus)"
		type probe struct{ name, step string }
		probes := []probe{
			{"third cancel", "cancel from=third"}, {"third coop", "coop from=third"}, {"third txmsg", "txmsg from=third"}, {"third agree", "agree from=third"},
		}
		for _, role := range roles {
			for _, chain := range []string{"btc", "lbtc"} {
				pre := restPrefixes(role, chain)
				var names []string
				for k := range pre {
					names = append(names, k)
				}
				sortStrings(names)
				for _, stName := range names {
					for mode := 0; mode < 3; mode++ { // 0: live, 1: stored but not recovered (fresh service object on the same db), 2: after a full restart with RecoverSwaps
						w, c, _ := runScenario(defaultCfg(), pre[stName])
						if mode == 1 {
							w.mgr.stopAll()
							w.boot(true, true) // Start() without RecoverSwaps()
						}
						if mode == 2 {
							w.restart()
						}
						before := w.swapRecordJSON(c.id)
						if before == "" {
							w.close()
							continue
						}
						check := func(what string, allowChange bool) {
							res.Evaluations++
							res.Distinct++
							after := w.swapRecordJSON(c.id)
							if len(c.panics) > 0 {
								res.addFinding("C09/panic/"+what, "message handler panicked", map[string]string{"role": role, "state": stName, "stimulus": what, "panic": c.panics[0][:min(200, len(c.panics[0]))]})
								c.panics = nil
							}
							if after != before && !allowChange {
								res.addFinding(fmt.Sprintf("C09/record-changed/%s", what), "the stored record of a swap changed although the message was not from its counterparty / not for it / not acceptable", map[string]string{"role": role, "chain": chain, "state": stName, "stimulus": what, "mode": fmt.Sprint(mode)})
							}
							before = after
						}
						// third party, with the swap's id
						for _, p := range probes {
							c.Step(p.step)
							check(p.name, false)
						}
						// unknown id
						other := newCtx(w)
						other.id = strings.Repeat("cd", 32)
						other.role, other.chain = c.role, c.chain
						for _, s := range []string{"cancel", "coop", "txmsg", "agree"} {
							other.Step(s)
							check("unknown-id "+s, false)
						}
						// id reuse by requests (same channel, other channel), from the peer and from a third party
						for _, s := range []string{"new outReceiver " + chain + " id=" + c.id, "new inReceiver " + chain + " scid=999x9x9 id=" + c.id, "new inReceiver " + chain + " scid=998x9x9 from=third id=" + c.id} {
							re := newCtx(w)
							re.Step(s)
							res.Histogram["id reuse"]++
							check("id-reuse "+strings.Fields(s)[1], false)
						}
						// counterparty messages: allowed to change the record only when the state's table accepts the event
						if mode == 0 {
							for _, s := range []string{"coop", "txmsg", "agree", "cancel"} {
								st0 := c.state()
								c.Step(s)
								accepted := c.state() != st0
								res.Histogram[fmt.Sprintf("peer msg accepted=%v", accepted)]++
								check("peer "+s+" in "+stName, accepted)
							}
						}
						w.close()
					}
				}
			}
		}
		_ = n
	}
}
