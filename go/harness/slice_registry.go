package main

import (
	"fmt"
	"github.com/elementsproject/peerswap/swap"
	"sort"
	"strings"
	"sync"
	"sync/atomic"
	"time"

	"github.com/elementsproject/peerswap/messages"
)

var scidSpellings = []string{"100x1x0", "100:1:0", "200x2x1", "200:2:1", "300x3x2", "100x1:0", "1x2x3", "1:2:3"}

func lockErrClass(err error) string {
	if err == nil {
		return "ok"
	}
	switch {
	case strings.Contains(err.Error(), "swap id is already in use"):
		return "err idInUse"
	case strings.Contains(err.Error(), "already has an active swap on channel"):
		return "err channelBusy"
	}
	return "err other:" + hexs(err.Error())
}

func init() {
	slices["registry"] = func(r *rng, n int, emit func(op, res string)) {
		for done := 0; done < n; {
			w := newWorld(defaultCfg())
			emit("reg.reset", "ok")
			done++
			freshScid := map[string]string{}
			ids := []string{}
			for i := 0; i < 6; i++ {
				ids = append(ids, fmt.Sprintf("%064x", i+1))
			}
			// requests through the REAL handlers, also split in two: the id test at the top, then (held in a Lightning
			// call by the harness) anything else, then the rest of the handler
			ctxOf := map[string]*Ctx{}
			// outcome of a request, from what the node did: registered under this channel / cancel with which reason
			activeScid := func(id string) string {
				if v, ok := w.svc.VerifActiveSwaps()[id]; ok {
					if v[1] == "" {
						return "?"
					}
					return v[1]
				}
				return ""
			}
			reqClass := func(id, scid, scidBefore string, sentBefore int) string {
				if now := activeScid(id); now == scid && scidBefore != scid {
					return "accepted"
				}
				for _, m := range w.msgr.sent[sentBefore:] {
					if m.typ == messages.MESSAGETYPE_CANCELED && strings.Contains(string(m.payload), id) && strings.Contains(string(m.payload), "already has an active swap") {
						return "cancelBusy"
					}
				}
				return "refusedKnownId"
			}
			// requests carry well-formed channel ids only (a malformed one is refused by the pre-checks, before the registry)
			reqScids := []string{"100x1x0", "100:1:0", "200x2x1", "200:2:1", "300x3x2", "1x2x3", "1:2:3"}
			var inflight chan string
			var inflightCtx *Ctx
			var inflightScid string
			var gate chan bool
			for k := 0; k < 10+r.intn(30) && done < n; k++ {
				done++
				id := ids[r.intn(len(ids))]
				switch c := r.intn(12); {
				case c >= 6 && c <= 7: // a whole request
					scid := r.pickStr(reqScids)
					cx := newCtx(w)
					before, sb := activeScid(id), len(w.msgr.sent)
					cx.Step("new inReceiver btc scid=" + scid + " id=" + id)
					cls := reqClass(id, scid, before, sb)
					if cls == "accepted" {
						ctxOf[id] = cx
					}
					emit(fmt.Sprintf("reg.request %s %s", id, hexs(scid)), cls)
					continue
				case c == 8: // the peer cancels a requested swap: it finishes and leaves the active map
					cx := ctxOf[id]
					if cx == nil {
						done--
						continue
					}
					cx.Step("cancel")
					delete(ctxOf, id)
					emit("reg.remove "+id, "ok")
					continue
				case c == 9 && inflight == nil: // first half of a request
					scid := r.pickStr(reqScids)
					cx := newCtx(w)
					reached := make(chan bool, 1)
					gate = make(chan bool)
					var first int32
					g := gate
					hook := func() {
						if atomic.CompareAndSwapInt32(&first, 0, 1) {
							reached <- true
							<-g
						}
					}
					w.setHook("canspend", hook)
					ch := make(chan string, 1)
					go func() { ch <- cx.Step("new inReceiver btc scid=" + scid + " id=" + id) }()
					select {
					case <-reached:
						inflight, inflightCtx, inflightScid = ch, cx, scid
						emit(fmt.Sprintf("reg.reqbegin %s %s", id, hexs(scid)), "pending")
					case <-ch:
						w.setHook("canspend", nil)
						emit(fmt.Sprintf("reg.reqbegin %s %s", id, hexs(scid)), "refusedKnownId")
					}
					continue
				case c == 10 && inflight != nil: // second half
					before, sb := activeScid(inflightCtx.id), len(w.msgr.sent)
					close(gate)
					<-inflight
					w.setHook("canspend", nil)
					cls := reqClass(inflightCtx.id, inflightScid, before, sb)
					if cls == "accepted" {
						ctxOf[inflightCtx.id] = inflightCtx
					}
					inflight = nil
					emit("reg.reqend", cls)
					continue
				case c >= 9:
					done--
					continue
				}
				switch r.intn(6) {
				case 5:
					scid := r.pickStr(scidSpellings)
					fid, err := w.svc.VerifLockFresh(scid, selfNode, peerNode, r.bool())
					if err == nil {
						freshScid[fid] = scid
					}
					emit(fmt.Sprintf("reg.lock %s %s", fid, hexs(scid)), lockErrClass(err))
				case 0, 1, 2:
					scid := r.pickStr(scidSpellings)
					emit(fmt.Sprintf("reg.lock %s %s", id, hexs(scid)), lockErrClass(w.svc.VerifLockSwap(id, scid)))
				case 3:
					w.svc.RemoveActiveSwap(id)
					// the requested swap behind this id (if any) is no longer the registered one: a later "the peer
					// cancels" must not be aimed at whatever is locked under the id afterwards
					delete(ctxOf, id)
					emit("reg.remove "+id, "ok")
				case 4:
					var xs []string
					for aid, v := range w.svc.VerifActiveSwaps() {
						if v[1] == "" {
							v[1] = freshScid[aid] // no swap data yet: the channel it holds is the one it was locked with
						}
						xs = append(xs, aid+":"+hexs(v[1]))
					}
					sort.Strings(xs)
					emit("reg.active", strings.Join(xs, " "))
				}
			}
			if inflight != nil {
				close(gate)
				<-inflight
			}
			w.close()
		}
	}

	monitors["C10"] = func(r *rng, n int, res *MonitorResult) {
		res.Rule = "several swaps driven concurrently in one node (local SwapIn/SwapOut and incoming requests in all four roles, local initiations preempted right after lockSwap, channel ids drawn from both spellings of three channels, cancels/timeouts/restarts in between) on the real service; after every step: no two non-terminal active swaps share a channel after normalising the separator; a request on a busy channel got a cancel and no agreement; distinct = distinct step sequences"
		seen := map[string]bool{}
		// concurrent callers: lockSwap must grant a channel to exactly one of several simultaneous callers
		// (the schedule is the Go scheduler's; a populated registry widens the window between check and insert)
		{
			w := newWorld(defaultCfg())
			for i := 0; i < 3000; i++ {
				w.svc.VerifLockSwap(fmt.Sprintf("%064x", 0x100000+i), fmt.Sprintf("7x7x%d", i))
			}
			rounds := 20
			if n > 1000 {
				rounds = 200
			}
			for round := 0; round < rounds; round++ {
				const callers = 8
				var wg sync.WaitGroup
				start := make(chan struct{})
				var granted int32
				ids := make([]string, callers)
				for g := 0; g < callers; g++ {
					ids[g] = fmt.Sprintf("%064x", 0x900000+round*callers+g)
					wg.Add(1)
					go func(g int) {
						defer wg.Done()
						scid := fmt.Sprintf("9x%dx1", round)
						if g%2 == 1 {
							scid = fmt.Sprintf("9:%d:1", round)
						}
						<-start
						if w.svc.VerifLockSwap(ids[g], scid) == nil {
							atomic.AddInt32(&granted, 1)
						}
					}(g)
				}
				close(start)
				wg.Wait()
				res.Evaluations++
				res.Histogram["concurrent round"]++
				if granted != 1 {
					res.addFinding("C10/two-active-swaps-on-one-channel", fmt.Sprintf("%d of %d simultaneous lockSwap calls for one channel were granted", granted, callers),
						map[string]interface{}{"schedule": "8 goroutines released together call lockSwap for channel 9x<round>x1 / 9:<round>:1 on a registry holding 3000 other swaps", "round": round, "granted": granted})
					break
				}
			}
			w.close()
		}
		// the window between Start() (message handler live) and RecoverSwaps() after a restart: the CLN plugin serves
		// peer messages there.  A request for the channel of a stored, not yet restored swap must be refused, and the
		// stored swap must be restored afterwards.
		for _, fam := range []struct{ role, chain, rest, probe string }{
			{"inSender", "btc", "AwaitClaimPayment", "new outReceiver btc scid=100:1:0"},
			{"outReceiver", "lbtc", "AwaitClaimInvoicePayment", "new inReceiver lbtc scid=100x1x0 from=third"},
			{"outSender", "btc", "AwaitTxBroadcastedMessage", "new inReceiver btc scid=100x1x0"},
		} {
			w := newWorld(defaultCfg())
			a := newCtx(w)
			pre := restPrefixes(fam.role, fam.chain)[fam.rest]
			if len(pre) == 0 {
				w.close()
				continue
			}
			pre = append([]string{}, pre...)
			pre[0] += " scid=100x1x0"
			var hist []string
			for _, st := range pre {
				hist = append(hist, st+" -> "+a.Step(st))
			}
			stored := a.state()
			// restart: a fresh service object on the same database, handler registered, recovery not yet run
			w.mgr.stopAll()
			w.boot(true, true)
			b := newCtx(w)
			sentBefore := len(w.msgr.sent)
			hist = append(hist, "[Start(), before RecoverSwaps] "+fam.probe+" -> "+b.Step(fam.probe))
			admitted := false
			for _, m := range w.msgr.sent[sentBefore:] {
				if m.typ == messages.MESSAGETYPE_SWAPINAGREEMENT || m.typ == messages.MESSAGETYPE_SWAPOUTAGREEMENT {
					admitted = true
				}
			}
			err := w.svc.RecoverSwaps()
			_, restored := w.svc.VerifActiveSwaps()[a.id]
			res.Evaluations++
			res.Distinct++
			res.Histogram["request before recovery ("+fam.role+")"]++
			in := append(append([]string{}, hist...), fmt.Sprintf("RecoverSwaps -> %v; stored swap (%s) active again: %v", err, stored, restored))
			if admitted {
				res.addFinding("C10/busy-channel-request-not-cancelled/before-recovery", "a request for the channel of a stored, not yet restored swap was answered with an agreement", in)
			}
			if !restored && !finishedState(stored) {
				res.addFinding("C10/stored-swap-not-restored/channel-taken-before-recovery", "a swap stored as "+stored+" was not restored after the restart because a request had taken its channel before RecoverSwaps ran", in)
			}
			if d := storedChannelClash(w); d != "" {
				res.addFinding("C10/two-active-swaps-on-one-channel/stored", "two stored non-terminal swaps share channel "+d, in)
			}
			w.close()
		}
		// a swap whose claim keeps failing until the retry budget of one event is used up is still not finished: its
		// channel stays taken (judged on the STORED records: what the node has, not what its registry remembers)
		for _, fam := range []struct{ role, chain, fault, trigger string }{
			{"outSender", "btc", "preimage", "confirm"}, {"inReceiver", "lbtc", "preimage", "confirm"},
			{"inSender", "btc", "csv", "csv"}, {"outReceiver", "lbtc", "csv", "csv"},
		} {
			w := newWorld(defaultCfg())
			a := newCtx(w)
			base := baseScript(fam.role, fam.chain)
			base[0] += " scid=100x1x0"
			var hist []string
			for _, st := range base[:len(base)-1] {
				hist = append(hist, st+" -> "+a.Step(st))
			}
			for k := 0; k < 25; k++ {
				a.Step("fault " + fam.fault + " down")
			}
			hist = append(hist, "25 x fault "+fam.fault+" down", fam.trigger+" -> "+a.Step(fam.trigger))
			st := a.state()
			hist = append(hist, "state "+st)
			res.Evaluations++
			res.Histogram["retry budget used up in "+st]++
			if !finishedState(st) && st != "" {
				for _, probe := range []string{"new outReceiver " + fam.chain + " scid=100x1x0", "new inReceiver " + fam.chain + " scid=100:1:0"} {
					b := newCtx(w)
					sentBefore := len(w.msgr.sent)
					out := b.Step(probe)
					hist = append(hist, probe+" -> "+out)
					for _, m := range w.msgr.sent[sentBefore:] {
						if m.typ == messages.MESSAGETYPE_SWAPINAGREEMENT || m.typ == messages.MESSAGETYPE_SWAPOUTAGREEMENT {
							res.addFinding("C10/busy-channel-request-not-cancelled/after-exhausted-retries", "a request for the channel of a swap that is still claiming (retry budget used up) was answered with an agreement", append([]string{}, hist...))
						}
					}
				}
				if _, err := w.svc.SwapOut(peerNode, fam.chain, "100:1:0", selfNode, 1000000, 50000); err == nil {
					res.addFinding("C10/two-active-swaps-on-one-channel/after-exhausted-retries", "a local swap-out was started on the channel of a swap that is still claiming", append([]string{}, hist...))
				}
			}
			if d := storedChannelClash(w); d != "" {
				res.addFinding("C10/two-active-swaps-on-one-channel/stored", "two stored non-terminal swaps share channel "+d, append([]string{}, hist...))
			}
			w.close()
		}
		for i := 0; i < n; i++ {
			w := newWorld(defaultCfg())
			var ctxs []*Ctx
			var hist []string
			fresh := map[string]string{} // local initiations preempted right after lockSwap: swap id -> channel
			steps := 3 + r.intn(8)
			for k := 0; k < steps; k++ {
				var step string
				var c *Ctx
				if r.intn(6) == 0 {
					// a local SwapOut/SwapIn that has taken its lock and not yet sent its first event
					scid := r.pickStr(scidSpellings[:6])
					out := r.bool()
					id, err := w.svc.VerifLockFresh(scid, selfNode, peerNode, out)
					hist = append(hist, fmt.Sprintf("lockfresh out=%v scid=%s -> %v", out, scid, err == nil))
					res.Evaluations++
					res.Histogram["lockfresh"]++
					norm := strings.ReplaceAll(scid, ":", "x")
					for aid, v := range w.svc.VerifActiveSwaps() {
						if aid != id && !finishedState(v[0]) && (strings.ReplaceAll(v[1], ":", "x") == norm || strings.ReplaceAll(fresh[aid], ":", "x") == norm) && err == nil {
							res.addFinding("C10/two-active-swaps-on-one-channel", "two non-terminal swaps are active on channel "+norm, append([]string{}, hist...))
						}
					}
					if err == nil {
						fresh[id] = scid
					}
					continue
				}
				if len(ctxs) == 0 || r.intn(3) > 0 {
					c = newCtx(w)
					c.peerKey = detKey(fmt.Sprint("peer", len(ctxs)))
					role := roles[r.intn(4)]
					scid := r.pickStr(scidSpellings[:6])
					step = fmt.Sprintf("new %s %s scid=%s", role, r.pickStr([]string{"btc", "lbtc"}), scid)
					ctxs = append(ctxs, c)
				} else {
					c = ctxs[r.intn(len(ctxs))]
					step = r.pickStr([]string{"cancel", "timeout", "restart", "agree", "feepaid", "txmsg"})
				}
				sentBefore := len(w.msgr.sent)
				busyBefore := map[string]bool{}
				for aid, v := range w.svc.VerifActiveSwaps() {
					if !finishedState(v[0]) {
						busyBefore[strings.ReplaceAll(v[1], ":", "x")] = true
						if f, ok := fresh[aid]; ok {
							busyBefore[strings.ReplaceAll(f, ":", "x")] = true
						}
					}
				}
				out := c.Step(step)
				hist = append(hist, step+" -> "+out)
				res.Evaluations++
				// judge
				chans := map[string]string{}
				for id, v := range w.svc.VerifActiveSwaps() {
					if v[1] == "" {
						v[1] = fresh[id]
					}
					if finishedState(v[0]) || v[1] == "" {
						continue
					}
					norm := strings.ReplaceAll(v[1], ":", "x")
					if other, ok := chans[norm]; ok && other != id {
						res.addFinding("C10/two-active-swaps-on-one-channel", "two non-terminal swaps are active on channel "+norm, append([]string{}, hist...))
					}
					chans[norm] = id
				}
				if strings.HasPrefix(step, "new ") && strings.Contains(step, "Receiver") {
					norm := strings.ReplaceAll(c.scid, ":", "x")
					if busyBefore[norm] {
						res.Histogram["request on busy channel"]++
						gotCancel, gotAgreement := false, false
						for _, m := range w.msgr.sent[sentBefore:] {
							if m.typ == messages.MESSAGETYPE_CANCELED {
								gotCancel = true
							}
							if m.typ == messages.MESSAGETYPE_SWAPINAGREEMENT || m.typ == messages.MESSAGETYPE_SWAPOUTAGREEMENT {
								gotAgreement = true
							}
						}
						if gotAgreement || !gotCancel {
							res.addFinding("C10/busy-channel-request-not-cancelled", "a request for a channel with an active swap was not answered with cancel", append([]string{}, hist...))
						}
					}
				}
			}
			if d := storedChannelClash(w); d != "" {
				res.addFinding("C10/two-active-swaps-on-one-channel/stored", "two stored non-terminal swaps share channel "+d, append([]string{}, hist...))
			}
			k := strings.Join(hist, ";")
			if !seen[k] {
				seen[k] = true
				res.Distinct++
			}
			if i < 3 {
				res.sample(hist)
			}
			w.close()
		}
	}

	monitors["C09"] = func(r *rng, n int, res *MonitorResult) {
		res.Rule = "a swap in every rest state of every role, terminal states included, in three modes (live; stored but not yet recovered after a restart; after a full restart with RecoverSwaps) receives: every message type from a third party, every message type with an unknown id, every message type from the counterparty (acceptable or not in that state), and requests reusing its id on the same and on another channel; judged on the real service: unless the message is from the counterparty AND accepted by the state, the stored record bytes, the active entry and the sent messages are unchanged; id reuse is refused; the handler never panics; distinct = distinct (role, state, stimulus)"
		type probe struct{ name, step string }
		probes := []probe{
			{"third cancel", "cancel from=third"}, {"third coop", "coop from=third"}, {"third txmsg", "txmsg from=third"}, {"third agree", "agree from=third"},
		}
		// two requests with the SAME id in flight at once (the CLN plugin handles every incoming message in its own
		// goroutine): the second has passed the "id known?" test and waits in a Lightning call while the first is
		// admitted, cancelled by the peer and finished; then the second goes on.  The finished swap's record must stay.
		for _, kind := range []string{"inReceiver", "outReceiver"} {
			w := newWorld(defaultCfg())
			id := strings.Repeat("ab", 32)
			a, b := newCtx(w), newCtx(w)
			reached, gate := make(chan bool, 1), make(chan bool)
			var first int32
			hook := func() {
				if atomic.CompareAndSwapInt32(&first, 0, 1) {
					reached <- true
					<-gate
				}
			}
			w.setHook("canspend", hook)
			w.setHook("receivable", hook)
			done := make(chan string, 1)
			go func() { done <- b.Step("new " + kind + " btc scid=777x1x0 amt=2000000 id=" + id) }()
			select {
			case <-reached:
				r1 := a.Step("new " + kind + " btc id=" + id)
				r2 := a.Step("cancel")
				before := w.swapRecordJSON(id)
				close(gate)
				r3 := <-done
				after := w.swapRecordJSON(id)
				res.Evaluations++
				res.Distinct++
				res.Histogram["same id in flight twice ("+kind+")"]++
				if before != "" && before != after {
					res.addFinding("C09/record-changed/id-reuse-in-flight/"+kind, "a request that was in flight when a swap with the same id was created and finished took over the id: the finished swap's record was replaced",
						map[string]string{"schedule": "request 2 (id X, channel 777x1x0) passes the id test and waits in a Lightning call; request 1 (id X) -> " + r1 + "; cancel -> " + r2 + "; request 2 continues -> " + r3})
				}
			case <-time.After(3 * time.Second):
				res.Histogram["same id in flight twice: hook not reached ("+kind+")"]++
				close(gate)
			}
			w.close()
		}
		// a message from a third party must not change what happens NEXT either: the honest run with one foreign
		// message (same swap id, same type the swap is waiting for or any other) inserted at any point ends like the
		// honest run alone
		for _, role := range roles {
			for _, chain := range []string{"btc", "lbtc"} {
				base := baseScript(role, chain)
				_, c0, _ := runScenario(defaultCfg(), base)
				want := c0.state()
				c0.w.close()
				for i := 1; i <= len(base); i++ {
					for _, p := range probes {
						steps := cat(base[:i], []string{p.step}, base[i:])
						w, c, _ := runScenario(defaultCfg(), steps)
						res.Evaluations++
						res.Distinct++
						res.Histogram["honest run with a foreign message inserted"]++
						if got := c.state(); got != want {
							res.addFinding("C09/third-party-changes-outcome/"+p.name, fmt.Sprintf("the honest run ends in %s, with one message from a third party inserted it ends in %s", want, got), map[string]string{"role": role, "chain": chain, "scenario": scenarioKey(steps)})
						}
						w.close()
					}
				}
			}
		}
		for _, role := range roles {
			for _, chain := range []string{"btc", "lbtc"} {
				pre := restPrefixes(role, chain)
				var names []string
				for k := range pre {
					names = append(names, k)
				}
				sortStrings(names)
				for _, stName := range names {
					for mode := 0; mode < 3; mode++ { // 0: live, 1: stored but not recovered (fresh service object on the same db), 2: after a full restart with RecoverSwaps
						w, c, _ := runScenario(defaultCfg(), pre[stName])
						if mode == 1 {
							w.mgr.stopAll()
							w.boot(true, true) // Start() without RecoverSwaps()
						}
						if mode == 2 {
							w.restart()
						}
						before := w.swapRecordJSON(c.id)
						if before == "" {
							w.close()
							continue
						}
						check := func(what string, allowChange bool) {
							res.Evaluations++
							res.Distinct++
							after := w.swapRecordJSON(c.id)
							if len(c.panics) > 0 {
								res.addFinding("C09/panic/"+what, "message handler panicked", map[string]string{"role": role, "state": stName, "stimulus": what, "panic": c.panics[0][:min(200, len(c.panics[0]))]})
								c.panics = nil
							}
							if after != before && !allowChange {
								res.addFinding(fmt.Sprintf("C09/record-changed/%s", what), "the stored record of a swap changed although the message was not from its counterparty / not for it / not acceptable", map[string]string{"role": role, "chain": chain, "state": stName, "stimulus": what, "mode": fmt.Sprint(mode)})
							}
							before = after
						}
						// third party, with the swap's id
						for _, p := range probes {
							c.Step(p.step)
							check(p.name, false)
						}
						// unknown id
						other := newCtx(w)
						other.id = strings.Repeat("cd", 32)
						other.role, other.chain = c.role, c.chain
						for _, s := range []string{"cancel", "coop", "txmsg", "agree"} {
							other.Step(s)
							check("unknown-id "+s, false)
						}
						// id reuse by requests (same channel, other channel), from the peer and from a third party
						for _, s := range []string{"new outReceiver " + chain + " id=" + c.id, "new inReceiver " + chain + " scid=999x9x9 id=" + c.id, "new inReceiver " + chain + " scid=998x9x9 from=third id=" + c.id} {
							re := newCtx(w)
							re.Step(s)
							res.Histogram["id reuse"]++
							check("id-reuse "+strings.Fields(s)[1], false)
						}
						// counterparty messages: allowed to change the record only when the state's table accepts the event
						if mode == 0 {
							// malformed variants first: a message whose type the state does not accept must change nothing
							// even when its content is invalid (the table is consulted before the content)
							for _, s := range []string{"agree badpubkey", "coop badkey", "coop", "txmsg", "agree", "cancel"} {
								st0 := c.state()
								accepted := tableAccepts(role, st0, peerEventOf(c.role, s))
								c.Step(s)
								res.Histogram[fmt.Sprintf("peer msg accepted-by-table=%v", accepted)]++
								check("peer "+s+" in "+stName, accepted)
							}
						}
						w.close()
					}
				}
			}
		}
		_ = n
	}
}

// tableAccepts: does the running code's state table of the role have a transition for the event in the state
func tableAccepts(role, state, event string) bool {
	want := map[string]string{"outSender": "SwapOutSender", "outReceiver": "SwapOutReceiver", "inSender": "SwapInSender", "inReceiver": "SwapInReceiver"}[role]
	ev := swap.VerifEventNames()[event]
	for _, t := range swap.VerifTables() {
		if t.Role != want {
			continue
		}
		for _, st := range t.States {
			if st.State == state {
				_, ok := st.Events[ev]
				return ok
			}
		}
	}
	return false
}

// peerEventOf: the event the service raises for the peer message a scenario step delivers
func peerEventOf(role, step string) string {
	switch strings.Fields(step)[0] {
	case "cancel":
		return "Event_OnCancelReceived"
	case "coop":
		return "Event_OnCoopCloseReceived"
	case "txmsg":
		return "Event_OnTxOpenedMessage"
	case "agree":
		if role == "outSender" {
			return "Event_OnFeeInvoiceReceived"
		}
		return "Event_SwapInSender_OnAgreementReceived"
	}
	return ""
}

// storedChannelClash: two stored swaps in non-terminal states on one (normalised) channel; "" if none
func storedChannelClash(w *World) string {
	all, err := w.store.inner.ListAll()
	if err != nil {
		return ""
	}
	seen := map[string]bool{}
	for _, m := range all {
		if m == nil || m.Data == nil || finishedState(string(m.Current)) {
			continue
		}
		ch := strings.ReplaceAll(m.Data.GetScid(), ":", "x")
		if ch == "" {
			continue
		}
		if seen[ch] {
			return ch
		}
		seen[ch] = true
	}
	return ""
}
