package main

import (
	"context"
	"errors"
	"fmt"
	"io"
	"sync"
	"time"

	"github.com/btcsuite/btcd/chaincfg"
	"github.com/elementsproject/peerswap/lnd"
	"github.com/elementsproject/peerswap/onchain"
	"github.com/lightningnetwork/lnd/lnrpc"
	"github.com/lightningnetwork/lnd/lnrpc/chainrpc"
	"google.golang.org/grpc"
)

// C20: the real lnd.TxWatcher over scripted gRPC clients.

type fakeLnInfo struct {
	lnrpc.LightningClient
	mu     sync.Mutex
	height uint32
	err    bool
}

func (f *fakeLnInfo) GetInfo(context.Context, *lnrpc.GetInfoRequest, ...grpc.CallOption) (*lnrpc.GetInfoResponse, error) {
	f.mu.Lock()
	defer f.mu.Unlock()
	if f.err {
		return nil, errors.New("lnd down")
	}
	return &lnrpc.GetInfoResponse{BlockHeight: f.height}, nil
}

type confStream struct {
	grpc.ClientStream
	ch chan *chainrpc.ConfEvent
}

func (s *confStream) Recv() (*chainrpc.ConfEvent, error) {
	ev, ok := <-s.ch
	if !ok {
		return nil, io.EOF
	}
	return ev, nil
}

type epochStream struct {
	grpc.ClientStream
	ch chan *chainrpc.BlockEpoch
}

func (s *epochStream) Recv() (*chainrpc.BlockEpoch, error) {
	ev, ok := <-s.ch
	if !ok {
		return nil, io.EOF
	}
	return ev, nil
}

type fakeNotifier struct {
	chainrpc.ChainNotifierClient
	mu     sync.Mutex
	confs  []*confStream
	epochs []*epochStream
}

func (f *fakeNotifier) RegisterConfirmationsNtfn(context.Context, *chainrpc.ConfRequest, ...grpc.CallOption) (chainrpc.ChainNotifier_RegisterConfirmationsNtfnClient, error) {
	s := &confStream{ch: make(chan *chainrpc.ConfEvent, 4)}
	f.mu.Lock()
	f.confs = append(f.confs, s)
	f.mu.Unlock()
	return s, nil
}

func (f *fakeNotifier) RegisterBlockEpochNtfn(context.Context, *chainrpc.BlockEpoch, ...grpc.CallOption) (chainrpc.ChainNotifier_RegisterBlockEpochNtfnClient, error) {
	s := &epochStream{ch: make(chan *chainrpc.BlockEpoch, 16)}
	f.mu.Lock()
	f.epochs = append(f.epochs, s)
	f.mu.Unlock()
	return s, nil
}

type lndRig struct {
	ln  *fakeLnInfo
	cn  *fakeNotifier
	w   *lnd.TxWatcher
	mu  sync.Mutex
	log []string
}

func newLndRig() *lndRig {
	r := &lndRig{ln: &fakeLnInfo{}, cn: &fakeNotifier{}}
	r.w = lnd.VerifNewTxWatcher(context.Background(), r.ln, r.cn, &chaincfg.RegressionNetParams, onchain.BitcoinMinConfs, onchain.BitcoinCsv)
	r.w.AddConfirmationCallback(func(_ string, _ string, err error) error {
		r.mu.Lock()
		defer r.mu.Unlock()
		if err != nil {
			r.log = append(r.log, "failed")
		} else {
			r.log = append(r.log, "confirmed")
		}
		return nil
	})
	r.w.AddCsvCallback(func(string) error { r.mu.Lock(); r.log = append(r.log, "csvpassed"); r.mu.Unlock(); return nil })
	return r
}

func (r *lndRig) wait(n int) []string {
	for i := 0; i < 400; i++ {
		r.mu.Lock()
		l := append([]string{}, r.log...)
		r.mu.Unlock()
		if len(l) >= n {
			return l
		}
		time.Sleep(250 * time.Microsecond)
	}
	r.mu.Lock()
	defer r.mu.Unlock()
	return append([]string{}, r.log...)
}

const lndTxid = "aa00000000000000000000000000000000000000000000000000000000000001"

func init() {
	slices["lndwatch"] = func(r *rng, n int, emit func(op, res string)) {
		for i := 0; i < n; i++ {
			rig := newLndRig()
			confH := uint32(r.pickU64([]uint64{800000, 100, 4294967000}))
			if r.intn(3) == 0 {
				// CSV watcher: lnd reports 144 confirmations, then block epochs are counted
				rig.w.AddWaitForCsvTx("swap", lndTxid, 0, confH, 0, nil)
				rig.cn.mu.Lock()
				cs := rig.cn.confs[0]
				rig.cn.mu.Unlock()
				cs.ch <- &chainrpc.ConfEvent{Event: &chainrpc.ConfEvent_Conf{Conf: &chainrpc.ConfDetails{BlockHeight: confH}}}
				var es *epochStream
				for k := 0; k < 400 && es == nil; k++ {
					rig.cn.mu.Lock()
					if len(rig.cn.epochs) > 0 {
						es = rig.cn.epochs[0]
					}
					rig.cn.mu.Unlock()
					time.Sleep(250 * time.Microsecond)
				}
				ep := uint32(int64(confH) + r.pickI64([]int64{143, 1005, 1006, 1007, 1008, 2000, -1, -5, 0}))
				es.ch <- &chainrpc.BlockEpoch{Height: ep}
				// the goroutine has consumed the epoch when the buffered channel is empty; its verdict follows at once
				for k := 0; k < 2000 && len(es.ch) > 0; k++ {
					time.Sleep(50 * time.Microsecond)
				}
				time.Sleep(300 * time.Microsecond)
				l := rig.wait(0)
				if len(l) == 0 {
					time.Sleep(2 * time.Millisecond)
					l = rig.wait(0)
				}
				got := "0"
				if len(l) > 0 && l[0] == "csvpassed" {
					got = "1"
				}
				close(es.ch)
				emit(fmt.Sprintf("watch.lndcsv %d %d %d", onchain.BitcoinCsv, ep, confH), got)
				continue
			}
			rig.ln.height = uint32(int64(confH) + r.pickI64([]int64{0, 1, 2, 3, 10, 502, 503, 504, 600, -1, -2, -100}))
			rig.ln.err = r.intn(10) == 0
			// the height hint (the taker's starting height) is not the confirmation height: the transaction may have
			// confirmed long before the taker started to look (and the decision must not depend on the hint)
			hint := uint32(int64(confH) + r.pickI64([]int64{0, 0, 1, 3, 50, 400, 600, 900, -1, -10}))
			rig.w.AddWaitForConfirmationTx("swap", lndTxid, 0, hint, 504, nil)
			rig.cn.mu.Lock()
			cs := rig.cn.confs[0]
			rig.cn.mu.Unlock()
			cs.ch <- &chainrpc.ConfEvent{Event: &chainrpc.ConfEvent_Conf{Conf: &chainrpc.ConfDetails{BlockHeight: confH, RawTx: []byte{1, 2, 3}}}}
			// done when the bookkeeping entry is gone
			for k := 0; k < 400; k++ {
				if a, _ := rig.w.VerifWatchers("swap"); !a {
					break
				}
				time.Sleep(250 * time.Microsecond)
			}
			l := rig.wait(0)
			got := "nothing"
			if len(l) > 0 {
				got = l[0]
			}
			emit(fmt.Sprintf("watch.lndconf %d %s %d %d %d", onchain.BitcoinCsvSafetyLimit, b01(rig.ln.err), rig.ln.height, confH, hint), got)
		}
	}
}
