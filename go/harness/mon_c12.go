package main

import (
	"fmt"
	"math/big"
	"strings"
)

func init() {
	monitors["C12"] = func(r *rng, n int, res *MonitorResult) {
		res.Rule = "initiator scenarios on the real machines (swap-out: agreement with chosen premium and fee invoice, then honest announcement; swap-in: agreement with chosen premium) with limits/premiums at, around and far beyond the limit incl. int64 extremes; judged with exact big-integer arithmetic: fee paid <= 3×own estimate and channel could carry amount+fee; claim paid <= (amount+limit)·1000; on-chain lock <= amount+limit and invoice = amount·1000; distinct = distinct parameter tuples"
		var all []scn
		// deterministic witness of the known wrap finding
		all = append(all, amtInScn(1000000, 0, -1000001))
		// the exploitable instance (reported by a reviewing sub-agent): the negative premium makes the claim amount
		// 2^64-k sat, and k is chosen so that (2^64-k)*1000 wraps onto a perfectly payable invoice of 1 000 000 sat
		// for a 100 000 sat swap with a 1 % limit
		all = append(all, amtOutScn(100000, 10000, -2305843009212793952, 500, 500, 5000000000))
		// the claim invoice is off by less than a satoshi (both chains: the Liquid path has its own invoice check);
		// premium = limit, so every msat above is above what was agreed
		for _, chain := range []string{"btc", "lbtc"} {
			for _, dm := range []int{1, 999, -1, 1000} {
				sc := amtOutScn(1000000, 10000, 10000, 500, 500, 5000000000)
				sc.steps[0] = strings.Replace(sc.steps[0], " btc ", " "+chain+" ", 1)
				sc.steps[2] = fmt.Sprintf("txmsg dmsat=%d", dm)
				sc.tag += fmt.Sprintf(" %s dmsat=%d", chain, dm)
				all = append(all, sc)
			}
		}
		for i := 0; i < n; i++ {
			all = append(all, genAmounts(r))
		}
		seen := map[string]bool{}
		runMany(defaultCfg(), all, func(x scnResult) {
			res.Evaluations++
			if !seen[x.sc.tag] {
				seen[x.sc.tag] = true
				res.Distinct++
			}
			f := strings.Fields(x.sc.tag)
			amount := new(big.Int)
			amount.SetString(f[1], 10)
			limitPpm := new(big.Int)
			limitPpm.SetString(f[2], 10)
			premium := new(big.Int)
			premium.SetString(f[3], 10)
			limit := new(big.Int).Quo(new(big.Int).Mul(amount, limitPpm), big.NewInt(1000000))
			bound := new(big.Int).Add(amount, limit)
			wrapClass := ""
			if new(big.Int).Add(amount, premium).Sign() < 0 {
				wrapClass = "/premium-below-minus-amount"
			}
			if f[0] == "amt.in" {
				out := amtInOutcome(x.w)
				res.Histogram["in "+strings.Fields(out + " x")[0][:min(4, len(out))]]++
				if strings.HasPrefix(out, "lock=") {
					var lock, ask big.Int
					parts := strings.Fields(out)
					lock.SetString(strings.TrimPrefix(parts[0], "lock="), 10)
					ask.SetString(strings.TrimPrefix(parts[1], "ask="), 10)
					res.sample(x.sc.tag + " => " + out)
					if lock.Cmp(bound) > 0 {
						res.addFinding("C12/in-initiator/locks-more-than-agreed"+wrapClass, fmt.Sprintf("locked %s sat on-chain, agreed at most %s", lock.String(), bound.String()), x.sc.tag)
					}
					if ask.Cmp(new(big.Int).Mul(amount, big.NewInt(1000))) != 0 {
						res.addFinding("C12/in-initiator/asks-other-amount", "claim invoice is not for exactly the amount", x.sc.tag)
					}
				}
				return
			}
			out := amtOutOutcome(x.w)
			res.Histogram["out "+strings.Fields(out)[0]]++
			if !strings.HasPrefix(out, "pay") {
				return
			}
			res.sample(x.sc.tag + " => " + out)
			feeSat, _ := new(big.Int).SetString(f[4], 10)
			expected, _ := new(big.Int).SetString(f[5], 10)
			spendable, _ := new(big.Int).SetString(f[6], 10)
			if feeSat.Cmp(new(big.Int).Mul(expected, big.NewInt(3))) > 0 {
				res.addFinding("C12/out-initiator/fee-above-three-times-estimate", "paid a fee invoice above 3× its own estimate", x.sc.tag)
			}
			need := new(big.Int).Add(new(big.Int).Mul(amount, big.NewInt(1000)), new(big.Int).Mul(feeSat, big.NewInt(1000)))
			if spendable.Cmp(need) < 0 {
				res.addFinding("C12/out-initiator/fee-paid-without-capacity", "paid the fee although the channel cannot carry amount + fee", x.sc.tag)
			}
			if c := strings.TrimPrefix(strings.Fields(out)[1], "claim="); c != "none" {
				paid, _ := new(big.Int).SetString(c, 10)
				if paid.Cmp(new(big.Int).Mul(bound, big.NewInt(1000))) > 0 {
					res.addFinding("C12/out-initiator/claim-above-limit"+wrapClass, fmt.Sprintf("paid a claim invoice of %s msat, agreed at most %s sat", paid.String(), bound.String()), x.sc.tag)
				}
			}
		})
	}
}
