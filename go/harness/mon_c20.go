package main

import (
	"context"
	"fmt"
	"github.com/lightningnetwork/lnd/lnrpc/chainrpc"
	"time"

	"github.com/btcsuite/btcd/chaincfg/chainhash"
	goelectrum "github.com/checksum0/go-electrum/electrum"
	"github.com/elementsproject/peerswap/electrum"
	"github.com/elementsproject/peerswap/onchain"
	"github.com/elementsproject/peerswap/swap"
	"github.com/elementsproject/peerswap/txwatcher"
)

// C20 monitor: the real watchers against a simulated chain whose truth is known.

func init() {
	monitors["C20"] = func(r *rng, n int, res *MonitorResult) {
		res.Rule = "a simulated best chain (tip grows, the opening transaction is mined at a chosen block, optionally reorganised back to the mempool and re-mined later) answers the REAL BlockchainRpcTxWatcher consistently with its tip at the moment of each call, while the heights handed to the observation loop lag 0-3 blocks behind that tip (stale notifications, bursts of blocks); judged at each callback from the chain's truth: 'confirmed' only with depth >= required confirmations on the current best chain and while tip-at-hand < start+window; 'failed' only when the window is closed or the node errs; CSV callbacks (HandleCsvTx, AddWaitForCsvTx) only at depth >= csv and at most once per registration; the same for the REAL Electrum observers with the subscription height as tip; distinct = distinct (parameters, schedule)"
		seen := map[string]bool{}
		for i := 0; i < n; i++ {
			confs := uint32(r.pickU64([]uint64{1, 2, 3, 3, 6}))
			start := uint32(1000 + r.intn(3)*1000)
			window := uint32(r.pickU64([]uint64{504, 60, 12}))
			minedAt := start + uint32(r.intn(8)) // block that holds the tx (0 = not yet)
			reorgAt := uint32(0)
			if r.intn(5) == 0 {
				reorgAt = minedAt + uint32(1+r.intn(3)) // at this tip the block with the tx is replaced; tx re-mined 2 blocks later
			}
			rig := newWatchRig(confs)
			tip := start
			txBlock := func(t uint32) uint32 { // block holding the tx on the best chain with tip t (0: not confirmed)
				if reorgAt != 0 && t >= reorgAt {
					if t >= reorgAt+2 {
						return reorgAt + 2
					}
					return 0
				}
				if t >= minedAt {
					return minedAt
				}
				return 0
			}
			view := func(t uint32) rpcView {
				v := rpcView{rpcHeight: uint64(t), rng: "nf"}
				if b := txBlock(t); b != 0 {
					v.txout = &txwatcher.TxOutResp{BestBlockHash: "match", Confirmations: t - b + 1}
				} else if t+1 >= minedAt {
					v.txout = &txwatcher.TxOutResp{BestBlockHash: "match", Confirmations: 0} // in the mempool
				}
				return v
			}
			rig.rpc.set(view(tip))
			rig.vout = uint32(r.intn(3))
			rig.rpc.wantVout = &rig.vout
			rig.w.AddWaitForConfirmationTx("swap", "txid", rig.vout, start, window, nil)
			rig.w.VerifNotify("swap", tip)
			key := fmt.Sprintf("%d/%d/%d/%d/%d", confs, start, window, minedAt, reorgAt)
			var sched []string
			done := false
			for step := 0; step < 40 && !done; step++ {
				// a burst of 1-3 blocks arrives; the loop is handed an older height of the burst
				burst := uint32(1 + r.intn(3))
				handed := tip + 1 + uint32(r.intn(int(burst)))
				tip += burst
				rig.rpc.set(view(tip))
				sched = append(sched, fmt.Sprintf("tip=%d handed=%d", tip, handed))
				if !rig.w.VerifNotify("swap", handed) {
					break
				}
				rig.w.VerifNotify("swap", handed)
				res.Evaluations++
				rig.mu.Lock()
				cbs := append([]string{}, rig.cb...)
				rig.mu.Unlock()
				if len(cbs) > 0 {
					done = true
					b := txBlock(tip)
					depth := uint32(0)
					if b != 0 {
						depth = tip - b + 1
					}
					in := map[string]interface{}{"confs": confs, "start": start, "window": window, "tx_mined_at": minedAt, "reorg_at_tip": reorgAt, "schedule": sched, "callback": cbs[0], "true_depth": depth}
					if cbs[0][:2] == "ok" {
						res.Histogram["rpc: confirmed"]++
						if depth < confs {
							res.addFinding("C20/rpc/confirmed-without-depth", fmt.Sprintf("confirmed reported at true depth %d < %d required", depth, confs), in)
						}
						if handed >= start+window {
							res.addFinding("C20/rpc/confirmed-after-window", "confirmed reported although the window had closed at the handed height", in)
						}
					} else {
						res.Histogram["rpc: failed"]++
						if handed < start+window && (b == 0 || b <= start+window) {
							res.addFinding("C20/rpc/failed-inside-window", "failure reported while the window was open and the node answered without error: "+cbs[0], in)
						}
					}
					if len(cbs) > 1 {
						res.addFinding("C20/rpc/reported-twice", "more than one confirmation callback for one registration", in)
					}
				}
			}
			rig.stop()
			k := key + fmt.Sprint(sched)
			if !seen[k] {
				seen[k] = true
				res.Distinct++
			}
		}
		// a reorganisation leaves the node with a SHORTER best chain than the height the block poller had already
		// handed out (more work in fewer blocks, invalidateblock): the transaction sits `d` blocks deep on the new
		// chain, `d` below the required depth
		for _, confs := range []uint32{2, 3, 6} {
			for drop := uint32(1); drop <= 3; drop++ {
				for d := uint32(1); d < confs; d++ {
					rig := newWatchRig(confs)
					rig.rpc.set(rpcView{rpcHeight: 1004, rng: "nf"}) // chain A does not hold the transaction
					rig.w.AddWaitForConfirmationTx("swap", "txid", 0, 1000, 60, nil)
					rig.w.VerifNotify("swap", 1004)
					tipB := 1005 - drop
					rig.rpc.set(rpcView{rpcHeight: uint64(tipB), rng: "nf", txout: &txwatcher.TxOutResp{BestBlockHash: "match", Confirmations: d}})
					rig.w.VerifNotify("swap", 1005) // block A1005 had been seen before the switch to chain B
					rig.w.VerifNotify("swap", 1005)
					res.Evaluations++
					res.Distinct++
					res.Histogram["rpc: handed height above the node's tip"]++
					rig.mu.Lock()
					cbs := append([]string{}, rig.cb...)
					rig.mu.Unlock()
					if len(cbs) > 0 && cbs[0][:2] == "ok" {
						res.addFinding("C20/rpc/confirmed-without-depth", fmt.Sprintf("confirmed reported at true depth %d < %d required: the handed height 1005 is above the node's tip %d after a reorganisation", d, confs, tipB),
							map[string]interface{}{"confs": confs, "schedule": fmt.Sprintf("chain A tip 1004 without the tx; block A1005 handed; node reorganised to chain B tip %d with the tx %d deep", tipB, d)})
					}
					rig.stop()
				}
			}
		}
		// CSV: registration before / at / after maturity, blocks arriving, repeated HandleCsvTx
		for i := 0; i < n/4+20; i++ {
			csv := uint32(r.pickU64([]uint64{1008, 60, 10080, 3}))
			rig := newWatchRig(3)
			depth := uint32(int64(csv) + r.pickI64([]int64{-3, -2, -1, 0, 1, 5}))
			rig.rpc.set(rpcView{txout: &txwatcher.TxOutResp{Confirmations: depth}})
			rig.vout = uint32(r.intn(3))
			rig.rpc.wantVout = &rig.vout
			rig.w.AddWaitForCsvTx("swap", "txid", rig.vout, 100, csv, nil)
			if depth >= csv {
				// an output that is already mature at registration is reported from a goroutine of the watcher's own
				for k := 0; k < 400; k++ {
					rig.mu.Lock()
					got := len(rig.csv)
					rig.mu.Unlock()
					if got > 0 {
						break
					}
					time.Sleep(250 * time.Microsecond)
				}
			}
			var sched []uint32
			for k := 0; k < 6; k++ {
				rig.mu.Lock()
				cnt := len(rig.csv)
				rig.mu.Unlock()
				res.Evaluations++
				in := map[string]interface{}{"csv": csv, "depths": append(append([]uint32{}, sched...), depth)}
				if cnt > 0 && depth < csv && len(sched) == 0 {
					res.addFinding("C20/rpc/csv-reported-early", fmt.Sprintf("CSV maturity reported at depth %d < %d", depth, csv), in)
				}
				if cnt == 0 && depth >= csv {
					res.addFinding("C20/rpc/csv-not-reported", fmt.Sprintf("CSV maturity not reported at depth %d >= %d", depth, csv), in)
				}
				if cnt > 1 {
					res.addFinding("C20/rpc/csv-reported-twice", "CSV maturity reported more than once for one registration", in)
				}
				if cnt > 0 {
					res.Histogram["rpc: csv matured"]++
				}
				sched = append(sched, depth)
				depth++
				rig.rpc.set(rpcView{txout: &txwatcher.TxOutResp{Confirmations: depth}})
				prev := cnt
				rig.w.HandleCsvTx(uint64(1000 + k))
				rig.mu.Lock()
				now := len(rig.csv)
				rig.mu.Unlock()
				if now > prev && depth < csv {
					res.addFinding("C20/rpc/csv-reported-early", fmt.Sprintf("CSV maturity reported at depth %d < %d", depth, csv), in)
				}
			}
		}
		// Electrum observers: the subscription height is the tip
		ctx := context.Background()
		txid, _ := chainhash.NewHashFromStr(elTxid)
		spk, _ := electrum.NewScriptPubKey(append([]byte{0x00, 0x20}, make([]byte, 32)...))
		for i := 0; i < n/2+20; i++ {
			start := uint32(2000000 + r.intn(3))
			window := uint32(r.pickU64([]uint64{60, 12}))
			minedAt := int64(start) + int64(r.intn(6))
			fe := &fakeElectrum{}
			sub := electrum.NewLiquidBlockHeaderSubscriber()
			var cbs []string
			ob := electrum.NewObserveOpeningTX(*swap.NewSwapId(), txid, spk, fe, func(_ string, _ string, err error) error {
				if err != nil {
					cbs = append(cbs, "failed")
				} else {
					cbs = append(cbs, "confirmed")
				}
				return nil
			}, start, window)
			sub.Register(&ob)
			csv := uint32(r.pickU64([]uint64{3, 60}))
			var csvCbs int
			oc := electrum.NewobserveCSVTX(*swap.NewSwapId(), txid, spk, fe, func(string) error { csvCbs++; return nil }, csv)
			sub.Register(&oc)
			for tip := int64(start); tip < int64(start)+int64(window)+70; tip += int64(1 + r.intn(2)) {
				fe.hist = nil
				if tip >= minedAt {
					fe.hist = []*goelectrum.GetMempoolResult{{Hash: elTxid, Height: int32(minedAt)}}
				} else if tip+1 >= minedAt {
					fe.hist = []*goelectrum.GetMempoolResult{{Hash: elTxid, Height: 0}}
				}
				beforeOpen, beforeCsv := len(cbs), csvCbs
				sub.Update(ctx, electrum.BlockHeight(tip))
				res.Evaluations++
				depth := int64(0)
				if tip >= minedAt {
					depth = tip - minedAt + 1
				}
				in := map[string]interface{}{"start": start, "window": window, "tx_mined_at": minedAt, "tip": tip, "csv": csv}
				if len(cbs) > beforeOpen {
					switch cbs[len(cbs)-1] {
					case "confirmed":
						res.Histogram["electrum: confirmed"]++
						if depth < int64(onchain.LiquidConfs) || tip >= int64(start)+int64(window) {
							res.addFinding("C20/electrum/confirmed-wrongly", fmt.Sprintf("confirmed at depth %d, tip %d, window end %d", depth, tip, int64(start)+int64(window)), in)
						}
					case "failed":
						res.Histogram["electrum: failed"]++
						if tip < int64(start)+int64(window) && tip >= int64(start) {
							res.addFinding("C20/electrum/failed-inside-window", "failure reported inside the window", in)
						}
					}
					if len(cbs) > 1 {
						res.addFinding("C20/electrum/reported-twice", "more than one confirmation callback for one registration", in)
					}
				}
				if csvCbs > beforeCsv {
					res.Histogram["electrum: csv matured"]++
					if depth < int64(csv) {
						res.addFinding("C20/electrum/csv-reported-early", fmt.Sprintf("CSV maturity reported at depth %d < %d", depth, csv), in)
					}
					if csvCbs > 1 {
						res.addFinding("C20/electrum/csv-reported-twice", "CSV maturity reported more than once for one registration", in)
					}
				}
				if depth >= int64(csv) && csvCbs == 0 {
					res.addFinding("C20/electrum/csv-not-reported", fmt.Sprintf("CSV maturity not reported at depth %d >= %d", depth, csv), in)
				}
			}
		}
		// (3) the REAL LND watcher over scripted GetInfo / chain-notifier streams: lnd reports the confirmation with
		// its block height; the taker's height hint may lie far above it (confirmed before the taker started to look)
		for i := 0; i < n/4+20; i++ {
			rig := newLndRig()
			confH := uint32(r.pickU64([]uint64{800000, 100, 4294966000}))
			cur := uint32(int64(confH) + r.pickI64([]int64{0, 1, 2, 3, 10, 400, 502, 503, 504, 600, 903, 1500}))
			hint := uint32(int64(confH) + r.pickI64([]int64{0, 0, 1, 3, 50, 400, 600, 900}))
			rig.ln.height = cur
			rig.w.AddWaitForConfirmationTx("swap", lndTxid, 0, hint, 504, nil)
			rig.cn.mu.Lock()
			cs := rig.cn.confs[0]
			rig.cn.mu.Unlock()
			cs.ch <- &chainrpc.ConfEvent{Event: &chainrpc.ConfEvent_Conf{Conf: &chainrpc.ConfDetails{BlockHeight: confH, RawTx: []byte{1, 2, 3}}}}
			for k := 0; k < 400; k++ {
				if a, _ := rig.w.VerifWatchers("swap"); !a {
					break
				}
				time.Sleep(250 * time.Microsecond)
			}
			l := rig.wait(0)
			res.Evaluations++
			res.Distinct++
			depth := int64(cur) - int64(confH) + 1
			in := map[string]interface{}{"backend": "lnd", "confirmation_height": confH, "tip": cur, "height_hint": hint}
			if len(l) > 0 {
				res.Histogram["lnd: "+l[0]]++
			}
			switch {
			case len(l) > 1:
				res.addFinding("C20/lnd/reported-twice", "more than one confirmation callback for one registration", in)
			case len(l) == 1 && l[0] == "confirmed" && depth >= int64(onchain.BitcoinCsvSafetyLimit):
				res.addFinding("C20/lnd/confirmed-after-window", fmt.Sprintf("confirmed reported for an output already %d blocks deep (limit %d): the maker's CSV refund is closer than the payment needs", depth, onchain.BitcoinCsvSafetyLimit), in)
			case len(l) == 1 && l[0] == "failed" && depth < int64(onchain.BitcoinCsvSafetyLimit) && depth >= 1:
				res.addFinding("C20/lnd/failed-inside-window", "failure reported although the output is less than half the CSV deep", in)
			}
		}
	}
}
