package main

import (
	"fmt"
	"go/ast"
	"go/parser"
	"go/token"
	"os"
	"path/filepath"
	"reflect"
	"sort"
	"strings"

	"github.com/elementsproject/peerswap/swap"
)

// The persisted record schema, by reflection over swap.SwapStateMachine: for every struct reachable through
// exported, JSON-visible fields the json key, omitempty flag and kind of each field, plus the list of
// fields that never reach the record (unexported or tagged "-").  Regenerated into Gen/Schema.lean.

type schemaField struct {
	goName, key string
	omit        bool
	typ         reflect.Type
	index       int
}

var swapIdType = reflect.TypeOf(&swap.SwapId{})

// visibleFields lists the fields encoding/json writes for a struct type, in declaration order, and the dropped ones.
func visibleFields(t reflect.Type) (vis []schemaField, dropped []string) {
	for i := 0; i < t.NumField(); i++ {
		f := t.Field(i)
		tag := f.Tag.Get("json")
		if !f.IsExported() || tag == "-" {
			dropped = append(dropped, t.Name()+"."+f.Name)
			continue
		}
		if f.Anonymous {
			panic("embedded field not supported by the schema extractor: " + t.Name() + "." + f.Name)
		}
		parts := strings.Split(tag, ",")
		key := parts[0]
		if key == "" {
			key = f.Name
		}
		omit := false
		for _, o := range parts[1:] {
			switch o {
			case "omitempty":
				omit = true
			default:
				panic("json tag option not supported by the schema extractor: " + o)
			}
		}
		vis = append(vis, schemaField{f.Name, key, omit, f.Type, i})
	}
	return
}

func leanTy(t reflect.Type, dropped *[]string, indent string) string {
	switch {
	case t == swapIdType:
		return ".id"
	case t.Kind() == reflect.String:
		return ".str"
	case t.Kind() == reflect.Bool:
		return ".bool"
	case t.Kind() == reflect.Uint8 || t.Kind() == reflect.Uint16 || t.Kind() == reflect.Uint32 || t.Kind() == reflect.Uint64 || t.Kind() == reflect.Uint:
		return fmt.Sprintf("(.uint %d)", t.Bits())
	case t.Kind() == reflect.Int8 || t.Kind() == reflect.Int16 || t.Kind() == reflect.Int32 || t.Kind() == reflect.Int64 || t.Kind() == reflect.Int:
		return fmt.Sprintf("(.int %d)", t.Bits())
	case t.Kind() == reflect.Slice && t.Elem().Kind() == reflect.Uint8:
		return ".bytes"
	case t.Kind() == reflect.Interface:
		return ".iface"
	case t.Kind() == reflect.Ptr && t.Elem().Kind() == reflect.Struct:
		vis, dr := visibleFields(t.Elem())
		*dropped = append(*dropped, dr...)
		var b strings.Builder
		b.WriteString("(.ptr (\n")
		for _, f := range vis {
			fmt.Fprintf(&b, "%s  .cons %q %v %s (\n", indent, f.key, f.omit, leanTy(f.typ, dropped, indent+"  "))
		}
		b.WriteString(indent + "  .nil" + strings.Repeat(")", len(vis)) + "))")
		return b.String()
	}
	panic("type not supported by the schema extractor: " + t.String())
}

func genSchema() (string, error) {
	var dropped []string
	ty := leanTy(reflect.TypeOf(&swap.SwapStateMachine{}), &dropped, "")
	var b strings.Builder
	b.WriteString("import PsVerif.Model.Record\n")
	b.WriteString(genHeader)
	b.WriteString("namespace PsVerif.Gen\nopen PsVerif.Model.Record\n\n")
	b.WriteString("-- the type of a persisted swap record (*swap.SwapStateMachine as encoding/json sees it), by reflection\n")
	b.WriteString("def fsmTy : Ty :=\n  " + ty + "\n\n")
	b.WriteString("-- fields that never reach the record: unexported or tagged json:\"-\"\n")
	b.WriteString("def fsmDropped : List String := [")
	for i, d := range dropped {
		if i > 0 {
			b.WriteString(", ")
		}
		fmt.Fprintf(&b, "%q", d)
	}
	b.WriteString("]\n\n")
	// interface-typed fields of the record (they can be persisted only as nil) and every place in non-test code
	// that assigns one of them (assignment statement or composite-literal key), by go/ast over the whole module
	names := map[string]bool{}
	collectIfaceFields(reflect.TypeOf(swap.SwapStateMachine{}), names, map[reflect.Type]bool{})
	sites, err := ifaceAssignSites(names)
	if err != nil {
		return "", err
	}
	var ns []string
	for n := range names {
		ns = append(ns, n)
	}
	sort.Strings(ns)
	b.WriteString("-- Go names of the interface-typed fields of the record\ndef fsmIfaceFields : List String := [")
	for i, n := range ns {
		if i > 0 {
			b.WriteString(", ")
		}
		fmt.Fprintf(&b, "%q", n)
	}
	b.WriteString("]\n\n-- (field, file: function) of every assignment to one of them in non-test code\ndef fsmIfaceAssigned : List (String × String) := [")
	for i, st := range sites {
		if i > 0 {
			b.WriteString(", ")
		}
		fmt.Fprintf(&b, "(%q, %q)", st[0], st[1])
	}
	b.WriteString("]\n\nend PsVerif.Gen\n")
	return b.String(), nil
}

func collectIfaceFields(t reflect.Type, out map[string]bool, seen map[reflect.Type]bool) {
	for t.Kind() == reflect.Ptr {
		t = t.Elem()
	}
	if t.Kind() != reflect.Struct || seen[t] {
		return
	}
	seen[t] = true
	for i := 0; i < t.NumField(); i++ {
		f := t.Field(i)
		if !f.IsExported() || strings.HasPrefix(f.Tag.Get("json"), "-") {
			continue
		}
		ft := f.Type
		if ft.Kind() == reflect.Interface {
			out[f.Name] = true
			continue
		}
		for ft.Kind() == reflect.Ptr {
			ft = ft.Elem()
		}
		if ft.Kind() == reflect.Struct && strings.HasSuffix(ft.PkgPath(), "peerswap/swap") {
			collectIfaceFields(ft, out, seen)
		}
	}
}

func ifaceAssignSites(names map[string]bool) ([][2]string, error) {
	var sites [][2]string
	fset := token.NewFileSet()
	err := filepath.Walk(repoDir(), func(path string, info os.FileInfo, err error) error {
		if err != nil {
			return err
		}
		if info.IsDir() {
			if n := info.Name(); n == ".git" || n == "docs" || n == "node_modules" {
				return filepath.SkipDir
			}
			return nil
		}
		if !strings.HasSuffix(path, ".go") || strings.HasSuffix(path, "_test.go") || strings.HasPrefix(info.Name(), "verif_") {
			return nil
		}
		f, perr := parser.ParseFile(fset, path, nil, 0)
		if perr != nil {
			return nil
		}
		rel, _ := filepath.Rel(repoDir(), path)
		for _, d := range f.Decls {
			fd, ok := d.(*ast.FuncDecl)
			if !ok || fd.Body == nil {
				continue
			}
			ast.Inspect(fd.Body, func(n ast.Node) bool {
				switch x := n.(type) {
				case *ast.AssignStmt:
					for _, l := range x.Lhs {
						if sel, ok := l.(*ast.SelectorExpr); ok && names[sel.Sel.Name] {
							sites = append(sites, [2]string{sel.Sel.Name, rel + ": " + fd.Name.Name})
						}
					}
				case *ast.KeyValueExpr:
					if id, ok := x.Key.(*ast.Ident); ok && names[id.Name] {
						sites = append(sites, [2]string{id.Name, rel + ": " + fd.Name.Name})
					}
				}
				return true
			})
		}
		return nil
	})
	return sites, err
}

func init() { extraFacts["Schema.lean"] = genSchema }
