package main

import (
	"bufio"
	"bytes"
	"crypto/sha256"
	"encoding/hex"
	"fmt"
	"go/ast"
	"go/parser"
	"go/token"
	"os"
	"os/exec"
	"path/filepath"
	"sort"
	"strings"
)

// Lock-order facts (C18): which lock class of the peerswap packages is acquired while which other one is
// held, over the whole program of both daemons.
//
//   * lock regions per function come from the source (go/ast): a walk in source order keeps the set of
//     held classes (X.Lock()/RLock() adds, X.Unlock()/RUnlock() removes, a deferred unlock keeps the class
//     held to the end); `go` statements are left out of the enclosing region (their bodies are walked with
//     nothing held); other function literals are walked with the set held at their position;
//   * what a call can reach comes from the `callgraph` tool (x/tools, VTA: interface calls and function
//     values such as the watcher callbacks are resolved), matched to call sites by file:line;
//   * an edge A -> B is emitted when B is acquired, directly or through any chain of calls, while A is held.
//
// The result is regenerated into Gen/LockOrder.lean; Props/C18.lean states the expected order.

const modPath = "github.com/elementsproject/peerswap"

// facts collected from the source, keyed by call-site position "file:line"
type lockSrc struct {
	held      map[string][]string // classes held at a call site
	lockClass map[string]string   // class of an X.Lock()/RLock() call at that position
	goSite    map[string]bool     // position of the call of a `go` statement
	direct    map[string]bool     // every class seen
}

func ssaName(pkg string, fd *ast.FuncDecl) (string, string, string) {
	if fd.Recv == nil || len(fd.Recv.List) == 0 {
		return pkg + "." + fd.Name.Name, "", ""
	}
	t := fd.Recv.List[0].Type
	ptr := false
	if s, ok := t.(*ast.StarExpr); ok {
		ptr = true
		t = s.X
	}
	tn := ""
	switch x := t.(type) {
	case *ast.Ident:
		tn = x.Name
	case *ast.IndexExpr:
		if id, ok := x.X.(*ast.Ident); ok {
			tn = id.Name
		}
	}
	recv := ""
	if len(fd.Recv.List[0].Names) == 1 {
		recv = fd.Recv.List[0].Names[0].Name
	}
	if ptr {
		return "(*" + pkg + "." + tn + ")." + fd.Name.Name, recv, tn
	}
	return "(" + pkg + "." + tn + ")." + fd.Name.Name, recv, tn
}

// lockClass names the lock an expression X in X.Lock() denotes
// mutexFields maps, per package, the name of a sync.Mutex / sync.RWMutex struct field to the struct that declares
// it (only when that name is unique in the package): `v.mutex.Lock()` on a local v is then resolved by the field
var mutexFields = map[string]map[string]string{}

func collectMutexFields(pkg string, f *ast.File) {
	if mutexFields[pkg] == nil {
		mutexFields[pkg] = map[string]string{}
	}
	ast.Inspect(f, func(n ast.Node) bool {
		ts, ok := n.(*ast.TypeSpec)
		if !ok {
			return true
		}
		st, ok := ts.Type.(*ast.StructType)
		if !ok {
			return true
		}
		for _, fld := range st.Fields.List {
			sel, ok := fld.Type.(*ast.SelectorExpr)
			if !ok {
				continue
			}
			if id, ok := sel.X.(*ast.Ident); !ok || id.Name != "sync" || (sel.Sel.Name != "Mutex" && sel.Sel.Name != "RWMutex") {
				continue
			}
			for _, nm := range fld.Names {
				if old, dup := mutexFields[pkg][nm.Name]; dup && old != ts.Name.Name {
					mutexFields[pkg][nm.Name] = "?ambiguous"
				} else {
					mutexFields[pkg][nm.Name] = ts.Name.Name
				}
			}
		}
		return true
	})
}

func lockClass(pkg, recv, recvType string, x ast.Expr, pkgVars map[string]bool) string {
	short := strings.TrimPrefix(pkg, modPath+"/")
	switch e := x.(type) {
	case *ast.Ident:
		if e.Name == recv && recv != "" {
			return short + "." + recvType
		}
		if pkgVars[e.Name] {
			return short + "." + e.Name
		}
		return short + ".?" + e.Name
	case *ast.SelectorExpr:
		if id, ok := e.X.(*ast.Ident); ok && id.Name == recv && recv != "" {
			return short + "." + recvType + "." + e.Sel.Name
		}
		if t, ok := mutexFields[pkg][e.Sel.Name]; ok && t != "?ambiguous" {
			return short + "." + t + "." + e.Sel.Name
		}
		return short + ".?" + exprString(e)
	}
	return short + ".?"
}

func exprString(e ast.Expr) string {
	switch x := e.(type) {
	case *ast.Ident:
		return x.Name
	case *ast.SelectorExpr:
		return exprString(x.X) + "." + x.Sel.Name
	}
	return "expr"
}

func lockCall(c *ast.CallExpr) (string, ast.Expr) {
	if len(c.Args) != 0 {
		return "", nil
	}
	sel, ok := c.Fun.(*ast.SelectorExpr)
	if !ok {
		return "", nil
	}
	switch sel.Sel.Name {
	case "Lock", "RLock":
		return "lock", sel.X
	case "Unlock", "RUnlock":
		return "unlock", sel.X
	}
	return "", nil
}

type lockWalker struct {
	fset               *token.FileSet
	pkg, recv, recvTyp string
	pkgVars            map[string]bool
	src                *lockSrc
}

func (w *lockWalker) pos(n ast.Node) string {
	p := w.fset.Position(n.Pos())
	return fmt.Sprintf("%s:%d", p.Filename, p.Line)
}

// walk visits n in source order with the held set (a slice used as an ordered set) and returns the set after it
func (w *lockWalker) walk(n ast.Node, held []string) []string {
	if n == nil {
		return held
	}
	switch x := n.(type) {
	case *ast.IfStmt:
		// a branch that ends in return/panic/continue/break does not change what is held after the statement
		held = w.walk(x.Init, held)
		held = w.walk(x.Cond, held)
		after := w.walk(x.Body, append([]string{}, held...))
		if blockTerminates(x.Body) {
			after = held
		}
		if x.Else != nil {
			e := w.walk(x.Else, append([]string{}, held...))
			if eb, ok := x.Else.(*ast.BlockStmt); ok && blockTerminates(eb) {
				e = nil
				if blockTerminates(x.Body) {
					return held
				}
				return after
			}
			if blockTerminates(x.Body) {
				return e
			}
		}
		return after
	case *ast.GoStmt:
		w.src.goSite[w.pos(x.Call)] = true
		// the spawned body runs on its own: nothing of the spawner is held in it
		if fl, ok := x.Call.Fun.(*ast.FuncLit); ok {
			w.walk(fl.Body, nil)
		}
		for _, a := range x.Call.Args {
			held = w.walk(a, held)
		}
		return held
	case *ast.DeferStmt:
		if kind, _ := lockCall(x.Call); kind == "unlock" {
			return held // stays held to the end of the function
		}
		if fl, ok := x.Call.Fun.(*ast.FuncLit); ok {
			w.walk(fl.Body, append([]string{}, held...))
			return held
		}
		return w.walk(x.Call, held)
	case *ast.FuncLit:
		w.walk(x.Body, append([]string{}, held...))
		return held
	case *ast.CallExpr:
		if kind, lx := lockCall(x); kind != "" {
			cls := lockClass(w.pkg, w.recv, w.recvTyp, lx, w.pkgVars)
			if kind == "lock" {
				w.src.direct[cls] = true
				w.src.lockClass[w.pos(x)] = cls
				w.src.held[w.pos(x)] = append([]string{}, held...)
				return append(append([]string{}, held...), cls)
			}
			var out []string
			removed := false
			for i := len(held) - 1; i >= 0; i-- {
				if held[i] == cls && !removed {
					removed = true
					continue
				}
				out = append([]string{held[i]}, out...)
			}
			return out
		}
		held = w.walk(x.Fun, held)
		for _, a := range x.Args {
			held = w.walk(a, held)
		}
		if old, ok := w.src.held[w.pos(x)]; !ok || len(held) > len(old) {
			w.src.held[w.pos(x)] = append([]string{}, held...)
		}
		return held
	}
	// generic traversal in source order
	var children []ast.Node
	ast.Inspect(n, func(c ast.Node) bool {
		if c == nil || c == n {
			return c == n
		}
		children = append(children, c)
		return false
	})
	for _, c := range children {
		held = w.walk(c, held)
	}
	return held
}

// blockTerminates reports whether control cannot fall out of the end of the block
func blockTerminates(b *ast.BlockStmt) bool {
	if b == nil || len(b.List) == 0 {
		return false
	}
	switch x := b.List[len(b.List)-1].(type) {
	case *ast.ReturnStmt:
		return true
	case *ast.BranchStmt:
		return x.Tok == token.CONTINUE || x.Tok == token.BREAK || x.Tok == token.GOTO
	case *ast.ExprStmt:
		if c, ok := x.X.(*ast.CallExpr); ok {
			if id, ok := c.Fun.(*ast.Ident); ok && id.Name == "panic" {
				return true
			}
		}
	}
	return false
}

func sourceHash(root string) (string, []string) {
	h := sha256.New()
	var files []string
	filepath.Walk(root, func(p string, info os.FileInfo, err error) error {
		if err != nil {
			return nil
		}
		if info.IsDir() {
			n := info.Name()
			if strings.HasPrefix(n, ".") || n == "test" || n == "testframework" || n == "mocks" || n == "docs" {
				return filepath.SkipDir
			}
			return nil
		}
		if strings.HasSuffix(p, ".go") && !strings.HasSuffix(p, "_test.go") && !strings.HasPrefix(info.Name(), "verif_") {
			b, _ := os.ReadFile(p)
			h.Write([]byte(p))
			h.Write(b)
			files = append(files, p)
		}
		return nil
	})
	for _, f := range []string{"go.mod", "go.sum"} {
		b, _ := os.ReadFile(filepath.Join(root, f))
		h.Write(b)
	}
	sort.Strings(files)
	return hex.EncodeToString(h.Sum(nil))[:24], files
}

type cgEdge struct{ caller, callee, site string }

// callEdges runs the callgraph tool on both daemons (cached by the hash of the sources)
func callEdges(root, hash string) ([]cgEdge, error) {
	cacheDir := os.Getenv("VERIF_CACHE")
	if cacheDir == "" {
		cacheDir = "/verif/.build"
	}
	os.MkdirAll(cacheDir, 0o755)
	cache := filepath.Join(cacheDir, "callgraph-"+hash+".txt")
	data, err := os.ReadFile(cache)
	if err != nil {
		var out bytes.Buffer
		for _, target := range []string{"./cmd/peerswaplnd/peerswapd", "./cmd/peerswap-plugin"} {
			cmd := exec.Command("callgraph", "-algo=vta", "-format={{.Caller}}\t{{.Callee}}\t{{.Filename}}:{{.Line}}", target)
			cmd.Dir = root
			cmd.Env = append(os.Environ(), "GOFLAGS=-mod=mod", "GOPROXY=off", "GOSUMDB=off", "GOTOOLCHAIN=local")
			var eb bytes.Buffer
			cmd.Stderr = &eb
			o, err := cmd.Output()
			if err != nil {
				return nil, fmt.Errorf("callgraph %s: %v: %s", target, err, eb.String())
			}
			for _, l := range bytes.Split(o, []byte("\n")) {
				if bytes.Contains(l, []byte(modPath)) {
					out.Write(l)
					out.WriteByte('\n')
				}
			}
		}
		data = out.Bytes()
		os.WriteFile(cache, data, 0o644)
	}
	var res []cgEdge
	seen := map[string]bool{}
	sc := bufio.NewScanner(bytes.NewReader(data))
	sc.Buffer(make([]byte, 1<<20), 1<<24)
	for sc.Scan() {
		if seen[sc.Text()] {
			continue
		}
		seen[sc.Text()] = true
		f := strings.Split(sc.Text(), "\t")
		if len(f) == 3 {
			res = append(res, cgEdge{f[0], f[1], f[2]})
		}
	}
	return res, nil
}

func isSyncLock(callee string) bool {
	return callee == "(*sync.Mutex).Lock" || callee == "(*sync.RWMutex).Lock" || callee == "(*sync.RWMutex).RLock"
}

func genLockOrder() (string, error) {
	root := repoDir()
	hash, files := sourceHash(root)
	fset := token.NewFileSet()
	src := &lockSrc{held: map[string][]string{}, lockClass: map[string]string{}, goSite: map[string]bool{}, direct: map[string]bool{}}
	var unresolved []string
	for _, p := range files {
		f, err := parser.ParseFile(token.NewFileSet(), p, nil, 0)
		if err != nil {
			return "", err
		}
		rel, _ := filepath.Rel(root, filepath.Dir(p))
		pkg := modPath
		if rel != "." {
			pkg += "/" + filepath.ToSlash(rel)
		}
		collectMutexFields(pkg, f)
	}
	for _, p := range files {
		f, err := parser.ParseFile(fset, p, nil, 0)
		if err != nil {
			return "", err
		}
		rel, _ := filepath.Rel(root, filepath.Dir(p))
		pkg := modPath
		if rel != "." {
			pkg += "/" + filepath.ToSlash(rel)
		}
		pkgVars := map[string]bool{}
		for _, d := range f.Decls {
			if gd, ok := d.(*ast.GenDecl); ok && gd.Tok == token.VAR {
				for _, sp := range gd.Specs {
					for _, n := range sp.(*ast.ValueSpec).Names {
						pkgVars[n.Name] = true
					}
				}
			}
		}
		for _, d := range f.Decls {
			fd, ok := d.(*ast.FuncDecl)
			if !ok || fd.Body == nil {
				continue
			}
			name, recv, rt := ssaName(pkg, fd)
			w := &lockWalker{fset: fset, pkg: pkg, recv: recv, recvTyp: rt, pkgVars: pkgVars, src: src}
			known := map[string]bool{}
			for c := range src.direct {
				known[c] = true
			}
			w.walk(fd.Body, nil)
			for c := range src.direct {
				if !known[c] && strings.Contains(c, ".?") {
					unresolved = append(unresolved, shortFn(name)+": "+c)
				}
			}
		}
	}
	cg, err := callEdges(root, hash)
	if err != nil {
		return "", err
	}
	// SSA-level graph: closures are functions of their own (name$N); a `go` statement's call is not followed
	callees := map[string]map[string]bool{}
	calleesAt := map[string]map[string]bool{}
	direct := map[string]map[string]bool{}
	for _, e := range cg {
		if isSyncLock(e.callee) {
			if cls, ok := src.lockClass[e.site]; ok {
				if direct[e.caller] == nil {
					direct[e.caller] = map[string]bool{}
				}
				direct[e.caller][cls] = true
			}
			continue
		}
		if src.goSite[e.site] {
			continue
		}
		if callees[e.caller] == nil {
			callees[e.caller] = map[string]bool{}
		}
		callees[e.caller][e.callee] = true
		if calleesAt[e.site] == nil {
			calleesAt[e.site] = map[string]bool{}
		}
		calleesAt[e.site][e.callee] = true
	}
	// Acq(f): classes acquired by f or anything it can reach, with the next function on one such chain
	acq := map[string]map[string]string{}
	for fn, cs := range direct {
		acq[fn] = map[string]string{}
		for c := range cs {
			acq[fn][c] = ""
		}
	}
	for changed := true; changed; {
		changed = false
		for caller, cs := range callees {
			for c := range cs {
				for cls := range acq[c] {
					if acq[caller] == nil {
						acq[caller] = map[string]string{}
					}
					if _, ok := acq[caller][cls]; !ok {
						acq[caller][cls] = c
						changed = true
					}
				}
			}
		}
	}
	chain := func(start, cls string) string {
		var parts []string
		cur := start
		for i := 0; i < 12; i++ {
			parts = append(parts, shortFn(cur))
			nxt, ok := acq[cur][cls]
			if !ok || nxt == "" {
				break
			}
			cur = nxt
		}
		return strings.Join(parts, " > ")
	}
	type edge struct{ a, b, wit string }
	seen := map[string]edge{}
	add := func(a, b, wit string) {
		k := a + "|" + b
		if old, ok := seen[k]; !ok || len(wit) < len(old.wit) || (len(wit) == len(old.wit) && wit < old.wit) {
			seen[k] = edge{a, b, wit}
		}
	}
	for pos, held := range src.held {
		if len(held) == 0 {
			continue
		}
		at := strings.TrimPrefix(pos, root+"/")
		if cls, ok := src.lockClass[pos]; ok {
			for _, h := range held {
				add(h, cls, "locked directly @"+at)
			}
			continue
		}
		for callee := range calleesAt[pos] {
			for cls := range acq[callee] {
				for _, h := range held {
					add(h, cls, "@"+at+" > "+chain(callee, cls))
				}
			}
		}
	}
	var es []edge
	for _, e := range seen {
		es = append(es, e)
	}
	sort.Slice(es, func(i, j int) bool { return es[i].a+es[i].b < es[j].a+es[j].b })
	classes := src.direct
	var cl []string
	for c := range classes {
		cl = append(cl, c)
	}
	sort.Strings(cl)
	sort.Strings(unresolved)
	var b strings.Builder
	b.WriteString("-- GENERATED by `psharness facts` from the SOURCE of /repo (go/ast lock regions + x/tools callgraph, VTA). Do not edit.\nnamespace PsVerif.Gen\n\n")
	b.WriteString("/-- the lock classes of the peerswap packages (package.Type[.field] or package.variable) -/\ndef lockClasses : List String := [")
	for i, c := range cl {
		if i > 0 {
			b.WriteString(", ")
		}
		fmt.Fprintf(&b, "%q", c)
	}
	b.WriteString("]\n\n/-- lock expressions the extractor could not name -/\ndef lockUnresolved : List String := [")
	for i, c := range unresolved {
		if i > 0 {
			b.WriteString(", ")
		}
		fmt.Fprintf(&b, "%q", c)
	}
	b.WriteString("]\n\n/-- (held, acquired, one call chain that shows it) -/\ndef lockEdges : List (String × String × String) := [\n")
	for i, e := range es {
		sep := ","
		if i == len(es)-1 {
			sep = ""
		}
		fmt.Fprintf(&b, "  (%q, %q, %q)%s\n", e.a, e.b, e.wit, sep)
	}
	b.WriteString("]\n\nend PsVerif.Gen\n")
	return b.String(), nil
}

func shortFn(s string) string {
	return strings.ReplaceAll(s, modPath+"/", "")
}

func init() { extraFacts["LockOrder.lean"] = genLockOrder }
