package main

import "fmt"

func judgeC13(x scnResult, res *MonitorResult) {
	if scnChain(x.sc.steps) != "lbtc" {
		return
	}
	anchored := false
	anchor := ""
	for _, o := range x.w.obs {
		switch o.Kind {
		case "persist":
			if o.Swap != "s1" {
				continue
			}
			if o.A["anchor"] == "1" {
				if anchored && o.A["start"] != anchor {
					res.addFinding("C13/"+x.sc.role+"/anchor-changed", "the stored Liquid anchor changed from "+anchor+" to "+o.A["start"], map[string]interface{}{"scenario": scenarioKey(x.sc.steps)})
				}
				anchored, anchor = true, o.A["start"]
			} else if anchored {
				res.addFinding("C13/"+x.sc.role+"/anchor-cleared", "a later record has no anchor any more", map[string]interface{}{"scenario": scenarioKey(x.sc.steps)})
			}
		case "send":
			if o.Swap == "s1" && (o.A["type"] == "swap_out_request" || o.A["type"] == "swap_in_agreement") {
				res.Histogram["pubkey sent"]++
				if !anchored {
					res.addFinding("C13/"+x.sc.role+"/pubkey-before-anchor/"+o.A["type"], o.A["type"]+" (with the swap pubkey) was sent before any record with the anchor was stored", map[string]interface{}{"scenario": scenarioKey(x.sc.steps)})
				}
			}
		case "pay":
			if o.Swap == "s1" && o.A["kind"] == "claim" && !anchored {
				res.addFinding("C13/"+x.sc.role+"/pay-without-anchor", "a claim payment call was made for a Liquid swap without a stored anchor", map[string]interface{}{"scenario": scenarioKey(x.sc.steps)})
			}
		}
	}
}

func init() {
	monitors["C13"] = func(r *rng, n int, res *MonitorResult) {
		res.Rule = "Liquid taker scenarios (both roles): every single-crash placement (effect index 1-9 of every step) of the honest runs, rest-state × stimulus sweep, random disturbed runs; the ordered observation log (every store write with its anchor fields, every send, every payment call) is judged: pubkey-carrying message only after a stored anchor; anchor never changes or disappears; no claim payment without anchor; non-trivial = the pubkey message was sent"
		var all []scn
		for _, sc := range append(crashPlacements([]string{"outSender", "inReceiver"}), sweepScenarios([]string{"outSender", "inReceiver"})...) {
			if scnChain(sc.steps) == "lbtc" {
				all = append(all, sc)
			}
		}
		// the back-end reports a LOWER tip than before (another Electrum server, elementsd still catching up after a
		// restart) at every point of the honest runs, with and without a restart behind it
		for _, role := range []string{"outSender", "inReceiver"} {
			base := baseScript(role, "lbtc")
			for i := 1; i <= len(base); i++ {
				for _, k := range []int{1, 3, 70} {
					for _, withRestart := range []bool{false, true} {
						steps := append([]string{}, base[:i]...)
						steps = append(steps, fmt.Sprintf("rewind lbtc %d", k))
						if withRestart {
							steps = append(steps, "restart")
						}
						steps = append(steps, base[i:]...)
						steps = append(steps, "restart", "confirm")
						all = append(all, scn{role: role, steps: steps})
					}
				}
			}
		}
		// every single-crash placement again, with the chain moving on before the node comes back (a restart that
		// re-reads the height must not re-anchor)
		for _, role := range []string{"outSender", "inReceiver"} {
			base := baseScript(role, "lbtc")
			for i := range base {
				for k := 1; k <= 9; k++ {
					for _, blocks := range []string{"blocks lbtc 1", "blocks lbtc 60"} {
						steps := cat(base[:i], []string{fmt.Sprintf("crash %d", k), base[i], blocks, "restart"}, base[i+1:], []string{"confirm"})
						all = append(all, scn{role: role, steps: steps})
					}
				}
			}
		}
		for len(all) < n+1000 {
			role := []string{"outSender", "inReceiver"}[r.intn(2)]
			steps := genScenario(r, role, r.intn(2) == 0)
			if scnChain(steps) == "lbtc" {
				all = append(all, scn{role: role, steps: steps})
			}
		}
		seen := map[string]bool{}
		runMany(defaultCfg(), all, func(x scnResult) {
			res.Evaluations++
			before := res.Histogram["pubkey sent"]
			judgeC13(x, res)
			k := scenarioKey(x.sc.steps)
			if res.Histogram["pubkey sent"] > before && !seen[k] {
				seen[k] = true
				res.Distinct++
				res.sample(k)
			}
		})
	}
}
