package main

import (
	"context"
	"errors"
	"fmt"
	"strings"
	"sync"

	"github.com/elementsproject/peerswap/txwatcher"
)

// C20: the real BlockchainRpcTxWatcher over a scripted RPC.

type rpcView struct {
	heightErr bool
	rpcHeight uint64
	hashErr   bool
	txoutErr  bool
	txout     *txwatcher.TxOutResp // BestBlockHash "match" / "other"
	hashErr2  bool
	rawErr    bool
	rng       string // nf | err | f:<h>
}

type fakeRpc struct {
	mu    sync.Mutex
	v     rpcView
	calls int
	// txOutHook, when set, answers GetTxOut instead of the view (n = running number of the call); it may block
	txOutHook func(n int) (*txwatcher.TxOutResp, error)
	txOutN    int
	// byTx, when set, answers GetTxOut per transaction id (several watches on one watcher)
	byTx func(txid string) (*txwatcher.TxOutResp, error)
	// wantVout, when set: only this output of the watched transaction is unspent; a query for another index of it
	// gets "no such unspent output" (the wallet has spent its change)
	wantVout *uint32
}

func (f *fakeRpc) set(v rpcView) {
	f.mu.Lock()
	f.v = v
	f.calls = 0
	f.mu.Unlock()
}

func (f *fakeRpc) GetBlockHeight() (uint64, error) {
	f.mu.Lock()
	defer f.mu.Unlock()
	f.calls++
	if f.v.heightErr {
		return 0, errors.New("rpc down")
	}
	return f.v.rpcHeight, nil
}

func hashOf(h uint32) string { return fmt.Sprintf("hash%d", h) }

func (f *fakeRpc) GetBlockHash(h uint32) (string, error) {
	f.mu.Lock()
	defer f.mu.Unlock()
	f.calls++
	tip := uint32(f.v.rpcHeight)
	if h == tip && f.v.hashErr {
		return "", errors.New("rpc down")
	}
	if h != tip && f.v.txout != nil && f.v.hashErr2 {
		return "", errors.New("rpc down")
	}
	if f.v.txout == nil && f.v.rng == "err" && h != tip {
		return "", errors.New("rpc down in scan")
	}
	return hashOf(h), nil
}

func (f *fakeRpc) GetTxOut(txid string, vout uint32) (*txwatcher.TxOutResp, error) {
	f.mu.Lock()
	if f.wantVout != nil && vout != *f.wantVout {
		f.mu.Unlock()
		return nil, nil
	}
	if f.byTx != nil {
		h := f.byTx
		f.mu.Unlock()
		return h(txid)
	}
	if f.txOutHook != nil {
		f.txOutN++
		n, h := f.txOutN, f.txOutHook
		f.mu.Unlock()
		return h(n)
	}
	defer f.mu.Unlock()
	f.calls++
	if f.v.txoutErr {
		return nil, errors.New("rpc down")
	}
	if f.v.txout == nil {
		return nil, nil
	}
	r := *f.v.txout
	if r.BestBlockHash == "match" {
		r.BestBlockHash = hashOf(uint32(f.v.rpcHeight))
	}
	return &r, nil
}

func (f *fakeRpc) GetRawtransactionWithBlockHash(_ string, blockHash string) (string, error) {
	f.mu.Lock()
	defer f.mu.Unlock()
	f.calls++
	if f.v.txout != nil {
		if f.v.rawErr {
			return "", errors.New("not in block")
		}
		return "rawtx", nil
	}
	if strings.HasPrefix(f.v.rng, "f:") && blockHash == "hash"+f.v.rng[2:] {
		return "rawtx", nil
	}
	return "", errors.New("not in block")
}

type watchRig struct {
	vout uint32 // index of the watched output (every other output of the transaction counts as spent)
	rpc  *fakeRpc
	w    *txwatcher.BlockchainRpcTxWatcher
	mu   sync.Mutex
	cb   []string // confirmation callbacks: "ok" | "err:<text>"
	csv  []string
}

func newWatchRig(confs uint32) *watchRig {
	r := &watchRig{rpc: &fakeRpc{}}
	r.w = txwatcher.NewBlockchainRpcTxWatcher(context.Background(), r.rpc, confs)
	r.w.AddConfirmationCallback(func(swapId, txHex string, err error) error {
		r.mu.Lock()
		defer r.mu.Unlock()
		if err != nil {
			r.cb = append(r.cb, "err:"+err.Error())
		} else {
			r.cb = append(r.cb, "ok:"+txHex)
		}
		return nil
	})
	r.w.AddCsvCallback(func(swapId string) error {
		r.mu.Lock()
		defer r.mu.Unlock()
		r.csv = append(r.csv, swapId)
		return nil
	})
	return r
}

// observeOnce runs one loop iteration of the real watcher: loop registered with lastHeight `last`, then handed `height`
// under the RPC view v.  Returns dup | wait | failed | confirmed.
func (r *watchRig) observeOnce(start, limit, last, height uint32, v rpcView) string {
	// registration: the kick-off iteration reads the tip; make it a harmless "unconfirmed" at height `last`
	r.rpc.set(rpcView{rpcHeight: uint64(last), txout: &txwatcher.TxOutResp{BestBlockHash: "match", Confirmations: 0}})
	r.w.AddWaitForConfirmationTx("swap", "txid", r.vout, start, limit, nil)
	r.w.VerifNotify("swap", last) // barrier: the kick-off iteration is over (same height: ignored)
	r.mu.Lock()
	pre := len(r.cb)
	r.mu.Unlock()
	if pre != 0 {
		return "setup-ended"
	}
	r.rpc.set(v)
	took := r.w.VerifNotify("swap", height)
	if took {
		r.w.VerifNotify("swap", height) // barrier
	}
	r.rpc.mu.Lock()
	calls := r.rpc.calls
	r.rpc.mu.Unlock()
	r.mu.Lock()
	defer r.mu.Unlock()
	out := "wait"
	if len(r.cb) > 0 {
		if strings.HasPrefix(r.cb[0], "ok") {
			out = "confirmed"
		} else {
			out = "failed"
		}
	} else if calls == 0 {
		out = "dup"
	}
	return out
}

func (r *watchRig) stop() {
	// end a loop that is still waiting: hand it a height beyond every window
	if a, _ := r.w.VerifWatching("swap"); a {
		r.rpc.set(rpcView{rpcHeight: 4000000000})
		r.w.VerifNotify("swap", 4294967295)
		r.w.VerifNotify("swap", 4294967295)
	}
}

func viewLine(v rpcView) string {
	txo := "none"
	if v.txout != nil {
		txo = fmt.Sprintf("%s:%d", b01(v.txout.BestBlockHash == "match"), v.txout.Confirmations)
	}
	return fmt.Sprintf("%s %d %s %s %s %s %s %s", b01(v.heightErr), uint32(v.rpcHeight), b01(v.hashErr), b01(v.txoutErr), txo, b01(v.hashErr2), b01(v.rawErr), v.rng)
}

func genWatchCase(r *rng, hist map[string]int) (confs, start, limit, last, height uint32, v rpcView) {
	confs = uint32(r.pickU64([]uint64{1, 2, 3, 3, 3, 6}))
	start = uint32(r.pickU64([]uint64{100, 1000, 800000, 2000000}))
	limit = uint32(r.pickU64([]uint64{60, 504, 504, 30, 5}))
	// the height handed over and the tip the RPC reports: equal (in sync), handed height behind or ahead of the tip
	rel := func(base uint32) uint32 {
		d := uint32(r.pickU64([]uint64{0, 0, 0, 1, 2, 3, 5}))
		switch r.intn(6) {
		case 0:
			return base + d
		case 1:
			if base > d {
				return base - d
			}
		}
		return base
	}
	height = start + uint32(r.pickU64([]uint64{0, 1, 2, 3, 10, uint64(limit) - 1, uint64(limit), uint64(limit) + 1, uint64(limit) / 2}))
	if r.intn(10) == 0 && start > 5 {
		height = start - uint32(1+r.intn(4))
	}
	last = 0
	if r.intn(3) == 0 {
		last = uint32(int64(height) + r.pickI64([]int64{-1, -1, -2, 0, 1}))
		if last >= start+limit {
			last = 0
		}
	}
	v.rpcHeight = uint64(rel(height))
	switch r.intn(12) {
	case 0:
		v.heightErr = true
	case 1:
		v.hashErr = true
	case 2:
		v.txoutErr = true
	}
	switch c := r.intn(10); {
	case c < 6:
		conf := uint32(r.pickU64([]uint64{0, 1, 1, 2, 2, 3, 3, 4, 10, uint64(limit), uint64(v.rpcHeight) - uint64(start) + 2, uint64(v.rpcHeight) + 1, uint64(v.rpcHeight) + 5}))
		best := "match"
		if r.intn(8) == 0 {
			best = "other"
		}
		v.txout = &txwatcher.TxOutResp{BestBlockHash: best, Confirmations: conf}
		v.hashErr2 = r.intn(15) == 0
		v.rawErr = r.intn(12) == 0
		v.rng = "nf"
		hist["view:txout"]++
	case c < 8:
		h := uint32(int64(start) + r.pickI64([]int64{0, 0, 1, 2, 3, int64(limit), int64(limit) + 1, 7}))
		if uint64(h) > v.rpcHeight {
			h = uint32(v.rpcHeight)
		}
		if h < start {
			h = start
		}
		v.rng = fmt.Sprintf("f:%d", h)
		if uint64(start) > v.rpcHeight {
			v.rng = "nf"
		}
		hist["view:spent-found-in-range"]++
	case c < 9:
		v.rng = "nf"
		hist["view:unknown"]++
	default:
		v.rng = "err"
		if v.rpcHeight <= uint64(start) {
			v.rng = "nf"
		}
		hist["view:scan-error"]++
	}
	return
}

func init() {
	slices["watcher"] = func(r *rng, n int, emit func(op, res string)) {
		hist := map[string]int{}
		for i := 0; i < n; i++ {
			if r.intn(6) == 0 {
				csv := uint32(r.pickU64([]uint64{1008, 60, 10080, 2}))
				var txo *uint32
				line := "none"
				if r.intn(6) > 0 {
					c := uint32(int64(csv) + r.pickI64([]int64{-2, -1, 0, 1, 100, -int64(csv)}))
					txo = &c
					line = fmt.Sprint(c)
				}
				te := r.intn(8) == 0
				rig := newWatchRig(3)
				// registered while not yet mature, then a block arrives
				rig.rpc.set(rpcView{txout: &txwatcher.TxOutResp{Confirmations: 0}})
				rig.vout = uint32(r.intn(3))
				rig.rpc.wantVout = &rig.vout
				rig.w.AddWaitForCsvTx("swap", "txid", rig.vout, 100, csv, nil)
				v := rpcView{txoutErr: te}
				if txo != nil {
					v.txout = &txwatcher.TxOutResp{Confirmations: *txo}
				}
				rig.rpc.set(v)
				rig.w.HandleCsvTx(123)
				rig.mu.Lock()
				got := b01(len(rig.csv) > 0)
				rig.mu.Unlock()
				emit(fmt.Sprintf("watch.csv %d %s %s", csv, b01(te), line), got)
				continue
			}
			confs, start, limit, last, height, v := genWatchCase(r, hist)
			rig := newWatchRig(confs)
			out := rig.observeOnce(start, limit, last, height, v)
			rig.stop()
			if out == "setup-ended" {
				continue
			}
			hist["out:"+out]++
			emit(fmt.Sprintf("watch.obs %d %d %d %d %d %s", confs, start, limit, last, height, viewLine(v)), out)
		}
		sliceStats["watcher"] = hist
	}
}

// ---------------------------------------------------------------------------
// the Electrum observers and the LWK header filter
