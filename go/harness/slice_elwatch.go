package main

import (
	"context"
	"errors"
	"fmt"

	"github.com/btcsuite/btcd/chaincfg/chainhash"
	goelectrum "github.com/checksum0/go-electrum/electrum"
	"github.com/elementsproject/peerswap/electrum"
	"github.com/elementsproject/peerswap/lwk"
	"github.com/elementsproject/peerswap/onchain"
	"github.com/elementsproject/peerswap/swap"
)

type fakeElectrum struct {
	histErr bool
	hist    []*goelectrum.GetMempoolResult
	rawErr  bool
	// histHook, when set, answers GetHistory (it may block)
	histHook func() ([]*goelectrum.GetMempoolResult, error)
	headers  chan *goelectrum.SubscribeHeadersResult
}

func (f *fakeElectrum) SubscribeHeaders(context.Context) (<-chan *goelectrum.SubscribeHeadersResult, error) {
	if f.headers == nil {
		f.headers = make(chan *goelectrum.SubscribeHeadersResult, 8)
	}
	return f.headers, nil
}
func (f *fakeElectrum) GetHistory(context.Context, string) ([]*goelectrum.GetMempoolResult, error) {
	if f.histHook != nil {
		return f.histHook()
	}
	if f.histErr {
		return nil, errors.New("electrum down")
	}
	return f.hist, nil
}
func (f *fakeElectrum) GetRawTransaction(context.Context, string) (string, error) {
	if f.rawErr {
		return "", errors.New("electrum down")
	}
	return "rawtx", nil
}
func (f *fakeElectrum) BroadcastTransaction(context.Context, string) (string, error) { return "", nil }
func (f *fakeElectrum) GetFee(context.Context, uint32) (float32, error)              { return 0, nil }
func (f *fakeElectrum) Ping(context.Context) error                                   { return nil }
func (f *fakeElectrum) Reboot(context.Context) error                                 { return nil }

var elTxid = "aa00000000000000000000000000000000000000000000000000000000000001"
var elOther = "bb00000000000000000000000000000000000000000000000000000000000002"

func elHistory(r *rng, hist *int64) []*goelectrum.GetMempoolResult {
	out := []*goelectrum.GetMempoolResult{{Hash: elOther, Height: 5}, nil, {Hash: "not-a-hash", Height: 7}}
	if hist != nil {
		out = append(out, &goelectrum.GetMempoolResult{Hash: elTxid, Height: int32(*hist)})
	}
	return out
}

func init() {
	slices["elwatch"] = func(r *rng, n int, emit func(op, res string)) {
		ctx := context.Background()
		txid, _ := chainhash.NewHashFromStr(elTxid)
		spk, err := electrum.NewScriptPubKey(append([]byte{0x00, 0x20}, make([]byte, 32)...))
		if err != nil {
			panic(err)
		}
		for i := 0; i < n; i++ {
			start := uint32(r.pickU64([]uint64{2000000, 100, 1}))
			window := uint32(r.pickU64([]uint64{60, 60, 30, 2}))
			cur := int64(start) + r.pickI64([]int64{0, 1, 2, 3, int64(window) - 1, int64(window), int64(window) + 1, -1, -5, 10})
			if r.intn(15) == 0 {
				cur = r.pickI64([]int64{0, -1})
			}
			var histP *int64
			histLine := "none"
			if r.intn(6) > 0 {
				h := cur + r.pickI64([]int64{0, 0, -1, -1, -2, -3, 1, 2, -59, -60, -10080, -10079})
				if r.intn(8) == 0 {
					h = r.pickI64([]int64{0, -1})
				}
				if h > 2147483647 || h < -2147483648 {
					h = 0
				}
				histP = &h
				histLine = fmt.Sprint(h)
			}
			fe := &fakeElectrum{histErr: r.intn(10) == 0, rawErr: r.intn(8) == 0}
			fe.hist = elHistory(r, histP)
			switch r.intn(4) {
			case 0: // CSV observer
				csv := uint32(r.pickU64([]uint64{10080, 60, 2}))
				out := "nothing"
				ob := electrum.NewobserveCSVTX(*swap.NewSwapId(), txid, spk, fe, func(string) error { out = "matured"; return nil }, csv)
				called, err := ob.Callback(ctx, electrum.BlockHeight(cur))
				if err != nil && !called {
					out = "error"
				}
				emit(fmt.Sprintf("watch.elcsv %d %d %s %s", csv, cur, b01(fe.histErr), histLine), out)
			case 1: // header filter
				w, _ := lwk.NewElectrumTxWatcher(fe)
				stored := int64(0)
				term := r.intn(8) == 0
				if r.intn(3) > 0 {
					stored = int64(1000 + r.intn(5))
					w.VerifAcceptBlockHeight(&goelectrum.SubscribeHeadersResult{Height: int32(stored)})
				}
				if term {
					w.VerifFail(errors.New("terminal"))
				}
				var hdr *goelectrum.SubscribeHeadersResult
				line := "nil"
				if r.intn(10) > 0 {
					h := r.pickI64([]int64{1000, 1001, 1002, 1003, 1004, 1005, 999, 0, -1, 1})
					hdr = &goelectrum.SubscribeHeadersResult{Height: int32(h)}
					line = fmt.Sprint(h)
				}
				h, changed, err := w.VerifAcceptBlockHeight(hdr)
				res := "err"
				if err == nil {
					if !changed {
						h = electrum.BlockHeight(stored)
					}
					res = fmt.Sprintf("%d %s", h, b01(changed))
				}
				emit(fmt.Sprintf("watch.accept %d %s %s", stored, b01(term), line), res)
			default:
				out := "nothing"
				ob := electrum.NewObserveOpeningTX(*swap.NewSwapId(), txid, spk, fe, func(_ string, txHex string, err error) error {
					if err != nil {
						out = "failed"
					} else {
						out = "confirmed"
					}
					return nil
				}, start, window)
				called, err := ob.Callback(ctx, electrum.BlockHeight(cur))
				if err != nil && !called {
					out = "error"
				}
				emit(fmt.Sprintf("watch.elopen %d %d %d %d %s %s %s", start, window, onchain.LiquidConfs, cur, b01(fe.histErr), histLine, b01(fe.rawErr)), out)
			}
		}
	}
}
