package main

import (
	"encoding/hex"
	"errors"
	"fmt"
	"strings"

	"github.com/btcsuite/btcd/btcutil"
	"github.com/btcsuite/btcd/chaincfg"
	"github.com/elementsproject/glightning/glightning"
	"github.com/elementsproject/peerswap/clightning"
	"github.com/elementsproject/peerswap/lightning"
	"github.com/elementsproject/peerswap/lnd"
	"github.com/elementsproject/peerswap/onchain"
	"github.com/elementsproject/peerswap/premium"
	"github.com/elementsproject/peerswap/swap"
	"github.com/elementsproject/peerswap/version"
	"github.com/lightningnetwork/lnd/lnrpc"
	"github.com/lightningnetwork/lnd/routing"
)

func hexs(s string) string {
	if s == "" {
		return "-"
	}
	return hex.EncodeToString([]byte(s))
}

func b01(b bool) string {
	if b {
		return "1"
	}
	return "0"
}

// tlErr maps the error texts of swap/timelock.go and swap/actions.go to the shared enum.
func tlErr(err error) string {
	if err == nil {
		return "ok"
	}
	m := err.Error()
	switch {
	case strings.Contains(m, "could not get starting block height"):
		return "err windowUnset"
	case strings.Contains(m, "is below swap starting height"):
		return "err windowBelow"
	case strings.Contains(m, "claim payment deadline exceeded"):
		return "err windowExceeded"
	case strings.Contains(m, "unsafe invoice cltv"):
		return "err invoiceCltv"
	case strings.Contains(m, "invoice amount does not equal swap amount"):
		return "err invoiceAmount"
	case strings.Contains(m, "invoice requires CLTV delta"):
		return "err totalCltv"
	}
	return "err unknown:" + hexs(m)
}

func routeErr(err error) string {
	m := err.Error()
	switch {
	case strings.Contains(m, "invalid invoice CLTV delta"):
		return "err invalidCltv"
	case strings.Contains(m, "invoice requires CLTV delta"):
		return "err totalCltv"
	case strings.Contains(m, "destination pubkey in invoice does not match"):
		return "err destMismatch"
	case strings.Contains(m, "invoice CLTV delta is too large"):
		return "err cltvTooLarge"
	case strings.Contains(m, "payment CLTV limit is too large"):
		return "err limitTooLarge"
	}
	return "err unknown:" + hexs(m)
}

var u32Anchors = []uint64{0, 1, 29, 30, 60, 504, 1008, 10080, 1 << 31, 1<<32 - 61, 1<<32 - 1}

func (r *rng) u32b() uint32 { return uint32(r.mix(u32Anchors, 3, 1<<32-1)) }

var u64Anchors = []uint64{0, 1, 1000, 999999, 1000000, 2100000000000000, 1<<63 - 1, 1 << 63, (1 << 63) / 1000, 18446744073709551, 18446744073709552, 1<<64 - 1}

func (r *rng) u64b() uint64 { return r.mix(u64Anchors, 2, ^uint64(0)) }

var i64Anchors = []int64{0, 1, -1, 29, 30, 31, 32, 503, 504, 505, 1 << 31, 1<<32 - 2, 1<<32 - 1, 1 << 32, -(1 << 31), 1<<63 - 1, -(1 << 63), 1000000, -1000000, 1000001}

func (r *rng) i64b() int64 {
	if r.intn(3) > 0 {
		return r.pickI64(i64Anchors) + int64(r.intn(5)-2)
	}
	return int64(r.u64())
}

var scidPool = []string{"1x2x3", "1:2:3", "539268x845x1", "539268:845:1", "1x2:3", "", "x", ":", "axbxc", "100x:x1"}
var pubkeyPool = []string{
	"02aaaaaaaaaaaaaaaaaaaaaaaaaaaaaaaaaaaaaaaaaaaaaaaaaaaaaaaaaaaaaaaa",
	"03bbbbbbbbbbbbbbbbbbbbbbbbbbbbbbbbbbbbbbbbbbbbbbbbbbbbbbbbbbbbbbbb",
	"", "xyz",
}

func init() {
	slices["timelock"] = func(r *rng, n int, emit func(op, res string)) {
		// exhaustive policy table first
		for _, c := range []string{"btc", "lbtc", "none"} {
			name := c
			if c == "none" {
				name = ""
			}
			for v := 0; v < 256; v++ {
				p, err := swap.VerifGetTimelockPolicy(name, uint8(v))
				if err != nil {
					emit(fmt.Sprintf("tl.policy %s %d", c, v), "err policy")
				} else {
					emit(fmt.Sprintf("tl.policy %s %d", c, v), fmt.Sprintf("ok %d %d %d %d %s", p.CSV, p.PaymentWindow, p.InvoiceFinalCLTV, p.MaxTotalCLTVDelta, b01(p.AllowNewClaimPayment)))
				}
				e, cl := swap.VerifInvoiceParams(name, uint8(v))
				emit(fmt.Sprintf("tl.invparams %s %d", c, v), fmt.Sprintf("ok %d %d", e, cl))
			}
		}
		for i := 0; i < n; i++ {
			switch r.intn(3) {
			case 0:
				set := r.intn(8) != 0
				start := r.u32b()
				var cur uint32
				switch r.intn(4) {
				case 0:
					cur = r.u32b()
				default:
					cur = start + uint32(r.pickU64([]uint64{0, 1, 29, 30, 59, 60, 61, 503, 504, 505, ^uint64(0), ^uint64(0) - 1}))
				}
				window := uint32(r.pickU64([]uint64{60, 60, 60, 30, 504, 0, 1, 1<<32 - 1}))
				emit(fmt.Sprintf("tl.window %s %d %d %d", b01(set), start, cur, window),
					tlErr(swap.VerifCheckPaymentWindow(set, start, cur, window)))
			case 1:
				claim := r.u64b()
				var msat uint64
				switch r.intn(4) {
				case 0:
					msat = r.u64b()
				case 1:
					msat = claim*1000 + uint64(r.intn(3)) - 1
				default:
					msat = claim * 1000
				}
				cltv := r.i64b()
				maxFinal := r.pickU64([]uint64{29, 29, 503, 0, 1<<64 - 1})
				emit(fmt.Sprintf("tl.invoice %d %d %d %d", msat, cltv, claim, maxFinal),
					tlErr(swap.VerifValidateClaimInvoice(msat, cltv, claim, maxFinal)))
			case 2:
				req, lim := r.u32b(), uint32(r.pickU64([]uint64{0, 32, 32, 33, 1, 1<<32 - 1}))
				emit(fmt.Sprintf("tl.total %d %d", req, lim), tlErr(swap.ValidateTotalCLTVDelta(req, lim)))
			}
		}
	}

	slices["route"] = func(r *rng, n int, emit func(op, res string)) {
		pad := uint64(routing.BlockPadding)
		for i := 0; i < n; i++ {
			switch r.intn(4) {
			case 0:
				payee := r.pickStr(pubkeyPool)
				amt := r.u64b()
				cltv := r.i64b()
				scid := r.pickStr(scidPool)
				limit := uint32(r.pickU64([]uint64{0, 32, 32, 32, 33, 1, 1<<32 - 1}))
				b := &glightning.DecodedBolt11{Payee: payee, AmountMsat: glightning.AmountFromMSat(amt), MinFinalCltvExpiry: int(cltv)}
				hops, err := clightning.VerifBuildDirectClaimRoute(b, scid, limit)
				op := fmt.Sprintf("route.cln %s %d %d %s %d", hexs(payee), amt, cltv, hexs(scid), limit)
				if err != nil {
					emit(op, routeErr(err))
				} else {
					s := fmt.Sprintf("ok %d", len(hops))
					for _, h := range hops {
						s += fmt.Sprintf(" %s %s %d %d %d", hexs(h.Id), hexs(h.ShortChannelId), h.AmountMsat.MSat(), h.Delay, h.Direction)
					}
					emit(op, s)
				}
			case 1:
				payreq := r.pickStr([]string{"lnbc1invoice", "lnbcrt1xyz", ""})
				dest := r.pickStr(pubkeyPool)
				remote := dest
				if r.intn(4) == 0 {
					remote = r.pickStr(pubkeyPool)
				}
				chanId := r.u64b()
				cltv := r.i64b()
				limit := uint32(r.pickU64([]uint64{0, 32, 32, 32, 33, 1, 1<<31 - 2, 1<<31 - 1, 1 << 31, 1<<32 - 1}))
				q, err := lnd.VerifBuildDirectClaimPaymentRequest(payreq, &lnrpc.PayReq{Destination: dest, CltvExpiry: cltv, NumSatoshis: int64(r.u64b() >> 1)}, &lnrpc.Channel{RemotePubkey: remote, ChanId: chanId}, limit)
				op := fmt.Sprintf("route.lnd %s %s %s %d %d %d %d", hexs(payreq), hexs(dest), hexs(remote), chanId, cltv, pad, limit)
				if err != nil {
					emit(op, routeErr(err))
				} else {
					extra := ""
					if q.Dest != nil || q.PaymentHash != nil || q.FinalCltvDelta != 0 || q.FeeLimitSat != 0 || q.FeeLimitMsat != 0 || q.OutgoingChanId != 0 || q.LastHopPubkey != nil || q.AllowSelfPayment || q.Amp || len(q.RouteHints) != 0 {
						extra = " unexpected-fields"
					}
					emit(op, fmt.Sprintf("ok %s %d %d %v %d %d %d%s", hexs(q.PaymentRequest), q.TimeoutSeconds, q.CltvLimit, q.OutgoingChanIds, q.MaxParts, q.Amt, q.AmtMsat, extra))
				}
			case 2:
				s := r.pickStr(scidPool)
				emit("scid.cln "+hexs(s), hexs(lightning.Scid(s).ClnStyle()))
			case 3:
				s := r.pickStr(scidPool)
				emit("scid.lnd "+hexs(s), hexs(lightning.Scid(s).LndStyle()))
			}
		}
	}

	slices["premium"] = func(r *rng, n int, emit func(op, res string)) {
		for i := 0; i < n; i++ {
			amt := r.u64b()
			var ppm int64
			switch r.intn(3) {
			case 0:
				ppm = r.i64b()
			default:
				ppm = int64(r.intn(2000003)) - 1000001
			}
			emit(fmt.Sprintf("premium.compute %d %d", amt, ppm), fmt.Sprintf("%d", premium.NewPPM(ppm).Compute(amt)))
		}
	}

	slices["version"] = func(r *rng, n int, emit func(op, res string)) {
		for i := 0; i < n; i++ {
			switch r.intn(3) {
			case 0, 1:
				a, b := genVersion(r), genVersion(r)
				if r.intn(4) == 0 {
					b = a
				}
				ge, err := version.CompareVersionStrings(a, b)
				res := "false"
				if err != nil {
					res = "err"
				} else if ge {
					res = "true"
				}
				emit("version.ge "+hexs(a)+" "+hexs(b), res)
			case 2:
				s := genVersion(r)
				fl, _ := onchain.DetermineFeeFloor(s)
				emit("fee.floor "+hexs(s), fmt.Sprintf("%d", int64(fl)))
			}
		}
	}

	slices["fee"] = func(r *rng, n int, emit func(op, res string)) {
		for i := 0; i < n; i++ {
			fb := int64(r.pickU64([]uint64{253, 1000, 0, 1, 25, 300, 1000000}))
			fl := int64(r.pickU64([]uint64{253, 25, 0, 1000}))
			est := fakeEstimator{}
			estS := ""
			switch r.intn(5) {
			case 0:
				est.err = errors.New("estimator down")
				estS = "err"
			default:
				est.v = int64(r.pickU64([]uint64{0, 1, 24, 25, 26, 252, 253, 254, 1000, 12345, 1000000, 1000000000})) + int64(r.intn(3)) - 1
				if r.intn(10) == 0 {
					est.v = -est.v
				}
				estS = fmt.Sprintf("%d", est.v)
			}
			oc := onchain.NewBitcoinOnChain(est, btcutil.Amount(fb), btcutil.Amount(fl), &chaincfg.RegressionNetParams)
			fee, err := oc.GetFee(250000)
			if err != nil {
				emit(fmt.Sprintf("fee.rate %s %d %d", estS, fb, fl), "err")
				continue
			}
			// fee = uint64(float64(rate*4)/1000 * 250000) = rate*1000 up to float rounding: recover the rate by rounding
			rate := int64((fee + 500) / 1000)
			if int64(fee) < 0 { // negative rates wrap through uint64()
				rate = -int64((uint64(-int64(fee)) + 500) / 1000)
			}
			emit(fmt.Sprintf("fee.rate %s %d %d", estS, fb, fl), fmt.Sprintf("%d", rate))
		}
	}
}

type fakeEstimator struct {
	v   int64
	err error
}

func (f fakeEstimator) EstimateFeePerKW(uint32) (btcutil.Amount, error) {
	return btcutil.Amount(f.v), f.err
}
func (f fakeEstimator) Start() error { return nil }

func genVersion(r *rng) string {
	pool := []string{"v0.2", "v0.1.2", "v22.11rc1", "/Satoshi:29.2.0/", "/Satoshi:29.1.99/", "/Satoshi:30.0.0/", "29.2", "29", "28.99.99", "", "abc", "v1.", "1..2", "007.0008", "99999999999999999999.1", "1.99999999999999999999", "9223372036854775807", "9223372036854775808", "v23.3.1", "23.2.5", "1.2.3.4.5"}
	if r.intn(3) == 0 {
		return r.pickStr(pool)
	}
	var b strings.Builder
	parts := r.intn(5)
	b.WriteString(r.pickStr([]string{"", "v", "/Satoshi:", "x"}))
	for i := 0; i < parts; i++ {
		if i > 0 {
			b.WriteString(r.pickStr([]string{".", ".", ".", "-", "rc", ".."}))
		}
		switch r.intn(6) {
		case 0:
			b.WriteString("0")
		case 1:
			fmt.Fprintf(&b, "%02d", r.intn(40))
		default:
			fmt.Fprintf(&b, "%d", r.intn(40))
		}
	}
	b.WriteString(r.pickStr([]string{"", "", "/", "rc1", "-beta"}))
	return b.String()
}
