package main

import (
	"context"
	"encoding/json"
	"fmt"
	"os"
	"path/filepath"
	"sort"
	"strings"
	"time"

	"github.com/elementsproject/peerswap/messages"
	"github.com/elementsproject/peerswap/peersync"
	"github.com/elementsproject/peerswap/policy"
	"github.com/elementsproject/peerswap/premium"
)

// C28: the real peersync.PeerSync (handler, poller, store on bbolt) under a virtual clock.

type syncLn struct {
	sent      []sentMsg
	connected []string
	failTo    map[string]bool
	listFails bool
	// onSend, when set, runs while a message to that peer is being sent (a send takes up to seconds: messages from
	// the peer are handled meanwhile)
	onSend func(to string)
}

func (c *syncLn) SendCustomMessage(_ context.Context, to peersync.PeerID, t messages.MessageType, p []byte) error {
	if c.failTo[to.String()] {
		return fmt.Errorf("send failed")
	}
	if c.onSend != nil {
		c.onSend(to.String())
	}
	c.sent = append(c.sent, sentMsg{to.String(), t, append([]byte{}, p...)})
	return nil
}
func (c *syncLn) SubscribeCustomMessages(context.Context) (<-chan peersync.CustomMessage, error) {
	return make(chan peersync.CustomMessage), nil
}
func (c *syncLn) Stop() error { return nil }
func (c *syncLn) ListPeers(context.Context) ([]peersync.PeerID, error) {
	if c.listFails {
		return nil, fmt.Errorf("listpeers failed")
	}
	var out []peersync.PeerID
	for _, s := range c.connected {
		id, _ := peersync.NewPeerID(s)
		out = append(out, id)
	}
	return out, nil
}

type syncWorld struct {
	dir   string
	store *peersync.Store
	ln    *syncLn
	pol   *policy.Policy
	ps    *peersync.PeerSync
}

var syncPeers = []string{"02aa", "02bb", "03cc", "03dd", "02ee", "03ff"}

func newSyncWorld(suspicious []string) *syncWorld {
	dir, err := os.MkdirTemp("", "psverif-sync")
	if err != nil {
		panic(err)
	}
	w := &syncWorld{dir: dir, ln: &syncLn{failTo: map[string]bool{}}}
	var b strings.Builder
	for _, s := range suspicious {
		b.WriteString("suspicious_peers=" + s + "\n")
	}
	pp := filepath.Join(dir, "policy.conf")
	os.WriteFile(pp, []byte(b.String()), 0o644)
	w.pol, err = policy.CreateFromFile(pp)
	if err != nil {
		panic(err)
	}
	w.store, err = peersync.NewStore(filepath.Join(dir, "peersync.db"))
	if err != nil {
		panic(err)
	}
	w.boot()
	return w
}

func (w *syncWorld) boot() {
	self, _ := peersync.NewPeerID("02self")
	w.ps = peersync.NewPeerSync(self, w.store, w.ln, w.pol, nil, (*premium.Setting)(nil))
}

func (w *syncWorld) close() {
	w.store.Close()
	os.RemoveAll(w.dir)
}

// advance makes every stored and in-memory timestamp d older
func (w *syncWorld) advance(d time.Duration) {
	peers, err := w.store.GetAllPeerStates()
	if err != nil {
		panic(err)
	}
	for _, p := range peers {
		if !p.LastPollAt().IsZero() {
			p.SetLastPollAt(p.LastPollAt().Add(-d))
		}
		if !p.LastObservedAt().IsZero() {
			p.SetLastObservedAt(p.LastObservedAt().Add(-d))
		}
		if err := w.store.SavePeerState(p); err != nil {
			panic(err)
		}
	}
	w.ps.VerifShiftClock(d)
}

func (w *syncWorld) takeSent() string {
	var xs []string
	for _, m := range w.ln.sent {
		t := "other"
		switch m.typ {
		case messages.MESSAGETYPE_POLL:
			t = "poll"
		case messages.MESSAGETYPE_REQUEST_POLL:
			t = "req"
		}
		xs = append(xs, m.to+":"+t)
	}
	w.ln.sent = nil
	if len(xs) == 0 {
		return "-"
	}
	sort.Strings(xs)
	return strings.Join(xs, ",")
}

func ageStr(t time.Time) string {
	if t.IsZero() {
		return "never"
	}
	return fmt.Sprint(int64(time.Since(t) / time.Second))
}

func capString(c *peersync.PeerCapability) string {
	if c == nil {
		return "nocap"
	}
	a := strings.Join(c.SupportedAssetStrings(), "+")
	if a == "" {
		a = "-"
	}
	return fmt.Sprintf("%d,%s,%s,%d,%d,%d,%d", c.Version().Value(), a, b01(c.IsAllowed()),
		c.PremiumRateValue(premium.BTC, premium.SwapIn), c.PremiumRateValue(premium.BTC, premium.SwapOut),
		c.PremiumRateValue(premium.LBTC, premium.SwapIn), c.PremiumRateValue(premium.LBTC, premium.SwapOut))
}

func (w *syncWorld) dump() string {
	peers, err := w.store.GetAllPeerStates()
	if err != nil {
		return "err:" + err.Error()
	}
	var ps []string
	for _, p := range peers {
		ps = append(ps, fmt.Sprintf("%s|%s|%s|%s|%s", p.ID().String(), capString(p.Capability()), string(p.Status()), ageStr(p.LastPollAt()), ageStr(p.LastObservedAt())))
	}
	var rq []string
	for id, t := range w.ps.VerifRequestTimes() {
		rq = append(rq, fmt.Sprintf("%s:%d", id, int64(time.Since(t)/time.Second)))
	}
	sort.Strings(rq)
	a, b := "-", "-"
	if len(ps) > 0 {
		a = strings.Join(ps, ";")
	}
	if len(rq) > 0 {
		b = strings.Join(rq, ",")
	}
	return a + " req=" + b
}

type syncPayload struct {
	bad     string // "" = structured
	version uint64
	assets  []string
	allowed bool
	rates   [4]int64
}

func (p syncPayload) json() []byte {
	switch p.bad {
	case "notjson":
		return []byte("{not json")
	case "wrongtype":
		return []byte(`{"version":"seven"}`)
	case "negversion":
		return []byte(`{"version":-1}`)
	case "unknownasset":
		return []byte(`{"version":7,"assets":["BTC","DOGE"]}`)
	case "rateoutofrange":
		return []byte(`{"version":7,"assets":["BTC"],"btc_swap_in_premium_rate_ppm":1000001}`)
	case "ratebelow":
		return []byte(`{"version":7,"lbtc_swap_out_premium_rate_ppm":-1000001}`)
	}
	m := map[string]interface{}{}
	if p.version != 0 {
		m["version"] = p.version
	}
	if len(p.assets) > 0 {
		m["assets"] = p.assets
	}
	if p.allowed {
		m["peer_allowed"] = true
	}
	keys := []string{"btc_swap_in_premium_rate_ppm", "btc_swap_out_premium_rate_ppm", "lbtc_swap_in_premium_rate_ppm", "lbtc_swap_out_premium_rate_ppm"}
	for i, k := range keys {
		if p.rates[i] != 0 {
			m[k] = p.rates[i]
		}
	}
	m["extra_field_ignored"] = 1
	b, _ := json.Marshal(m)
	return b
}

// line: the structured part of the op (assets normalised the way NewAsset does)
func (p syncPayload) line() string {
	if p.bad != "" {
		return "bad"
	}
	var as []string
	for _, a := range p.assets {
		as = append(as, strings.ToUpper(strings.TrimSpace(a)))
	}
	a := "-"
	if len(as) > 0 {
		a = strings.Join(as, ",")
	}
	return fmt.Sprintf("%d %s %s %d %d %d %d", p.version, a, b01(p.allowed), p.rates[0], p.rates[1], p.rates[2], p.rates[3])
}

func genSyncPayload(r *rng, hist map[string]int) syncPayload {
	if r.intn(10) == 0 {
		hist["payload:malformed"]++
		return syncPayload{bad: r.pickStr([]string{"notjson", "wrongtype", "negversion", "unknownasset", "rateoutofrange", "ratebelow"})}
	}
	if r.intn(12) == 0 {
		hist["payload:all-zero"]++
		return syncPayload{}
	}
	hist["payload:structured"]++
	p := syncPayload{version: r.pickU64([]uint64{0, 6, 7, 7, 7, 7, 8, 9}), allowed: r.bool()}
	p.assets = [][]string{nil, {"BTC"}, {"LBTC"}, {"BTC", "LBTC"}, {"btc", " lbtc "}, {"LBTC", "BTC", "BTC"}}[r.intn(6)]
	for i := range p.rates {
		p.rates[i] = r.pickI64([]int64{0, 0, 100, -100, 1000000, -1000000, 2500, 17})
	}
	return p
}

func subsetStr(r *rng, from []string, p int) []string {
	var out []string
	for _, s := range from {
		if r.intn(100) < p {
			out = append(out, s)
		}
	}
	return out
}

func csvOrDash(xs []string) string {
	if len(xs) == 0 {
		return "-"
	}
	return strings.Join(xs, ",")
}

func init() {
	slices["peersync"] = func(r *rng, n int, emit func(op, res string)) {
		hist := map[string]int{}
		for done := 0; done < n; {
			susp := subsetStr(r, syncPeers, 15)
			w := newSyncWorld(susp)
			reqIv, timeout, pollIv := w.ps.VerifIntervals()
			emit(fmt.Sprintf("sync.reset %d %d %d %d %s", ri2ms(pollIv), ri2ms(timeout), ri2ms(reqIv), 7, csvOrDash(susp)), "ok")
			done++
			for k := 0; k < 12+r.intn(40) && done < n; k++ {
				done++
				ctx := context.Background()
				switch c := r.intn(100); {
				case c < 30:
					src := r.pickStr(syncPeers)
					p := genSyncPayload(r, hist)
					ty, mt := "poll", messages.MESSAGETYPE_POLL
					if r.intn(3) == 0 {
						ty, mt = "req", messages.MESSAGETYPE_REQUEST_POLL
					}
					id, _ := peersync.NewPeerID(src)
					w.ps.VerifHandle(ctx, peersync.CustomMessage{From: id, Type: mt, Payload: p.json()})
					emit(fmt.Sprintf("sync.recv %s %s %s", ty, src, p.line()), w.takeSent())
				case c < 50:
					force := r.intn(5) == 0
					fails := subsetStr(r, syncPeers, 10)
					w.ln.failTo = map[string]bool{}
					for _, f := range fails {
						w.ln.failTo[f] = true
					}
					w.ln.listFails = r.intn(12) == 0
					w.ps.VerifPollPeers(ctx, force)
					emit(fmt.Sprintf("sync.round %s %s %s", b01(force), csvOrDash(fails), b01(w.ln.listFails)), w.takeSent())
					w.ln.listFails = false
					w.ln.failTo = map[string]bool{}
				case c < 58:
					// a message from a peer is handled while the round is sending to that peer
					force := r.intn(4) == 0
					fails := subsetStr(r, syncPeers, 8)
					w.ln.failTo = map[string]bool{}
					for _, f := range fails {
						w.ln.failTo[f] = true
					}
					w.ln.listFails = r.intn(12) == 0
					src := r.pickStr(syncPeers)
					p := genSyncPayload(r, hist)
					ty, mt := "poll", messages.MESSAGETYPE_POLL
					if r.intn(3) == 0 {
						ty, mt = "req", messages.MESSAGETYPE_REQUEST_POLL
					}
					id, _ := peersync.NewPeerID(src)
					fired, busy := 0, false
					w.ln.onSend = func(to string) {
						if to == src && !busy { // not for the handler's own answer
							busy = true
							fired++
							w.ps.VerifHandle(ctx, peersync.CustomMessage{From: id, Type: mt, Payload: p.json()})
							busy = false
						}
					}
					w.ps.VerifPollPeers(ctx, force)
					w.ln.onSend = nil
					hist[fmt.Sprintf("roundduring:handled=%d", fired)]++
					emit(fmt.Sprintf("sync.roundduring %s %s %s %s %s %s", b01(force), csvOrDash(fails), b01(w.ln.listFails), ty, src, p.line()), w.takeSent())
					w.ln.listFails = false
					w.ln.failTo = map[string]bool{}
				case c < 64:
					w.ln.listFails = r.intn(8) == 0
					w.ps.VerifCleanup(ctx)
					emit("sync.cleanup "+b01(w.ln.listFails), "ok")
					w.ln.listFails = false
				case c < 72:
					w.ln.connected = subsetStr(r, syncPeers, 50)
					emit("sync.connect "+csvOrDash(w.ln.connected), "ok")
				case c < 86:
					secs := r.pickI64([]int64{1, 5, 9, 10, 11, 60, 300, 599, 600, 601, 899, 900, 901, 1799, 1800, 1801, 4000})
					w.advance(time.Duration(secs) * time.Second)
					emit(fmt.Sprintf("sync.advance %d", secs), "ok")
				case c < 90:
					w.boot()
					emit("sync.restart", "ok")
				case c < 95:
					p := r.pickStr(syncPeers)
					emit("sync.compat "+p, b01(w.ps.HasCompatiblePeer(p)))
				default:
					emit("sync.dump", w.dump())
				}
			}
			done++
			emit("sync.dump", w.dump())
			w.close()
		}
		sliceStats["peersync"] = hist
	}
}

func ri2ms(d time.Duration) int64 { return int64(d / time.Millisecond) }

// ---------------------------------------------------------------------------
// monitor C28: judges the real peersync alone

func (w *syncWorld) stored() map[string][5]string { // id -> cap, status, pollAge, obsAge, raw obs age secs
	out := map[string][5]string{}
	peers, _ := w.store.GetAllPeerStates()
	for _, p := range peers {
		out[p.ID().String()] = [5]string{capString(p.Capability()), string(p.Status()), ageStr(p.LastPollAt()), ageStr(p.LastObservedAt())}
	}
	return out
}

func normCap(s string) string {
	if s == "nocap" {
		return "0,-,0,0,0,0,0"
	}
	return s
}

func capVersion(s string) string { return strings.SplitN(normCap(s), ",", 2)[0] }

func init() {
	monitors["C28"] = func(r *rng, n int, res *MonitorResult) {
		res.Rule = "operation sequences on the real PeerSync (real bbolt store, real policy file for suspicious peers, virtual clock); judged from outside after every operation: (1) after a well-formed poll/request_poll from a non-suspicious peer the stored capability is the received one unless it advertises a lower version than the stored one, in which case the stored one is unchanged; malformed payloads and suspicious senders change nothing; (2) records written with random contents reload with the same id, address, status, times and capability (an all-zero capability counts as none); a restart changes no record; (3) a cleanup removes exactly the peers that are not connected and were last observed more than the cleanup timeout ago, nothing when ListPeers fails; (4) two requests to the same unknown peer less than the request interval apart happen only if a round was forced, the peer was absent from a round in between, or the node restarted; (5) HasCompatiblePeer == (stored capability version == 7); distinct = distinct operation sequences"
		hist := res.Histogram
		ctx := context.Background()
		// (1') the peer's newest poll is handled WHILE a poll round is sending to that peer: the stored capability
		// must still be the most recent one afterwards
		for _, forced := range []bool{true, false} {
			w := newSyncWorld(nil)
			pid := "02" + strings.Repeat("ab", 32)
			id, _ := peersync.NewPeerID(pid)
			w.ln.connected = []string{pid}
			oldPoll := `{"version":6,"assets":["btc"],"peer_allowed":true,"btc_swap_in_premium_rate_ppm":100}`
			newPoll := `{"version":7,"assets":["btc","lbtc"],"peer_allowed":true,"btc_swap_in_premium_rate_ppm":777}`
			w.ps.VerifHandle(ctx, peersync.CustomMessage{From: id, Type: messages.MESSAGETYPE_POLL, Payload: []byte(oldPoll)})
			fired := false
			w.ln.onSend = func(to string) {
				if to == pid && !fired {
					fired = true
					w.ps.VerifHandle(ctx, peersync.CustomMessage{From: id, Type: messages.MESSAGETYPE_POLL, Payload: []byte(newPoll)})
				}
			}
			w.advance(11 * time.Second)
			w.ps.VerifPollPeers(ctx, forced)
			w.ln.onSend = nil
			res.Evaluations++
			res.Distinct++
			hist["poll handled during a poll round"]++
			st, err := w.store.GetPeerState(id)
			in := map[string]interface{}{"forced_round": forced, "schedule": "stored v6 rate 100; round starts; while the round sends to the peer its poll v7 rate 777 is handled; round finishes"}
			switch {
			case !fired:
				hist["poll handled during a poll round: no send happened"]++
			case err != nil || st == nil || st.Capability() == nil:
				res.addFinding("C28/newer-poll-lost/record-missing", "the peer's record is gone after the round", in)
			case st.Capability().Version().Value() != 7:
				res.addFinding("C28/newer-poll-lost/overwritten-by-poll-round", fmt.Sprintf("the poll round wrote its stale copy over the newer poll: stored version %d, the newest poll advertised 7", st.Capability().Version().Value()), in)
			}
			w.close()
		}
		// (2) record round trip on its own
		{
			w := newSyncWorld(nil)
			for i := 0; i < 300; i++ {
				idStr := r.pickStr([]string{"02aa", "03" + strings.Repeat("f", 64), strings.Repeat("z", 128), "x"})
				id, _ := peersync.NewPeerID(idStr)
				p := peersync.NewPeer(id, r.pickStr([]string{"", "127.0.0.1:9735", strings.Repeat("a", 300)}))
				if r.intn(5) > 0 {
					var assets []peersync.Asset
					for _, a := range [][]peersync.Asset{nil, {peersync.AssetBTC}, {peersync.AssetLBTC, peersync.AssetBTC}, {peersync.AssetBTC, peersync.AssetBTC}}[r.intn(4)] {
						assets = append(assets, a)
					}
					rate := func() *premium.PPM {
						return premium.NewPPM(r.pickI64([]int64{0, 0, 1, -1, 1000000, -1000000, 12345}))
					}
					p.UpdateCapability(peersync.NewPeerCapability(peersync.NewVersion(r.pickU64([]uint64{0, 0, 1, 7, 8, 1 << 63, ^uint64(0)})), assets, r.bool(), rate(), rate(), rate(), rate()))
				}
				if r.bool() {
					p.SetLastPollAt(time.Unix(int64(r.intn(2000000000)), int64(r.intn(1000000000))))
				}
				if r.intn(4) == 0 {
					p.SetLastObservedAt(time.Unix(int64(r.intn(2000000000)), int64(r.intn(1000000000))))
				}
				p.SetStatus(peersync.PeerStatus(r.pickStr([]string{"active", "inactive", "unknown", "expired"})))
				if err := w.store.SavePeerState(p); err != nil {
					res.addFinding("C28/record-not-saved", err.Error(), idStr)
					continue
				}
				q, err := w.store.GetPeerState(id)
				res.Evaluations++
				hist["record round trip"]++
				same := err == nil && q.ID().String() == p.ID().String() && q.Address() == p.Address() && q.Status() == p.Status() &&
					q.LastPollAt().Equal(p.LastPollAt()) && q.LastObservedAt().Equal(p.LastObservedAt()) && normCap(capString(q.Capability())) == normCap(capString(p.Capability()))
				if !same {
					res.addFinding("C28/record-reloads-differently", "a stored peer record reloads with different contents",
						map[string]string{"id": idStr, "saved": fmt.Sprintf("%s|%s|%s|%v|%v", capString(p.Capability()), p.Status(), p.Address(), p.LastPollAt().UnixNano(), p.LastObservedAt().UnixNano()), "err": fmt.Sprint(err)})
				}
			}
			w.close()
		}
		seen := map[string]bool{}
		for i := 0; i < n; i++ {
			susp := subsetStr(r, syncPeers, 15)
			isSusp := map[string]bool{}
			for _, s := range susp {
				isSusp[s] = true
			}
			w := newSyncWorld(susp)
			var histOps []string
			vnow := int64(0)
			lastSent := map[string]int64{} // virtual time of the last request to a peer that has stayed connected since
			report := func(sig, what string) {
				res.addFinding("C28/"+sig, what, map[string]interface{}{"suspicious": susp, "ops": append([]string{}, histOps...)})
			}
			for k := 0; k < 10+r.intn(30); k++ {
				res.Evaluations++
				before := w.stored()
				switch c := r.intn(100); {
				case c < 32:
					src := r.pickStr(syncPeers)
					p := genSyncPayload(r, hist)
					ty, mt := "poll", messages.MESSAGETYPE_POLL
					if r.intn(3) == 0 {
						ty, mt = "req", messages.MESSAGETYPE_REQUEST_POLL
					}
					id, _ := peersync.NewPeerID(src)
					w.ps.VerifHandle(ctx, peersync.CustomMessage{From: id, Type: mt, Payload: p.json()})
					histOps = append(histOps, fmt.Sprintf("recv %s %s %s", ty, src, p.line()))
					sent := w.takeSent()
					after := w.stored()
					for pid, rec := range after {
						if pid != src && before[pid] != rec {
							report("other-peer-changed", "a message from one peer changed another peer's record")
						}
					}
					if p.bad != "" || isSusp[src] {
						if before[src] != after[src] {
							report("rejected-message-changed-record", "a malformed payload or a suspicious sender changed the stored record")
						}
					} else {
						got := normCap(after[src][0])
						want := normCap(strings.Replace(p.line(), " ", ",", -1))
						want = func() string { // line(): "ver assets allowed r1 r2 r3 r4" with assets comma separated -> cap string
							f := strings.Fields(p.line())
							return fmt.Sprintf("%s,%s,%s,%s,%s,%s,%s", f[0], strings.ReplaceAll(f[1], ",", "+"), f[2], f[3], f[4], f[5], f[6])
						}()
						prev, had := before[src]
						if had && prev[0] != "nocap" && p.version < mustU64(capVersion(prev[0])) {
							hist["poll with lower version"]++
							if got != normCap(prev[0]) {
								report("lower-version-poll-overwrote", "a poll advertising a lower version replaced the stored capability")
							}
						} else {
							hist["poll stored"]++
							if got != normCap(want) {
								report("latest-poll-not-stored", "the stored capability is not the one of the most recent poll: stored "+got+" want "+want)
							}
						}
						if after[src][3] != "0" {
							report("observation-time-not-updated", "a poll did not refresh the observation time")
						}
					}
					if ty == "req" && !isSusp[src] && sent != src+":poll" {
						report("request-poll-not-answered", "a request_poll from a peer that is not suspicious was not answered with a poll: "+sent)
					}
					if (ty == "poll" || isSusp[src]) && sent != "-" {
						report("unexpected-reply", "a poll (or a suspicious peer's request) was answered: "+sent)
					}
				case c < 55:
					force := r.intn(5) == 0
					w.ln.listFails = r.intn(12) == 0
					fails := subsetStr(r, syncPeers, 8)
					w.ln.failTo = map[string]bool{}
					for _, f := range fails {
						w.ln.failTo[f] = true
					}
					w.ps.VerifPollPeers(ctx, force)
					histOps = append(histOps, fmt.Sprintf("round force=%v listFails=%v fails=%v", force, w.ln.listFails, fails))
					sent := w.takeSent()
					conn := map[string]bool{}
					for _, cpeer := range w.ln.connected {
						conn[cpeer] = true
					}
					if !w.ln.listFails {
						for p := range lastSent {
							if !conn[p] {
								delete(lastSent, p) // seen disconnected at a round: by design asked again on reconnect
							}
						}
					}
					if sent != "-" {
						for _, m := range strings.Split(sent, ",") {
							pt := strings.Split(m, ":")
							if _, known := before[pt[0]]; known {
								continue
							}
							hist["request to unknown peer"]++
							if pt[1] != "req" || !conn[pt[0]] || isSusp[pt[0]] || w.ln.listFails {
								report("bad-request-target", "a message went to a peer that is unknown and not a connected, unsuspicious peer (or of the wrong type): "+m)
							}
							if last, ok := lastSent[pt[0]]; ok && !force && vnow-last < 600 {
								report("request-interval", fmt.Sprintf("two requests to unknown connected peer %s only %d s apart without force, disconnect or restart", pt[0], vnow-last))
							}
							lastSent[pt[0]] = vnow
						}
					}
					w.ln.listFails = false
					w.ln.failTo = map[string]bool{}
				case c < 66:
					w.ln.listFails = r.intn(8) == 0
					conn := map[string]bool{}
					for _, cpeer := range w.ln.connected {
						conn[cpeer] = true
					}
					w.ps.VerifCleanup(ctx)
					histOps = append(histOps, fmt.Sprintf("cleanup listFails=%v", w.ln.listFails))
					after := w.stored()
					for pid, rec := range before {
						expired := rec[3] != "never" && mustU64(rec[3]) >= 1800
						_, still := after[pid]
						wantGone := expired && !conn[pid] && !w.ln.listFails
						if wantGone {
							hist["cleanup removes"]++
						}
						if still == wantGone {
							report("cleanup-wrong", fmt.Sprintf("cleanup: peer %s (observed %s s ago, connected=%v, listFails=%v) still stored=%v", pid, rec[3], conn[pid], w.ln.listFails, still))
						}
						if still && after[pid] != rec {
							report("cleanup-changed-record", "cleanup changed a record it kept")
						}
					}
					w.ln.listFails = false
				case c < 76:
					w.ln.connected = subsetStr(r, syncPeers, 50)
					histOps = append(histOps, "connect "+csvOrDash(w.ln.connected))
				case c < 90:
					secs := r.pickI64([]int64{1, 5, 9, 10, 11, 60, 300, 599, 600, 601, 899, 900, 901, 1799, 1800, 1801, 4000})
					w.advance(time.Duration(secs) * time.Second)
					vnow += secs
					histOps = append(histOps, fmt.Sprintf("advance %d", secs))
				case c < 95:
					w.boot()
					lastSent = map[string]int64{}
					histOps = append(histOps, "restart")
					if fmt.Sprint(before) != fmt.Sprint(w.stored()) {
						report("restart-changed-records", "the stored records differ after a restart")
					}
				default:
					p := r.pickStr(syncPeers)
					got := w.ps.HasCompatiblePeer(p)
					rec, ok := before[p]
					want := ok && capVersion(rec[0]) == "7" && rec[0] != "nocap"
					histOps = append(histOps, "compat "+p)
					hist[fmt.Sprintf("compat=%v", got)]++
					if got != want {
						report("compatible-wrong", fmt.Sprintf("HasCompatiblePeer(%s)=%v but stored capability is %s", p, got, rec[0]))
					}
				}
			}
			key := strings.Join(histOps, ";")
			if !seen[key] {
				seen[key] = true
				res.Distinct++
			}
			w.close()
		}
	}
}

func mustU64(s string) uint64 {
	var v uint64
	fmt.Sscan(s, &v)
	return v
}
