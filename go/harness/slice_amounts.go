package main

import (
	"fmt"
	"strings"

	"github.com/elementsproject/peerswap/messages"
)

func lastCancelText(w *World) string {
	for i := len(w.msgr.sent) - 1; i >= 0; i-- {
		if w.msgr.sent[i].typ == messages.MESSAGETYPE_CANCELED {
			return string(w.msgr.sent[i].payload)
		}
	}
	return ""
}

func amtOutScn(amount uint64, limitPpm, premium int64, feeSat, expectedFee, spendable uint64) scn {
	cfg := defaultCfg()
	cfg.OpeningFee, cfg.SpendableMsat = expectedFee, spendable
	return scn{role: "outSender", cfg: &cfg, tag: fmt.Sprintf("amt.out %d %d %d %d %d %d", amount, limitPpm, premium, feeSat, expectedFee, spendable),
		steps: []string{fmt.Sprintf("new outSender btc amt=%d limit=%d", amount, limitPpm), fmt.Sprintf("agree premium=%d fee=%d", premium, feeSat), "txmsg", "confirm"}}
}

func amtOutOutcome(w *World) string {
	feePaid, claim := false, ""
	for _, o := range w.obs {
		if o.Kind == "pay" && o.A["kind"] == "fee" && o.A["out"] == "success" {
			feePaid = true
		}
		if o.Kind == "pay" && o.A["kind"] == "claim" && claim == "" {
			claim = o.A["msat"]
		}
	}
	if feePaid {
		if claim == "" {
			return "pay claim=none"
		}
		return "pay claim=" + claim
	}
	t := lastCancelText(w)
	switch {
	case strings.Contains(t, "premium amt too high"):
		return "premiumTooHigh"
	case strings.Contains(t, "premium amt too low"):
		return "premiumTooLow"
	case strings.Contains(t, "not enough spendable msat"):
		return "notEnoughSpendable"
	case strings.Contains(t, "Fee is too damn high"):
		return "feeTooHigh"
	}
	return "other:" + hexs(t)
}

func amtInScn(amount uint64, limitPpm, premium int64) scn {
	cfg := defaultCfg()
	cfg.WalletSat = 1 << 62
	cfg.ReceivableMsat = 1 << 62
	return scn{role: "inSender", cfg: &cfg, tag: fmt.Sprintf("amt.in %d %d %d", amount, limitPpm, premium),
		steps: []string{fmt.Sprintf("new inSender btc amt=%d limit=%d", amount, limitPpm), fmt.Sprintf("agree premium=%d", premium)}}
}

func amtInOutcome(w *World) string {
	lock, ask := "", ""
	for _, o := range w.obs {
		if o.Kind == "broadcast" && o.A["tx"] == "opening" {
			lock = o.A["amount"]
		}
		if o.Kind == "invoice" && o.A["type"] == "claim" {
			ask = o.A["msat"]
		}
	}
	if lock != "" {
		return "lock=" + lock + " ask=" + ask
	}
	if strings.Contains(lastCancelText(w), "premium amt too high") {
		return "premiumTooHigh"
	}
	if strings.Contains(lastCancelText(w), "premium amt too low") {
		return "premiumTooLow"
	}
	return "other:" + hexs(lastCancelText(w))
}

func genAmounts(r *rng) scn {
	amount := r.pickU64([]uint64{1000000, 1000000, 100000, 4000000, 1234567})
	limitPpm := r.pickI64([]int64{10000, 10000, 0, 1000000, -1000, 1})
	limit := int64(amount) * limitPpm / 1000000
	premium := r.pickI64([]int64{limit, limit - 1, limit + 1, 0, 1000, -1000, -int64(amount), -int64(amount) - 1, 1 << 40, -(1 << 62), 1<<63 - 1})
	if r.bool() {
		return amtInScn(amount, limitPpm, premium)
	}
	expected := r.pickU64([]uint64{500, 500, 1, 0, 100000})
	feeSat := r.pickU64([]uint64{expected, expected * 3, expected*3 + 1, expected * 2, 1, 0})
	need := amount*1000 + feeSat*1000
	spendable := r.pickU64([]uint64{5000000000, 5000000000, need, need - 1, need + 1, amount * 1000})
	if spendable < amount*1000 {
		spendable = amount * 1000
	}
	return amtOutScn(amount, limitPpm, premium, feeSat, expected, spendable)
}

func init() {
	slices["amounts"] = func(r *rng, n int, emit func(op, res string)) {
		var all []scn
		for i := 0; i < n; i++ {
			all = append(all, genAmounts(r))
		}
		runMany(defaultCfg(), all, func(x scnResult) {
			if strings.HasPrefix(x.sc.tag, "amt.in") {
				emit(x.sc.tag, amtInOutcome(x.w))
			} else {
				emit(x.sc.tag, amtOutOutcome(x.w))
			}
		})
	}
}
