package main

import (
	"errors"
	"fmt"
	"os"
	"path/filepath"
	"strings"

	"github.com/elementsproject/peerswap/policy"
)

// C25: the real policy.Policy over a real file, driven by operation sequences from pre-existing contents.

var polKeys = func() []string {
	var ks []string
	for i := 0; i < 5; i++ {
		ks = append(ks, fmt.Sprintf("%02x%064x", 2+i%2, 0x1111*(i+1)))
	}
	return ks
}()

var polBadKeys = []string{"", "zz", "02ABCDEF", strings.Repeat("0", 65), strings.Repeat("0", 67), strings.ToUpper(fmt.Sprintf("02%064x", 0xabcdef)), fmt.Sprintf("02%064x", 7) + "\n", " " + fmt.Sprintf("02%064x", 7)[1:], "not-a-key"}

// lines of a pre-existing file; the classes are counted in the histogram
func polGenLine(r *rng, canonical bool, hist map[string]int) string {
	pk := r.pickStr(polKeys)
	c := r.intn(100)
	if canonical {
		c = c % 45
	}
	switch {
	case c < 10:
		hist["line:allow"]++
		return "allowlisted_peers=" + pk
	case c < 18:
		hist["line:susp"]++
		return "suspicious_peers=" + pk
	case c < 24:
		hist["line:new"]++
		return "allow_new_swaps=" + r.pickStr([]string{"true", "false"})
	case c < 30:
		hist["line:comment"]++
		return r.pickStr([]string{"# a comment", "; allowlisted_peers=" + pk, "#allow_new_swaps=false", ""})
	case c < 38:
		hist["line:other-option"]++
		return r.pickStr([]string{"accept_all_peers=true", "accept_all_peers=false", "accept_all_peers=1", "min_swap_amount_msat=5000", "reserve_onchain_msat=123456", "min_swap_amount_msat=18446744073709551615", "AcceptAllPeers=true"})
	case c < 45:
		hist["line:unknown-key"]++
		return r.pickStr([]string{"foo=bar", "allowlisted_peer=" + pk, "Allowlisted_Peers=" + pk, "loglevel=debug", "x="})
	case c < 60:
		hist["line:noncanonical-spelling"]++
		return r.pickStr([]string{
			"allowlisted_peers = " + pk, "  allowlisted_peers=" + pk, "allowlisted_peers=" + pk + " ", "allowlisted_peers=\"" + pk + "\"",
			"PeerAllowlist=" + pk, "suspicious_peers = " + pk, "SuspiciousPeerList=" + pk, "suspicious_peers=\"" + pk + "\"",
			"allow_new_swaps = false", "allow_new_swaps=0", "allow_new_swaps=1", "AllowNewSwaps=false", "allow_new_swaps=False", "\tallow_new_swaps=true",
			"allow_new_swaps=", "allowlisted_peers=" + pk + "\r"})
	case c < 68:
		hist["line:invalid-list-entry"]++
		return r.pickStr([]string{"allowlisted_peers=foo", "allowlisted_peers=", "suspicious_peers=" + strings.ToUpper(pk), "allowlisted_peers=" + pk[:60]})
	case c < 74:
		hist["line:section"]++
		return r.pickStr([]string{"[peers]", "[ other ]", "[x]"})
	case c < 80:
		hist["line:malformed"]++
		return r.pickStr([]string{"allow_new_swaps", "[", "[]", "[ ]", "[peers", "allow_new_swaps=maybe", "min_swap_amount_msat=-1", "min_swap_amount_msat=18446744073709551616", "min_swap_amount_msat=", "accept_all_peers=\"tru", "allowlisted_peers=\"a\"b\"", "reserve_onchain_msat=1e3", "min_swap_amount_msat=+5"})
	default:
		hist["line:allow"]++
		return "allowlisted_peers=" + pk
	}
}

func polGenFile(r *rng, hist map[string]int) string {
	kind := r.intn(10)
	if kind == 0 {
		hist["file:empty"]++
		return ""
	}
	canonical := kind < 5
	n := r.intn(7)
	var b strings.Builder
	for i := 0; i < n; i++ {
		b.WriteString(polGenLine(r, canonical, hist))
		b.WriteString(r.pickStr([]string{"\n", "\n", "\n", "\n", "\n", "\r\n"}))
	}
	s := b.String()
	if canonical {
		hist["file:canonical"]++
		return strings.ReplaceAll(s, "\r\n", "\n")
	}
	if r.intn(4) == 0 && len(s) > 0 {
		hist["file:unterminated"]++
		s = strings.TrimRight(s, "\r\n")
	} else {
		hist["file:general"]++
	}
	return s
}

func polErrClass(err error, hasPath bool) string {
	if err == nil {
		return "ok"
	}
	var inv policy.ErrNotAValidPublicKey
	switch {
	case errors.As(err, &inv):
		return "errInvalid"
	case strings.Contains(err.Error(), "already"):
		return "errDup"
	case strings.Contains(err.Error(), "is not in"):
		return "errAbsent"
	case errors.Is(err, policy.ErrNoPolicyFile) || !hasPath:
		return "errNoFile"
	}
	return "errReload"
}

func polSummary(p policy.Policy) string {
	lst := func(xs []string) string {
		if len(xs) == 0 {
			return "-"
		}
		var hs []string
		for _, x := range xs {
			hs = append(hs, hexs(x))
		}
		return strings.Join(hs, ",")
	}
	return fmt.Sprintf("allow=%s susp=%s acc=%s min=%d res=%d new=%s", lst(p.PeerAllowlist), lst(p.SuspiciousPeerList), b01(p.AcceptAllPeers), p.MinSwapAmountMsat, p.ReserveOnchainMsat, b01(p.AllowNewSwaps))
}

// polSame: equal settings and equal lists — element by element: the summary prints a list holding one empty string
// (`allowlisted_peers=` with no value) like an empty list
func polSame(a, b policy.Policy) bool {
	return polSummary(a) == polSummary(b) && len(a.PeerAllowlist) == len(b.PeerAllowlist) && len(a.SuspiciousPeerList) == len(b.SuspiciousPeerList)
}

type polRun struct {
	dir, path string
	p         *policy.Policy
	hasPath   bool
}

func polStart(content string, hasPath bool) (*polRun, error) {
	dir, err := os.MkdirTemp("", "psverif-pol")
	if err != nil {
		panic(err)
	}
	pr := &polRun{dir: dir, hasPath: hasPath}
	if !hasPath {
		pr.p, _ = policy.CreateFromFile("")
		return pr, nil
	}
	pr.path = filepath.Join(dir, "policy.conf")
	if err := os.WriteFile(pr.path, []byte(content), 0o644); err != nil {
		panic(err)
	}
	p, err := policy.CreateFromFile(pr.path)
	if err != nil {
		return pr, err
	}
	pr.p = p
	return pr, nil
}

func (pr *polRun) close() { os.RemoveAll(pr.dir) }

func (pr *polRun) fileContent() string {
	if !pr.hasPath {
		return ""
	}
	b, _ := os.ReadFile(pr.path)
	return string(b)
}

// fresh load of the file as a restart would do it
func (pr *polRun) fresh() string {
	if !pr.hasPath {
		return "same"
	}
	q, err := policy.CreateFromFile(pr.path)
	if err != nil {
		return "err"
	}
	if polSame(q.Get(), pr.p.Get()) {
		return "same"
	}
	return "diff"
}

func (pr *polRun) apply(name, arg string) error {
	switch name {
	case "addAllow":
		return pr.p.AddToAllowlist(arg)
	case "addSusp":
		return pr.p.AddToSuspiciousPeerList(arg)
	case "removeAllow":
		return pr.p.RemoveFromAllowlist(arg)
	case "removeSusp":
		return pr.p.RemoveFromSuspiciousPeerList(arg)
	case "enable":
		return pr.p.EnableSwaps()
	case "disable":
		return pr.p.DisableSwaps()
	case "reload":
		return pr.p.ReloadFile()
	}
	panic(name)
}

func (pr *polRun) reply(err error) string {
	return fmt.Sprintf("%s %s file=%s fresh=%s", polErrClass(err, pr.hasPath), polSummary(pr.p.Get()), hexs(pr.fileContent()), pr.fresh())
}

func polGenOp(r *rng, hist map[string]int) (string, string) {
	c := r.intn(100)
	arg := r.pickStr(polKeys)
	if r.intn(8) == 0 {
		arg = r.pickStr(polBadKeys)
		hist["op:bad-pubkey"]++
	}
	switch {
	case c < 22:
		return "addAllow", arg
	case c < 38:
		return "addSusp", arg
	case c < 56:
		return "removeAllow", arg
	case c < 68:
		return "removeSusp", arg
	case c < 79:
		return "enable", ""
	case c < 90:
		return "disable", ""
	default:
		return "reload", ""
	}
}

func init() {
	slices["policy"] = func(r *rng, n int, emit func(op, res string)) {
		hist := map[string]int{}
		for done := 0; done < n; {
			hasPath := r.intn(12) != 0
			content := polGenFile(r, hist)
			if !hasPath {
				content = ""
			}
			pr, err := polStart(content, hasPath)
			done++
			if err != nil {
				emit(fmt.Sprintf("pol.reset %s %s", hexs(content), b01(hasPath)), "errCreate")
				pr.close()
				continue
			}
			emit(fmt.Sprintf("pol.reset %s %s", hexs(content), b01(hasPath)), "ok "+polSummary(pr.p.Get()))
			for k := 0; k < 4+r.intn(14) && done < n; k++ {
				done++
				switch r.intn(12) {
				case 0:
					if hasPath {
						// the operator edits the file by hand; nothing is reloaded yet
						nc := polGenFile(r, hist)
						os.WriteFile(pr.path, []byte(nc), 0o644)
						emit("pol.touch "+hexs(nc), "ok")
						continue
					}
					fallthrough
				case 1:
					peer := r.pickStr(polKeys)
					emit("pol.ask "+hexs(peer), fmt.Sprintf("allowed=%s suspicious=%s new=%s", b01(pr.p.IsPeerAllowed(peer)), b01(pr.p.IsPeerSuspicious(peer)), b01(pr.p.NewSwapsAllowed())))
				default:
					name, arg := polGenOp(r, hist)
					err := pr.apply(name, arg)
					emit(fmt.Sprintf("pol.op %s %s", name, hexs(arg)), pr.reply(err))
				}
			}
			pr.close()
		}
		sliceStats["policy"] = hist
	}
}

type polStep struct {
	Op  string `json:"op"`
	Arg string `json:"arg,omitempty"`
	Res string `json:"result,omitempty"`
}

// polCause names the feature of the file contents that explains a wrong effect (most specific first)
func polCause(content, op, arg string) string {
	section := false
	alias := false
	for _, l := range strings.Split(content, "\n") {
		t := strings.TrimSpace(l)
		if strings.HasPrefix(t, "[") {
			section = true
		}
		kv := strings.SplitN(t, "=", 2)
		if len(kv) == 2 && !section {
			k, v := strings.TrimSpace(kv[0]), strings.Trim(strings.TrimSpace(kv[1]), "\"")
			if (op == "removeAllow" && k == "PeerAllowlist" || op == "removeSusp" && k == "SuspiciousPeerList") && v == arg {
				alias = true
			}
		}
	}
	switch {
	case alias:
		return "entry-under-go-field-name"
	case section && !strings.HasPrefix(op, "remove"):
		return "section-header-present"
	case content != "" && !strings.HasSuffix(content, "\n"):
		return "unterminated-last-line"
	}
	return "plain-file"
}

func init() {
	monitors["C25"] = func(r *rng, n int, res *MonitorResult) {
		res.Rule = "operation sequences on the real policy.Policy over a real file with generated pre-existing contents (canonical, hand-written spellings, comments, sections, CRLF, unterminated last line, malformed); judged after every operation that starts from a state in which a fresh load of the file equals the policy in memory: (1) an operation returning nil leaves file and memory in agreement (fresh CreateFromFile == memory) and has its stated effect on the next IsPeerAllowed / IsPeerSuspicious / NewSwapsAllowed answer, and leaves every other setting as it was; (2) an operation returning an error leaves the policy in memory AND the file bytes unchanged; (3) a valid operation (well-formed pubkey, not a duplicate / present, path set) does not fail; distinct = distinct (file, op sequence) pairs"
		seen := map[string]bool{}
		hist := res.Histogram
		type polCase struct {
			content string
			ops     [][2]string
		}
		// fixed cases first: the pre-existing contents behind every recorded finding (known and fixed)
		pk0, pk1 := polKeys[0], polKeys[1]
		cases := []polCase{}
		for _, content := range []string{"[x]\n", "allowlisted_peers=" + pk0 + "\n[peers]\n", "allowlisted_peers=" + pk0, "allow_new_swaps=true", "suspicious_peers=" + pk0 + "\r\naccept_all_peers=false",
			"PeerAllowlist=" + pk0 + "\nSuspiciousPeerList=" + pk0 + "\n", "allowlisted_peers = " + pk0 + "\n  suspicious_peers=\"" + pk0 + "\" \n", "\tallowlisted_peers=" + pk0 + " \r\n"} {
			for _, op := range [][2]string{{"addAllow", pk1}, {"addSusp", pk1}, {"removeAllow", pk0}, {"removeSusp", pk0}, {"disable", ""}} {
				cases = append(cases, polCase{content, [][2]string{op, {"enable", ""}, {"reload", ""}}})
			}
		}
		cases = append(cases, polCase{"allow_new_swaps=0\n[x]\n", [][2]string{{"enable", ""}, {"reload", ""}}})
		hist["case:fixed"] = len(cases)
		for i := 0; i < n; i++ {
			c := polCase{content: polGenFile(r, hist)}
			k := 3 + r.intn(10)
			for j := 0; j < k; j++ {
				name, arg := polGenOp(r, hist)
				c.ops = append(c.ops, [2]string{name, arg})
			}
			cases = append(cases, c)
		}
		for _, c := range cases {
			content := c.content
			pr, err := polStart(content, true)
			if err != nil {
				hist["start:file-rejected"]++
				pr.close()
				continue
			}
			var steps []polStep
			key := content
			for _, o := range c.ops {
				name, arg := o[0], o[1]
				before := pr.p.Get()
				beforeFile := pr.fileContent()
				if pr.fresh() != "same" {
					break // a failed operation already left the file unloadable/different; judged there
				}
				err := pr.apply(name, arg)
				cls := polErrClass(err, true)
				after := pr.p.Get()
				steps = append(steps, polStep{name, arg, cls})
				key += "|" + name + ":" + arg
				res.Evaluations++
				hist["op:"+name+" -> "+cls]++
				report := func(sig, what string) {
					full := "C25/" + sig + "/" + polCause(beforeFile, name, arg)
					res.addFinding(full, what,
						map[string]interface{}{"file_before_op": beforeFile, "file_initial": content, "ops": append([]polStep{}, steps...), "file_after": pr.fileContent(), "memory_after": polSummary(after), "memory_before": polSummary(before)})
				}
				validPk := len(arg) == 66 && strings.Trim(arg, "0123456789abcdef") == ""
				in := func(xs []string, x string) bool {
					for _, y := range xs {
						if y == x {
							return true
						}
					}
					return false
				}
				if err != nil {
					if !polSame(before, after) {
						report(name+"/error-but-memory-changed", "an operation that returned an error changed the policy in memory")
					}
					if pr.fileContent() != beforeFile {
						report(name+"/error-but-file-changed", "an operation that returned an error ("+cls+") changed the policy file")
					}
					valid := false
					switch name {
					case "addAllow":
						valid = validPk && !in(before.PeerAllowlist, arg)
					case "addSusp":
						valid = validPk && !in(before.SuspiciousPeerList, arg)
					case "removeAllow":
						valid = validPk && in(before.PeerAllowlist, arg)
					case "removeSusp":
						valid = validPk && in(before.SuspiciousPeerList, arg)
					case "enable", "disable", "reload":
						valid = true
					}
					if valid {
						report(name+"/valid-operation-fails", "a valid operation on a loadable file fails with "+cls)
					}
					continue
				}
				// "invalid pubkeys ... are rejected without changing anything": the four list operations take a node id,
				// 66 lower-case hex digits (the spelling node ids arrive in and are compared in)
				if (name == "addAllow" || name == "addSusp" || name == "removeAllow" || name == "removeSusp") && !validPk {
					res.addFinding("C25/"+name+"/invalid-pubkey-accepted", "a list operation with a malformed pubkey returned nil",
						map[string]interface{}{"pubkey": arg, "file_before_op": beforeFile, "ops": append([]polStep{}, steps...), "file_after": pr.fileContent()})
					continue
				}
				// the textual edit itself: an added option is a complete line of its own at the end
				if line := map[string]string{"addAllow": "allowlisted_peers=" + arg, "addSusp": "suspicious_peers=" + arg, "enable": "allow_new_swaps=true", "disable": "allow_new_swaps=false"}[name]; line != "" && !polSame(before, after) || (name == "addAllow" || name == "addSusp") {
					fa := pr.fileContent()
					if !(fa == line+"\n" || strings.HasSuffix(fa, "\n"+line+"\n")) {
						res.addFinding("C25/"+name+"/option-not-on-its-own-line", "the option written by a successful operation is not a complete line at the end of the file",
							map[string]interface{}{"file_before_op": beforeFile, "ops": append([]polStep{}, steps...), "file_after": fa})
					}
				}
				if f := pr.fresh(); f != "same" {
					report(name+"/ok-but-reload-differs", "after a successful operation a fresh load of the file gives "+f)
				}
				other := func(a, b policy.Policy) bool {
					return a.AcceptAllPeers == b.AcceptAllPeers && a.MinSwapAmountMsat == b.MinSwapAmountMsat && a.ReserveOnchainMsat == b.ReserveOnchainMsat
				}
				same := func(a, b []string) bool { return strings.Join(a, ",") == strings.Join(b, ",") }
				without := func(xs []string, x string) []string {
					var o []string
					for _, y := range xs {
						if y != x {
							o = append(o, y)
						}
					}
					return o
				}
				okEffect := true
				switch name {
				case "addAllow":
					okEffect = same(after.PeerAllowlist, append(append([]string{}, before.PeerAllowlist...), arg)) && same(after.SuspiciousPeerList, before.SuspiciousPeerList) && after.AllowNewSwaps == before.AllowNewSwaps
					if !pr.p.IsPeerAllowed(arg) {
						okEffect = false
					}
				case "addSusp":
					okEffect = same(after.SuspiciousPeerList, append(append([]string{}, before.SuspiciousPeerList...), arg)) && same(after.PeerAllowlist, before.PeerAllowlist) && after.AllowNewSwaps == before.AllowNewSwaps
					if !pr.p.IsPeerSuspicious(arg) {
						okEffect = false
					}
				case "removeAllow":
					okEffect = same(after.PeerAllowlist, without(before.PeerAllowlist, arg)) && same(after.SuspiciousPeerList, before.SuspiciousPeerList) && after.AllowNewSwaps == before.AllowNewSwaps
				case "removeSusp":
					okEffect = same(after.SuspiciousPeerList, without(before.SuspiciousPeerList, arg)) && same(after.PeerAllowlist, before.PeerAllowlist) && after.AllowNewSwaps == before.AllowNewSwaps
				case "enable", "disable":
					okEffect = after.AllowNewSwaps == (name == "enable") && pr.p.NewSwapsAllowed() == (name == "enable") && same(after.PeerAllowlist, before.PeerAllowlist) && same(after.SuspiciousPeerList, before.SuspiciousPeerList)
				case "reload":
					okEffect = polSame(before, after)
				}
				if !okEffect || !other(before, after) {
					report(name+"/ok-but-wrong-effect", "a successful operation does not have its stated effect (or changes another setting)")
				}
			}
			if !seen[key] {
				seen[key] = true
				res.Distinct++
			}
			pr.close()
		}
	}
}
