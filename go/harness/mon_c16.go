package main

import (
	"fmt"
	"strings"
)

// C16: after any prefix the peer goes silent; only local triggers, chain progress and restarts remain.

// quietSuffix is the continuation the property assumes: services answer again, timers fire, the chain
// advances past every window and CSV, watchers report, and the node is restarted from time to time.
func quietSuffix(role string, variant int) []string {
	conf := "confirm"
	if variant%2 == 1 {
		conf = "confirm err" // the watcher reports the window closed instead of a confirmation
	}
	out := []string{"clearfaults"}
	if variant/2%2 == 1 {
		out = append(out, "payout fail") // a claim payment to the silent peer fails
	}
	for round := 0; round < 4; round++ {
		out = append(out, "timeout", "blocks btc 1100", "blocks lbtc 10100", conf, "csv", "restart")
	}
	return out
}

func init() {
	monitors["C16"] = func(r *rng, n int, res *MonitorResult) {
		res.Rule = "all four roles, both chains, on the real machines: EVERY prefix of the honest run, every single-crash placement, the rest-state × stimulus sweep and random disturbed runs (faults, crashes, third-party and invalid messages), each followed by peer silence: faults cleared, then four rounds of [negotiation timer fires if armed, both chains advance beyond every window and CSV, the confirmation watch reports (confirmed / window closed), the CSV watch reports, restart], with the claim payment to the silent peer succeeding or failing; judged at the end: the swap's record is in a terminal state and the swap has left the active map (its channel is free); distinct = distinct (prefix, continuation)"
		var all []scn
		for _, role := range roles {
			for _, chain := range []string{"btc", "lbtc"} {
				base := baseScript(role, chain)
				for cut := 1; cut <= len(base); cut++ {
					for v := 0; v < 4; v++ {
						all = append(all, scn{role: role, steps: cat(base[:cut], quietSuffix(role, v))})
					}
				}
			}
		}
		for _, sc := range crashPlacements(roles) {
			// keep the crash placement, drop the scripted tail after it, go quiet
			steps := sc.steps
			for i, s := range steps {
				if s == "restart" {
					steps = steps[:i+1]
					break
				}
			}
			all = append(all, scn{role: sc.role, steps: cat(steps, quietSuffix(sc.role, r.intn(4)))})
		}
		for _, sc := range sweepScenarios(roles) {
			all = append(all, scn{role: sc.role, steps: cat(sc.steps, quietSuffix(sc.role, r.intn(4)))})
		}
		for i := 0; i < n; i++ {
			role := roles[r.intn(len(roles))]
			all = append(all, scn{role: role, steps: cat(genScenario(r, role, r.intn(3) > 0), quietSuffix(role, r.intn(4)))})
		}
		// one lost reply: the chain back-end accepts the claim / refund, the adapter reports an error once
		for _, chain := range []string{"btc", "lbtc"} {
			blocks := "blocks btc 1008"
			if chain == "lbtc" {
				blocks = "blocks lbtc 10080"
			}
			all = append(all,
				scn{role: "outSender", steps: []string{"new outSender " + chain, "agree", "txmsg", "fault preimage-after down", "confirm"}},
				scn{role: "inReceiver", steps: []string{"new inReceiver " + chain, "txmsg", "fault preimage-after down", "confirm"}},
				scn{role: "inSender", steps: []string{"new inSender " + chain, "agree", blocks, "fault csv-after down", "csv"}},
				scn{role: "outReceiver", steps: []string{"new outReceiver " + chain, "feepaid", blocks, "fault csv-after down", "csv"}},
				// … the cooperative spend reached the chain, its reply was lost: the fallback to the CSV refund
				// double-spends it
				scn{role: "inSender", steps: []string{"new inSender " + chain, "agree", "fault coop-after down", "coop", blocks, "csv"}},
				scn{role: "outReceiver", steps: []string{"new outReceiver " + chain, "feepaid", "fault coop-after down", "coop", blocks, "csv"}})
		}
		seen := map[string]bool{}
		runMany(defaultCfg(), all, func(x scnResult) {
			res.Evaluations++
			k := scenarioKey(x.sc.steps)
			if !seen[k] {
				seen[k] = true
				res.Distinct++
			}
			if x.w.hung {
				step := ""
				for _, o := range x.w.obs {
					if o.Kind == "hang" {
						step = strings.Fields(o.A["s"])[0]
					}
				}
				res.addFinding("C16/"+x.sc.role+"/handler-never-returns/"+step, "a step of the scenario ("+step+") did not return within the watchdog: a handler or the recovery is blocked, the swap cannot move any more", map[string]interface{}{"scenario": k})
				return
			}
			if x.ctx.id == "" {
				res.Histogram["no swap created"]++
				return
			}
			final := x.ctx.state()
			_, active := x.w.svc.VerifActiveSwaps()[x.ctx.id]
			rec := x.w.swapRecordJSON(x.ctx.id)
			if rec == "" {
				res.Histogram["no record (refused before the first write)"]++
				if active {
					res.addFinding("C16/"+x.sc.role+"/active-without-record", "a swap without a record stays in the active map", map[string]interface{}{"scenario": k})
				}
				return
			}
			res.Histogram["final "+strings.TrimPrefix(final, "State_")]++
			if !finishedState(final) || active {
				st := final
				if st == "" {
					st = "initial"
				}
				// a claim / refund that reached the chain while the node never learnt it (crash or lost reply between
				// the broadcast and the store write): every later attempt double-spends the node's own transaction
				for _, o := range x.w.obs {
					if o.Kind == "spend-unrecorded" {
						st += "/after-unrecorded-" + o.A["tx"] + "-broadcast"
						break
					}
				}
				res.addFinding(fmt.Sprintf("C16/%s/not-terminated/%s", x.sc.role, strings.TrimPrefix(st, "State_")),
					fmt.Sprintf("after the peer went silent the swap rests in %s (active=%v) through timers, chain progress and four restarts", st, active), map[string]interface{}{"scenario": k})
			}
		})
	}
}
