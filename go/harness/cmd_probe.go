package main

import (
	"crypto/sha256"
	"encoding/hex"
	"github.com/elementsproject/peerswap/messages"

	"github.com/elementsproject/peerswap/onchain"
	"github.com/elementsproject/peerswap/swap"
	"github.com/vulpemventures/go-elements/elementsutil"
	"github.com/vulpemventures/go-elements/network"
	"github.com/vulpemventures/go-elements/transaction"
	"sync"
	"sync/atomic"

	"context"
	goelectrum "github.com/checksum0/go-electrum/electrum"
	"github.com/elementsproject/peerswap/lwk"

	"fmt"
	"github.com/elementsproject/peerswap/txwatcher"
	"os"
	"strings"
	"time"
)

// probes used while developing C09/C10 (kept as `psharness probe <name>`)
func cmdProbe(name string) {
	w := newWorld(defaultCfg())
	defer w.close()
	switch name {
	case "c10":
		a := newCtx(w)
		a.scid = "100x1x0"
		fmt.Println("local swap-in on 100x1x0:", a.Step("new inSender btc scid=100x1x0"), a.state())
		b := newCtx(w)
		fmt.Println("incoming swap-out request on 100:1:0:", b.Step("new outReceiver btc scid=100:1:0"), b.state())
		fmt.Println("active:", w.svc.VerifActiveSwaps())
	case "c10-fresh":
		// SwapOut() preempted right after lockSwap (before its first event), then a peer request on the same channel
		id, err := w.svc.VerifLockFresh("100x1x0", selfNode, peerNode, true)
		fmt.Println("local swap-out locked on 100x1x0 (first event not yet sent):", id[:8], err)
		b := newCtx(w)
		fmt.Println("incoming swap-out request on 100x1x0:", b.Step("new outReceiver btc scid=100x1x0"), b.state())
		fmt.Println("active:", len(w.svc.VerifActiveSwaps()))
	case "c16-default":
		// crash between the first persist (request data applied, state still Default) and the first transition
		a := newCtx(w)
		a.Step("crash 1")
		fmt.Println("local swap-out, process dies after the first store write:", a.Step("new outSender btc"))
		fmt.Println("record:", w.swapRecordJSON(a.id) != "", "state:", a.state())
		for i := 0; i < 3; i++ {
			a.Step("restart")
			fmt.Println("after restart", i+1, "active:", w.svc.VerifActiveSwaps())
		}
		b := newCtx(w)
		fmt.Println("new swap-out on the same channel:", b.Step("new outSender btc"))
	case "c18-csv-real":
		// the same with the REAL BlockchainRpcTxWatcher (scripted RPC: the output is 1101 blocks deep)
		rpc := &fakeRpc{}
		rpc.set(rpcView{rpcHeight: 800000, txout: &txwatcher.TxOutResp{BestBlockHash: "match", Confirmations: 1}})
		w.realBtcWatcher = txwatcher.NewBlockchainRpcTxWatcher(context.Background(), rpc, 3)
		w.boot(true, true)
		a := newCtx(w)
		fmt.Println("swap-in, opening broadcast:", a.Step("new inSender btc"), a.Step("agree"), a.state())
		rpc.set(rpcView{rpcHeight: 801100, txout: &txwatcher.TxOutResp{BestBlockHash: "match", Confirmations: 1101}})
		done := make(chan string, 1)
		go func() { done <- a.Step("cancel") }()
		select {
		case r := <-done:
			fmt.Println("cancel handled:", r, a.state())
		case <-time.After(3 * time.Second):
			fmt.Println("cancel NOT handled after 3 s: the handler is blocked (deadlock)")
			os.Exit(0)
		}
	case "c18-inversion":
		// REAL watcher, REAL service.  The maker waits for the claim payment with its CSV watch registered.
		// G2: the taker's cancel arrives: SendEvent (swap mutex held) -> WaitCsv -> AwaitCsvAction -> AddWaitForCsvTx,
		//     which asks the node (not mature yet) and then needs the watcher's lock to register.
		// G1: a block arrives with which the CSV matures: HandleCsvTx takes the watcher's lock, finds the output
		//     mature and calls back into the swap (needs the swap mutex).
		rpc := &fakeRpc{}
		rpc.set(rpcView{rpcHeight: 800000, txout: &txwatcher.TxOutResp{BestBlockHash: "match", Confirmations: 1}})
		rw := txwatcher.NewBlockchainRpcTxWatcher(context.Background(), rpc, 3)
		w.realBtcWatcher = rw
		w.boot(true, true)
		a := newCtx(w)
		fmt.Println("swap-in, opening broadcast:", a.Step("new inSender btc"), a.Step("agree"), a.state())
		g2AtNode, g1Done, release := make(chan bool, 1), make(chan bool, 1), make(chan bool)
		rpc.mu.Lock()
		rpc.txOutHook = func(n int) (*txwatcher.TxOutResp, error) {
			if n == 1 { // G2: AddWaitForCsvTx asks first
				g2AtNode <- true
				<-release
				return &txwatcher.TxOutResp{Confirmations: 1007}, nil
			}
			return &txwatcher.TxOutResp{Confirmations: 1008}, nil // G1: the new block made it mature
		}
		rpc.mu.Unlock()
		done := make(chan string, 1)
		go func() { done <- a.Step("cancel") }()
		<-g2AtNode
		go func() { rw.HandleCsvTx(801008); g1Done <- true }()
		time.Sleep(100 * time.Millisecond) // G1 is now inside the callback (or, unfixed, holds the watcher lock there)
		close(release)
		select {
		case r := <-done:
			<-g1Done
			time.Sleep(50 * time.Millisecond)
			fmt.Println("cancel handled:", r, "block handled; final state:", a.state())
		case <-time.After(3 * time.Second):
			fmt.Println("cancel NOT handled after 3 s: message handler and block handler wait for each other (deadlock)")
			os.Exit(0)
		}
	case "c18-electrum":
		// the same inversion with the REAL LWK/Electrum watcher: Update calls the observers (G1), a cancel is
		// handled at the same time and registers a new CSV observer (G2)
		fe := &fakeElectrum{headers: make(chan *goelectrum.SubscribeHeadersResult, 8)}
		fe.headers <- &goelectrum.SubscribeHeadersResult{Height: 2000000}
		lw, _ := lwk.NewElectrumTxWatcher(fe)
		w.realLbtcWatcher = lw
		w.boot(true, true)
		if err := lw.StartWatchingTxs(); err != nil {
			fmt.Println("start:", err)
		}
		a := newCtx(w)
		fmt.Println("swap-in on Liquid, opening broadcast:", a.Step("new inSender lbtc"), a.Step("agree"), a.state())
		rec, _ := w.store.inner.GetData(a.id)
		txid := rec.Data.OpeningTxBroadcasted.TxId
		g1AtServer, release := make(chan bool, 1), make(chan bool)
		var once sync.Once
		fe.histHook = func() ([]*goelectrum.GetMempoolResult, error) {
			once.Do(func() { g1AtServer <- true; <-release })
			return []*goelectrum.GetMempoolResult{{Hash: txid, Height: 2000001}}, nil
		}
		fe.headers <- &goelectrum.SubscribeHeadersResult{Height: 2010081} // G1: a block with which the CSV matures
		<-g1AtServer
		done := make(chan string, 1)
		go func() { done <- a.Step("cancel") }() // G2
		time.Sleep(100 * time.Millisecond)
		close(release)
		select {
		case r := <-done:
			time.Sleep(100 * time.Millisecond)
			fmt.Println("cancel handled:", r, "final state:", a.state())
		case <-time.After(3 * time.Second):
			fmt.Println("cancel NOT handled after 3 s: header handler and message handler wait for each other (deadlock)")
			os.Exit(0)
		}
	case "c01-liquid":
		lq := onchain.NewLiquidOnChain(nil, &network.Regtest)
		taker, maker := detKey("t"), detKey("m")
		h := sha256.Sum256([]byte("p"))
		bk := detKey("blind")
		params := &swap.OpeningParams{TakerPubkey: hex.EncodeToString(taker.PubKey().SerializeCompressed()), MakerPubkey: hex.EncodeToString(maker.PubKey().SerializeCompressed()),
			ClaimPaymentHash: hex.EncodeToString(h[:]), Amount: 100000, CSV: 10080, BlindingKey: bk}
		script, err := lq.GetOutputScript(params)
		fmt.Println("script", len(script), err)
		asset := append([]byte{0x01}, elementsutil.ReverseBytes(h2bytes(network.Regtest.AssetID))...)
		val, _ := elementsutil.ValueToBytes(100000)
		tx := transaction.NewTx(2)
		tx.AddOutput(transaction.NewTxOutput(asset, val, script))
		hx, err := tx.ToHex()
		fmt.Println("txhex", len(hx), err)
		ok, err := lq.ValidateTx(params, hx)
		fmt.Println("validate explicit output:", ok, err)
	case "c16-nilid":
		// a swap_in_request without swap id, naming somebody's channel, from a third party
		a := newCtx(w)
		payload := `{"protocol_version":7,"network":"regtest","scid":"100x1x0","amount":1000000,"pubkey":"` + hex.EncodeToString(a.peerKey.PubKey().SerializeCompressed()) + `","premium_limit":1000000}`
		fmt.Println("request without swap id from a third party:", a.deliverRaw(thirdNode, messages.MessageTypeToHexString(messages.MESSAGETYPE_SWAPINREQUEST), []byte(payload)))
		fmt.Println("active entries:", w.svc.VerifActiveSwaps())
		b := newCtx(w)
		fmt.Println("the channel partner's own request on that channel:", b.Step("new inReceiver btc scid=100x1x0"), b.state())
		_, err := w.svc.SwapOut(peerNode, "btc", "100:1:0", selfNode, 1000000, 50000)
		fmt.Println("local swap-out on that channel:", err)
		fmt.Println("after the negotiation timeout:", a.Step("timeout"), w.svc.VerifActiveSwaps())
	case "c09-toctou":
		// two swap-in requests with the SAME id: the second passes the "id known?" test, then waits in a Lightning
		// RPC; meanwhile the first is admitted, cancelled by the peer and finished; then the second goes on
		id := strings.Repeat("ab", 32)
		a, b := newCtx(w), newCtx(w)
		reached, gate := make(chan bool, 1), make(chan bool)
		var first int32
		w.setHook("canspend", func() {
			if atomic.CompareAndSwapInt32(&first, 0, 1) {
				reached <- true
				<-gate
			}
		})
		done := make(chan string, 1)
		go func() { done <- b.Step("new inReceiver btc scid=777x1x0 amt=2000000 id=" + id) }()
		<-reached
		fmt.Println("first request:", a.Step("new inReceiver btc id="+id), a.state())
		fmt.Println("peer cancels it:", a.Step("cancel"), a.state())
		before := w.swapRecordJSON(id)
		close(gate)
		fmt.Println("second request (same id, other channel, other amount) continues:", <-done, b.state())
		after := w.swapRecordJSON(id)
		fmt.Println("record of the finished swap replaced:", before != after)
	case "c09-id":
		a := newCtx(w)
		fmt.Println("incoming swap-out request:", a.Step("new outReceiver btc"), a.state())
		before := w.swapRecordJSON(a.id)
		b := newCtx(w)
		fmt.Println("second request, same id, other channel:", b.Step("new inReceiver btc scid=777x1x0 id="+a.id), b.state())
		after := w.swapRecordJSON(a.id)
		fmt.Println("record changed:", before != after, "active:", len(w.svc.VerifActiveSwaps()))
	case "c09-apply":
		a := newCtx(w)
		fmt.Println("local swap-out:", a.Step("new outSender btc"), a.state())
		before := w.swapRecordJSON(a.id)
		a.role = "inSender" // make `agree` build a swap_in_agreement
		fmt.Println("peer sends swap_in_agreement:", a.Step("agree"), a.state())
		after := w.swapRecordJSON(a.id)
		fmt.Println("record changed by a message the state does not accept:", before != after)
		a.role = "outSender"
		fmt.Println("peer sends the real agreement:", a.Step("agree"), a.state(), a.panics)
	}
	for _, o := range w.obs {
		if o.Kind == "send" || o.Kind == "panic" {
			fmt.Println("  ", strings.TrimSpace(o.String()))
		}
	}
}

func h2bytes(s string) []byte {
	b, _ := hex.DecodeString(s)
	return b
}
