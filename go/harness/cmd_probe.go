package main

import (
	"fmt"
	"strings"
)

// probes used while developing C09/C10 (kept as `psharness probe <name>`)
func cmdProbe(name string) {
	w := newWorld(defaultCfg())
	defer w.close()
	switch name {
	case "c10":
		a := newCtx(w)
		a.scid = "100x1x0"
		fmt.Println("local swap-in on 100x1x0:", a.Step("new inSender btc scid=100x1x0"), a.state())
		b := newCtx(w)
		fmt.Println("incoming swap-out request on 100:1:0:", b.Step("new outReceiver btc scid=100:1:0"), b.state())
		fmt.Println("active:", w.svc.VerifActiveSwaps())
	case "c10-fresh":
		// SwapOut() preempted right after lockSwap (before its first event), then a peer request on the same channel
		id, err := w.svc.VerifLockFresh("100x1x0", selfNode, peerNode, true)
		fmt.Println("local swap-out locked on 100x1x0 (first event not yet sent):", id[:8], err)
		b := newCtx(w)
		fmt.Println("incoming swap-out request on 100x1x0:", b.Step("new outReceiver btc scid=100x1x0"), b.state())
		fmt.Println("active:", len(w.svc.VerifActiveSwaps()))
	case "c16-default":
		// crash between the first persist (request data applied, state still Default) and the first transition
		a := newCtx(w)
		a.Step("crash 1")
		fmt.Println("local swap-out, process dies after the first store write:", a.Step("new outSender btc"))
		fmt.Println("record:", w.swapRecordJSON(a.id) != "", "state:", a.state())
		for i := 0; i < 3; i++ {
			a.Step("restart")
			fmt.Println("after restart", i+1, "active:", w.svc.VerifActiveSwaps())
		}
		b := newCtx(w)
		fmt.Println("new swap-out on the same channel:", b.Step("new outSender btc"))
	case "c09-id":
		a := newCtx(w)
		fmt.Println("incoming swap-out request:", a.Step("new outReceiver btc"), a.state())
		before := w.swapRecordJSON(a.id)
		b := newCtx(w)
		fmt.Println("second request, same id, other channel:", b.Step("new inReceiver btc scid=777x1x0 id="+a.id), b.state())
		after := w.swapRecordJSON(a.id)
		fmt.Println("record changed:", before != after, "active:", len(w.svc.VerifActiveSwaps()))
	case "c09-apply":
		a := newCtx(w)
		fmt.Println("local swap-out:", a.Step("new outSender btc"), a.state())
		before := w.swapRecordJSON(a.id)
		a.role = "inSender" // make `agree` build a swap_in_agreement
		fmt.Println("peer sends swap_in_agreement:", a.Step("agree"), a.state())
		after := w.swapRecordJSON(a.id)
		fmt.Println("record changed by a message the state does not accept:", before != after)
		a.role = "outSender"
		fmt.Println("peer sends the real agreement:", a.Step("agree"), a.state(), a.panics)
	}
	for _, o := range w.obs {
		if o.Kind == "send" || o.Kind == "panic" {
			fmt.Println("  ", strings.TrimSpace(o.String()))
		}
	}
}
