package main

import (
	"bytes"
	"encoding/hex"
	"encoding/json"
	"fmt"
	"strings"

	"github.com/btcsuite/btcd/btcec/v2"
	btecdsa "github.com/btcsuite/btcd/btcec/v2/ecdsa"
	"github.com/btcsuite/btcd/btcutil"
	"github.com/btcsuite/btcd/chaincfg"
	"github.com/btcsuite/btcd/txscript"
	"github.com/btcsuite/btcd/wire"
	"github.com/elementsproject/peerswap/messages"
	"github.com/elementsproject/peerswap/onchain"
	"github.com/elementsproject/peerswap/swap"
	"github.com/vulpemventures/go-elements/address"
	"github.com/vulpemventures/go-elements/confidential"
	"github.com/vulpemventures/go-elements/elementsutil"
	"github.com/vulpemventures/go-elements/transaction"
)

// C03 / C08 at the level of the whole node: the real state machines run on the REAL wallet adapters (lnd.Client
// over fake gRPC clients, LiquidOnChain over a fake wallet); every transaction the node hands to its wallet back-end
// and every opening_tx_broadcasted message it sends is judged here.

func realWalletCfg(before, after []planOut, nIn int) *WorldCfg {
	c := defaultCfg()
	c.RealWallets = true
	c.FundPlan = fundPlan{nIn: nIn, before: before, after: after, nested: nIn == 2}
	var plan []lqOutSpec
	for i, o := range before {
		s := lqOutSpec{script: 1 + i%3, kind: "C", policy: true, value: uint64(o.value)}
		if o.sameValue {
			s.value = 0 // patched to the amount by the wallet fake (value 0 = same as the swap output)
		}
		plan = append(plan, s)
	}
	plan = append(plan, lqOutSpec{script: -1})
	for i, o := range after {
		plan = append(plan, lqOutSpec{script: 1 + i%3, kind: "E", policy: true, value: uint64(o.value)})
	}
	c.LqPlan = plan
	return &c
}

// swapFacts: what the harness knows about the scenario's swap independently of the node's wallet code
type swapFacts struct {
	taker, maker *btcec.PublicKey
	takerHex     string
	makerHex     string
	hash         string
	csv          uint32
	openSat      uint64
	claimSat     uint64
	redeem       []byte
	pkScript     []byte
	ok           bool
}

func (c *Ctx) facts() swapFacts {
	var f swapFacts
	node := c.nodePubkey()
	peer := hex.EncodeToString(c.peerKey.PubKey().SerializeCompressed())
	if node == "" {
		return f
	}
	premium := int64(0)
	switch c.role {
	case "outSender", "inReceiver":
		f.takerHex, f.makerHex = node, peer
		f.hash = c.claimHash
	default:
		f.takerHex, f.makerHex = peer, node
		for _, inv := range c.w.ln.invoices {
			if inv.ours && inv.kind == swap.INVOICE_CLAIM && inv.swapId == c.id {
				f.hash = inv.hash
			}
		}
	}
	switch c.role {
	case "outSender":
		premium = c.premium
		f.openSat, f.claimSat = c.amount, uint64(int64(c.amount)+premium)
	case "outReceiver":
		var ag swap.SwapOutAgreementMessage
		if p := c.lastSent(messages.MESSAGETYPE_SWAPOUTAGREEMENT); p != nil {
			json.Unmarshal(p, &ag)
		}
		f.openSat, f.claimSat = c.amount, uint64(int64(c.amount)+ag.Premium)
	case "inReceiver":
		var ag swap.SwapInAgreementMessage
		if p := c.lastSent(messages.MESSAGETYPE_SWAPINAGREEMENT); p != nil {
			json.Unmarshal(p, &ag)
		}
		f.openSat, f.claimSat = uint64(int64(c.amount)+ag.Premium), c.amount
	case "inSender":
		f.openSat, f.claimSat = uint64(int64(c.amount)+c.premium), c.amount
	}
	f.csv = c.csvFor()
	if f.hash == "" {
		return f
	}
	tb, _ := hex.DecodeString(f.takerHex)
	mb, _ := hex.DecodeString(f.makerHex)
	var err error
	if f.taker, err = btcec.ParsePubKey(tb); err != nil {
		return f
	}
	if f.maker, err = btcec.ParsePubKey(mb); err != nil {
		return f
	}
	f.redeem, err = onchain.ParamsToTxScript(&swap.OpeningParams{TakerPubkey: f.takerHex, MakerPubkey: f.makerHex, ClaimPaymentHash: f.hash}, f.csv)
	if err != nil {
		return f
	}
	f.pkScript = p2wsh(f.redeem)
	f.ok = true
	return f
}

// the opening transaction of the scenario's swap: the node's own (maker) or the announced one (taker)
func (c *Ctx) openingRaw() string {
	if isTaker(c.role) {
		return c.openingHex
	}
	if c.chain == "lbtc" {
		return c.w.rw.lqw.opened
	}
	if len(c.w.rw.lnd.wk.published) > 0 {
		return hex.EncodeToString(c.w.rw.lnd.wk.published[0])
	}
	return ""
}

func witnessKind(n int) string {
	switch n {
	case 5:
		return "preimage"
	case 2:
		return "csv"
	case 4:
		return "coop"
	}
	return fmt.Sprintf("witness-of-%d", n)
}

// judgeC03: every spending transaction handed to the wallet back-end
func judgeC03(x scnResult, res *MonitorResult) {
	c, w := x.ctx, x.w
	if w.rw == nil || c == nil {
		return
	}
	f := c.facts()
	in := map[string]interface{}{"scenario": scenarioKey(x.sc.steps), "role": x.sc.role, "fund_plan": fmt.Sprintf("%+v", w.cfg.FundPlan)}
	bad := func(sig, what string) { res.addFinding("C03/"+c.chain+"/"+sig, what, in) }
	peerGaveWrongKey := false
	for _, s := range x.sc.steps {
		if strings.HasPrefix(s, "coop wrongkey") {
			peerGaveWrongKey = true
		}
	}
	if c.chain == "btc" {
		pubs := w.rw.lnd.wk.published
		if !isTaker(c.role) && len(pubs) > 0 {
			pubs = pubs[1:] // the first one is the opening transaction
		}
		if len(pubs) == 0 {
			return
		}
		opening := wire.NewMsgTx(2)
		if raw, err := hex.DecodeString(c.openingRaw()); err != nil || opening.Deserialize(bytes.NewReader(raw)) != nil || !f.ok {
			bad("spend-without-known-opening", "a spending transaction was published but the opening transaction or the swap's facts are unknown")
			return
		}
		for _, raw := range pubs {
			tx := wire.NewMsgTx(2)
			if tx.Deserialize(bytes.NewReader(raw)) != nil || len(tx.TxIn) != 1 {
				bad("malformed-spend", "published spending transaction does not parse or has not exactly one input")
				continue
			}
			tin := tx.TxIn[0]
			kind := witnessKind(len(tin.Witness))
			res.Histogram["btc "+kind+" spend"]++
			idx := int(tin.PreviousOutPoint.Index)
			switch {
			case tin.PreviousOutPoint.Hash != opening.TxHash():
				bad(kind+"/spends-other-transaction", "the spend does not reference the opening transaction")
				continue
			case idx >= len(opening.TxOut) || !bytes.Equal(opening.TxOut[idx].PkScript, f.pkScript) || opening.TxOut[idx].Value != int64(f.openSat):
				bad(kind+"/spends-other-output", fmt.Sprintf("the spend references output %d, which is not the swap output (amount and script)", idx))
				continue
			}
			prev := opening.TxOut[idx]
			if !btcEngineOK(tx, prev) {
				if kind == "coop" && peerGaveWrongKey {
					// the peer's coop_close carried a well-formed key that is not the key behind the taker pubkey: the node
					// must not sign and publish with it. A validating back-end refuses the transaction (the node then
					// waits for the CSV), one that cannot validate (LND over neutrino) accepts it: the swap ends in
					// ClaimedCoop with the funds still locked and no CSV refund ever built.
					res.Histogram["btc coop spend signed with the peer's wrong key"]++
					bad("coop/signed-with-a-key-that-is-not-the-taker-key", "the node signed and published a cooperative spend with the key from the peer's coop_close although that key does not belong to the taker pubkey of the opening script: the script engine rejects the transaction")
				} else {
					bad(kind+"/script-not-satisfied", "btcd's script engine (standard flags) rejects the spend of the swap output")
				}
			}
			if len(tin.Witness) == 0 || !bytes.Equal(tin.Witness[len(tin.Witness)-1], f.redeem) {
				bad(kind+"/witness-script", "the witness script is not the opening script of this swap")
			}
			wantSeq := uint32(0)
			if kind == "csv" {
				wantSeq = f.csv
			}
			if tin.Sequence != wantSeq || tx.Version != 2 {
				bad(kind+"/sequence", fmt.Sprintf("sequence %d version %d, expected %d and 2", tin.Sequence, tx.Version, wantSeq))
			}
			size := int64(82 + 74)
			if kind == "coop" {
				size = 250
			}
			fee, _ := w.rw.lnd.chain.GetFee(size)
			toWallet := false
			if len(tx.TxOut) == 1 {
				for _, a := range w.rw.lnd.ln.addrs {
					if ad, err := btcutil.DecodeAddress(a, &chaincfg.RegressionNetParams); err == nil {
						if s, _ := txscript.PayToAddrScript(ad); bytes.Equal(s, tx.TxOut[0].PkScript) {
							toWallet = true
						}
					}
				}
			}
			switch {
			case len(tx.TxOut) != 1:
				bad(kind+"/outputs", fmt.Sprintf("%d outputs instead of one", len(tx.TxOut)))
			case !toWallet:
				bad(kind+"/not-to-own-wallet", "the output does not pay to an address the node's wallet handed out")
			case tx.TxOut[0].Value != prev.Value-200-int64(fee):
				bad(kind+"/value", fmt.Sprintf("pays %d of %d: more than the fee %d (+200) is deducted", tx.TxOut[0].Value, prev.Value, fee))
			}
		}
		return
	}
	// Liquid
	sent := w.rw.lqw.sent
	if len(sent) == 0 {
		return
	}
	opening, err := transaction.NewTxFromHex(c.openingRaw())
	if err != nil || !f.ok {
		bad("spend-without-known-opening", "a spending transaction was sent but the opening transaction or the swap's facts are unknown")
		return
	}
	oh := opening.TxHash()
	for _, raw := range sent {
		tx, err := transaction.NewTxFromHex(raw)
		if err != nil || len(tx.Inputs) != 1 {
			bad("malformed-spend", "sent spending transaction does not parse or has not exactly one input")
			continue
		}
		tin := tx.Inputs[0]
		kind := witnessKind(len(tin.Witness))
		res.Histogram["lbtc "+kind+" spend"]++
		idx := int(tin.Index)
		if !bytes.Equal(tin.Hash, oh[:]) {
			bad(kind+"/spends-other-transaction", "the spend does not reference the opening transaction")
			continue
		}
		if idx >= len(opening.Outputs) || !bytes.Equal(opening.Outputs[idx].Script, f.pkScript) {
			bad(kind+"/spends-other-output", fmt.Sprintf("the spend references output %d, which does not carry the swap script", idx))
			continue
		}
		prev := opening.Outputs[idx]
		if len(tin.Witness) == 0 || !bytes.Equal(tin.Witness[len(tin.Witness)-1], f.redeem) {
			bad(kind+"/witness-script", "the witness script is not the opening script of this swap")
			continue
		}
		h := tx.HashForWitnessV0(0, f.redeem, prev.Value, txscript.SigHashAll)
		sigOK := func(sig []byte, key *btcec.PublicKey) bool {
			if len(sig) < 2 || sig[len(sig)-1] != byte(txscript.SigHashAll) {
				return false
			}
			s, perr := btecdsa.ParseDERSignature(sig[:len(sig)-1])
			return perr == nil && s.Verify(h[:], key)
		}
		pre, _ := hex.DecodeString(c.claimPre)
		shapeOK := false
		switch kind {
		case "preimage":
			shapeOK = sigOK(tin.Witness[0], f.taker) && bytes.Equal(tin.Witness[1], pre) && len(pre) == 32 && len(tin.Witness[2]) == 0 && len(tin.Witness[3]) == 0
		case "csv":
			shapeOK = sigOK(tin.Witness[0], f.maker)
		case "coop":
			shapeOK = sigOK(tin.Witness[0], f.taker) && sigOK(tin.Witness[1], f.maker) && len(tin.Witness[2]) == 0
		}
		if !shapeOK && kind == "coop" && peerGaveWrongKey {
			res.Histogram["lbtc coop spend signed with the peer's wrong key"]++
			bad("coop/signed-with-a-key-that-is-not-the-taker-key", "the node signed and broadcast a cooperative spend with the key from the peer's coop_close although that key does not belong to the taker pubkey of the opening script")
		} else if !shapeOK {
			bad(kind+"/script-not-satisfied", "the witness is not one of the three accepted shapes with signatures valid for the Elements sighash of the spent output")
		}
		wantSeq := uint32(0)
		if kind == "csv" {
			wantSeq = f.csv
		}
		if tin.Sequence != wantSeq || tx.Version != 2 {
			bad(kind+"/sequence", fmt.Sprintf("sequence %d version %d, expected %d and 2", tin.Sequence, tx.Version, wantSeq))
		}
		fee := w.rw.lqw.fee
		okOut := false
		if len(tx.Outputs) == 2 {
			for i, a := range w.rw.lqw.addrs {
				s, err := address.ToOutputScript(a)
				if err != nil || !bytes.Equal(s, tx.Outputs[0].Script) {
					continue
				}
				ub, err := confidential.UnblindOutputWithKey(tx.Outputs[0], w.rw.lqw.blindKeys[i].Serialize())
				if err == nil && bytes.Equal(ub.Asset, lqPolicy()) && ub.Value == f.openSat-fee {
					okOut = true
				}
			}
			fv, ferr := elementsutil.ValueFromBytes(tx.Outputs[1].Value)
			if ferr != nil || fv != fee || len(tx.Outputs[1].Script) != 0 {
				okOut = false
			}
		}
		if !okOut {
			bad(kind+"/outputs", "not exactly: one output of amount − fee in the policy asset to the node's own wallet (unblindable with its key) plus the explicit fee output")
		}
	}
}

// judgeC08: the opening_tx_broadcasted message against the transaction handed to the wallet back-end and the
// invoice created in the Lightning back-end
func judgeC08(x scnResult, res *MonitorResult) {
	c, w := x.ctx, x.w
	if w.rw == nil || c == nil || isTaker(c.role) {
		return
	}
	payload := c.lastSent(messages.MESSAGETYPE_OPENINGTXBROADCASTED)
	if payload == nil {
		return
	}
	var m swap.OpeningTxBroadcastedMessage
	if json.Unmarshal(payload, &m) != nil {
		return
	}
	f := c.facts()
	in := map[string]interface{}{"scenario": scenarioKey(x.sc.steps), "role": x.sc.role, "fund_plan": fmt.Sprintf("%+v", w.cfg.FundPlan), "script_out": m.ScriptOut}
	bad := func(sig, what string) { res.addFinding("C08/"+c.chain+"/"+sig, what, in) }
	res.Histogram[c.chain+" message"]++
	if !f.ok {
		bad("facts", "the swap's keys / invoice are unknown to the harness")
		return
	}
	raw := c.openingRaw()
	if c.chain == "btc" {
		tx := wire.NewMsgTx(2)
		b, _ := hex.DecodeString(raw)
		if raw == "" || tx.Deserialize(bytes.NewReader(b)) != nil {
			bad("no-broadcast", "a message was sent but no opening transaction reached the wallet back-end")
			return
		}
		if tx.TxHash().String() != m.TxId {
			bad("txid", "the message's txid is not the id of the broadcast transaction")
		}
		i := int(m.ScriptOut)
		if i >= len(tx.TxOut) || !bytes.Equal(tx.TxOut[i].PkScript, f.pkScript) || tx.TxOut[i].Value != int64(f.openSat) {
			bad("script-out", fmt.Sprintf("output %d of the broadcast transaction is not the swap output (amount %d to the script of both keys, the invoice's hash and the CSV)", i, f.openSat))
		} else {
			res.Histogram[fmt.Sprintf("btc swap output at index %d", i)]++
		}
		if m.BlindingKey != "" {
			bad("blinding-key", "a Bitcoin message carries a blinding key")
		}
	} else {
		tx, err := transaction.NewTxFromHex(raw)
		if raw == "" || err != nil {
			bad("no-broadcast", "a message was sent but no opening transaction reached the wallet back-end")
			return
		}
		if tx.TxHash().String() != m.TxId {
			bad("txid", "the message's txid is not the id of the broadcast transaction")
		}
		i := int(m.ScriptOut)
		bk, _ := hex.DecodeString(m.BlindingKey)
		switch {
		case i >= len(tx.Outputs) || !bytes.Equal(tx.Outputs[i].Script, f.pkScript):
			bad("script-out", fmt.Sprintf("output %d of the broadcast transaction does not carry the swap script", i))
		default:
			ub, err := confidential.UnblindOutputWithKey(tx.Outputs[i], bk)
			if err != nil || ub.Value != f.openSat || !bytes.Equal(ub.Asset, lqPolicy()) {
				bad("blinding-key", "the message's blinding key does not unblind the announced output to the swap amount in the policy asset")
			} else {
				res.Histogram[fmt.Sprintf("lbtc swap output at index %d", i)]++
			}
		}
	}
	inv := w.ln.invoices[m.Payreq]
	wantExp, wantCltv := uint64(86400), int64(503)
	if c.chain == "lbtc" {
		wantExp, wantCltv = 3600, 29
	}
	switch {
	case inv == nil || !inv.ours || inv.kind != swap.INVOICE_CLAIM:
		bad("invoice", "the message's payreq is not a claim invoice the node created")
	case inv.msat != f.claimSat*1000:
		bad("invoice-amount", fmt.Sprintf("invoice for %d msat, claim amount is %d sat", inv.msat, f.claimSat))
	case inv.hash != f.hash:
		bad("invoice-hash", "the invoice's payment hash is not the one locked in the output")
	case inv.expiry != wantExp || inv.cltv != wantCltv:
		bad("invoice-params", fmt.Sprintf("expiry %d / final CLTV %d, expected %d / %d", inv.expiry, inv.cltv, wantExp, wantCltv))
	}
}

// realWalletScenarios: every role × chain × way the swap ends on chain, under wallet funding plans that move the
// swap output around (change before / after, change of the same value, a second payment to the same address)
func realWalletScenarios(r *rng, n int) []scn {
	plans := []struct {
		before, after []planOut
		nIn           int
	}{
		{nil, nil, 1},
		{[]planOut{{value: 7777}}, nil, 2},
		{nil, []planOut{{value: 123456}}, 1},
		{[]planOut{{value: 546}, {value: 99999}}, []planOut{{value: 5}}, 3},
		{[]planOut{{sameValue: true}}, nil, 1},               // change that equals the swap amount, in front
		{nil, []planOut{{sameValue: true}}, 1},               // … behind
		{[]planOut{{value: 4242, sameScript: true}}, nil, 1}, // another payment to the swap address, other amount
		{[]planOut{{value: 1}, {sameValue: true}, {value: 2}}, []planOut{{sameValue: true}}, 2},
	}
	var all []scn
	for _, chain := range []string{"btc", "lbtc"} {
		blocks := "blocks btc 1008"
		if chain == "lbtc" {
			blocks = "blocks lbtc 10080"
		}
		ends := map[string][][]string{
			"outReceiver": {{"claimpaid"}, {"coop"}, {blocks, "csv"}, {"cancel"}, {blocks, "csv", "restart", "csv"}, {"coop wrongkey", blocks, "csv"}},
			"inSender":    {{"claimpaid"}, {"coop"}, {blocks, "csv"}, {"cancel"}, {"restart", "coop"}, {"coop wrongkey", blocks, "csv"}},
			"outSender":   {{"confirm"}, {"confirm", "restart", "confirm"}},
			"inReceiver":  {{"confirm"}},
		}
		for role, es := range ends {
			for _, end := range es {
				for pi, p := range plans {
					if isTaker(role) && pi > 3 {
						continue
					}
					base := baseScript(role, chain)
					base = base[:len(base)-1]
					steps := append(append([]string{}, base...), end...)
					if isTaker(role) {
						for j, s := range steps {
							if s == "txmsg" {
								steps[j] = fmt.Sprintf("txmsg pos=%d", pi%3)
							}
						}
					}
					all = append(all, scn{role: role, steps: steps, cfg: realWalletCfg(p.before, p.after, p.nIn)})
				}
			}
		}
	}
	dist := []string{"restart", "timeout", "cancel", "coop", "csv", "claimpaid", "confirm", "blocks btc 1008", "blocks lbtc 10080", "coop wrongkey", "txmsg", "agree"}
	for i := 0; i < n; i++ {
		role := []string{"outReceiver", "inSender", "outSender", "inReceiver"}[r.intn(4)]
		chain := r.pickStr([]string{"btc", "lbtc"})
		steps := baseScript(role, chain)
		steps = steps[:len(steps)-r.intn(2)]
		for k := 1 + r.intn(4); k > 0; k-- {
			steps = append(steps, r.pickStr(dist))
		}
		p := plans[r.intn(len(plans))]
		all = append(all, scn{role: role, steps: steps, cfg: realWalletCfg(p.before, p.after, p.nIn)})
	}
	return all
}

func init() {
	monitors["C03"] = func(r *rng, n int, res *MonitorResult) {
		res.Rule = "the real state machines on the REAL wallet adapters (lnd.Client over fake gRPC clients, LiquidOnChain over a fake wallet): every role × chain × on-chain ending × wallet funding plan (swap output moved around, change of equal value, second payment to the swap address) plus random disturbed runs; every spending transaction handed to the back-end judged: spends the swap output of the opening transaction, btcd script engine with standard flags accepts it (Bitcoin) / witness shape + ECDSA under the Elements sighash (Liquid), sequence = CSV exactly for the refund, one output to an address of the node's wallet of amount − fee (− 200 on Bitcoin) (+ explicit fee output on Liquid); non-trivial = a spend was published"
		seen := map[string]bool{}
		runMany(defaultCfg(), realWalletScenarios(r, n), func(x scnResult) {
			res.Evaluations++
			before := 0
			for k, v := range res.Histogram {
				if strings.HasSuffix(k, " spend") {
					before += v
				}
			}
			judgeC03(x, res)
			after := 0
			for k, v := range res.Histogram {
				if strings.HasSuffix(k, " spend") {
					after += v
				}
			}
			k := scenarioKey(x.sc.steps) + fmt.Sprintf("%+v", x.w.cfg.FundPlan)
			if after > before && !seen[k] {
				seen[k] = true
				res.Distinct++
				if res.Distinct%41 == 0 {
					res.sample(scenarioKey(x.sc.steps))
				}
			}
		})
		for _, k := range []string{"btc preimage spend", "btc csv spend", "btc coop spend", "lbtc preimage spend", "lbtc csv spend", "lbtc coop spend"} {
			if res.Histogram[k] == 0 {
				res.addFinding("C03/vacuous/"+k, "no scenario produced a "+k, nil)
			}
		}
	}
	monitors["C08"] = func(r *rng, n int, res *MonitorResult) {
		res.Rule = "maker scenarios of the real state machines on the REAL wallet adapters under wallet funding plans that move the swap output around; every opening_tx_broadcasted message judged against the transaction handed to the wallet back-end (txid, output index: amount and script of both keys / invoice hash / CSV, Liquid: the blinding key unblinds that output to the amount in the policy asset) and against the invoice created in the Lightning back-end (claim amount, hash, expiry 24h/1h, final CLTV 503/29); non-trivial = a message was sent"
		seen := map[string]bool{}
		var scs []scn
		for _, s := range realWalletScenarios(r, n) {
			if !isTaker(s.role) {
				scs = append(scs, s)
			}
		}
		runMany(defaultCfg(), scs, func(x scnResult) {
			res.Evaluations++
			before := res.Histogram["btc message"] + res.Histogram["lbtc message"]
			judgeC08(x, res)
			k := scenarioKey(x.sc.steps) + fmt.Sprintf("%+v", x.w.cfg.FundPlan)
			if res.Histogram["btc message"]+res.Histogram["lbtc message"] > before && !seen[k] {
				seen[k] = true
				res.Distinct++
				if res.Distinct%41 == 0 {
					res.sample(scenarioKey(x.sc.steps))
				}
			}
		})
		if res.Histogram["btc message"] == 0 || res.Histogram["lbtc message"] == 0 {
			res.addFinding("C08/vacuous", "no opening_tx_broadcasted message on one of the chains", nil)
		}
	}
}
