package main

import (
	"encoding/base64"
	"encoding/hex"
	"encoding/json"
	"fmt"
	"strings"

	"github.com/elementsproject/peerswap/messages"
)

// C23: scan every message the real machines send for secret material.

type secret struct {
	kind, swapId string
	raw          []byte
}

func (s secret) forms() []string {
	h := hex.EncodeToString(s.raw)
	return []string{h, strings.ToUpper(h), base64.StdEncoding.EncodeToString(s.raw), base64.RawStdEncoding.EncodeToString(s.raw), base64.URLEncoding.EncodeToString(s.raw), string(s.raw)}
}

func judgeC23(x scnResult, res *MonitorResult) {
	var secrets []secret
	recs, _ := x.w.store.inner.ListAll()
	for _, rec := range recs {
		if rec.Data == nil {
			continue
		}
		id := rec.SwapId.String()
		if len(rec.Data.PrivkeyBytes) == 32 {
			secrets = append(secrets, secret{"swap-privkey", id, rec.Data.PrivkeyBytes})
		}
		for kind, hx := range map[string]string{"claim-preimage": rec.Data.ClaimPreimage, "fee-preimage": rec.Data.FeePreimage} {
			if b, err := hex.DecodeString(hx); err == nil && len(b) == 32 {
				secrets = append(secrets, secret{kind, id, b})
			}
		}
	}
	for _, inv := range x.w.ln.invoices {
		if b, err := hex.DecodeString(inv.preimage); err == nil && len(b) == 32 && inv.ours {
			secrets = append(secrets, secret{"invoice-preimage", inv.swapId, b})
		}
	}
	taker := isTaker(x.sc.role)
	in := map[string]interface{}{"scenario": scenarioKey(x.sc.steps)}
	for _, m := range x.w.msgr.sent {
		res.Histogram["messages scanned"]++
		payload := string(m.payload)
		for _, s := range secrets {
			for fi, f := range s.forms() {
				if len(f) < 16 || !strings.Contains(payload, f) {
					continue
				}
				// the one allowed disclosure: the taker's own swap key inside that swap's coop_close
				if s.kind == "swap-privkey" && m.typ == messages.MESSAGETYPE_COOPCLOSE && taker && fi == 0 {
					var cc struct {
						SwapId  string `json:"swap_id"`
						Privkey string `json:"privkey"`
					}
					if json.Unmarshal(m.payload, &cc) == nil && cc.SwapId == s.swapId && cc.Privkey == f && strings.Count(payload, f) == 1 {
						res.Histogram["coop_close with the taker's key"]++
						continue
					}
				}
				res.addFinding(fmt.Sprintf("C23/%s-in-%s/%s", s.kind, messages.MessageTypeToHexString(m.typ), x.sc.role),
					fmt.Sprintf("a sent %s message contains the %s of swap %s", messages.MessageTypeToHexString(m.typ), s.kind, s.swapId[:8]), in)
			}
		}
		if m.typ == messages.MESSAGETYPE_COOPCLOSE && !taker {
			res.addFinding("C23/coop-close-sent-by-maker/"+x.sc.role, "a maker sent coop_close", in)
		}
	}
}

func init() {
	monitors["C23"] = func(r *rng, n int, res *MonitorResult) {
		res.Rule = "all four roles, both chains, on the real machines: every single-crash placement of the honest runs, the rest-state × stimulus sweep (incl. faulted stimuli, cancels, failed payments -> coop close, invalid messages, third-party messages), random disturbed runs with restarts; every message handed to the messenger is scanned for every secret the node holds at the end (each swap's private key, claim and fee preimages from the records, preimages of the invoices the node created) in hex (both cases), base64 (3 alphabets) and raw form; the only occurrence allowed is the taker's own swap key as the privkey field of that swap's coop_close; a maker never sends coop_close; non-trivial = a message was sent"
		seen := map[string]bool{}
		all := crashPlacements(roles)
		all = append(all, sweepScenarios(roles)...)
		for i := 0; i < n; i++ {
			role := roles[r.intn(len(roles))]
			all = append(all, scn{role: role, steps: genScenario(r, role, r.intn(3) > 0)})
		}
		runMany(defaultCfg(), all, func(x scnResult) {
			res.Evaluations++
			k := scenarioKey(x.sc.steps)
			if len(x.w.msgr.sent) > 0 && !seen[k] {
				seen[k] = true
				res.Distinct++
			}
			judgeC23(x, res)
		})
	}
}
