package main

import (
	"time"

	goelectrum "github.com/checksum0/go-electrum/electrum"
	"github.com/elementsproject/peerswap/lwk"
	"github.com/elementsproject/peerswap/swap"
)

// c04LwkTipWhileCallbackRuns: the REAL LWK/Electrum watcher.  The confirmation callback of a swap (in the daemon:
// OnTxConfirmed -> SendEvent -> the whole claim-payment loop, which can block for minutes in the Lightning node) is
// still running when the Electrum server announces further blocks.  The pay loop reads the tip from this watcher
// (GetBlockHeight) before every attempt: it must see the new blocks.  Returns the tip the watcher answers while the
// callback is blocked, and whether the callback was entered at all.
func c04LwkTipWhileCallbackRuns() (tip uint32, entered bool) {
	fe := &fakeElectrum{headers: make(chan *goelectrum.SubscribeHeadersResult, 8)}
	fe.headers <- &goelectrum.SubscribeHeadersResult{Height: 1000}
	lw, err := lwk.NewElectrumTxWatcher(fe)
	if err != nil {
		return 0, false
	}
	in, release := make(chan bool, 1), make(chan bool)
	lw.AddConfirmationCallback(func(string, string, error) error {
		in <- true
		<-release
		return nil
	})
	lw.AddCsvCallback(func(string) error { return nil })
	if err := lw.StartWatchingTxs(); err != nil {
		return 0, false
	}
	defer close(release)
	fe.hist = []*goelectrum.GetMempoolResult{{Hash: elTxid, Height: 1058}}
	spk := append([]byte{0x00, 0x20}, make([]byte, 32)...)
	lw.AddWaitForConfirmationTx(swap.NewSwapId().String(), elTxid, 0, 1000, 60, spk)
	fe.headers <- &goelectrum.SubscribeHeadersResult{Height: 1059} // two confirmations: reported
	select {
	case <-in:
	case <-time.After(2 * time.Second):
		return 0, false
	}
	fe.headers <- &goelectrum.SubscribeHeadersResult{Height: 1060}
	fe.headers <- &goelectrum.SubscribeHeadersResult{Height: 1061}
	for i := 0; i < 100; i++ {
		if h, err := lw.GetBlockHeight(); err == nil && h >= 1061 {
			return h, true
		}
		time.Sleep(5 * time.Millisecond)
	}
	h, _ := lw.GetBlockHeight()
	return h, true
}
