package main

import (
	"fmt"
	"strings"

	"github.com/elementsproject/glightning/glightning"
	"github.com/elementsproject/peerswap/clightning"
	"github.com/lightningnetwork/lnd/lnrpc"
)

// slice chancap: what the Lightning adapters report as sendable / receivable over a channel (C11 "fits the
// channel").  LND: the REAL lnd.Client over the fake gRPC node (ListChannels / ListPeers / GetChanInfo); CLN: the
// adapter's channel arithmetic (clightning.PeerChannel).  Balances below, at and above the reserve, zero, huge.
func init() {
	slices["chancap"] = func(r *rng, n int, emit func(op, res string)) {
		hist := map[string]int{}
		bals := []int64{0, 1, 546, 9999, 10000, 10001, 250000, 2000000, 16777215, 1 << 40, -1}
		ress := []uint64{0, 1, 546, 10000, 10001, 40000, 1 << 41}
		for i := 0; i < n; i++ {
			switch r.intn(3) {
			case 0:
				bal := bals[r.intn(len(bals))]
				res := ress[r.intn(len(ress))]
				rig := newLndWalletRig(rateEstimator{})
				ch := &lnrpc.Channel{Active: true, RemotePubkey: "02" + strings.Repeat("cd", 32), ChanId: (100 << 40) | (1 << 16), Capacity: 4000000,
					LocalConstraints: &lnrpc.ChannelConstraints{ChanReserveSat: res}, RemoteConstraints: &lnrpc.ChannelConstraints{ChanReserveSat: res}}
				dir := r.bool()
				var got uint64
				var err error
				if dir {
					ch.RemoteBalance = bal
					rig.ln.chans = []*lnrpc.Channel{ch}
					got, err = rig.client.ReceivableMsat("100x1x0")
				} else {
					ch.LocalBalance = bal
					rig.ln.chans = []*lnrpc.Channel{ch}
					got, err = rig.client.SpendableMsat("100x1x0")
				}
				out := fmt.Sprint(got)
				if err != nil {
					out = "err"
				}
				switch {
				case bal <= 0 || uint64(bal) <= res:
					hist["lnd: at or below the reserve"]++
				default:
					hist["lnd: above the reserve"]++
				}
				emit(fmt.Sprintf("cap.lnd %d %d", bal, res), out)
			case 1:
				rep := r.pickU64([]uint64{0, 0, 1, 1990000000})
				toUs := r.pickU64([]uint64{0, 1, 9999999, 10000000, 10000001, 2000000000})
				res := r.pickU64([]uint64{0, 10000000, 40000000})
				pc := clightning.PeerChannel{SpendableMsat: glightning.AmountFromMSat(rep), ToUsMsat: glightning.AmountFromMSat(toUs), OurReserveMsat: glightning.AmountFromMSat(res)}
				hist["cln spendable"]++
				emit(fmt.Sprintf("cap.clnspend %d %d %d", rep, toUs, res), fmt.Sprint(pc.GetSpendableMsat()))
			default:
				rep := r.pickU64([]uint64{0, 0, 1, 1990000000})
				total := r.pickU64([]uint64{4000000000, 4000000000, 0, 10000000})
				toUs := r.pickU64([]uint64{0, 3990000001, 3990000000, 3989999999, 4000000000, 4000000001, 2000000000})
				res := r.pickU64([]uint64{0, 10000000, 40000000})
				pc := clightning.PeerChannel{ReceivableMsat: glightning.AmountFromMSat(rep), TotalMsat: glightning.AmountFromMSat(total), ToUsMsat: glightning.AmountFromMSat(toUs), TheirReserveMsat: glightning.AmountFromMSat(res)}
				hist["cln receivable"]++
				emit(fmt.Sprintf("cap.clnrecv %d %d %d %d", rep, total, toUs, res), fmt.Sprint(pc.GetReceivableMsat()))
			}
		}
		sliceStats["chancap"] = hist
	}
}
