package main

import (
	"fmt"
	"strings"

	"github.com/elementsproject/glightning/glightning"
	"github.com/elementsproject/peerswap/clightning"
	"github.com/elementsproject/peerswap/lnd"
	"github.com/lightningnetwork/lnd/lnrpc"
)

// Monitors judge the REAL code against the property as stated, without the Lean model.

func init() {
	monitors["C24"] = func(r *rng, n int, res *MonitorResult) {
		res.Rule = "random invoices/channels/limits through the real CLN and LND builders; non-trivial = builder returned a payment; distinct = distinct (builder, payee/dest relation, scid, cltv, limit, outcome) tuples"
		seen := map[string]bool{}
		for i := 0; i < n; i++ {
			res.Evaluations++
			if r.bool() {
				payee := r.pickStr(pubkeyPool)
				amt := r.u64b()
				cltv := r.i64b()
				scid := r.pickStr(scidPool)
				limit := uint32(r.pickU64([]uint64{0, 32, 32, 33, 1}))
				b := &glightning.DecodedBolt11{Payee: payee, AmountMsat: glightning.AmountFromMSat(amt), MinFinalCltvExpiry: int(cltv)}
				hops, err := clightning.VerifBuildDirectClaimRoute(b, scid, limit)
				in := map[string]interface{}{"builder": "cln", "payee": payee, "amount_msat": amt, "cltv": cltv, "scid": scid, "limit": limit}
				if err != nil {
					res.Histogram["cln refused"]++
					continue
				}
				res.Histogram["cln route"]++
				key := fmt.Sprintf("cln|%s|%d|%d|%d", scid, cltv, limit, amt%7)
				if !seen[key] {
					seen[key] = true
					res.Distinct++
				}
				res.sample(in)
				switch {
				case len(hops) != 1:
					res.addFinding("C24/cln/hops!=1", fmt.Sprintf("CLN route has %d hops", len(hops)), in)
				case hops[0].Id != payee:
					res.addFinding("C24/cln/not-to-payee", "CLN hop does not go to the invoice payee", in)
				case hops[0].AmountMsat.MSat() != amt:
					res.addFinding("C24/cln/amount", fmt.Sprintf("CLN hop amount %d != invoice amount %d", hops[0].AmountMsat.MSat(), amt), in)
				case strings.Contains(hops[0].ShortChannelId, ":") || strings.ReplaceAll(scid, ":", "x") != hops[0].ShortChannelId:
					res.addFinding("C24/cln/channel", "CLN hop is not over the swap channel in x spelling: "+hops[0].ShortChannelId, in)
				case hops[0].Direction != 0:
					res.addFinding("C24/cln/direction", "CLN hop direction set", in)
				}
			} else {
				dest := r.pickStr(pubkeyPool)
				remote := dest
				if r.intn(3) == 0 {
					remote = r.pickStr(pubkeyPool)
				}
				chanId := r.u64b()
				cltv := r.i64b()
				limit := uint32(r.pickU64([]uint64{0, 32, 32, 33, 1}))
				payreq := "lnbc1claim"
				q, err := lnd.VerifBuildDirectClaimPaymentRequest(payreq, &lnrpc.PayReq{Destination: dest, CltvExpiry: cltv}, &lnrpc.Channel{RemotePubkey: remote, ChanId: chanId}, limit)
				in := map[string]interface{}{"builder": "lnd", "dest": dest, "remote": remote, "chan": chanId, "cltv": cltv, "limit": limit}
				if err != nil {
					res.Histogram["lnd refused"]++
					continue
				}
				res.Histogram["lnd request"]++
				key := fmt.Sprintf("lnd|%v|%d|%d", dest == remote, cltv, limit)
				if !seen[key] {
					seen[key] = true
					res.Distinct++
				}
				res.sample(in)
				switch {
				case dest != remote:
					res.addFinding("C24/lnd/foreign-destination", "LND request built although the invoice destination is not the channel peer", in)
				case q.PaymentRequest != payreq || q.Amt != 0 || q.AmtMsat != 0 || q.Dest != nil:
					res.addFinding("C24/lnd/not-the-invoice", "LND request does not pay the invoice as is", in)
				case len(q.OutgoingChanIds) != 1 || q.OutgoingChanIds[0] != chanId || q.OutgoingChanId != 0:
					res.addFinding("C24/lnd/channel", "LND request is not restricted to the swap channel", in)
				case q.MaxParts != 1:
					res.addFinding("C24/lnd/parts", fmt.Sprintf("LND request allows %d parts", q.MaxParts), in)
				}
			}
		}
	}
}
