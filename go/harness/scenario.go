package main

// Scenario interpreter: drives a World (real SwapService + simulated environment) through a list
// of textual steps.  The counterparty ("peer") is simulated here as well: it answers with
// protocol messages built from the repo's own message types, honest by default and mutated on
// request.

import (
	"bytes"
	"crypto/sha256"
	"encoding/hex"
	"encoding/json"
	"fmt"
	"strconv"
	"strings"
	"sync/atomic"
	"time"

	"github.com/btcsuite/btcd/btcec/v2"
	"github.com/btcsuite/btcd/wire"
	"github.com/elementsproject/peerswap/messages"
	"github.com/elementsproject/peerswap/onchain"
	"github.com/elementsproject/peerswap/swap"
)

type Ctx struct {
	w           *World
	role        string // outSender | outReceiver | inSender | inReceiver
	chain       string
	id          string // real swap id (hex)
	scid        string
	amount      uint64
	peerKey     *btcec.PrivateKey
	premium     int64
	claimPre    string // preimage of the claim invoice when the PEER is maker
	claimHash   string
	claimPayreq string
	feePayreq   string
	openingHex  string // what the watcher will deliver when the peer is maker
	openingTxid string
	openWant    *swap.OpeningParams // what the last announced opening transaction should pay to (C01 ground truth)
	lqTruth     bool                // Elements transactions (real Liquid validator in place): truth by construction
	lqTruthSet  bool
	log         []string
	panics      []string
}

func detKey(seed string) *btcec.PrivateKey {
	h := sha256.Sum256([]byte(seed))
	k, _ := btcec.PrivKeyFromBytes(h[:])
	return k
}

func newCtx(w *World) *Ctx {
	return &Ctx{w: w, peerKey: detKey("peer-swap-key"), scid: "100x1x0"}
}

func kv(args []string) map[string]string {
	m := map[string]string{}
	for _, a := range args {
		if i := strings.IndexByte(a, '='); i > 0 {
			m[a[:i]] = a[i+1:]
		} else {
			m[a] = "1"
		}
	}
	return m
}

func atoiDef(s string, d int64) int64 {
	if s == "" {
		return d
	}
	v, err := strconv.ParseInt(s, 10, 64)
	if err != nil {
		return d
	}
	return v
}

func (c *Ctx) swapId() *swap.SwapId {
	id, err := swap.ParseSwapIdFromString(c.id)
	if err != nil {
		return nil
	}
	return id
}

// deliver marshals a message and hands it to the node's message handler as coming from `from`.
func (c *Ctx) deliver(from string, msg swap.PeerMessage) string {
	b, t, err := swap.MarshalPeerswapMessage(msg)
	if err != nil {
		return "marshal-error"
	}
	return c.deliverRaw(from, messages.MessageTypeToHexString(messages.MessageType(t)), b)
}

func (c *Ctx) deliverRaw(from, typeHex string, payload []byte) (res string) {
	defer func() {
		if r := recover(); r != nil {
			res = "PANIC"
			c.panics = append(c.panics, fmt.Sprintf("handler panicked on type %s payload %q: %v", typeHex, string(payload), r))
			c.w.note(Obs{Kind: "panic", A: map[string]string{"type": typeHex}})
		}
	}()
	if c.w.msgr.handler == nil {
		return "no-handler"
	}
	err := c.w.msgr.handler(from, typeHex, payload)
	if err != nil {
		return "err"
	}
	return "ok"
}

func (c *Ctx) chainSim() *simChain {
	if c.chain == "lbtc" {
		return c.w.lbtc
	}
	return c.w.btc
}

// openingPays: the transaction has an output of the agreed amount to the script the last announcement should be
// paying to (computed here, not asked of the node's validator).
func (c *Ctx) openingPays(txHex string) bool {
	if c.openWant == nil {
		return false
	}
	if c.lqTruthSet && c.chain == "lbtc" {
		return c.lqTruth && txHex == c.openingHex
	}
	raw, err := hex.DecodeString(txHex)
	if err != nil {
		return false
	}
	tx := wire.NewMsgTx(2)
	if tx.Deserialize(bytes.NewReader(raw)) != nil {
		return false
	}
	want, err := c.chainSim().outputScript(c.openWant, c.openWant.CSV)
	if err != nil {
		return false
	}
	for _, o := range tx.TxOut {
		if o.Value == int64(c.openWant.Amount) && bytes.Equal(o.PkScript, want) {
			return true
		}
	}
	return false
}

// lastSent returns the payload of the last message of the given type the node sent.
func (c *Ctx) lastSent(t messages.MessageType) []byte {
	for i := len(c.w.msgr.sent) - 1; i >= 0; i-- {
		if c.w.msgr.sent[i].typ == t {
			return c.w.msgr.sent[i].payload
		}
	}
	return nil
}

func (c *Ctx) nodePubkey() string {
	var m struct {
		Pubkey string `json:"pubkey"`
		SwapId string `json:"swap_id"`
	}
	for _, t := range []messages.MessageType{messages.MESSAGETYPE_SWAPOUTREQUEST, messages.MESSAGETYPE_SWAPINREQUEST, messages.MESSAGETYPE_SWAPINAGREEMENT, messages.MESSAGETYPE_SWAPOUTAGREEMENT} {
		for i := len(c.w.msgr.sent) - 1; i >= 0; i-- {
			if c.w.msgr.sent[i].typ == t {
				json.Unmarshal(c.w.msgr.sent[i].payload, &m)
				if m.SwapId == c.id {
					return m.Pubkey
				}
			}
		}
	}
	return ""
}

func (c *Ctx) csvFor() uint32 {
	if c.chain == "btc" {
		return onchain.BitcoinCsv
	}
	p, err := swap.VerifGetTimelockPolicy("lbtc", swap.PEERSWAP_PROTOCOL_VERSION)
	if err != nil {
		return 0
	}
	return p.CSV
}

// stepWatchdog: a scenario step that has not returned after this long never will (every timing of the node is
// scaled to milliseconds in the harness): a handler is blocked
const stepWatchdog = 20 * time.Second

var hangsSeen int32

// Step executes one scenario step under the watchdog and returns a short result string; once a step hung, the world
// is marked and every later step returns "hung" at once (the blocked goroutine is left behind).
func (c *Ctx) Step(step string) string {
	if c.w.hung {
		return "hung"
	}
	if atomic.LoadInt32(&hangsSeen) >= 3 {
		// several steps of this run already hung: the code under test blocks; do not wait out the watchdog in
		// every remaining scenario
		c.w.mu.Lock()
		c.w.hung = true
		c.w.mu.Unlock()
		c.w.note(Obs{Kind: "hang", Swap: c.w.name(c.id), A: map[string]string{"s": step + " (not run: earlier steps of this run hung)"}})
		return "hung"
	}
	done := make(chan string, 1)
	go func() { done <- c.stepInner(step) }()
	select {
	case r := <-done:
		return r
	case <-time.After(stepWatchdog):
		c.w.mu.Lock()
		c.w.hung = true
		c.w.mu.Unlock()
		c.w.note(Obs{Kind: "hang", Swap: c.w.name(c.id), A: map[string]string{"s": step}})
		atomic.AddInt32(&hangsSeen, 1)
		return "hung"
	}
}

func (c *Ctx) stepInner(step string) string {
	f := strings.Fields(step)
	if len(f) == 0 {
		return ""
	}
	a := kv(f[1:])
	w := c.w
	w.curSwap = c.id
	defer w.runDeferred()
	switch f[0] {
	case "new":
		c.role, c.chain = f[1], f[2]
		c.amount = uint64(atoiDef(a["amt"], 1000000))
		if s := a["scid"]; s != "" {
			c.scid = s
		}
		ppm := atoiDef(a["limit"], 50000)
		asset, network := "", ""
		if c.chain == "lbtc" {
			asset = lbtcAsset
			if w.rw != nil {
				asset = w.rw.lq.GetAsset() // the real Liquid adapter names its network's policy asset
			}
		} else {
			network = "regtest"
		}
		ver := uint8(atoiDef(a["version"], swap.PEERSWAP_PROTOCOL_VERSION))
		peerPub := hex.EncodeToString(c.peerKey.PubKey().SerializeCompressed())
		switch c.role {
		case "outSender":
			sm, err := w.svc.SwapOut(peerNode, c.chain, c.scid, selfNode, c.amount, ppm)
			if err != nil {
				return "err:" + errClass(err)
			}
			c.id = sm.SwapId.String()
		case "inSender":
			sm, err := w.svc.SwapIn(peerNode, c.chain, c.scid, selfNode, c.amount, ppm)
			if err != nil {
				return "err:" + errClass(err)
			}
			c.id = sm.SwapId.String()
		case "outReceiver":
			id := swap.NewSwapId()
			if a["id"] != "" {
				id, _ = swap.ParseSwapIdFromString(a["id"])
			}
			c.id = id.String()
			limit := atoiDef(a["plimit"], 1000000)
			from := peerNode
			if a["from"] == "third" {
				from = thirdNode
			}
			return c.deliver(from, &swap.SwapOutRequestMessage{ProtocolVersion: ver, SwapId: id, Asset: asset, Network: network, Scid: c.scid, Amount: c.amount, Pubkey: peerPub, PremiumLimit: limit})
		case "inReceiver":
			id := swap.NewSwapId()
			if a["id"] != "" {
				id, _ = swap.ParseSwapIdFromString(a["id"])
			}
			c.id = id.String()
			limit := atoiDef(a["plimit"], 1000000)
			from := peerNode
			if a["from"] == "third" {
				from = thirdNode
			}
			return c.deliver(from, &swap.SwapInRequestMessage{ProtocolVersion: ver, SwapId: id, Asset: asset, Network: network, Scid: c.scid, Amount: c.amount, Pubkey: peerPub, PremiumLimit: limit})
		}
		return "ok"

	case "agree": // the peer's agreement
		peerPub := hex.EncodeToString(c.peerKey.PubKey().SerializeCompressed())
		if a["badpubkey"] != "" {
			peerPub = "zz"
		}
		c.premium = atoiDef(a["premium"], 1000)
		from := peerNode
		if a["from"] == "third" {
			from = thirdNode
		}
		if c.role == "outSender" {
			feeSat := uint64(atoiDef(a["fee"], 500))
			pre := sha256.Sum256([]byte("fee-preimage" + c.id))
			h := sha256.Sum256(pre[:])
			c.feePayreq = w.ln.foreignInvoice(hex.EncodeToString(h[:]), hex.EncodeToString(pre[:]), feeSat*1000, 0, swap.INVOICE_FEE, c.id)
			return c.deliver(from, &swap.SwapOutAgreementMessage{ProtocolVersion: swap.PEERSWAP_PROTOCOL_VERSION, SwapId: c.swapId(), Pubkey: peerPub, Payreq: c.feePayreq, Premium: c.premium})
		}
		return c.deliver(from, &swap.SwapInAgreementMessage{ProtocolVersion: swap.PEERSWAP_PROTOCOL_VERSION, SwapId: c.swapId(), Pubkey: peerPub, Premium: c.premium})

	case "txmsg": // the peer (maker) announces its opening transaction
		claimSat := c.amount
		openSat := c.amount
		if c.role == "outSender" {
			claimSat = uint64(int64(c.amount) + c.premium)
		} else {
			// inReceiver: the node computed the premium itself; read it from its agreement
			var ag swap.SwapInAgreementMessage
			if p := c.lastSent(messages.MESSAGETYPE_SWAPINAGREEMENT); p != nil {
				json.Unmarshal(p, &ag)
			}
			openSat = uint64(int64(c.amount) + ag.Premium)
		}
		pre := sha256.Sum256([]byte("claim-preimage" + c.id + a["salt"]))
		h := sha256.Sum256(pre[:])
		c.claimPre, c.claimHash = hex.EncodeToString(pre[:]), hex.EncodeToString(h[:])
		msat := uint64(int64(claimSat*1000) + atoiDef(a["dmsat"], 0))
		defCltv := int64(503)
		if c.chain == "lbtc" {
			defCltv = 29
		}
		cltv := atoiDef(a["cltv"], defCltv)
		c.claimPayreq = w.ln.foreignInvoice(c.claimHash, c.claimPre, msat, cltv, swap.INVOICE_CLAIM, c.id)
		// the transaction the chain will show
		p := &swap.OpeningParams{TakerPubkey: c.nodePubkey(), MakerPubkey: hex.EncodeToString(c.peerKey.PubKey().SerializeCompressed()), ClaimPaymentHash: c.claimHash, Amount: openSat, CSV: c.csvFor()}
		amount := openSat
		csv := c.csvFor()
		switch a["tx"] {
		case "wrongamount":
			amount = openSat - 1
		case "wrongcsv":
			csv = csv - 1
		case "wronghash":
			p.ClaimPaymentHash = hex.EncodeToString(pre[:]) // script locks another hash
		case "wrongtaker":
			p.TakerPubkey = hex.EncodeToString(detKey("other").PubKey().SerializeCompressed())
		case "wrongmaker":
			p.MakerPubkey = hex.EncodeToString(detKey("other").PubKey().SerializeCompressed())
		}
		pos := int(atoiDef(a["pos"], 0))
		txHex, txid, err := c.chainSim().buildOpening(p, csv, pos, amount, len(c.id))
		if w.rw != nil && c.chain == "lbtc" {
			// the real Liquid validator is in place: a real Elements transaction
			p.BlindingKey = detKey("blinding")
			kind, policy := "C", true
			switch a["lq"] {
			case "explicit":
				kind = "E"
			case "otherasset":
				policy = false
			case "explicit-otherasset":
				kind, policy = "E", false
			case "wrongblind":
				kind = "W"
			case "lying":
				kind = "L"
			}
			txHex, txid, err = buildOpeningLq(p, csv, pos, amount, kind, policy)
			// ground truth by construction: the output pays iff nothing about it was made wrong
			c.lqTruth = a["tx"] == "" && (a["lq"] == "" || a["lq"] == "explicit")
			c.lqTruthSet = true
		}
		if err != nil {
			return "build-error"
		}
		if a["tx"] == "junk" {
			txHex = "00"
		}
		c.openingHex, c.openingTxid = txHex, txid
		// what was announced, judged independently of the node (C01): does the transaction contain an output of the
		// agreed amount to the script of (node's key, peer's key, this invoice's hash, the chain's CSV)?
		c.openWant = &swap.OpeningParams{TakerPubkey: c.nodePubkey(), MakerPubkey: hex.EncodeToString(c.peerKey.PubKey().SerializeCompressed()), ClaimPaymentHash: c.claimHash, Amount: openSat, CSV: c.csvFor()}
		if n := atoiDef(a["confago"], 0); n > 0 {
			// the maker confirmed the opening transaction n blocks ago and withheld the announcement until now
			w.note(Obs{Kind: "confirmed-earlier", A: map[string]string{"chain": c.chain, "blocks": fmt.Sprint(n)}})
		}
		w.note(Obs{Kind: "announce", A: map[string]string{"hash": c.claimHash[:8], "msat": fmt.Sprint(msat), "msatok": fmt.Sprint(msat == claimSat*1000), "cltv": fmt.Sprint(cltv), "txok": fmt.Sprint(c.openingPays(txHex))}})
		bk := ""
		if c.chain == "lbtc" {
			bk = hex.EncodeToString(detKey("blinding").Serialize())
		}
		from := peerNode
		if a["from"] == "third" {
			from = thirdNode
		}
		return c.deliver(from, &swap.OpeningTxBroadcastedMessage{SwapId: c.swapId(), Payreq: c.claimPayreq, TxId: txid, ScriptOut: uint32(atoiDef(a["vout"], int64(pos))), BlindingKey: bk})

	case "payout": // outcome of the node's next claim payment attempts
		w.ln.outcome[c.claimHash] = f[1]
		return "ok"
	case "settle": // an HTLC that was pending resolves (success|fail); with `later` only when the back-end is asked
		if a["later"] != "" {
			w.ln.resolve[c.claimHash] = f[1]
			return "ok"
		}
		if w.ln.payments[c.claimHash] == payPending {
			if f[1] == "success" {
				w.ln.payments[c.claimHash] = paySucceeded
			} else {
				w.ln.payments[c.claimHash] = payFailed
			}
		}
		return "ok"

	case "confirm": // the watcher reports the opening tx (only if a watch is registered)
		ch := c.chainSim()
		idx := -1
		for i, wt := range ch.confWatch {
			if wt.swapId == c.id {
				idx = i
			}
		}
		if idx < 0 {
			return "no-watch"
		}
		ch.confWatch = append(ch.confWatch[:idx], ch.confWatch[idx+1:]...)
		if ch.confCb == nil {
			return "no-callback"
		}
		var err error
		w.note(Obs{Kind: "confirmcb", A: map[string]string{"err": fmt.Sprint(a["err"] != ""), "hash": c.claimHash[:min(8, len(c.claimHash))], "txok": fmt.Sprint(c.openingPays(c.openingHex))}})
		if a["err"] != "" {
			err = ch.confCb(c.id, "", fmt.Errorf("sim watcher: payment window closed"))
		} else {
			err = ch.confCb(c.id, c.openingHex, nil)
		}
		if err != nil {
			return "err"
		}
		return "ok"

	case "feepaid", "claimpaid":
		it := swap.INVOICE_FEE
		if f[0] == "claimpaid" {
			it = swap.INVOICE_CLAIM
		}
		if !w.ln.notifiers[c.id+"/"+it.String()] && a["force"] == "" {
			return "no-notifier"
		}
		// the notification means the invoice (if the node created one) is paid
		for _, inv := range w.ln.invoices {
			if inv.ours && inv.swapId == c.id && inv.kind == it {
				inv.paidToUs = true
			}
		}
		if w.ln.payCb == nil {
			return "no-callback"
		}
		w.ln.payCb(c.id, it)
		return "ok"

	case "cancel":
		from := peerNode
		if a["from"] == "third" {
			from = thirdNode
		}
		return c.deliver(from, &swap.CancelMessage{SwapId: c.swapId(), Message: "peer cancels"})
	case "coop":
		key := hex.EncodeToString(c.peerKey.Serialize())
		if a["badkey"] != "" {
			key = "abcd"
		}
		if a["wrongkey"] != "" { // well-formed, but not the key behind the taker pubkey
			key = hex.EncodeToString(detKey("not-the-taker-key").Serialize())
		}
		from := peerNode
		if a["from"] == "third" {
			from = thirdNode
		}
		return c.deliver(from, &swap.CoopCloseMessage{SwapId: c.swapId(), Message: "peer gives up", Privkey: key})
	case "timeout":
		if w.tmr.Fire(c.id) {
			return "fired"
		}
		return "not-armed"
	case "csv":
		ch := c.chainSim()
		idx := -1
		for i, wt := range ch.csvWatch {
			if wt.swapId == c.id {
				idx = i
			}
		}
		if idx < 0 {
			return "no-watch"
		}
		if a["keep"] == "" {
			ch.csvWatch = append(ch.csvWatch[:idx], ch.csvWatch[idx+1:]...)
		}
		if ch.csvCb == nil {
			return "no-callback"
		}
		if err := ch.csvCb(c.id); err != nil {
			return "err"
		}
		return "ok"
	case "blocks":
		n := uint32(atoiDef(f[2], 1))
		if f[1] == "lbtc" {
			w.lbtc.height += n
		} else {
			w.btc.height += n
		}
		return "ok"
	case "rewind": // rewind <chain> <n>: the chain back-end reports a lower tip (another server, a node still catching up)
		n := uint32(atoiDef(f[2], 1))
		ch := w.btc
		if f[1] == "lbtc" {
			ch = w.lbtc
		}
		if ch.height > n {
			ch.height -= n
		}
		return "ok"
	case "payblocks": // payblocks <chain> <n>: blocks arriving between failed claim payment attempts
		w.ln.advChain, w.ln.advBlocks = f[1], uint32(atoiDef(f[2], 1))
		return "ok"
	case "fault":
		w.faults[f[1]] = append(w.faults[f[1]], f[2])
		return "ok"
	case "clearfaults":
		w.faults = map[string][]string{}
		return "ok"
	case "crash": // the k-th effect from now is the last one that happens
		w.crashAt = w.effects + int(atoiDef(f[1], 1))
		return "ok"
	case "restart":
		w.restart()
		return "ok"
	case "raw": // raw <from> <typehex> <payload-hex>
		from := peerNode
		if f[1] == "third" {
			from = thirdNode
		}
		p, _ := hex.DecodeString(f[3])
		return c.deliverRaw(from, f[2], p)
	}
	return "unknown-step"
}

func errClass(err error) string {
	m := err.Error()
	switch {
	case strings.Contains(m, "swaps are disabled"):
		return "disabled"
	case strings.Contains(m, "suspicious"):
		return "suspicious"
	case strings.Contains(m, "minimum swap amount"):
		return "minimum"
	case strings.Contains(m, "already has an active swap"):
		return "active-swap"
	case strings.Contains(m, "swap id is already in use"):
		return "id-in-use"
	case strings.Contains(m, "exceeding"):
		return "exceeding"
	}
	return "other"
}

// state returns the persisted state of the scenario's swap ("" when no record exists).
func (c *Ctx) state() string {
	s, err := c.w.svc.GetSwap(c.id)
	if err != nil || s == nil {
		return ""
	}
	return string(s.Current)
}

// Run executes all steps; it returns the step results.
func (c *Ctx) Run(steps []string) []string {
	var out []string
	for _, s := range steps {
		r := c.Step(s)
		c.w.curSwap = c.id
		c.w.flushCrashNote()
		act := ""
		if !c.w.dead && c.id != "" {
			act = "0"
			if _, ok := c.w.svc.VerifActiveSwaps()[c.id]; ok {
				act = "1"
			}
		}
		c.w.note(Obs{Kind: "step", A: map[string]string{"s": s, "r": r, "state": c.state(), "btc": fmt.Sprint(c.w.btc.height), "lbtc": fmt.Sprint(c.w.lbtc.height), "active": act}})
		out = append(out, r)
	}
	return out
}

// swapRecordJSON returns the stored record of a swap as canonical JSON ("" if absent).
func (w *World) swapRecordJSON(id string) string {
	s, err := w.svc.GetSwap(id)
	if err != nil || s == nil {
		return ""
	}
	b, _ := json.Marshal(s)
	return string(b)
}
