package main

import (
	"bytes"
	"crypto/sha256"
	"fmt"

	"github.com/btcsuite/btcd/btcec/v2"

	"github.com/elementsproject/peerswap/onchain"
	"github.com/elementsproject/peerswap/swap"
)

func init() {
	monitors["C02"] = func(r *rng, n int, res *MonitorResult) {
		res.Rule = "the REAL GetOpeningTxScript for the three CSV values the node uses, spent in real transactions run by btcd's txscript engine under consensus flags: EXHAUSTIVE witness stacks up to length 3 (quick) / 4 (thorough) over 9 item kinds (valid maker / taker / foreign / wrong-sighash signatures, empty, right / wrong / 31- / 33-byte preimage) × 7 sequences × tx versions 1,2; judged: accepted iff one of the three intended shapes; distinct = distinct (csv, seq, version, stack of kinds)"
		maxLen := 3
		if n > 1000 {
			maxLen = 4
		}
		lp, _ := swap.VerifGetTimelockPolicy("lbtc", swap.PEERSWAP_PROTOCOL_VERSION)
		ll, _ := swap.VerifGetTimelockPolicy("lbtc", 6)
		csvs := []uint32{onchain.BitcoinCsv, lp.CSV, ll.CSV}
		kinds := []string{"M", "T", "O", "W", "E", "P", "Q", "P31", "P33"}
		for ci, csv := range csvs {
			e := newScriptEnv(csv, fmt.Sprint("mon", ci))
			for _, seq := range []uint32{0, csv - 1, csv, csv + 1, 1<<31 | csv, 1<<22 | csv, 0xffffffff} {
				for ver := int32(1); ver <= 2; ver++ {
					tx := e.spendTx(seq, ver)
					mk := func(k string) []byte {
						switch k {
						case "M":
							return e.sign(tx, e.maker, e.amount)
						case "T":
							return e.sign(tx, e.taker, e.amount)
						case "O":
							return e.sign(tx, e.other, e.amount)
						case "W":
							return e.sign(tx, e.maker, e.amount+1)
						case "E":
							return []byte{}
						case "P":
							return e.preimage
						case "Q":
							q := append([]byte{}, e.preimage...)
							q[5] ^= 0x40
							return q
						case "P31":
							return e.preimage[:31]
						}
						return append(append([]byte{}, e.preimage...), 9)
					}
					notMaker := func(k string) bool { return k == "T" || k == "O" || k == "W" || k == "E" } // checks as invalid, not abort
					csvOK := ver >= 2 && seq&(1<<31) == 0 && seq&(1<<22) == 0 && seq&0xffff >= csv
					var rec func(stack []string)
					rec = func(stack []string) {
						if len(stack) > 0 {
							var raw [][]byte
							for _, k := range stack {
								raw = append(raw, mk(k))
							}
							got := e.run(tx, raw)
							want := false
							switch len(stack) {
							case 1:
								want = stack[0] == "M" && csvOK
							case 3:
								want = stack[0] == "T" && stack[1] == "M" && notMaker(stack[2])
							case 4:
								want = stack[0] == "T" && stack[1] == "P" && notMaker(stack[2]) && notMaker(stack[3])
							}
							res.Evaluations++
							res.Distinct++
							if got {
								res.Histogram[fmt.Sprintf("accepted len=%d", len(stack))]++
							}
							if got != want {
								in := map[string]interface{}{"csv": csv, "sequence": seq, "version": ver, "witness_kinds": append([]string{}, stack...)}
								if got {
									res.addFinding(fmt.Sprintf("C02/unintended-spend/len%d/%v", len(stack), stack), "the opening script is satisfied by a witness outside the three intended paths", in)
								} else {
									res.addFinding(fmt.Sprintf("C02/intended-path-rejected/len%d", len(stack)), "an intended spending path does not satisfy the opening script", in)
								}
							}
							if res.Evaluations%4001 == 0 {
								res.sample(map[string]interface{}{"csv": csv, "sequence": seq, "version": ver, "witness_kinds": append([]string{}, stack...), "accepted": got})
							}
						}
						if len(stack) >= maxLen {
							return
						}
						for _, k := range kinds {
							rec(append(stack, k))
						}
					}
					rec(nil)
				}
			}
		}
		// "a 32-byte preimage": a secret of another length whose SHA-256 is the payment hash must not open the output
		for ci, csv := range csvs {
			for _, l := range []int{1, 20, 31, 33, 64} {
				e := newScriptEnv(csv, fmt.Sprint("len", ci, l))
				secret := bytes.Repeat([]byte{byte(0x40 + l)}, l)
				h := sha256.Sum256(secret)
				sc, err := onchain.GetOpeningTxScript(e.taker.PubKey().SerializeCompressed(), e.maker.PubKey().SerializeCompressed(), h[:], csv)
				if err != nil {
					continue
				}
				e.script, e.hash, e.preimage = sc, h[:], secret
				wp := sha256.Sum256(sc)
				e.pkScript = append([]byte{0x00, 0x20}, wp[:]...)
				tx := e.spendTx(0, 2)
				res.Evaluations++
				res.Distinct++
				res.Histogram["short/long secret with matching hash"]++
				if e.run(tx, [][]byte{e.sign(tx, e.taker, e.amount), secret, {}, {}}) {
					res.addFinding(fmt.Sprintf("C02/unintended-spend/preimage-of-%d-bytes", l), "the taker path accepts a secret that is not 32 bytes long (its SHA-256 is the payment hash)", map[string]interface{}{"csv": csv, "secret_length": l})
				}
			}
		}
		// the script the rest of the node uses (ParamsToTxScript over swap.OpeningParams) binds exactly the keys and
		// the hash it is asked for, whatever was built before in the same process: one payment hash under
		// different key pairs, one key pair under different hashes
		var keys []*btcec.PrivateKey
		for i := 0; i < 3; i++ {
			keys = append(keys, detKey(fmt.Sprint("bind", i)))
		}
		for round := 0; round < 2; round++ {
			for hi := 0; hi < 2; hi++ {
				for ti := range keys {
					for mi := range keys {
						if ti == mi {
							continue
						}
						pre := sha256.Sum256([]byte(fmt.Sprint("bindpre", hi)))
						h := sha256.Sum256(pre[:])
						csv := csvs[(ti+mi+hi)%len(csvs)]
						sc, err := onchain.ParamsToTxScript(&swap.OpeningParams{TakerPubkey: hexb(keys[ti].PubKey().SerializeCompressed()), MakerPubkey: hexb(keys[mi].PubKey().SerializeCompressed()), ClaimPaymentHash: hexb(h[:]), CSV: csv}, csv)
						if err != nil {
							res.addFinding("C02/params-script-error", err.Error(), nil)
							continue
						}
						oi := 3 - ti - mi
						e := &scriptEnv{maker: keys[mi], taker: keys[ti], other: keys[oi], amount: 1000000, preimage: pre[:], hash: h[:], script: sc}
						wp := sha256.Sum256(sc)
						e.pkScript = append([]byte{0x00, 0x20}, wp[:]...)
						tx := e.spendTx(csv, 2)
						in := map[string]interface{}{"taker": ti, "maker": mi, "hash": hi, "csv": csv, "round": round, "note": "scripts are requested in this order within one process: for round, hash, taker, maker"}
						res.Evaluations += 4
						res.Histogram["binding check"]++
						if !e.run(tx, [][]byte{e.sign(tx, e.taker, e.amount), e.preimage, {}, {}}) || !e.run(tx, [][]byte{e.sign(tx, e.maker, e.amount)}) {
							res.addFinding("C02/intended-path-rejected/params-entry", "the script built for these keys and hash rejects its own taker+preimage or maker-after-CSV spend", in)
						}
						if e.run(tx, [][]byte{e.sign(tx, e.other, e.amount), e.preimage, {}, {}}) || e.run(tx, [][]byte{e.sign(tx, e.other, e.amount)}) {
							res.addFinding("C02/unintended-spend/params-entry/foreign-key", "the script built for these keys accepts a third party's signature on the preimage or CSV path", in)
						}
					}
				}
			}
		}
	}
}
