package main

import (
	"errors"
	"fmt"
	"strings"

	"github.com/elementsproject/peerswap/messages"
)

var typeStrPool = []string{"a455", "a457", "a459", "a45b", "a45d", "a45f", "a461", "a463", "a465", "a454", "a456", "a460", "a467", "a453",
	"0", "", "-a455", "+a455", "A455", "A45F", "0a455", "000a45f", "a45g", "xyz", "0xa455", "a4_55", " a455", "a455 ", "-", "+",
	"7fffffffffffffff", "8000000000000000", "-8000000000000000", "-8000000000000001", "ffffffffffffffffff", "42069", "a45"}

func classifyReal(s string) string {
	t, err := messages.PeerswapCustomMessageType(s)
	if err != nil {
		if errors.Is(err, &messages.ErrNotPeerswapCustomMessage{}) {
			return "notPeerswap"
		}
		return "parseError"
	}
	return fmt.Sprintf("peerswap %d", int(t))
}

func init() {
	slices["wire"] = func(r *rng, n int, emit func(op, res string)) {
		w := newWorld(defaultCfg())
		defer w.close()
		for _, s := range typeStrPool {
			emit("wire.classify "+hexs(s), classifyReal(s))
		}
		for i := 0; i < n; i++ {
			switch r.intn(3) {
			case 0:
				var s string
				if r.bool() {
					s = r.pickStr(typeStrPool)
				} else {
					s = fmt.Sprintf("%x", 42060+r.intn(40))
					if r.intn(4) == 0 {
						s = strings.ToUpper(s)
					}
				}
				emit("wire.classify "+hexs(s), classifyReal(s))
			case 1:
				v := int64(42060 + r.intn(40))
				if r.intn(5) == 0 {
					v = r.i64b()
				}
				emit(fmt.Sprintf("wire.tohex %d", v), messages.MessageTypeToHexString(messages.MessageType(v)))
			case 2:
				s := r.pickStr(typeStrPool)
				ln := int(r.pickU64([]uint64{0, 1, 10, 102399, 102400, 102401, 200000}))
				payload := []byte(strings.Repeat(" ", ln))
				before := len(w.obs)
				err := w.msgr.handler(peerNode, s, payload)
				res := ""
				switch {
				case err == nil:
					res = "ignored"
				case strings.Contains(err.Error(), "unexpectedly large"):
					res = "tooLarge"
				case strings.Contains(err.Error(), "could not parse hex string"):
					res = "typeError"
				case strings.Contains(err.Error(), "JSON") || strings.Contains(err.Error(), "json"):
					t, _ := messages.PeerswapCustomMessageType(s)
					res = fmt.Sprintf("decode %d", int(t))
				default:
					res = "other:" + hexs(err.Error())
				}
				if len(w.obs) != before {
					res += " side-effects"
				}
				emit(fmt.Sprintf("wire.route %d %s", ln, hexs(s)), res)
			}
		}
	}
}
