package main

import (
	"strings"
)

var negotiationWaits = map[string]bool{
	"State_SwapOutSender_AwaitAgreement": true, "State_SwapInSender_AwaitAgreement": true,
	"State_SwapOutReceiver_AwaitFeeInvoicePayment": true,
}

// judgeC17: at every rest point a swap in a negotiation wait has a 600 s timer armed; when the timer
// fires (last step of every scenario) the wait ends with a cancel sent to the peer.
func judgeC17(x scnResult, res *MonitorResult) {
	last := map[string]string{}
	cancelSent := false
	cancelRecv := false
	dead := false
	for _, o := range x.w.obs {
		switch o.Kind {
		case "crash":
			dead = true
		case "restart":
			dead = false
		case "persist":
			if o.Swap == "s1" {
				last = o.A
				if o.A["cancel"] == "1" {
					cancelRecv = true
				}
			}
		case "send":
			if o.A["type"] == "cancel" && o.Swap == "s1" {
				cancelSent = true
			}
		case "step":
			st := o.A["state"]
			if negotiationWaits[st] {
				res.Histogram["rest in "+strings.TrimPrefix(st, "State_")]++
				if dead {
					continue // the process is down: nothing rests, the next restart handles the swap
				}
				// the persisted flags are from the last store write; the timer list is live
				armed := last["timer"] == "1"
				if !armed {
					res.addFinding("C17/"+x.sc.role+"/wait-without-timer/"+st, "swap rests in "+st+" with no negotiation timer armed", map[string]interface{}{"scenario": scenarioKey(x.sc.steps)})
				} else if last["timersecs"] != "" && last["timersecs"] != "600" {
					res.addFinding("C17/"+x.sc.role+"/timer-duration/"+last["timersecs"], "negotiation timer is not 10 minutes", map[string]interface{}{"scenario": scenarioKey(x.sc.steps)})
				}
			}
		}
	}
	final := x.ctx.state()
	// (a process that died while it was recovering — a crash scheduled into the restart itself — has no timer that
	// could fire; the next restart handles the swap)
	if negotiationWaits[final] && !dead && !x.w.dead {
		res.addFinding("C17/"+x.sc.role+"/still-waiting-after-timeout/"+final, "after the timeout fired the swap is still in "+final, map[string]interface{}{"scenario": scenarioKey(x.sc.steps)})
	}
	if final == "State_SwapCanceled" && x.w.offerSent[x.ctx.id] && !cancelRecv && !cancelSent && !sendFaulted(x.sc.steps) {
		res.addFinding("C17/"+x.sc.role+"/peer-not-told", "the node cancelled a swap it had offered to the peer without sending cancel", map[string]interface{}{"scenario": scenarioKey(x.sc.steps)})
	}
	// the cancel is sent exactly once: when that one send fails (the peer is disconnected just then — the likeliest
	// reason why nothing arrived, and the normal situation right after a restart) the swap is final and the peer
	// is never told
	if final == "State_SwapCanceled" && x.w.offerSent[x.ctx.id] && !cancelRecv && !cancelSent && onlySendFault(x.sc.steps) && !dead && !x.w.dead {
		res.Histogram["cancel send failed once: peer never told"]++
		res.addFinding("C17/"+x.sc.role+"/peer-not-told/the-one-cancel-send-failed", "the swap was cancelled (timeout or failure) while the peer could not be reached: the single cancel send failed, the swap is final, nothing is sent later", map[string]interface{}{"scenario": scenarioKey(x.sc.steps)})
	}
}

// onlySendFault: the scenario has a failing send (the peer is not reachable at that moment) and no crash
func onlySendFault(steps []string) bool {
	f := false
	for _, s := range steps {
		if strings.HasPrefix(s, "crash") {
			return false
		}
		if strings.HasPrefix(s, "fault send") {
			f = true
		}
	}
	return f
}

func sendFaulted(steps []string) bool {
	for _, s := range steps {
		if strings.HasPrefix(s, "fault send") || strings.HasPrefix(s, "crash") {
			return true
		}
	}
	return false
}

// all sequences of at most `depth` inputs from the alphabet, each followed by the firing of the timer
func negotiationScenarios(role string, depth int) []scn {
	alphabet := []string{"agree", "cancel", "timeout", "restart", "agree badpubkey"}
	if role == "outReceiver" {
		alphabet = []string{"feepaid", "cancel", "timeout", "restart", "agree"}
	}
	var out []scn
	var rec func(prefix []string)
	rec = func(prefix []string) {
		for _, chain := range []string{"btc"} {
			steps := cat([]string{"new " + role + " " + chain}, prefix, []string{"timeout"})
			out = append(out, scn{role: role, steps: steps})
		}
		if len(prefix) >= depth {
			return
		}
		for _, a := range alphabet {
			rec(append(append([]string{}, prefix...), a))
		}
	}
	rec(nil)
	return out
}

func init() {
	monitors["C17"] = func(r *rng, n int, res *MonitorResult) {
		res.Rule = "requester roles and the swap-out responder on the real machines: EXHAUSTIVE input sequences of length <= 3 (quick) / 4 (thorough) over {agreement, bad agreement, cancel, timeout, restart[, fee paid]} followed by the firing of the timer, plus random disturbed runs; judged at every rest point: a negotiation wait has a 600 s timer armed; after the timer fired the wait has ended; a swap offered to the peer and cancelled by the node sent cancel; distinct = distinct sequences"
		depth := 3
		if n > 1000 {
			depth = 4
		}
		var all []scn
		for _, role := range []string{"outSender", "inSender", "outReceiver"} {
			all = append(all, negotiationScenarios(role, depth)...)
		}
		// the peer cannot be reached when the timer fires (the likeliest reason why nothing arrived)
		for _, role := range []string{"outSender", "inSender", "outReceiver"} {
			for _, chain := range []string{"btc", "lbtc"} {
				all = append(all, scn{role: role, steps: []string{"new " + role + " " + chain, "fault send down", "timeout"}})
			}
		}
		for i := 0; i < n/4; i++ {
			role := []string{"outSender", "inSender", "outReceiver"}[r.intn(3)]
			steps := genScenario(r, role, r.intn(3) == 0)
			all = append(all, scn{role: role, steps: append(steps, "timeout")})
		}
		seen := map[string]bool{}
		runMany(defaultCfg(), all, func(x scnResult) {
			res.Evaluations++
			k := scenarioKey(x.sc.steps)
			if !seen[k] {
				seen[k] = true
				res.Distinct++
			}
			if res.Evaluations%97 == 0 {
				res.sample(k)
			}
			judgeC17(x, res)
		})
	}
}
