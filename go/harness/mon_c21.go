package main

import (
	"encoding/hex"
	"encoding/json"
	"fmt"
	"reflect"
	"sort"
	"strings"

	"github.com/elementsproject/peerswap/messages"
	"github.com/elementsproject/peerswap/swap"
)

func genStr(r *rng) string {
	pool := []string{"", "a", "regtest", "mainnet", "1x2x3", "1:2:3", "\"quoted\"", "tab\there", "new\nline", "back\\slash", "üñí€", "<html>&", strings.Repeat("z", 300),
		"02aaaaaaaaaaaaaaaaaaaaaaaaaaaaaaaaaaaaaaaaaaaaaaaaaaaaaaaaaaaaaaaa", "  ", "null", "0"}
	return r.pickStr(pool)
}

func genMsg(r *rng, kind int) swap.PeerMessage {
	var id *swap.SwapId
	if r.intn(10) != 0 {
		id = swap.NewSwapId()
		if r.intn(5) == 0 {
			*id = swap.SwapId{}
		}
	}
	u8 := uint8(r.pickU64([]uint64{0, 6, 7, 255}))
	u64 := r.u64b()
	i64 := r.i64b()
	switch kind {
	case 0:
		return &swap.SwapInRequestMessage{ProtocolVersion: u8, SwapId: id, Network: genStr(r), Asset: genStr(r), Scid: genStr(r), Amount: u64, Pubkey: genStr(r), PremiumLimit: i64}
	case 1:
		return &swap.SwapOutRequestMessage{ProtocolVersion: u8, SwapId: id, Network: genStr(r), Asset: genStr(r), Scid: genStr(r), Amount: u64, Pubkey: genStr(r), PremiumLimit: i64}
	case 2:
		return &swap.SwapInAgreementMessage{ProtocolVersion: u8, SwapId: id, Pubkey: genStr(r), Premium: i64}
	case 3:
		return &swap.SwapOutAgreementMessage{ProtocolVersion: u8, SwapId: id, Pubkey: genStr(r), Payreq: genStr(r), Premium: i64}
	case 4:
		return &swap.OpeningTxBroadcastedMessage{SwapId: id, Payreq: genStr(r), TxId: genStr(r), ScriptOut: uint32(r.u32b()), BlindingKey: genStr(r)}
	case 5:
		return &swap.CancelMessage{SwapId: id, Message: genStr(r)}
	}
	return &swap.CoopCloseMessage{SwapId: id, Message: genStr(r), Privkey: genStr(r)}
}

var junkPayloads = []string{"null", "[]", "{}", "\"x\"", "0", "true", "{\"swap_id\":null}", "{\"swap_id\":\"zz\"}", "{\"swap_id\":\"00\"}", "{\"swap_id\":1}",
	"{\"swap_id\":{}}", "{", "", " ", "{\"swap_id\":\"%ID%\"", "{\"swap_id\":\"%ID%\",\"swap_id\":\"00\"}", "{\"swap_id\":\"%ID%\",\"unknown\":[1,2,{}]}",
	"{\"swap_id\":\"%ID%\",\"message\":5}", "{\"swap_id\":\"%ID%\",\"privkey\":null}", "{\"swap_id\":\"%ID%\",\"amount\":-1}", "{\"swap_id\":\"%ID%\",\"amount\":1e30}",
	"{\"swap_id\":\"%ID%\",\"protocol_version\":256}", "\xff\xfe\x00", "{\"SWAP_ID\":\"%ID%\",\"MESSAGE\":\"case-insensitive keys\"}"}

func init() {
	monitors["C21"] = func(r *rng, n int, res *MonitorResult) {
		res.Rule = "(a) every message struct with extreme/empty/escaped fields through the real MarshalPeerswapMessage + json.Unmarshal, compared field-wise, and its type number against the protocol table; (b) junk into the real OnMessageReceived of a node with a live swap: non-peerswap/unparsable type strings, oversized payloads, payloads that are not an object of the message's schema — store records, sent messages and active map must be unchanged and the handler must not panic; distinct = distinct inputs"
		want := map[string]int{"SwapInRequestMessage": 42069, "SwapOutRequestMessage": 42071, "SwapInAgreementMessage": 42073, "SwapOutAgreementMessage": 42075, "OpeningTxBroadcastedMessage": 42077, "CancelMessage": 42079, "CoopCloseMessage": 42081}
		seen := map[string]bool{}
		for i := 0; i < n/2; i++ {
			res.Evaluations++
			kind := r.intn(7)
			m := genMsg(r, kind)
			b, t, err := swap.MarshalPeerswapMessage(m)
			name := reflect.TypeOf(m).Elem().Name()
			res.Histogram["roundtrip "+name]++
			if !seen[string(b)] {
				seen[string(b)] = true
				res.Distinct++
			}
			if err != nil {
				res.addFinding("C21/marshal-error/"+name, "message does not marshal: "+err.Error(), fmt.Sprintf("%#v", m))
				continue
			}
			if t != want[name] || t%2 != 1 || messages.MessageTypeToHexString(messages.MessageType(t)) != fmt.Sprintf("%x", want[name]) {
				res.addFinding("C21/type-number/"+name, fmt.Sprintf("%s is sent with type %d (hex %s), protocol says %d", name, t, messages.MessageTypeToHexString(messages.MessageType(t)), want[name]), name)
			}
			back := reflect.New(reflect.TypeOf(m).Elem()).Interface()
			if err := json.Unmarshal(b, back); err != nil {
				res.addFinding("C21/roundtrip-error/"+name, "payload does not decode: "+err.Error(), string(b))
				continue
			}
			if !reflect.DeepEqual(m, back) {
				res.addFinding("C21/roundtrip-differs/"+name, "decoded message differs from the one encoded", string(b))
			}
			if i < 3 {
				res.sample(string(b))
			}
		}
		// (b) junk
		w := newWorld(defaultCfg())
		defer w.close()
		c := newCtx(w)
		c.Run([]string{"new inSender btc", "agree"})
		// what "changing a swap" means here: the stored records, the live swap's entry in the active map,
		// and any message sent other than a cancel answering a (bogus) request
		snapshot := func() string {
			nonCancel := 0
			for _, m := range w.msgr.sent {
				if m.typ != messages.MESSAGETYPE_CANCELED {
					nonCancel++
				}
			}
			// the WHOLE active map: an entry without a swap behind it takes a channel away from everybody
			var act []string
			for id, v := range w.svc.VerifActiveSwaps() {
				act = append(act, id+"/"+v[1])
			}
			sort.Strings(act)
			return dumpBucket(w.db, "swaps") + fmt.Sprint(nonCancel) + fmt.Sprint(w.svc.VerifActiveSwaps()[c.id]) + strings.Join(act, ",")
		}
		// requests that are well-formed in every field but the swap id
		pub := hex.EncodeToString(c.peerKey.PubKey().SerializeCompressed())
		noIdRequests := []string{
			`{"protocol_version":7,"network":"regtest","scid":"555x1x0","amount":1000000,"pubkey":"` + pub + `","premium_limit":1000000}`,
			`{"protocol_version":7,"swap_id":null,"network":"regtest","scid":"556x1x0","amount":1000000,"pubkey":"` + pub + `","premium_limit":1000000}`,
			`{"protocol_version":7,"swap_id":"","network":"regtest","scid":"557x1x0","amount":1000000,"pubkey":"` + pub + `","premium_limit":1000000}`,
			`{"protocol_version":7,"swap_id":"00","network":"regtest","scid":"558x1x0","amount":1000000,"pubkey":"` + pub + `","premium_limit":1000000}`,
		}
		types := []string{"a455", "a457", "a459", "a45b", "a45d", "a45f", "a461"}
		for i := 0; i < n/2; i++ {
			res.Evaluations++
			before := snapshot()
			var ts, payload, class string
			switch r.intn(5) {
			case 4: // a request without a usable swap id
				ts = r.pickStr([]string{"a455", "a457"})
				payload = r.pickStr(noIdRequests)
				class = "request-without-id"
			case 0: // foreign or unparsable type, any payload
				ts = r.pickStr([]string{"a454", "a456", "a460", "a467", "0", "", "-a45f", "xyz", "a463", "a465", "ffffffffffffffffff", "a45g"})
				payload = strings.ReplaceAll(r.pickStr(junkPayloads), "%ID%", c.id)
				class = "foreign-type"
			case 1: // oversized
				ts = r.pickStr(types)
				payload = "{\"swap_id\":\"" + c.id + "\",\"message\":\"" + strings.Repeat("a", 102400) + "\"}"
				class = "oversized"
			default: // malformed payload for a real type
				ts = r.pickStr(types)
				payload = strings.ReplaceAll(r.pickStr(junkPayloads[:15]), "%ID%", c.id)
				class = "malformed"
			}
			out := c.deliverRaw(r.pickStr([]string{peerNode, thirdNode}), ts, []byte(payload))
			res.Histogram["junk "+class+" -> "+out]++
			key := ts + "|" + payload[:min(60, len(payload))]
			if !seen[key] {
				seen[key] = true
				res.Distinct++
			}
			in := map[string]string{"type": ts, "payload": payload[:min(200, len(payload))]}
			if out == "PANIC" {
				res.addFinding("C21/handler-panics/"+class, "OnMessageReceived panics on a "+class+" message", in)
				// the service object is still usable in the harness; in the daemon the listener dies
				continue
			}
			if after := snapshot(); after != before {
				res.addFinding("C21/junk-changes-state/"+class, "a "+class+" message changed a swap record, sent a message or touched the active map", in)
			}
		}
	}
}
