package main

// Simulated world around the REAL swap.SwapService / state machines.
// Everything the service talks to (Lightning node, chain watchers, wallets, messenger, policy)
// is a deterministic simulator driven by the scenario; the store is the real bbolt store behind a
// logging wrapper.  A crash is realised as "from effect k on every call fails without effect and
// every write/send is dropped", after which the service object is discarded and rebuilt on the
// same database and environment.

import (
	"bytes"
	"crypto/sha256"
	"encoding/hex"
	"encoding/json"
	"errors"
	"fmt"
	"os"
	"path/filepath"
	"sort"
	"strings"
	"sync"
	"time"

	"github.com/btcsuite/btcd/btcec/v2"
	"github.com/btcsuite/btcd/btcutil"
	"github.com/btcsuite/btcd/chaincfg"
	"github.com/btcsuite/btcd/chaincfg/chainhash"
	"github.com/btcsuite/btcd/wire"
	"github.com/elementsproject/peerswap/messages"
	"github.com/elementsproject/peerswap/onchain"
	"github.com/elementsproject/peerswap/policy"
	"github.com/elementsproject/peerswap/premium"
	"github.com/elementsproject/peerswap/swap"
	"go.etcd.io/bbolt"
)

const (
	selfNode  = "02" + "5e1f5e1f5e1f5e1f5e1f5e1f5e1f5e1f5e1f5e1f5e1f5e1f5e1f5e1f5e1f5e1f"
	peerNode  = "03" + "9ee79ee79ee79ee79ee79ee79ee79ee79ee79ee79ee79ee79ee79ee79ee79ee7"
	thirdNode = "02" + "3a3a3a3a3a3a3a3a3a3a3a3a3a3a3a3a3a3a3a3a3a3a3a3a3a3a3a3a3a3a3a3a"
	// 33 bytes: this tree's validateAssetAndNetwork insists on a 33-byte asset id (a real Liquid asset id has 32)
	lbtcAsset = "015ac9f65c0efcc4775e0baec4ec03abdde22473cd3cf33c0419ca290e0751b225"
)

var errDead = errors.New("sim: process is dead")

// Obs is one observation of the real code's externally visible behaviour.
type Obs struct {
	Kind string            `json:"k"`
	Swap string            `json:"swap,omitempty"`
	A    map[string]string `json:"a,omitempty"`
}

func (o Obs) String() string {
	keys := make([]string, 0, len(o.A))
	for k := range o.A {
		keys = append(keys, k)
	}
	sort.Strings(keys)
	var b strings.Builder
	b.WriteString(o.Kind)
	if o.Swap != "" {
		b.WriteString(" swap=" + o.Swap)
	}
	for _, k := range keys {
		b.WriteString(" " + k + "=" + o.A[k])
	}
	return b.String()
}

type payStatus int

const (
	payNone payStatus = iota
	payPending
	paySucceeded
	payFailed
)

func (p payStatus) String() string { return [...]string{"none", "pending", "succeeded", "failed"}[p] }

type simInvoice struct {
	payreq   string
	hash     string
	preimage string // known to the environment (the payee)
	msat     uint64
	cltv     int64
	expiry   uint64
	kind     swap.InvoiceType
	swapId   string
	ours     bool // created by this node
	paidToUs bool
}

// World is the environment plus the node under test.
type World struct {
	mu  sync.Mutex // note/effect/fault/name: the real watchers call in from their own goroutines
	cfg WorldCfg
	// realBtcWatcher, when set, replaces the simulated Bitcoin watcher by the REAL txwatcher over a scripted RPC
	realBtcWatcher  swap.TxWatcher
	realLbtcWatcher swap.TxWatcher
	// rw, when set (cfg.RealWallets), puts the REAL wallet adapters and validators under the node: lnd.Client over
	// fake gRPC clients for Bitcoin, onchain.LiquidOnChain over a fake wallet for Liquid
	rw    *realWallets
	dir   string
	db    *bbolt.DB
	store *logStore
	rs    swap.RequestedSwapsStore
	ps    *premium.Setting
	pol   *simPolicy
	ln    *simLN
	btc   *simChain
	lbtc  *simChain
	msgr  *simMessenger
	mgr   *simManager
	svc   *swap.SwapService
	tmr   *swap.VerifTimeouts

	obs           []Obs
	effects       int  // number of effectful calls so far (crash index)
	crashAt       int  // 0 = never; the effect with this number is the last one that happens
	dead          bool // set once crashAt is reached
	faults        map[string][]string
	idNames       map[string]string
	secrets       map[string]string // secret value (hex) -> label
	revealed      map[string]bool   // swap id -> a coop_close with a key has been sent
	crashNote     *Obs
	openings      map[string]int  // swap id -> opening transactions broadcast
	spentBack     map[string]bool // swap id -> a coop/csv spend of the opening output was broadcast
	curSwap       string          // swap id the scenario is driving
	offerSent     map[string]bool // swap id -> the node\'s request/agreement went out
	anchorSeen    map[string]uint32
	anchorNow     map[string]bool
	anchorMoved   map[string]bool
	paidNoAnchor  map[string]bool
	cancelTried   map[string]bool // swap id -> the swap went through State_SendCancel
	btcOn, lbtcOn bool
	policyPath    string
	deferred      []func() // environment actions that follow the current step
	hung          bool     // a scenario step did not return within the watchdog
	hooks         map[string]func()
}

func (w *World) hookOf(name string) func() {
	w.mu.Lock()
	defer w.mu.Unlock()
	return w.hooks[name]
}

func (w *World) setHook(name string, f func()) {
	w.mu.Lock()
	defer w.mu.Unlock()
	if w.hooks == nil {
		w.hooks = map[string]func(){}
	}
	w.hooks[name] = f
}

type WorldCfg struct {
	PolicyFile      bool
	AcceptAll       bool
	Allowlist       []string
	MinSwapMsat     uint64
	BtcEnabled      bool
	LbtcEnabled     bool
	BtcHeight       uint32
	LbtcHeight      uint32
	WalletSat       uint64
	OpeningFee      uint64
	SpendableMsat   uint64
	ReceivableMsat  uint64
	IdempotentRepay bool
	PolicyContent   string
	RealWallets     bool     // the real wallet adapters and validators instead of the simulated chain's
	FundPlan        fundPlan // how the fake Bitcoin wallet funds opening transactions
	LqPlan          []lqOutSpec
}

func defaultCfg() WorldCfg {
	return WorldCfg{AcceptAll: true, MinSwapMsat: 100000000, BtcEnabled: true, LbtcEnabled: true,
		BtcHeight: 800000, LbtcHeight: 2000000, WalletSat: 100000000, OpeningFee: 500,
		SpendableMsat: 5000000000, ReceivableMsat: 5000000000}
}

func newWorld(cfg WorldCfg) *World {
	dir, err := os.MkdirTemp("", "psverif-world")
	if err != nil {
		panic(err)
	}
	w := &World{cfg: cfg, dir: dir, faults: map[string][]string{}, idNames: map[string]string{}, secrets: map[string]string{}, revealed: map[string]bool{}, openings: map[string]int{}, spentBack: map[string]bool{}, offerSent: map[string]bool{}, cancelTried: map[string]bool{},
		anchorSeen: map[string]uint32{}, anchorNow: map[string]bool{}, anchorMoved: map[string]bool{}, paidNoAnchor: map[string]bool{}}
	w.pol = &simPolicy{w: w, acceptAll: cfg.AcceptAll, allow: map[string]bool{}, susp: map[string]bool{}, minMsat: cfg.MinSwapMsat, allowNew: true}
	for _, p := range cfg.Allowlist {
		w.pol.allow[p] = true
	}
	w.ln = &simLN{w: w, invoices: map[string]*simInvoice{}, payments: map[string]payStatus{}, outcome: map[string]string{},
		spendable: cfg.SpendableMsat, receivable: cfg.ReceivableMsat, notifiers: map[string]bool{}, idempotent: cfg.IdempotentRepay, resolve: map[string]string{}}
	w.btc = newSimChain(w, "btc", cfg.BtcHeight, cfg.WalletSat, cfg.OpeningFee)
	w.lbtc = newSimChain(w, "lbtc", cfg.LbtcHeight, cfg.WalletSat, cfg.OpeningFee)
	w.msgr = &simMessenger{w: w}
	w.mgr = &simManager{w: w, inner: messages.NewManager()}
	if cfg.PolicyFile {
		path := filepath.Join(dir, "policy.conf")
		content := cfg.PolicyContent
		if content == "" {
			content = "accept_all_peers=true\n"
		}
		os.WriteFile(path, []byte(content), 0o644)
		rp, err := policy.CreateFromFile(path)
		if err != nil {
			panic(err)
		}
		w.pol.real = rp
		w.policyPath = path
	}
	if cfg.RealWallets {
		w.rw = newRealWallets(cfg)
	}
	w.openDB()
	w.boot(cfg.BtcEnabled, cfg.LbtcEnabled)
	return w
}

func (w *World) close() {
	if w.db != nil {
		w.db.Close()
	}
	os.RemoveAll(w.dir)
}

func (w *World) openDB() {
	db, err := bbolt.Open(filepath.Join(w.dir, "swaps.db"), 0o600, &bbolt.Options{Timeout: time.Second})
	if err != nil {
		panic(err)
	}
	w.db = db
	st, err := swap.NewBboltStore(db)
	if err != nil {
		panic(err)
	}
	w.store = &logStore{w: w, inner: st}
	rs, err := swap.NewRequestedSwapsStore(db)
	if err != nil {
		panic(err)
	}
	w.rs = rs
	ps, err := premium.NewSetting(db)
	if err != nil {
		panic(err)
	}
	w.ps = ps
}

func (w *World) boot(btc, lbtc bool) {
	w.btcOn, w.lbtcOn = btc, lbtc
	var btcWatcher swap.TxWatcher = w.btc
	if w.realBtcWatcher != nil {
		btcWatcher = w.realBtcWatcher
	}
	var lbtcWatcher swap.TxWatcher = w.lbtc
	if w.realLbtcWatcher != nil {
		lbtcWatcher = w.realLbtcWatcher
	}
	var btcWallet, lbtcWallet swap.Wallet = w.btc, w.lbtc
	var btcVal, lbtcVal swap.Validator = w.btc, w.lbtc
	if w.rw != nil {
		btcWallet, btcVal = w.rw.lnd.client, w.rw.lnd.chain
		lbtcWallet, lbtcVal = w.rw.lq, w.rw.lq
	}
	services := swap.NewSwapServices(w.store, w.rs, w.ln, w.msgr, w.mgr, w.pol,
		btc, btcWallet, btcVal, btcWatcher, lbtc, lbtcWallet, lbtcVal, lbtcWatcher, w.ps)
	w.svc = swap.NewSwapService(services)
	// like both daemons (Gen/Startup.lean pins their order): the channels of the stored swaps are taken before the
	// message handler goes live
	if r, ok := interface{}(w.svc).(interface{ ReserveStoredChannels() error }); ok {
		if err := r.ReserveStoredChannels(); err != nil {
			w.note(Obs{Kind: "reserve-failed", A: map[string]string{"err": err.Error()}})
		}
	}
	t, err := w.svc.VerifStart()
	if err != nil {
		panic(err)
	}
	w.tmr = t
}

// restart discards all volatile state of the node (service object, timers, retransmitters, watcher
// registrations, payment notifiers) and recovers from the database.
func (w *World) restart() {
	w.flushCrashNote()
	w.dead = false
	if w.crashAt != 0 && w.crashAt <= w.effects {
		w.crashAt = 0 // the scheduled crash already happened; one scheduled for the recovery itself stays
	}
	w.mgr.stopAll()
	w.mgr = &simManager{w: w, inner: messages.NewManager()}
	w.btc.confWatch, w.btc.csvWatch = nil, nil
	w.lbtc.confWatch, w.lbtc.csvWatch = nil, nil
	w.ln.notifiers = map[string]bool{}
	w.note(Obs{Kind: "restart"})
	w.boot(w.btcOn, w.lbtcOn)
	if err := w.svc.RecoverSwaps(); err != nil {
		w.note(Obs{Kind: "recover-error", A: map[string]string{"err": err.Error()}})
	}
}

// note appends an observation; immediately repeated identical observations (retry loops) are
// collapsed into one carrying a repeat marker.
func (w *World) note(o Obs) {
	w.mu.Lock()
	defer w.mu.Unlock()
	if o.A == nil {
		o.A = map[string]string{}
	}
	if n := len(w.obs); n > 0 && o.Kind != "step" && sameObs(w.obs[n-1], o) {
		w.obs[n-1].A["repeated"] = "1"
		return
	}
	w.obs = append(w.obs, o)
	if w.crashNote != nil && o.Kind != "crash" {
		c := *w.crashNote
		w.crashNote = nil
		w.obs = append(w.obs, c)
	}
}

// claimPayStatus is the Lightning payment table's entry for the claim invoice the PEER issued for the swap.
func (w *World) claimPayStatus(swapId string) payStatus {
	st := payNone
	for _, inv := range w.ln.invoices {
		if inv.swapId == swapId && inv.kind == swap.INVOICE_CLAIM && !inv.ours {
			if s := w.ln.payments[inv.hash]; s > st || st == payNone {
				if s == paySucceeded || s == payPending || st == payNone {
					st = s
				}
			}
		}
	}
	return st
}

func (w *World) flushCrashNote() {
	if w.crashNote != nil {
		c := *w.crashNote
		w.crashNote = nil
		w.obs = append(w.obs, c)
	}
}

func sameObs(a, b Obs) bool {
	if a.Kind != b.Kind || a.Swap != b.Swap {
		return false
	}
	for k, v := range b.A {
		if a.A[k] != v {
			return false
		}
	}
	for k := range a.A {
		if k == "repeated" {
			continue
		}
		if _, ok := b.A[k]; !ok {
			return false
		}
	}
	return true
}

// effect counts an effectful call. It returns false when the call must not take effect (process dead).
// When the crash index is reached the call still takes effect but the process dies with it: the
// caller reports an error to the node.
func (w *World) effect(kind string) (takesEffect bool, reportErr bool) {
	w.mu.Lock()
	defer w.mu.Unlock()
	if w.dead {
		return false, true
	}
	w.effects++
	if w.crashAt != 0 && w.effects >= w.crashAt {
		w.dead = true
		// the crash is noted after the observation of the effect it interrupts
		w.crashNote = &Obs{Kind: "crash", A: map[string]string{"in": kind, "n": fmt.Sprint(w.effects)}}
		return true, true
	}
	return true, false
}

// fault pops a scripted outcome for a call kind ("" = default behaviour).
func (w *World) fault(kind string) string {
	w.mu.Lock()
	defer w.mu.Unlock()
	q := w.faults[kind]
	if len(q) == 0 {
		return ""
	}
	w.faults[kind] = q[1:]
	return q[0]
}

func (w *World) name(id string) string {
	w.mu.Lock()
	defer w.mu.Unlock()
	if id == "" {
		return ""
	}
	if n, ok := w.idNames[id]; ok {
		return n
	}
	n := fmt.Sprintf("s%d", len(w.idNames)+1)
	w.idNames[id] = n
	return n
}

// ---------------------------------------------------------------------------
// store

type logStore struct {
	w     *World
	inner swap.Store
}

// recFlags summarises a record for observations and abstractions.
func recFlags(s *swap.SwapStateMachine) map[string]string {
	d := s.Data
	b := func(x bool) string {
		if x {
			return "1"
		}
		return "0"
	}
	return map[string]string{
		"state":    string(s.Current),
		"prev":     string(s.Previous),
		"role":     fmt.Sprintf("%d/%d", s.Type, s.Role),
		"opening":  b(d.OpeningTxBroadcasted != nil),
		"txhex":    b(d.OpeningTxHex != ""),
		"preimage": b(d.ClaimPreimage != ""),
		"claimtx":  b(d.ClaimTxId != ""),
		"anchor":   b(d.StartingBlockHeightSet),
		"start":    fmt.Sprint(d.StartingBlockHeight),
		"cancel":   b(d.Cancel != nil),
		"coop":     b(d.CoopClose != nil),
		"feepre":   b(d.FeePreimage != ""),
		"nextmsg":  fmt.Sprint(d.NextMessageType),
		"lasterr":  errClassOf(d.LastErrString),
		"inagree":  b(d.SwapInAgreement != nil),
	}
}

// errClassOf normalises an error text to a short class (letters of its first words).
func errClassOf(m string) string {
	if m == "" {
		return "-"
	}
	f := strings.FieldsFunc(m, func(r rune) bool { return !(r >= 'a' && r <= 'z' || r >= 'A' && r <= 'Z') })
	if len(f) > 5 {
		f = f[:5]
	}
	return strings.ToLower(strings.Join(f, "-"))
}

func (l *logStore) UpdateData(s *swap.SwapStateMachine) error {
	ok, rep := l.w.effect("store")
	if !ok {
		return errDead
	}
	if f := l.w.fault("store"); f != "" {
		return errors.New("sim store: " + f)
	}
	err := l.inner.UpdateData(s)
	if err == nil {
		fl := recFlags(s)
		fl["pay"] = "none"
		if s.Data.OpeningTxBroadcasted != nil {
			if inv, ok := l.w.ln.inv(s.Data.OpeningTxBroadcasted.Payreq); ok {
				fl["pay"] = l.w.ln.payments[inv.hash].String()
			}
		}
		fl["revealed"] = "0"
		if l.w.revealed[s.SwapId.String()] {
			fl["revealed"] = "1"
		}
		id := s.SwapId.String()
		fl["openings"] = fmt.Sprint(l.w.openings[id])
		fl["spentback"] = b01(l.w.spentBack[id])
		fl["resend"] = b01(l.w.mgr.active[id])
		fl["suspicious"] = b01(l.w.pol.IsPeerSuspicious(s.Data.PeerNodeId))
		fl["timer"] = "0"
		if l.w.tmr != nil {
			for _, a := range l.w.tmr.Armed() {
				if strings.HasPrefix(a, id+"/") {
					fl["timer"] = "1"
					fl["timersecs"] = strings.TrimPrefix(a, id+"/")
				}
			}
		}
		// anchor bookkeeping for C13
		if s.Data.StartingBlockHeightSet {
			if prev, ok := l.w.anchorSeen[id]; ok && prev != s.Data.StartingBlockHeight {
				l.w.anchorMoved[id] = true
			}
			l.w.anchorSeen[id] = s.Data.StartingBlockHeight
		} else if _, ok := l.w.anchorSeen[id]; ok {
			l.w.anchorMoved[id] = true // the flag was cleared again
		}
		l.w.anchorNow[id] = s.Data.StartingBlockHeightSet
		fl["anchormoved"] = b01(l.w.anchorMoved[id])
		fl["paidnoanchor"] = b01(l.w.paidNoAnchor[id])
		fl["offersent"] = b01(l.w.offerSent[id])
		fl["canceltried"] = b01(l.w.cancelTried[id] || string(s.Current) == "State_SendCancel")
		if string(s.Current) == "State_SendCancel" {
			l.w.cancelTried[id] = true
		}
		fl["csvwatch"], fl["invpaid"], fl["confwatch"] = "0", "0", "0"
		for _, ch := range []*simChain{l.w.btc, l.w.lbtc} {
			for _, wt := range ch.csvWatch {
				if wt.swapId == id {
					fl["csvwatch"] = "1"
				}
			}
			for _, wt := range ch.confWatch {
				if wt.swapId == id {
					fl["confwatch"] = "1"
				}
			}
		}
		l.w.ln.invMu.RLock()
		for _, inv := range l.w.ln.invoices {
			if inv.ours && inv.swapId == id && inv.kind == swap.INVOICE_CLAIM && inv.paidToUs {
				fl["invpaid"] = "1"
			}
		}
		l.w.ln.invMu.RUnlock()
		l.w.note(Obs{Kind: "persist", Swap: l.w.name(s.SwapId.String()), A: fl})
	}
	if rep && err == nil {
		return errDead
	}
	return err
}
func (l *logStore) GetData(id string) (*swap.SwapStateMachine, error) { return l.inner.GetData(id) }
func (l *logStore) ListAll() ([]*swap.SwapStateMachine, error)        { return l.inner.ListAll() }
func (l *logStore) ListAllByPeer(p string) ([]*swap.SwapStateMachine, error) {
	return l.inner.ListAllByPeer(p)
}

// ---------------------------------------------------------------------------
// policy

type simPolicy struct {
	w         *World
	acceptAll bool
	allow     map[string]bool
	susp      map[string]bool
	minMsat   uint64
	allowNew  bool
	real      *policy.Policy // when set, every call goes to the real policy
}

func (p *simPolicy) IsPeerAllowed(peer string) bool {
	if p.real != nil {
		return p.real.IsPeerAllowed(peer)
	}
	return p.acceptAll || p.allow[peer]
}
func (p *simPolicy) IsPeerSuspicious(peer string) bool {
	if p.real != nil {
		return p.real.IsPeerSuspicious(peer)
	}
	return p.susp[peer]
}
func (p *simPolicy) AddToSuspiciousPeerList(pubkey string) error {
	ok, rep := p.w.effect("policy.suspicious")
	if !ok {
		return errDead
	}
	var err error
	if p.real != nil {
		err = p.real.AddToSuspiciousPeerList(pubkey)
	} else {
		p.susp[pubkey] = true
	}
	p.w.note(Obs{Kind: "suspicious", A: map[string]string{"peer": pubkey, "err": fmt.Sprint(err)}})
	if rep && err == nil {
		return errDead
	}
	return err
}
func (p *simPolicy) GetReserveOnchainMsat() uint64 { return 0 }
func (p *simPolicy) GetMinSwapAmountMsat() uint64 {
	if p.real != nil {
		return p.real.GetMinSwapAmountMsat()
	}
	return p.minMsat
}
func (p *simPolicy) NewSwapsAllowed() bool {
	if p.real != nil {
		return p.real.NewSwapsAllowed()
	}
	return p.allowNew
}

// ---------------------------------------------------------------------------
// messenger

type simMessenger struct {
	w       *World
	handler func(peerId string, msgType string, payload []byte) error
	sent    []sentMsg
}

func (m *simMessenger) SendMessage(peerId string, msg []byte, msgType int) error {
	ok, rep := m.w.effect("send")
	if !ok {
		return errDead
	}
	if f := m.w.fault("send"); f != "" {
		return errors.New("sim send: " + f)
	}
	m.sent = append(m.sent, sentMsg{peerId, messages.MessageType(msgType), append([]byte{}, msg...)})
	var id struct {
		SwapId string `json:"swap_id"`
	}
	json.Unmarshal(msg, &id)
	if messages.MessageType(msgType) == messages.MESSAGETYPE_COOPCLOSE {
		var cc struct {
			Privkey string `json:"privkey"`
		}
		json.Unmarshal(msg, &cc)
		if cc.Privkey != "" {
			m.w.revealed[id.SwapId] = true
		}
	}
	switch messages.MessageType(msgType) {
	case messages.MESSAGETYPE_SWAPINREQUEST, messages.MESSAGETYPE_SWAPOUTREQUEST, messages.MESSAGETYPE_SWAPINAGREEMENT, messages.MESSAGETYPE_SWAPOUTAGREEMENT:
		m.w.offerSent[id.SwapId] = true
	}
	a := map[string]string{"to": shortPeer(peerId), "type": msgTypeName(msgType), "sha": shortHash(msg)}
	if messages.MessageType(msgType) == messages.MESSAGETYPE_COOPCLOSE {
		a["pay"] = m.w.claimPayStatus(id.SwapId).String()
	}
	m.w.note(Obs{Kind: "send", Swap: m.w.name(id.SwapId), A: a})
	if rep {
		return errDead
	}
	return nil
}
func (m *simMessenger) AddMessageHandler(f func(peerId string, msgType string, payload []byte) error) {
	m.handler = f
}

func shortPeer(p string) string {
	switch p {
	case selfNode:
		return "self"
	case peerNode:
		return "peer"
	case thirdNode:
		return "third"
	}
	return p
}

func shortHash(b []byte) string {
	h := sha256.Sum256(b)
	return hex.EncodeToString(h[:4])
}

func msgTypeName(t int) string {
	switch messages.MessageType(t) {
	case messages.MESSAGETYPE_SWAPINREQUEST:
		return "swap_in_request"
	case messages.MESSAGETYPE_SWAPOUTREQUEST:
		return "swap_out_request"
	case messages.MESSAGETYPE_SWAPINAGREEMENT:
		return "swap_in_agreement"
	case messages.MESSAGETYPE_SWAPOUTAGREEMENT:
		return "swap_out_agreement"
	case messages.MESSAGETYPE_OPENINGTXBROADCASTED:
		return "opening_tx_broadcasted"
	case messages.MESSAGETYPE_CANCELED:
		return "cancel"
	case messages.MESSAGETYPE_COOPCLOSE:
		return "coop_close"
	}
	return fmt.Sprintf("type%d", t)
}

// simManager wraps the real messages.Manager and records adds/removes.
type simManager struct {
	w      *World
	inner  *messages.Manager
	active map[string]bool
}

func (m *simManager) AddSender(id string, messenger messages.StoppableMessenger) error {
	ok, rep := m.w.effect("addsender")
	if !ok {
		return errDead
	}
	err := m.inner.AddSender(id, messenger)
	if m.active == nil {
		m.active = map[string]bool{}
	}
	if err == nil {
		m.active[id] = true
	}
	m.w.note(Obs{Kind: "addsender", Swap: m.w.name(id), A: map[string]string{"err": fmt.Sprint(err)}})
	if rep && err == nil {
		return errDead
	}
	return err
}
func (m *simManager) RemoveSender(id string) {
	if m.w.dead {
		return
	}
	was := m.active[id]
	m.inner.RemoveSender(id)
	delete(m.active, id)
	if was {
		m.w.note(Obs{Kind: "removesender", Swap: m.w.name(id)})
	}
}
func (m *simManager) stopAll() {
	for id := range m.active {
		m.inner.RemoveSender(id)
	}
	m.active = map[string]bool{}
}

// ---------------------------------------------------------------------------
// lightning

type simLN struct {
	w           *World
	invoices    map[string]*simInvoice // payreq -> invoice
	payments    map[string]payStatus   // payment hash -> status of OUR outgoing payment
	outcome     map[string]string      // payment hash -> scripted outcome of the next attempts
	spendable   uint64
	receivable  uint64
	notifiers   map[string]bool
	payCb       func(swapId string, invoiceType swap.InvoiceType)
	nInv        int
	payAttempts int
	idempotent  bool              // back-end returns the existing payment instead of refusing a second one
	resolve     map[string]string // how an in-flight HTLC resolves when the idempotent back-end waits for it
	invMu       sync.RWMutex      // guards the invoices map (C18 runs handlers concurrently on one world)
	advChain    string            // after every failed claim payment attempt this chain grows by advBlocks
	advBlocks   uint32
}

func (l *simLN) inv(payreq string) (*simInvoice, bool) {
	l.invMu.RLock()
	defer l.invMu.RUnlock()
	i, ok := l.invoices[payreq]
	return i, ok
}

func (l *simLN) putInv(payreq string, i *simInvoice) {
	l.invMu.Lock()
	l.invoices[payreq] = i
	l.invMu.Unlock()
}

// foreignInvoice registers an invoice the PEER created (so that DecodePayreq and payments work).
func (l *simLN) foreignInvoice(hash, preimage string, msat uint64, cltv int64, kind swap.InvoiceType, swapId string) string {
	l.nInv++
	payreq := fmt.Sprintf("lnsim%dp%s", l.nInv, hash[:8])
	l.putInv(payreq, &simInvoice{payreq: payreq, hash: hash, preimage: preimage, msat: msat, cltv: cltv, kind: kind, swapId: swapId})
	return payreq
}

func (l *simLN) DecodePayreq(payreq string) (string, uint64, int64, error) {
	if l.w.dead {
		return "", 0, 0, errDead
	}
	if f := l.w.fault("decode"); f != "" {
		return "", 0, 0, errors.New("sim decode: " + f)
	}
	inv, ok := l.inv(payreq)
	if !ok {
		return "", 0, 0, errors.New("sim: invoice not decodable")
	}
	return inv.hash, inv.msat, inv.cltv, nil
}
func (l *simLN) PayInvoice(payreq string) (string, error) { return "", errors.New("not used") }
func (l *simLN) GetPayreq(msat uint64, preimage string, swapId string, memo string, it swap.InvoiceType, expiry, cltv uint64) (string, error) {
	ok, rep := l.w.effect("getpayreq")
	if !ok {
		return "", errDead
	}
	if f := l.w.fault("getpayreq"); f != "" {
		return "", errors.New("sim getpayreq: " + f)
	}
	pre, _ := hex.DecodeString(preimage)
	h := sha256.Sum256(pre)
	l.nInv++
	payreq := fmt.Sprintf("lnsim%dm%s", l.nInv, hex.EncodeToString(h[:4]))
	l.putInv(payreq, &simInvoice{payreq: payreq, hash: hex.EncodeToString(h[:]), preimage: preimage, msat: msat, cltv: int64(cltv), expiry: expiry, kind: it, swapId: swapId, ours: true})
	l.w.secrets[preimage] = "preimage/" + it.String()
	l.w.note(Obs{Kind: "invoice", Swap: l.w.name(swapId), A: map[string]string{"type": it.String(), "msat": fmt.Sprint(msat), "cltv": fmt.Sprint(cltv), "expiry": fmt.Sprint(expiry), "memo": memoShape(memo), "hash": hex.EncodeToString(h[:4])}})
	if rep {
		return "", errDead
	}
	return payreq, nil
}

func memoShape(m string) string {
	f := strings.Fields(m)
	if len(f) >= 4 {
		return strings.Join(f[:4], "_")
	}
	return m
}

func (l *simLN) pay(kind, payreq, channel string, maxCltv uint32) (string, error) {
	ok, rep := l.w.effect("pay")
	if !ok {
		return "", errDead
	}
	l.payAttempts++
	inv, known := l.inv(payreq)
	if !known {
		return "", errors.New("sim: unknown invoice")
	}
	height := l.w.btc.height
	lheight := l.w.lbtc.height
	st := l.payments[inv.hash]
	out := l.outcome[inv.hash]
	if out == "" {
		out = "success"
	}
	var pre string
	var err error
	switch {
	case st == paySucceeded && l.idempotent:
		// a sendpay/waitsendpay-like back-end returns the result of the existing payment
		pre = inv.preimage
		out = "existing-succeeded"
	case st == payPending && l.idempotent:
		// ... and waits for the HTLC that is in flight: it resolves as scripted by `settle`
		switch l.resolve[inv.hash] {
		case "fail":
			l.payments[inv.hash] = payFailed
			err = errors.New("sim: payment failed")
			out = "existing-failed"
		default:
			l.payments[inv.hash] = paySucceeded
			pre = inv.preimage
			out = "existing-succeeded"
		}
	case st == paySucceeded || st == payPending:
		// an LND-like back-end refuses to pay a hash twice
		err = errors.New("sim: payment already exists (" + st.String() + ")")
		out = "refused-" + st.String()
	case out == "success":
		l.payments[inv.hash] = paySucceeded
		pre = inv.preimage
	case out == "fail":
		l.payments[inv.hash] = payFailed
		err = errors.New("sim: payment failed definitively")
	case out == "pending":
		l.payments[inv.hash] = payPending
		err = errors.New("sim: payment attempt timed out, HTLC still in flight")
	default:
		err = errors.New("sim: " + out)
	}
	if kind == "claim" && !l.w.anchorNow[inv.swapId] {
		l.w.paidNoAnchor[inv.swapId] = true
	}
	l.w.note(Obs{Kind: "pay", Swap: l.w.name(inv.swapId), A: map[string]string{"kind": kind, "hash": inv.hash[:8], "msat": fmt.Sprint(inv.msat),
		"chan": channel, "btc": fmt.Sprint(height), "lbtc": fmt.Sprint(lheight), "max": fmt.Sprint(maxCltv), "out": out, "cltv": fmt.Sprint(inv.cltv)}})
	if kind == "claim" && err != nil && l.advBlocks != 0 {
		if l.advChain == "lbtc" {
			l.w.lbtc.height += l.advBlocks
		} else {
			l.w.btc.height += l.advBlocks
		}
	}
	if rep && err == nil {
		return "", errDead
	}
	return pre, err
}

func (l *simLN) PayInvoiceViaChannel(payreq string, channel string) (string, error) {
	if f := l.w.fault("payfee"); f != "" {
		return "", errors.New("sim payfee: " + f)
	}
	return l.pay("fee", payreq, channel, 0)
}
func (l *simLN) RebalancePayment(payreq string, channel string, maxTotalCLTVDelta uint32) (string, error) {
	return l.pay("claim", payreq, channel, maxTotalCLTVDelta)
}
func (l *simLN) RecoverClaimPayment(payreq string) (string, error) {
	if l.w.dead {
		return "", errDead
	}
	inv, ok := l.inv(payreq)
	if !ok {
		return "", errors.New("sim: unknown invoice")
	}
	l.w.note(Obs{Kind: "recoverpay", Swap: l.w.name(inv.swapId), A: map[string]string{"status": l.payments[inv.hash].String()}})
	switch l.payments[inv.hash] {
	case paySucceeded:
		return inv.preimage, nil
	case payPending:
		return "", errors.New("sim: still pending")
	case payFailed:
		return "", errors.New("claim payment already failed")
	}
	return "", errors.New("claim payment was not found")
}
func (l *simLN) AddPaymentCallback(f func(swapId string, invoiceType swap.InvoiceType)) { l.payCb = f }
func (l *simLN) AddPaymentNotifier(swapId string, payreq string, it swap.InvoiceType) {
	if l.w.dead {
		return
	}
	l.notifiers[swapId+"/"+it.String()] = true
	l.w.note(Obs{Kind: "notifier", Swap: l.w.name(swapId), A: map[string]string{"type": it.String()}})
	// like the real back-ends (lnd SubscribeSingleInvoice, CLN waitinvoice): a notifier registered for an invoice
	// that is already settled fires at once, from the back-end's own goroutine (here: after the current step)
	if inv, ok := l.inv(payreq); ok && inv.ours && inv.paidToUs {
		l.w.deferred = append(l.w.deferred, func() {
			if l.payCb != nil && !l.w.dead && l.notifiers[swapId+"/"+it.String()] {
				l.w.note(Obs{Kind: "notifier-refire", Swap: l.w.name(swapId), A: map[string]string{"type": it.String()}})
				l.payCb(swapId, it)
			}
		})
	}
}

// runDeferred runs what the environment does "right after" the current step (callbacks from back-end goroutines)
func (w *World) runDeferred() {
	for k := 0; k < 10 && len(w.deferred) > 0; k++ {
		q := w.deferred
		w.deferred = nil
		for _, f := range q {
			f()
		}
	}
	w.deferred = nil
}
func (l *simLN) CanSpend(amountMsat uint64) error {
	if h := l.w.hookOf("canspend"); h != nil {
		h() // a Lightning RPC takes its time: the harness may hold the caller here
	}
	if f := l.w.fault("canspend"); f != "" {
		return errors.New("sim canspend: " + f)
	}
	return nil
}
func (l *simLN) Implementation() string { return "SIM" }
func (l *simLN) SpendableMsat(scid string) (uint64, error) {
	if l.w.dead {
		return 0, errDead
	}
	if f := l.w.fault("spendable"); f != "" {
		return 0, errors.New("sim spendable: " + f)
	}
	// HTLCs of the node's own payments that are in flight or settled no longer count as spendable
	out := uint64(0)
	for _, inv := range l.invoices {
		if inv.ours {
			continue
		}
		if st := l.payments[inv.hash]; st == payPending || st == paySucceeded {
			out += inv.msat
		}
	}
	if out > l.spendable {
		return 0, nil
	}
	return l.spendable - out, nil
}
func (l *simLN) ReceivableMsat(scid string) (uint64, error) {
	if l.w.dead {
		return 0, errDead
	}
	if h := l.w.hookOf("receivable"); h != nil {
		h()
	}
	if f := l.w.fault("receivable"); f != "" {
		return 0, errors.New("sim receivable: " + f)
	}
	return l.receivable, nil
}
func (l *simLN) ProbePayment(scid string, amountMsat uint64) (bool, string, error) {
	if l.w.dead {
		return false, "", errDead
	}
	switch l.w.fault("probe") {
	case "":
		return true, "", nil
	case "unsuccessful":
		return false, "no route", nil
	}
	return false, "", errors.New("sim probe error")
}

// ---------------------------------------------------------------------------
// chain: TxWatcher + Wallet + Validator for one chain

type simWatch struct {
	swapId string
	txid   string
	vout   uint32
	start  uint32
	arg    uint32 // payment window or csv
	script string
}

type simTx struct {
	txid   string
	hex    string
	kind   string // opening | preimage | csv | coop
	swap   string
	confAt uint32 // 0 = unconfirmed
	spends string // txid:vout
}

type simChain struct {
	w         *World
	name      string
	height    uint32
	balance   uint64
	fee       uint64
	confCb    func(swapId string, txHex string, err error) error
	csvCb     func(swapId string) error
	confWatch []simWatch
	csvWatch  []simWatch
	txs       []*simTx
	real      *onchain.BitcoinOnChain
	nAddr     int
	voutShift int // number of decoy outputs the wallet puts before the swap output
	csv       uint32
}

func newSimChain(w *World, name string, height uint32, balance, fee uint64) *simChain {
	c := &simChain{w: w, name: name, height: height, balance: balance, fee: fee}
	c.real = onchain.NewBitcoinOnChain(fakeEstimator{v: 1000}, btcutil.Amount(1000), btcutil.Amount(253), &chaincfg.RegressionNetParams)
	if name == "btc" {
		c.csv = onchain.BitcoinCsv
	} else {
		c.csv = onchain.LiquidCsv
	}
	return c
}

// TxWatcher
func (c *simChain) AddWaitForConfirmationTx(swapID, txID string, vout, startingHeight, paymentWindow uint32, script []byte) {
	if c.w.dead {
		return
	}
	c.confWatch = append(c.confWatch, simWatch{swapID, txID, vout, startingHeight, paymentWindow, hex.EncodeToString(script)})
	c.w.note(Obs{Kind: "watchconf", Swap: c.w.name(swapID), A: map[string]string{"chain": c.name, "vout": fmt.Sprint(vout), "start": fmt.Sprint(startingHeight), "window": fmt.Sprint(paymentWindow)}})
}
func (c *simChain) AddWaitForCsvTx(swapID, txID string, vout, startingHeight, csv uint32, script []byte) {
	if c.w.dead {
		return
	}
	// the real watchers key their CSV watch list by swap id: a second registration replaces the first
	kept := c.csvWatch[:0]
	for _, wt := range c.csvWatch {
		if wt.swapId != swapID {
			kept = append(kept, wt)
		}
	}
	c.csvWatch = append(kept, simWatch{swapID, txID, vout, startingHeight, csv, hex.EncodeToString(script)})
	c.w.note(Obs{Kind: "watchcsv", Swap: c.w.name(swapID), A: map[string]string{"chain": c.name, "vout": fmt.Sprint(vout), "start": fmt.Sprint(startingHeight), "csv": fmt.Sprint(csv), "txid": txID[:min(8, len(txID))]}})
}
func (c *simChain) AddConfirmationCallback(f func(swapId string, txHex string, err error) error) {
	c.confCb = f
}
func (c *simChain) AddCsvCallback(f func(swapId string) error) { c.csvCb = f }
func (c *simChain) GetBlockHeight() (uint32, error) {
	if c.w.dead {
		return 0, errDead
	}
	if f := c.w.fault("height." + c.name); f != "" {
		return 0, errors.New("sim height: " + f)
	}
	return c.height, nil
}
func (c *simChain) StartWatchingTxs() error { return nil }

// Validator
func (c *simChain) TxIdFromHex(txHex string) (string, error) { return c.real.TxIdFromHex(txHex) }
func (c *simChain) ValidateTx(p *swap.OpeningParams, txHex string) (bool, error) {
	if c.w.dead {
		return false, errDead
	}
	var ok bool
	var err error
	if c.name == "btc" {
		ok, err = c.real.ValidateTx(p, txHex)
	} else {
		ok, err = c.simValidate(p, txHex)
	}
	c.w.note(Obs{Kind: "validate", A: map[string]string{"chain": c.name, "ok": fmt.Sprint(ok), "err": fmt.Sprint(err != nil), "amount": fmt.Sprint(p.Amount), "csv": fmt.Sprint(p.CSV), "hash": p.ClaimPaymentHash[:min(8, len(p.ClaimPaymentHash))], "tx": shortHash([]byte(txHex))}})
	return ok, err
}
func (c *simChain) GetCSVHeight() uint32 { return c.csv }

// simValidate is the Liquid stand-in: same transaction format as Bitcoin (the real Liquid
// validator is exercised by its own slice), script built with the swap's own CSV.
func (c *simChain) simValidate(p *swap.OpeningParams, txHex string) (bool, error) {
	raw, err := hex.DecodeString(txHex)
	if err != nil {
		return false, err
	}
	tx := wire.NewMsgTx(2)
	if err := tx.Deserialize(bytes.NewReader(raw)); err != nil {
		return false, err
	}
	want, err := c.outputScript(p, p.CSV)
	if err != nil {
		return false, err
	}
	for _, o := range tx.TxOut {
		if bytes.Equal(o.PkScript, want) && o.Value == int64(p.Amount) {
			return true, nil
		}
	}
	return false, nil
}

func (c *simChain) outputScript(p *swap.OpeningParams, csv uint32) ([]byte, error) {
	redeem, err := onchain.ParamsToTxScript(p, csv)
	if err != nil {
		return nil, err
	}
	h := sha256.Sum256(redeem)
	return append([]byte{0x00, 0x20}, h[:]...), nil
}

// Wallet
func (c *simChain) SetLabel(txID, address, label string) error {
	if c.w.dead {
		return errDead
	}
	if f := c.w.fault("label"); f != "" {
		return errors.New("sim label: " + f)
	}
	return nil
}

// buildOpening builds a serialised transaction with the swap output at position `pos`.
func (c *simChain) buildOpening(p *swap.OpeningParams, csv uint32, pos int, amount uint64, salt int) (string, string, error) {
	script, err := c.outputScript(p, csv)
	if err != nil {
		return "", "", err
	}
	tx := wire.NewMsgTx(2)
	var prev chainhash.Hash
	prev[0] = byte(salt)
	prev[1] = byte(salt >> 8)
	prev[2] = byte(len(c.txs))
	tx.AddTxIn(wire.NewTxIn(wire.NewOutPoint(&prev, 0), nil, nil))
	for i := 0; i < pos; i++ {
		tx.AddTxOut(wire.NewTxOut(int64(7777+i), []byte{0x00, 0x14, 1, 2, 3, 4, 5, 6, 7, 8, 9, 10, 11, 12, 13, 14, 15, 16, 17, 18, 19, byte(20 + i)}))
	}
	tx.AddTxOut(wire.NewTxOut(int64(amount), script))
	tx.AddTxOut(wire.NewTxOut(int64(123456), []byte{0x00, 0x14, 9, 9, 9, 9, 9, 9, 9, 9, 9, 9, 9, 9, 9, 9, 9, 9, 9, 9, 9, 9}))
	var buf bytes.Buffer
	tx.Serialize(&buf)
	return hex.EncodeToString(buf.Bytes()), tx.TxHash().String(), nil
}

func (c *simChain) CreateOpeningTransaction(p *swap.OpeningParams) (string, string, string, uint64, uint32, error) {
	ok, rep := c.w.effect("broadcast.opening")
	if !ok {
		return "", "", "", 0, 0, errDead
	}
	if f := c.w.fault("opening"); f != "" {
		return "", "", "", 0, 0, errors.New("sim wallet: " + f)
	}
	csv := p.CSV
	if c.name == "btc" {
		csv = onchain.BitcoinCsv
	}
	txHex, txid, err := c.buildOpening(p, csv, c.voutShift, p.Amount, c.w.effects)
	if err != nil {
		return "", "", "", 0, 0, err
	}
	c.txs = append(c.txs, &simTx{txid: txid, hex: txHex, kind: "opening", swap: c.w.curSwap})
	c.w.openings[c.w.curSwap]++
	c.balance -= p.Amount + c.fee
	c.w.note(Obs{Kind: "broadcast", A: map[string]string{"chain": c.name, "tx": "opening", "txid": txid[:8], "amount": fmt.Sprint(p.Amount), "csv": fmt.Sprint(csv), "vout": fmt.Sprint(c.voutShift), "hash": p.ClaimPaymentHash[:min(8, len(p.ClaimPaymentHash))]}})
	if rep {
		return "", "", "", 0, 0, errDead
	}
	// a wallet adapter that broadcasts and then fails (lwk: the raw transaction is fetched from the Electrum server
	// after the broadcast; CLN: txsend error reporting): the transaction is out, the caller gets an error
	if f := c.w.fault("opening-after"); f != "" {
		c.w.note(Obs{Kind: "walleterr-after-broadcast", A: map[string]string{"chain": c.name}})
		return "", "", "", 0, 0, errors.New("sim wallet (after broadcast): " + f)
	}
	return txHex, "addr-opening", txid, c.fee, uint32(c.voutShift), nil
}

func (c *simChain) spend(kind string, p *swap.OpeningParams, cp *swap.ClaimParams) (string, string, string, error) {
	ok, rep := c.w.effect("broadcast." + kind)
	if !ok {
		return "", "", "", errDead
	}
	if f := c.w.fault(kind); f != "" {
		return "", "", "", errors.New("sim wallet: " + f)
	}
	openingId := ""
	if cp != nil && cp.OpeningTxHex != "" {
		openingId, _ = c.real.TxIdFromHex(cp.OpeningTxHex)
	}
	// a chain back-end refuses a transaction whose input is already spent — also by the node's own earlier claim
	if openingId != "" {
		for _, t := range c.txs {
			if t.spends == openingId {
				c.w.note(Obs{Kind: "spend-rejected", A: map[string]string{"chain": c.name, "tx": kind, "by": t.kind}})
				return "", "", "", errors.New("sim chain: bad-txns-inputs-missingorspent")
			}
		}
	}
	c.nAddr++
	txid := hex.EncodeToString(sha256.New().Sum([]byte(fmt.Sprintf("%s-%s-%d", kind, openingId, c.nAddr))))[:64]
	c.txs = append(c.txs, &simTx{txid: txid, kind: kind, spends: openingId, swap: c.w.curSwap})
	if kind == "csv" || kind == "coop" {
		c.w.spentBack[c.w.curSwap] = true
	}
	c.w.note(Obs{Kind: "broadcast", A: map[string]string{"chain": c.name, "tx": kind, "spends": openingId[:min(8, len(openingId))]}})
	if rep {
		c.w.note(Obs{Kind: "spend-unrecorded", A: map[string]string{"chain": c.name, "tx": kind, "why": "crash"}})
		return "", "", "", errDead
	}
	// the node accepted the transaction but the reply got lost (client timeout): the adapter reports an error
	if f := c.w.fault(kind + "-after"); f != "" {
		c.w.note(Obs{Kind: "spend-unrecorded", A: map[string]string{"chain": c.name, "tx": kind, "why": "lost-reply"}})
		return "", "", "", errors.New("sim wallet (reply lost after broadcast): " + f)
	}
	return txid, "rawtx", fmt.Sprintf("addr%d", c.nAddr), nil
}

func (c *simChain) CreatePreimageSpendingTransaction(p *swap.OpeningParams, cp *swap.ClaimParams) (string, string, string, error) {
	return c.spend("preimage", p, cp)
}
func (c *simChain) CreateCsvSpendingTransaction(p *swap.OpeningParams, cp *swap.ClaimParams) (string, string, string, error) {
	return c.spend("csv", p, cp)
}
func (c *simChain) CreateCoopSpendingTransaction(p *swap.OpeningParams, cp *swap.ClaimParams, takerSigner swap.Signer) (string, string, string, error) {
	// like the real wallets: the taker's signature must verify against the taker pubkey of the script
	if takerSigner != nil && !c.w.dead {
		h := sha256.Sum256([]byte("coop-sighash"))
		sig, err := takerSigner.Sign(h[:])
		pkb, err2 := hex.DecodeString(p.TakerPubkey)
		if err != nil || err2 != nil {
			return "", "", "", errors.New("sim wallet: cannot sign coop spend")
		}
		pk, err := btcec.ParsePubKey(pkb)
		if err != nil || !sig.Verify(h[:], pk) {
			c.w.note(Obs{Kind: "coopfail", A: map[string]string{"chain": c.name}})
			return "", "", "", errors.New("sim wallet: taker signature does not satisfy the opening script")
		}
	}
	return c.spend("coop", p, cp)
}
func (c *simChain) GetOutputScript(p *swap.OpeningParams) ([]byte, error) {
	if c.w.dead {
		return nil, errDead
	}
	if f := c.w.fault("outputscript"); f != "" {
		return nil, errors.New("sim wallet: " + f)
	}
	csv := p.CSV
	if c.name == "btc" {
		csv = onchain.BitcoinCsv
	}
	return c.outputScript(p, csv)
}
func (c *simChain) NewAddress() (string, error) {
	c.nAddr++
	return fmt.Sprintf("addr%d", c.nAddr), nil
}
func (c *simChain) GetRefundFee() (uint64, error) { return c.fee, nil }
func (c *simChain) GetFlatOpeningTXFee() (uint64, error) {
	if c.w.dead {
		return 0, errDead
	}
	if f := c.w.fault("openingfee"); f != "" {
		return 0, errors.New("sim wallet: " + f)
	}
	return c.fee, nil
}
func (c *simChain) GetAsset() string {
	if c.name == "lbtc" {
		return lbtcAsset
	}
	return ""
}
func (c *simChain) GetNetwork() string {
	if c.name == "btc" {
		return "regtest"
	}
	return ""
}
func (c *simChain) GetOnchainBalance() (uint64, error) {
	if c.w.dead {
		return 0, errDead
	}
	if f := c.w.fault("balance"); f != "" {
		return 0, errors.New("sim wallet: " + f)
	}
	return c.balance, nil
}
