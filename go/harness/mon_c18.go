package main

import (
	"context"
	"fmt"
	"github.com/elementsproject/peerswap/swap"
	"sync"
	"sync/atomic"
	"time"

	goelectrum "github.com/checksum0/go-electrum/electrum"
	"github.com/elementsproject/peerswap/lwk"
	"github.com/elementsproject/peerswap/txwatcher"
)

// C18: the real service with the real watchers, concurrent handlers, watchdogs.

const c18Watchdog = 4 * time.Second

// withWatchdog runs f and reports whether it returned in time (a blocked f is left behind)
func withWatchdog(f func()) bool {
	done := make(chan struct{})
	go func() { f(); close(done) }()
	select {
	case <-done:
		return true
	case <-time.After(c18Watchdog):
		return false
	}
}

// c18MatureThenMessage: a maker waits with its CSV watch registered on the REAL RPC watcher; the CSV matures; then
// the peer's message arrives (cancel, a coop_close that cannot be used, an invalid message)
func c18MatureThenMessage(role, msg string) (bool, string) {
	w := newWorld(defaultCfg())
	rpc := &fakeRpc{}
	rpc.set(rpcView{rpcHeight: 800000, txout: &txwatcher.TxOutResp{BestBlockHash: "match", Confirmations: 1}})
	w.realBtcWatcher = txwatcher.NewBlockchainRpcTxWatcher(context.Background(), rpc, 3)
	w.boot(true, true)
	a := newCtx(w)
	for _, s := range restPrefixes(role, "btc")[map[string]string{"inSender": "AwaitClaimPayment", "outReceiver": "AwaitClaimInvoicePayment"}[role]] {
		a.Step(s)
	}
	rpc.set(rpcView{rpcHeight: 801100, txout: &txwatcher.TxOutResp{BestBlockHash: "match", Confirmations: 1101}})
	ok := withWatchdog(func() { a.Step(msg) })
	if !ok {
		return false, a.state()
	}
	// the refund follows (asynchronously)
	for i := 0; i < 200 && a.state() != "State_ClaimedCsv"; i++ {
		time.Sleep(5 * time.Millisecond)
	}
	st := a.state()
	w.close()
	return true, st
}

// c18RpcInversion: block handler and message handler at the same moment (see probe c18-inversion)
func c18RpcInversion(role string) (bool, string) {
	w := newWorld(defaultCfg())
	rpc := &fakeRpc{}
	rpc.set(rpcView{rpcHeight: 800000, txout: &txwatcher.TxOutResp{BestBlockHash: "match", Confirmations: 1}})
	rw := txwatcher.NewBlockchainRpcTxWatcher(context.Background(), rpc, 3)
	w.realBtcWatcher = rw
	w.boot(true, true)
	a := newCtx(w)
	for _, s := range restPrefixes(role, "btc")[map[string]string{"inSender": "AwaitClaimPayment", "outReceiver": "AwaitClaimInvoicePayment"}[role]] {
		a.Step(s)
	}
	g2AtNode, release := make(chan bool, 1), make(chan bool)
	rpc.mu.Lock()
	rpc.txOutHook = func(n int) (*txwatcher.TxOutResp, error) {
		if n == 1 {
			g2AtNode <- true
			<-release
			return &txwatcher.TxOutResp{Confirmations: 1007}, nil
		}
		return &txwatcher.TxOutResp{Confirmations: 1008}, nil
	}
	rpc.mu.Unlock()
	var wg sync.WaitGroup
	wg.Add(2)
	ok := withWatchdog(func() {
		go func() { defer wg.Done(); a.Step("cancel") }()
		<-g2AtNode
		go func() { defer wg.Done(); rw.HandleCsvTx(801008) }()
		time.Sleep(60 * time.Millisecond)
		close(release)
		wg.Wait()
	})
	if !ok {
		return false, a.state()
	}
	for i := 0; i < 200 && a.state() != "State_ClaimedCsv"; i++ {
		time.Sleep(5 * time.Millisecond)
	}
	st := a.state()
	w.close()
	return true, st
}

// c18ElectrumInversion: the same with the REAL LWK/Electrum watcher on Liquid (see probe c18-electrum)
func c18ElectrumInversion(role string) (bool, string) {
	w := newWorld(defaultCfg())
	fe := &fakeElectrum{headers: make(chan *goelectrum.SubscribeHeadersResult, 8)}
	fe.headers <- &goelectrum.SubscribeHeadersResult{Height: 2000000}
	lw, _ := lwk.NewElectrumTxWatcher(fe)
	w.realLbtcWatcher = lw
	w.boot(true, true)
	lw.StartWatchingTxs()
	a := newCtx(w)
	for _, s := range restPrefixes(role, "lbtc")[map[string]string{"inSender": "AwaitClaimPayment", "outReceiver": "AwaitClaimInvoicePayment"}[role]] {
		a.Step(s)
	}
	rec, err := w.store.inner.GetData(a.id)
	if err != nil || rec.Data.OpeningTxBroadcasted == nil {
		w.close()
		return true, "setup-failed"
	}
	txid := rec.Data.OpeningTxBroadcasted.TxId
	g1AtServer, release := make(chan bool, 1), make(chan bool)
	var once sync.Once
	fe.histHook = func() ([]*goelectrum.GetMempoolResult, error) {
		once.Do(func() { g1AtServer <- true; <-release })
		return []*goelectrum.GetMempoolResult{{Hash: txid, Height: 2000001}}, nil
	}
	ok := withWatchdog(func() {
		fe.headers <- &goelectrum.SubscribeHeadersResult{Height: 2010081}
		<-g1AtServer
		done := make(chan bool)
		go func() { a.Step("cancel"); close(done) }()
		time.Sleep(60 * time.Millisecond)
		close(release)
		<-done
	})
	if !ok {
		return false, a.state()
	}
	for i := 0; i < 200 && a.state() != "State_ClaimedCsv"; i++ {
		time.Sleep(5 * time.Millisecond)
	}
	st := a.state()
	w.close()
	return true, st
}

// c18BusyObserver: the REAL RPC watcher with its REAL block dispatcher (StartWatchingTxs / StartBlockWatcher polling
// the scripted RPC).  A taker's confirmation callback is still running (it pays an invoice) when the next block
// arrives; afterwards the CSV of a maker's watch on the same watcher matures.  Returns whether the maturity was
// reported in time.
func c18BusyObserver(callbackTakes time.Duration) (reported bool, confirmations int) {
	rpc := &fakeRpc{}
	var mu sync.Mutex
	height := uint64(800000)
	confT, confM := uint32(0), uint32(1000)
	rpc.byTx = func(txid string) (*txwatcher.TxOutResp, error) {
		mu.Lock()
		defer mu.Unlock()
		c := confT
		if txid == "maker-opening" {
			c = confM
		}
		return &txwatcher.TxOutResp{BestBlockHash: hashOf(uint32(height)), Confirmations: c}, nil
	}
	setHeight := func(h uint64, ct, cm uint32) {
		mu.Lock()
		height, confT, confM = h, ct, cm
		mu.Unlock()
		rpc.mu.Lock()
		rpc.v.rpcHeight = h
		rpc.mu.Unlock()
	}
	rpc.set(rpcView{rpcHeight: height})
	ctx, cancel := context.WithCancel(context.Background())
	defer cancel()
	rw := txwatcher.NewBlockchainRpcTxWatcher(ctx, rpc, 3)
	confCh, csvCh := make(chan bool, 4), make(chan bool, 4)
	rw.AddConfirmationCallback(func(swapId, txHex string, err error) error {
		time.Sleep(callbackTakes) // the swap validates the transaction and pays the claim invoice
		confCh <- err == nil
		return nil
	})
	rw.AddCsvCallback(func(swapId string) error { csvCh <- true; return nil })
	rw.StartWatchingTxs()
	rw.AddWaitForConfirmationTx("taker-swap", "taker-opening", 0, 800000, 504, nil)
	rw.AddWaitForCsvTx("maker-swap", "maker-opening", 0, 800000, 1008, nil)
	// block 800001: the taker's opening transaction has its three confirmations
	setHeight(800001, 3, 1001)
	time.Sleep(callbackTakes / 2)
	// block 800002 arrives while the callback is still running
	setHeight(800002, 4, 1002)
	select {
	case <-confCh:
		confirmations++
	case <-time.After(callbackTakes + 3*time.Second):
	}
	// the maker's CSV matures a few blocks later
	for k := uint64(3); k <= 9; k++ {
		setHeight(800000+k, uint32(2+k), uint32(1000+k))
		time.Sleep(650 * time.Millisecond)
		select {
		case <-csvCh:
			return true, confirmations
		default:
		}
	}
	select {
	case <-csvCh:
		return true, confirmations
	case <-time.After(2 * time.Second):
	}
	return false, confirmations
}

func init() {
	monitors["C18"] = func(r *rng, n int, res *MonitorResult) {
		res.Rule = "the REAL SwapService with REAL watchers (BlockchainRpcTxWatcher over a scripted RPC; LWK electrum watcher over a scripted Electrum server), handlers run concurrently, every call under a 4 s watchdog: (a) both maker roles wait with their CSV watch registered, the CSV matures, then a cancel / an unusable coop_close / an invalid message arrives: handled, and the refund follows; (b) a block with which the CSV matures is handled while a cancel is handled (the node answers the message handler's query just before, the block handler's just after maturity): both return and the refund follows; (c) the same with the Electrum watcher on Liquid; distinct = distinct schedules"
		for _, role := range []string{"inSender", "outReceiver"} {
			for _, msg := range []string{"cancel", "coop badkey", "coop wrongkey", "txmsg"} {
				ok, st := c18MatureThenMessage(role, msg)
				res.Evaluations++
				res.Distinct++
				res.Histogram["(a) final "+st]++
				in := map[string]interface{}{"role": role, "schedule": "maker at rest with CSV watch on the real RPC watcher; output becomes 1101 blocks deep; then `" + msg + "`"}
				if !ok {
					res.addFinding("C18/"+role+"/handler-blocked/message-after-csv-matured", "the message handler does not return: the CSV callback re-enters the swap that is registering the watch", in)
				} else if st != "State_ClaimedCsv" && !(msg == "txmsg") {
					res.addFinding("C18/"+role+"/no-refund/message-after-csv-matured", "handled, but no refund followed: final "+st, in)
				}
			}
			ok, st := c18RpcInversion(role)
			res.Evaluations++
			res.Distinct++
			res.Histogram["(b) final "+st]++
			if !ok {
				res.addFinding("C18/"+role+"/handlers-block-each-other/rpc-watcher", "block handler (holds the watcher lock, calls into the swap) and message handler (holds the swap, registers a watch) wait for each other", map[string]interface{}{"role": role, "schedule": "cancel handled; its AddWaitForCsvTx query answered 1007 confirmations; HandleCsvTx(801008) sees 1008"})
			} else if st != "State_ClaimedCsv" {
				res.addFinding("C18/"+role+"/no-refund/rpc-watcher-concurrent", "both handlers returned but no refund followed: final "+st, map[string]interface{}{"role": role})
			}
			ok, st = c18ElectrumInversion(role)
			res.Evaluations++
			res.Distinct++
			res.Histogram["(c) final "+st]++
			if !ok {
				res.addFinding("C18/"+role+"/handlers-block-each-other/electrum-watcher", "header handler (holds the subscriber lock, calls into the swap) and message handler (holds the swap, registers an observer) wait for each other", map[string]interface{}{"role": role, "schedule": "header 2010081 being processed (observer asking the server) while a cancel is handled"})
			} else if st != "State_ClaimedCsv" && st != "setup-failed" {
				res.addFinding("C18/"+role+"/no-refund/electrum-watcher-concurrent", "both handlers returned but no refund followed: final "+st, map[string]interface{}{"role": role})
			}
		}
		// (g) the RPC commands wait for a state change with a timeout (WaitForStateChange): the timeout must end the
		// wait whenever it fires, also right at the moment the waiter goes to sleep
		{
			w := newWorld(defaultCfg())
			c := newCtx(w)
			c.Run([]string{"new outSender btc"})
			live, err := w.svc.GetActiveSwap(c.id)
			iters := 40000
			if n > 100 {
				iters = 400000
			}
			if err == nil {
				var progress int64
				finished := make(chan struct{})
				go func() {
					for i := 0; i < iters; i++ {
						live.WaitForStateChange(func(swap.StateType) bool { return false }, 0)
						atomic.AddInt64(&progress, 1)
					}
					close(finished)
				}()
				stuck := int64(-1)
				last, idle := int64(-1), 0
			watch:
				for {
					select {
					case <-finished:
						break watch
					case <-time.After(500 * time.Millisecond):
						p := atomic.LoadInt64(&progress)
						if p == last {
							idle++
							if idle >= 6 {
								stuck = p
								break watch
							}
						} else {
							last, idle = p, 0
						}
					}
				}
				res.Evaluations++
				res.Distinct++
				res.Histogram["(g) timed waits"] += int(atomic.LoadInt64(&progress))
				if stuck >= 0 {
					res.addFinding("C18/rpc/wait-for-state-change-never-returns", "WaitForStateChange did not return although its timeout had fired (the wake-up was sent before the waiter slept)", map[string]interface{}{"iteration": stuck, "schedule": "WaitForStateChange(never, 0) in a loop on a swap at rest"})
				}
			}
			w.close()
		}
		// (f) a watcher reports that the opening transaction did NOT confirm in time (error callback) to a taker
		// that is waiting for it; then the peer's cancel arrives: both handlers return
		for _, role := range []string{"outSender", "inReceiver"} {
			for _, chain := range []string{"btc", "lbtc"} {
				base := baseScript(role, chain)
				steps := append(append([]string{}, base[:len(base)-1]...), "confirm err", "cancel", "timeout")
				w, c, rs := runScenario(defaultCfg(), steps)
				res.Evaluations++
				res.Distinct++
				res.Histogram["(f) final "+c.state()]++
				if w.hung {
					res.addFinding("C18/"+role+"/handler-blocked/failed-confirmation", "the handler of a failed-confirmation notification (or of the message after it) does not return", map[string]interface{}{"role": role, "chain": chain, "scenario": scenarioKey(steps), "results": rs})
				}
				w.close()
			}
		}
		// (e) the real block dispatcher with a confirmation observer that is still busy when the next block arrives
		{
			ok, nconf := c18BusyObserver(1500 * time.Millisecond)
			res.Evaluations++
			res.Distinct++
			res.Histogram[fmt.Sprintf("(e) csv reported=%v confirmations=%d", ok, nconf)]++
			if !ok {
				res.addFinding("C18/rpc-watcher/block-dispatch-blocked/busy-confirmation-observer", "after a block arrived while a confirmation callback was still running, the watcher handles no further block: the matured CSV of another swap is never reported", map[string]interface{}{"schedule": "block 800001 confirms the taker's opening tx (callback runs 1.5 s); block 800002 arrives 0.75 s later; blocks 800003.. make the maker's output 1008 deep"})
			}
		}
		// (d) randomized concurrency: block notifications, peer messages and the payment notification race
		// on the real RPC watcher (both chains), timings drawn from the seed
		badD := 0 // evaluations of this part that ended in a finding: a few establish it; every further one costs a watchdog
		for i := 0; i < n && badD < 5; i++ {
			role := []string{"inSender", "outReceiver"}[r.intn(2)]
			chain := []string{"btc", "lbtc"}[r.intn(2)]
			w := newWorld(defaultCfg())
			rpc := &fakeRpc{}
			base := uint64(800000)
			csv := uint32(1008)
			if chain == "lbtc" {
				base, csv = 2000000, 10080
			}
			rpc.set(rpcView{rpcHeight: base, txout: &txwatcher.TxOutResp{BestBlockHash: "match", Confirmations: 1}})
			rw := txwatcher.NewBlockchainRpcTxWatcher(context.Background(), rpc, 3)
			if chain == "btc" {
				w.realBtcWatcher = rw
			} else {
				w.realLbtcWatcher = rw
			}
			w.boot(true, true)
			a := newCtx(w)
			for _, st := range restPrefixes(role, chain)[map[string]string{"inSender": "AwaitClaimPayment", "outReceiver": "AwaitClaimInvoicePayment"}[role]] {
				a.Step(st)
			}
			msgs := []string{"cancel", "coop badkey", "coop wrongkey", "coop", "claimpaid", "txmsg", "cancel from=third"}
			msg := msgs[r.intn(len(msgs))]
			nearMature := csv - uint32(r.intn(3))
			d1, d2 := time.Duration(r.intn(3))*time.Millisecond, time.Duration(r.intn(3))*time.Millisecond
			var cnt int
			var cmu sync.Mutex
			rpc.mu.Lock()
			rpc.txOutHook = func(int) (*txwatcher.TxOutResp, error) {
				cmu.Lock()
				cnt++
				c := nearMature + uint32(cnt/2)
				cmu.Unlock()
				return &txwatcher.TxOutResp{Confirmations: c}, nil
			}
			rpc.mu.Unlock()
			var wg sync.WaitGroup
			ok := withWatchdog(func() {
				wg.Add(3)
				go func() { defer wg.Done(); time.Sleep(d1); a.Step(msg) }()
				go func() {
					defer wg.Done()
					for k := 0; k < 4; k++ {
						rw.HandleCsvTx(base + uint64(csv) + uint64(k))
					}
				}()
				go func() { defer wg.Done(); time.Sleep(d2); rw.HandleCsvTx(base + uint64(csv) + 10) }()
				wg.Wait()
			})
			res.Evaluations++
			res.Distinct++
			in := map[string]interface{}{"role": role, "chain": chain, "message": msg, "confirmations_at_start": nearMature, "delays_ms": []int64{int64(d1 / time.Millisecond), int64(d2 / time.Millisecond)}}
			if !ok {
				badD++
				res.addFinding("C18/"+role+"/handlers-block-each-other/random-schedule", "concurrent block and message handlers did not all return within the watchdog", in)
				continue
			}
			for k := 0; k < 100 && !finishedState(a.state()); k++ {
				time.Sleep(5 * time.Millisecond)
				rw.HandleCsvTx(base + uint64(csv) + 20)
			}
			res.Histogram["(d) final "+a.state()]++
			if !finishedState(a.state()) && msg != "txmsg" && msg != "cancel from=third" {
				badD++
				res.addFinding("C18/"+role+"/not-finished/random-schedule", "all handlers returned but the swap did not finish: "+a.state(), in)
			}
			w.close()
		}
	}
}
