package main

import (
	"fmt"
	"strconv"
	"strings"
)

func atou(s string) uint64  { v, _ := strconv.ParseUint(s, 10, 64); return v }
func atoi64(s string) int64 { v, _ := strconv.ParseInt(s, 10, 64); return v }

func scnChain(steps []string) string {
	for _, s := range steps {
		f := strings.Fields(s)
		if len(f) >= 3 && f[0] == "new" {
			return f[2]
		}
	}
	return ""
}

// judgeC04: every claim payment call of a Liquid swap happens with a stored anchor, inside
// [anchor, anchor+60), for an invoice with final CLTV ≤ 29 and with the route limit 32.
func judgeC04(x scnResult, res *MonitorResult) {
	if scnChain(x.sc.steps) != "lbtc" {
		return
	}
	anchor, start := "0", uint64(0)
	for _, o := range x.w.obs {
		switch o.Kind {
		case "persist":
			anchor, start = o.A["anchor"], atou(o.A["start"])
		case "pay":
			if o.A["kind"] != "claim" || strings.HasPrefix(o.A["out"], "refused") {
				continue
			}
			tip := atou(o.A["lbtc"])
			cltv := atoi64(o.A["cltv"])
			in := map[string]interface{}{"scenario": scenarioKey(x.sc.steps), "anchor": start, "tip": tip, "cltv": cltv}
			res.Histogram["lbtc claim pay"]++
			switch {
			case anchor != "1":
				res.addFinding("C04/pay-without-anchor", "Liquid claim payment without a stored anchor", in)
			case tip < start:
				res.addFinding("C04/pay-below-anchor", fmt.Sprintf("Liquid claim payment at tip %d below anchor %d", tip, start), in)
			case tip >= start+60:
				res.addFinding("C04/pay-after-window", fmt.Sprintf("Liquid claim payment at tip %d, window [%d,%d)", tip, start, start+60), in)
			case cltv < 0 || cltv > 29:
				res.addFinding("C04/pay-unsafe-cltv", fmt.Sprintf("Liquid claim payment for an invoice with final CLTV %d", cltv), in)
			case o.A["max"] != "32":
				res.addFinding("C04/pay-without-route-limit", "Liquid claim payment without the total CLTV limit 32 (got "+o.A["max"]+")", in)
			}
		}
	}
}

// judgeC05: Bitcoin: pay height + route delta the node's own payment permits must be strictly below
// confirmation height + 1008, for the CLN (final+1) and LND (final+3) deltas. The confirmation height
// is the earliest the chain allows: the block after the one in which the maker announced the tx.
func judgeC05(x scnResult, res *MonitorResult) {
	if scnChain(x.sc.steps) != "btc" {
		return
	}
	conf, earlier := uint64(0), uint64(0)
	for _, o := range x.w.obs {
		switch o.Kind {
		case "confirmed-earlier":
			earlier = atou(o.A["blocks"])
		case "step":
			if strings.HasPrefix(o.A["s"], "txmsg") && o.A["r"] == "ok" && conf == 0 {
				conf = atou(o.A["btc"]) + 1
				if earlier > 0 && earlier < conf {
					conf -= earlier + 1 // confirmed that many blocks before the announcement
				}
			}
		case "pay":
			if o.A["kind"] != "claim" || strings.HasPrefix(o.A["out"], "refused") || conf == 0 {
				continue
			}
			now := atou(o.A["btc"])
			cltv := atoi64(o.A["cltv"])
			if cltv < 0 {
				continue
			}
			res.Histogram["btc claim pay"]++
			for _, be := range []struct {
				name string
				pad  uint64
			}{{"cln", 1}, {"lnd", 3}} {
				if now+uint64(cltv)+be.pad >= conf+1008 {
					class := "final<=503"
					if cltv > 503 {
						class = "final>503"
					}
					res.addFinding(fmt.Sprintf("C05/%s/expiry-not-below-refund/%s", be.name, class),
						fmt.Sprintf("%s: HTLC can be held until block %d, CSV refund can confirm in block %d (paid at %d, final CLTV %d, opening confirmed at %d)", be.name, now+uint64(cltv)+be.pad, conf+1008, now, cltv, conf),
						map[string]interface{}{"scenario": scenarioKey(x.sc.steps), "cfg": "btc height " + fmt.Sprint(x.w.btc.height)})
				}
			}
		}
	}
}

func takerScenarios(r *rng, n int) []scn {
	all := sweepScenarios([]string{"outSender", "inReceiver"})
	for i := 0; i < n; i++ {
		if i%3 == 0 {
			all = append(all, paygateScn(genPaygate(r)))
			continue
		}
		if i%7 == 1 {
			chain := r.pickStr([]string{"btc", "lbtc"})
			win, h0 := uint32(504), uint32(800000)
			if chain == "lbtc" {
				win, h0 = 60, 2000000
			}
			all = append(all, payloopScn(chain, h0, win-uint32(r.intn(6)), uint32(1+r.intn(2))))
			continue
		}
		role := []string{"outSender", "inReceiver"}[r.intn(2)]
		all = append(all, scn{role: role, steps: genScenario(r, role, r.intn(3) == 0)})
	}
	return all
}

func init() {
	monitors["C04"] = func(r *rng, n int, res *MonitorResult) {
		res.Rule = "taker scenarios on Liquid (rest-state × stimulus sweep, pay-gate runs at boundary heights/CLTVs incl. near 2^32, random disturbed runs with crashes) on the real machines; every claim payment call judged against anchor window, invoice CLTV and route limit; non-trivial = a Liquid claim payment call was made; distinct = distinct scenarios with such a call"
		// the height the pay loop is GIVEN must be the chain's: with the LWK/Electrum back-end the loop asks the
		// watcher, whose header goroutine also runs the confirmation callbacks
		for i := 0; i < 3; i++ {
			tip, entered := c04LwkTipWhileCallbackRuns()
			res.Evaluations++
			res.Distinct++
			switch {
			case !entered:
				res.Histogram["lwk: confirmation callback not reached"]++
			case tip < 1061:
				res.Histogram["lwk: tip frozen while a confirmation callback runs"]++
				res.addFinding("C04/lwk/tip-frozen-while-confirmation-callback-runs", fmt.Sprintf("the LWK watcher still answers tip %d while the Electrum server has announced 1061: the confirmation callback (which runs the claim-payment loop) blocks the header goroutine, so the window check [anchor, anchor+60) of every further payment attempt — of this and of every queued swap — sees a stale height", tip),
					map[string]interface{}{"schedule": "anchor 1000, window 60; tx in block 1058; header 1059 -> confirmed -> callback blocks (payment in flight); headers 1060, 1061 announced; GetBlockHeight asked for 500 ms"})
			default:
				res.Histogram["lwk: tip advances while a confirmation callback runs"]++
			}
		}
		seen := map[string]bool{}
		runMany(defaultCfg(), takerScenarios(r, n), func(x scnResult) {
			res.Evaluations++
			before := res.Histogram["lbtc claim pay"]
			judgeC04(x, res)
			if res.Histogram["lbtc claim pay"] > before && !seen[scenarioKey(x.sc.steps)] {
				seen[scenarioKey(x.sc.steps)] = true
				res.Distinct++
				res.sample(scenarioKey(x.sc.steps))
			}
		})
	}
	monitors["C05"] = func(r *rng, n int, res *MonitorResult) {
		res.Rule = "taker scenarios on Bitcoin as for C04; every claim payment call judged: pay height + final CLTV + back-end padding (1 CLN, 3 LND) < earliest confirmation height + 1008; non-trivial = a Bitcoin claim payment call was made"
		seen := map[string]bool{}
		all := []scn{paygateScn("btc", 800000, 504, 0, 0, 504), paygateScn("btc", 800000, 503, 0, 0, 504)}
		// the maker confirms the opening transaction early and withholds the announcement; the taker is restarted
		// in between (a restart must not move the height the taker measures from)
		for _, late := range []int{300, 505, 600, 1000} {
			for _, r := range []string{"", "restart"} {
				st := []string{"new outSender btc", "agree", fmt.Sprintf("blocks btc %d", late)}
				st2 := []string{"new inReceiver btc", fmt.Sprintf("blocks btc %d", late)}
				if r != "" {
					st, st2 = append(st, r), append(st2, r)
				}
				tail := []string{fmt.Sprintf("txmsg confago=%d cltv=503", late-1), "confirm"}
				all = append(all, scn{role: "outSender", steps: append(st, tail...)}, scn{role: "inReceiver", steps: append(st2, tail...)})
			}
		}
		all = append(all, takerScenarios(r, n)...)
		runMany(defaultCfg(), all, func(x scnResult) {
			res.Evaluations++
			before := res.Histogram["btc claim pay"]
			judgeC05(x, res)
			if res.Histogram["btc claim pay"] > before && !seen[scenarioKey(x.sc.steps)] {
				seen[scenarioKey(x.sc.steps)] = true
				res.Distinct++
				res.sample(scenarioKey(x.sc.steps))
			}
		})
	}
}
