package main

import (
	"fmt"
	"strings"
)

func bit(s string) string {
	if s == "1" {
		return "1"
	}
	return "0"
}

// c06Flags: paid pending revealed preimageRec nextIsCoop
func c06Flags(a map[string]string) string {
	paid, pending := "0", "0"
	switch a["pay"] {
	case "succeeded":
		paid = "1"
	case "pending":
		pending = "1"
	}
	coop := "0"
	if a["nextmsg"] == "42081" {
		coop = "1"
	}
	return paid + pending + bit(a["revealed"]) + bit(a["preimage"]) + coop
}

type absSpec struct {
	chain  string // "" = both chains
	prop   string
	roles  []string
	flags  func(a map[string]string) string
	params func(steps []string) string
}

var absSpecs = map[string]absSpec{
	"C06": {prop: "C06", roles: []string{"outSender", "inReceiver"}, flags: c06Flags, params: func(steps []string) string {
		ewp, cip := "0", "0"
		for _, s := range steps {
			if strings.HasPrefix(s, "payout pending") {
				ewp = "1"
			}
			if strings.HasPrefix(s, "crash") {
				cip = "1"
			}
		}
		return ewp + " " + cip
	}},
}

// emitAbsTrace replays the persisted configurations of one finished scenario as observer operations.
func emitAbsTrace(spec absSpec, role string, steps []string, w *World, emit func(op, res string)) {
	emit(strings.TrimSpace(fmt.Sprintf("abs.reset %s %s %s", spec.prop, leanRole(role), spec.params(steps))), "ok")
	alive := true
	persisted := false
	for _, o := range w.obs {
		switch o.Kind {
		case "persist":
			if o.Swap != "s1" {
				continue
			}
			persisted = true
			st := o.A["state"]
			if st == "" {
				st = "-"
			}
			emit(fmt.Sprintf("abs.persist %s %s", st, spec.flags(o.A)), "ok")
		case "step":
			// the step returned: the process (if alive) is at rest; is the swap in the service's active map?
			if alive && persisted && o.A["active"] != "" {
				emit("abs.rest "+o.A["active"], "ok")
			}
		case "crash":
			emit("abs.crash", "ok")
			alive = false
		case "restart":
			if alive {
				emit("abs.crash", "ok")
			}
			alive = true
		}
	}
}

func registerAbsSlices() {
	for name, spec := range absSpecs {
		spec := spec
		slices["abs"+name] = func(r *rng, n int, emit func(op, res string)) {
			all := sweepScenarios(spec.roles)
			if spec.chain != "" {
				kept := all[:0]
				for _, sc := range all {
					if scnChain(sc.steps) == spec.chain {
						kept = append(kept, sc)
					}
				}
				all = kept
			}
			// the retry budget of one event used up in the claim states (25 failures of the wallet in a row)
			for _, role := range spec.roles {
				for _, chain := range []string{"btc", "lbtc"} {
					if spec.chain != "" && chain != spec.chain {
						continue
					}
					base := baseScript(role, chain)
					fault, trigger := "fault csv down", "csv"
					if isTaker(role) {
						fault, trigger = "fault preimage down", "confirm"
					}
					steps := cat(base[:len(base)-1], rep(fault, 25), []string{trigger, "restart", trigger})
					all = append(all, scn{role: role, steps: steps})
				}
			}
			for i := 0; i < n; i++ {
				role := spec.roles[r.intn(len(spec.roles))]
				sc := scn{role: role, steps: genScenario(r, role, r.intn(3) > 0)}
				if spec.chain != "" && scnChain(sc.steps) != spec.chain {
					i--
					continue
				}
				if r.intn(3) == 0 {
					c := defaultCfg()
					c.IdempotentRepay = r.bool()
					if r.bool() {
						c.SpendableMsat = 1200000000
					}
					sc.cfg = &c
				}
				all = append(all, sc)
			}
			runMany(defaultCfg(), all, func(x scnResult) {
				emit("# "+scenarioKey(x.sc.steps), "bad-op")
				emitAbsTrace(spec, x.sc.role, x.sc.steps, x.w, emit)
			})
		}
	}
}

// mkFlags: openings(0..2) openingRec invoicePaid spentBack claimTxRec csvWatch resend suspicious
func mkFlags(a map[string]string) string {
	o := a["openings"]
	if o != "0" && o != "1" {
		o = "2"
	}
	agr := "0"
	if a["role"] == "1/1" { // swap-in initiator: the only role whose table accepts swap_in_agreement
		agr = bit(a["inagree"])
	}
	// a failed attempt on record while the swap is stored in its broadcast-opening state
	failed := "0"
	if strings.HasSuffix(a["state"], "_BroadcastOpeningTx") && a["lasterr"] != "-" && a["lasterr"] != "" {
		failed = "1"
	}
	return o + bit(a["opening"]) + bit(a["invpaid"]) + bit(a["spentback"]) + bit(a["claimtx"]) + bit(a["csvwatch"]) + bit(a["resend"]) + bit(a["suspicious"]) + agr + failed
}

func init() {
	absSpecs["Mk"] = absSpec{prop: "Mk", roles: []string{"inSender", "outReceiver"}, flags: mkFlags, params: func(steps []string) string {
		cib, sf, eab := "0", "0", "0"
		for _, s := range steps {
			if strings.HasPrefix(s, "crash") {
				cib = "1"
			}
			if strings.HasPrefix(s, "fault opening-after") {
				eab = "1"
			}
			if strings.HasPrefix(s, "fault outputscript") {
				sf = "1"
			}
		}
		return cib + " " + eab + " " + sf + " 0"
	}}
	registerAbsSlices()
}

// ngFlags: timerArmed requestSent cancelTried cancelRecv
func ngFlags(a map[string]string) string {
	return bit(a["timer"]) + bit(a["offersent"]) + bit(a["canceltried"]) + bit(a["cancel"])
}

func init() {
	absSpecs["Ng"] = absSpec{prop: "Ng", roles: []string{"outSender", "inSender", "outReceiver", "inReceiver"}, flags: ngFlags, params: func([]string) string { return "" }}
	registerAbsSlices()
}

// anFlags: anchorRec keySent paidNoAnchor anchorMoved
func anFlags(a map[string]string) string {
	return bit(a["anchor"]) + bit(a["offersent"]) + bit(a["paidnoanchor"]) + bit(a["anchormoved"])
}

func init() {
	absSpecs["Lv"] = absSpec{prop: "Lv", roles: []string{"outSender", "inSender", "outReceiver", "inReceiver"}, flags: func(a map[string]string) string {
		return bit(a["timer"]) + bit(a["confwatch"]) + bit(a["csvwatch"])
	}, params: func([]string) string { return "" }}
	absSpecs["An"] = absSpec{chain: "lbtc", prop: "An", roles: []string{"outSender", "inReceiver"}, flags: anFlags, params: func([]string) string { return "" }}
	registerAbsSlices()
}
