package main

import (
	"fmt"
	"strings"
)

// Scenario generation: mostly-valid protocol runs per role with injected disturbances
// (faults, foreign/duplicate/late messages, timeouts, block advances, crashes and restarts).

var roles = []string{"outSender", "inReceiver", "inSender", "outReceiver"}

func leanRole(r string) string {
	switch r {
	case "outSender":
		return "SwapOutSender"
	case "outReceiver":
		return "SwapOutReceiver"
	case "inSender":
		return "SwapInSender"
	}
	return "SwapInReceiver"
}

func isTaker(role string) bool { return role == "outSender" || role == "inReceiver" }

// baseScript is the honest run of a role up to its natural end.
func baseScript(role, chain string) []string {
	switch role {
	case "outSender":
		return []string{"new outSender " + chain, "agree", "txmsg", "confirm"}
	case "inReceiver":
		return []string{"new inReceiver " + chain, "txmsg", "confirm"}
	case "inSender":
		return []string{"new inSender " + chain, "agree", "claimpaid"}
	case "outReceiver":
		return []string{"new outReceiver " + chain, "feepaid", "claimpaid"}
	}
	return nil
}

var disturbances = map[bool][]string{
	true: { // taker
		"timeout", "cancel", "cancel from=third", "coop", "txmsg", "txmsg from=third", "confirm", "confirm err",
		"blocks btc 1", "blocks btc 503", "blocks btc 504", "blocks lbtc 59", "blocks lbtc 60", "claimpaid force", "feepaid force", "csv",
		"fault send down", "fault height.btc down", "fault height.lbtc down", "fault preimage down", "fault decode down",
		"fault outputscript down", "fault spendable down", "fault probe unsuccessful",
		"payout fail", "payout pending", "settle success", "settle fail", "agree", "agree badpubkey",
	},
	false: { // maker
		"timeout", "cancel", "cancel from=third", "coop", "coop badkey", "coop from=third", "csv", "csv keep", "claimpaid", "claimpaid force", "feepaid", "feepaid force",
		"blocks btc 1008", "blocks lbtc 10080", "txmsg", "agree", "agree badpubkey", "agree premium=2000000", "confirm",
		"fault send down", "fault opening down", "fault height.btc down", "fault height.lbtc down", "fault getpayreq down", "fault csv down", "fault coop down",
		"fault outputscript down", "fault balance down", "fault openingfee down", "fault label down",
	},
}

func txmsgVariant(r *rng) string {
	v := []string{"txmsg", "txmsg", "txmsg", "txmsg tx=wrongamount", "txmsg tx=wrongcsv", "txmsg tx=wronghash", "txmsg tx=wrongtaker", "txmsg tx=wrongmaker",
		"txmsg tx=junk", "txmsg pos=1", "txmsg pos=2 vout=0", "txmsg dmsat=1", "txmsg dmsat=-1", "txmsg cltv=504", "txmsg cltv=505", "txmsg cltv=30", "txmsg cltv=-1", "txmsg cltv=0"}
	return r.pickStr(v)
}

// genScenario produces one scenario. crashy: include crash/restart pairs.
func genScenario(r *rng, role string, crashy bool) []string {
	chain := "btc"
	if r.intn(2) == 0 {
		chain = "lbtc"
	}
	base := baseScript(role, chain)
	if isTaker(role) && r.intn(3) == 0 {
		for i, s := range base {
			if s == "txmsg" {
				base[i] = txmsgVariant(r)
			}
		}
	}
	var out []string
	cut := len(base)
	if r.intn(3) == 0 {
		cut = 1 + r.intn(len(base))
	}
	dist := disturbances[isTaker(role)]
	for i, s := range base {
		if i >= cut {
			break
		}
		// disturbances before this step
		for r.intn(4) == 0 {
			out = append(out, r.pickStr(dist))
		}
		if crashy && r.intn(4) == 0 {
			out = append(out, fmt.Sprintf("crash %d", 1+r.intn(7)))
			out = append(out, s)
			if r.intn(3) > 0 {
				out = append(out, "restart")
			}
			continue
		}
		out = append(out, s)
	}
	for n := r.intn(5); n > 0; n-- {
		switch r.intn(6) {
		case 0:
			if crashy {
				out = append(out, fmt.Sprintf("crash %d", 1+r.intn(5)))
			}
		case 1:
			out = append(out, "restart")
		default:
			out = append(out, r.pickStr(dist))
		}
	}
	if crashy {
		out = append(out, "restart")
		// after a restart the environment redelivers what is still pending
		if isTaker(role) {
			out = append(out, "confirm")
		} else if r.bool() {
			out = append(out, "csv")
		}
	}
	return out
}

func scenarioKey(steps []string) string { return strings.Join(steps, ";") }
