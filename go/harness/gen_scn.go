package main

import (
	"fmt"
	"strings"
)

// Scenario generation: mostly-valid protocol runs per role with injected disturbances
// (faults, foreign/duplicate/late messages, timeouts, block advances, crashes and restarts).

var roles = []string{"outSender", "inReceiver", "inSender", "outReceiver"}

func leanRole(r string) string {
	switch r {
	case "outSender":
		return "SwapOutSender"
	case "outReceiver":
		return "SwapOutReceiver"
	case "inSender":
		return "SwapInSender"
	}
	return "SwapInReceiver"
}

func isTaker(role string) bool { return role == "outSender" || role == "inReceiver" }

// baseScript is the honest run of a role up to its natural end.
func baseScript(role, chain string) []string {
	switch role {
	case "outSender":
		return []string{"new outSender " + chain, "agree", "txmsg", "confirm"}
	case "inReceiver":
		return []string{"new inReceiver " + chain, "txmsg", "confirm"}
	case "inSender":
		return []string{"new inSender " + chain, "agree", "claimpaid"}
	case "outReceiver":
		return []string{"new outReceiver " + chain, "feepaid", "claimpaid"}
	}
	return nil
}

var disturbances = map[bool][]string{
	true: { // taker
		"timeout", "cancel", "cancel from=third", "coop", "txmsg", "txmsg from=third", "confirm", "confirm err",
		"blocks btc 1", "blocks btc 503", "blocks btc 504", "blocks lbtc 59", "blocks lbtc 60", "rewind lbtc 3", "rewind btc 2", "claimpaid force", "feepaid force", "csv",
		"fault send down", "fault height.btc down", "fault height.lbtc down", "fault preimage down", "fault decode down",
		"fault outputscript down", "fault spendable down", "fault probe unsuccessful",
		"payout fail", "payout pending", "settle success", "settle fail", "settle success later", "settle fail later", "agree", "agree badpubkey",
	},
	false: { // maker
		"timeout", "cancel", "cancel from=third", "coop", "coop badkey", "coop wrongkey", "coop from=third", "csv", "claimpaid", "feepaid",
		"blocks btc 1008", "blocks lbtc 10080", "rewind btc 2", "txmsg", "agree", "agree badpubkey", "agree premium=2000000", "confirm",
		"fault send down", "fault opening down", "fault height.btc down", "fault height.lbtc down", "fault getpayreq down", "fault csv down", "fault coop down",
		"fault outputscript down", "fault balance down", "fault openingfee down", "fault label down", "fault opening-after down",
	},
}

func txmsgVariant(r *rng) string {
	v := []string{"txmsg", "txmsg", "txmsg", "txmsg tx=wrongamount", "txmsg tx=wrongcsv", "txmsg tx=wronghash", "txmsg tx=wrongtaker", "txmsg tx=wrongmaker",
		"txmsg tx=junk", "txmsg pos=1", "txmsg pos=2 vout=0", "txmsg dmsat=1", "txmsg dmsat=-1", "txmsg cltv=504", "txmsg cltv=505", "txmsg cltv=30", "txmsg cltv=-1", "txmsg cltv=0"}
	return r.pickStr(v)
}

// genScenario produces one scenario. crashy: include crash/restart pairs.
func genScenario(r *rng, role string, crashy bool) []string {
	chain := "btc"
	if r.intn(2) == 0 {
		chain = "lbtc"
	}
	base := baseScript(role, chain)
	if isTaker(role) && r.intn(3) == 0 {
		for i, s := range base {
			if s == "txmsg" {
				base[i] = txmsgVariant(r)
			}
		}
	}
	var out []string
	cut := len(base)
	if r.intn(3) == 0 {
		cut = 1 + r.intn(len(base))
	}
	dist := disturbances[isTaker(role)]
	for i, s := range base {
		if i >= cut {
			break
		}
		// disturbances before this step
		for r.intn(4) == 0 {
			out = append(out, r.pickStr(dist))
		}
		if crashy && r.intn(4) == 0 {
			out = append(out, fmt.Sprintf("crash %d", 1+r.intn(7)))
			out = append(out, s)
			if r.intn(3) > 0 {
				out = append(out, "restart")
			}
			continue
		}
		out = append(out, s)
	}
	for n := r.intn(5); n > 0; n-- {
		switch r.intn(6) {
		case 0:
			if crashy {
				out = append(out, fmt.Sprintf("crash %d", 1+r.intn(5)))
			}
		case 1:
			out = append(out, "restart")
		default:
			out = append(out, r.pickStr(dist))
		}
	}
	if crashy {
		out = append(out, "restart")
		// after a restart the environment redelivers what is still pending
		if isTaker(role) {
			out = append(out, "confirm")
		} else if r.bool() {
			out = append(out, "csv")
		}
	}
	return out
}

func scenarioKey(steps []string) string { return strings.Join(steps, ";") }

func rep(s string, n int) []string {
	out := make([]string, n)
	for i := range out {
		out[i] = s
	}
	return out
}

func cat(parts ...[]string) []string {
	var out []string
	for _, p := range parts {
		out = append(out, p...)
	}
	return out
}

// restPrefixes: for every role, scenario prefixes that bring a swap to each state in which it can be at
// rest (waiting for an outside event), including the rest points after exhausted retries.
func restPrefixes(role, chain string) map[string][]string {
	n := "new " + role + " " + chain
	switch role {
	case "outSender":
		return map[string][]string{
			"AwaitAgreement":            {n},
			"AwaitTxBroadcastedMessage": {n, "agree"},
			"AwaitTxConfirmation":       {n, "agree", "txmsg"},
			"ClaimSwap":                 cat([]string{n, "agree", "txmsg"}, rep("fault preimage down", 22), []string{"confirm"}),
			"Canceled":                  {n, "cancel"},
			"ClaimedPreimage":           {n, "agree", "txmsg", "confirm"},
			"ClaimedCoop":               {n, "agree", "txmsg", "payout fail", "confirm"},
		}
	case "inReceiver":
		return map[string][]string{
			"AwaitTxBroadcastedMessage": {n},
			"AwaitTxConfirmation":       {n, "txmsg"},
			"ClaimSwap":                 cat([]string{n, "txmsg"}, rep("fault preimage down", 22), []string{"confirm"}),
			"Canceled":                  {n, "cancel"},
			"ClaimedPreimage":           {n, "txmsg", "confirm"},
			"ClaimedCoop":               {n, "txmsg", "payout fail", "confirm"},
		}
	case "inSender":
		return map[string][]string{
			"AwaitAgreement":    {n},
			"AwaitClaimPayment": {n, "agree"},
			"WaitCsv":           {n, "agree", "cancel"},
			"ClaimSwapCsv":      cat([]string{n, "agree"}, rep("fault csv down", 22), []string{"csv"}),
			"Canceled":          {n, "cancel"},
			"ClaimedPreimage":   {n, "agree", "claimpaid"},
			"ClaimedCoop":       {n, "agree", "coop"},
			"ClaimedCsv":        {n, "agree", "csv"},
		}
	case "outReceiver":
		return map[string][]string{
			"AwaitFeeInvoicePayment":   {n},
			"AwaitClaimInvoicePayment": {n, "feepaid"},
			"WaitCsv":                  {n, "feepaid", "cancel"},
			"ClaimSwapCsv":             cat([]string{n, "feepaid"}, rep("fault csv down", 22), []string{"csv"}),
			"Canceled":                 {n, "cancel"},
			"ClaimedPreimage":          {n, "feepaid", "claimpaid"},
			"ClaimedCoop":              {n, "feepaid", "coop"},
			"ClaimedCsv":               {n, "feepaid", "csv"},
		}
	}
	return nil
}

var stimuli = []string{"timeout", "cancel", "cancel from=third", "coop", "coop badkey", "coop wrongkey", "agree", "agree badpubkey", "txmsg", "txmsg tx=junk",
	"confirm", "confirm err", "csv", "claimpaid force", "feepaid force", "restart", "blocks btc 600", "blocks lbtc 100"}

// faultedStimuli: a stimulus preceded by one failure, or by a persistent failure (more than the 21
// retries), of the service call it triggers.
func faultedStimuli(role string) []string {
	one := func(kind, stim string) string { return "fault " + kind + " down;" + stim }
	many := func(kind, stim string) string { return strings.Join(rep("fault "+kind+" down", 23), ";") + ";" + stim }
	if isTaker(role) {
		return []string{one("preimage", "confirm"), one("send", "cancel"), one("send", "timeout"), one("height.btc", "txmsg"), one("height.lbtc", "txmsg"), one("decode", "txmsg")}
	}
	return []string{one("coop", "coop"), many("coop", "coop"), one("csv", "csv"), many("csv", "csv"), one("send", "cancel"), one("opening", "agree"), one("opening", "feepaid"),
		one("getpayreq", "agree"), one("getpayreq", "feepaid"), one("height.btc", "agree"), one("height.lbtc", "feepaid")}
}

type scn struct {
	role  string
	steps []string
	cfg   *WorldCfg // nil = the run's default
	tag   string
}

// sweepScenarios: every rest state of every role × every outside stimulus (× both chains), each
// followed by a restart and the redelivery of pending notifications.  Deterministic.
func sweepScenarios(rolesWanted []string) []scn {
	var out []scn
	for _, role := range rolesWanted {
		for _, chain := range []string{"btc", "lbtc"} {
			pre := restPrefixes(role, chain)
			var names []string
			for k := range pre {
				names = append(names, k)
			}
			sortStrings(names)
			for _, st := range names {
				for _, stim := range append(append([]string{}, stimuli...), faultedStimuli(role)...) {
					tail := append(strings.Split(stim, ";"), "restart")
					if isTaker(role) {
						tail = append(tail, "confirm")
					} else {
						tail = append(tail, "csv")
					}
					out = append(out, scn{role: role, steps: cat(pre[st], tail)})
				}
			}
		}
	}
	return out
}
